// Demonstration for finding F28 (property C05).
// Copy into /repo/p2p and run: go test ./p2p -run 'TestF28' -count=1
//
// F28: NewExchange accepts a nil connection gater (the library's own test helper `client` builds its Exchange
//      that way), and peerTracker.blockPeer called p.connGater.BlockPeer unconditionally. The session blocks a
//      peer whose range response does not verify — from the doRequest goroutine, which nothing recovers — so
//      with an Exchange built without a gater any such response took the whole process down:
//      "no peer response can crash the client".
//      Noticed by a seventh-round seeder (C05). Rule C05.d `optional-gater-guarded`; repaired by the /repo fix
//      commit named in known_findings.json: without a gater the peer is only disconnected.
//      The scenario runs in a child process, because the panic kills the whole test binary.
package p2p

import (
	"context"
	"os"
	"os/exec"
	"testing"
	"time"

	"github.com/libp2p/go-libp2p/core/network"
	"github.com/libp2p/go-libp2p/core/peer"
	"github.com/stretchr/testify/require"

	"github.com/celestiaorg/go-libp2p-messenger/serde"

	"github.com/celestiaorg/go-header/headertest"
	p2p_pb "github.com/celestiaorg/go-header/p2p/pb"
)

func TestF28_ClientWithoutGaterSurvivesABadResponse(t *testing.T) {
	if os.Getenv("F28_CHILD") == "1" {
		f28Scenario(t)
		return
	}

	cmd := exec.Command(os.Args[0], "-test.run=^TestF28_ClientWithoutGaterSurvivesABadResponse$")
	cmd.Env = append(os.Environ(), "F28_CHILD=1")
	out, err := cmd.CombinedOutput()
	if len(out) > 1500 {
		out = out[:1500]
	}
	require.NoError(t, err, "the client process did not survive the peer's response:\n%s", out)
}

func f28Scenario(t *testing.T) {
	ctx, cancel := context.WithTimeout(context.Background(), 10*time.Second)
	t.Cleanup(cancel)

	hosts := createMocknet(t, 3)
	store := headertest.NewStore[*headertest.DummyHeader](t, headertest.NewTestSuite(t), 5)

	// hosts[1] - honest server
	server(ctx, t, hosts[1], store)
	// hosts[2] - answers every range request with a run that starts one height too high
	hosts[2].SetStreamHandler(protocolID(""), func(stream network.Stream) {
		defer stream.Close() //nolint:errcheck
		req := new(p2p_pb.HeaderRequest)
		if _, err := serde.Read(stream, req); err != nil {
			stream.Reset() //nolint:errcheck
			return
		}
		for height := req.GetOrigin() + 1; height < req.GetOrigin()+1+req.Amount; height++ {
			bin, err := store.Headers[height].MarshalBinary()
			if err != nil {
				stream.Reset() //nolint:errcheck
				return
			}
			_, err = serde.Write(stream, &p2p_pb.HeaderResponse{
				Body:       bin,
				StatusCode: p2p_pb.StatusCode_OK,
			})
			if err != nil {
				return
			}
		}
	})

	// the client is built the way the library's own helper builds it: without a gater
	exchg := client(ctx, t, hosts[0], []peer.ID{hosts[1].ID()})
	time.Sleep(100 * time.Millisecond) // let the peer tracker pick up the connected peers
	exchg.peerTracker.peerLk.Lock()
	exchg.peerTracker.trackedPeers[hosts[1].ID()] = &peerStat{peerID: hosts[1].ID(), peerScore: 10}
	exchg.peerTracker.trackedPeers[hosts[2].ID()] = &peerStat{peerID: hosts[2].ID(), peerScore: 1000}
	exchg.peerTracker.peerLk.Unlock()

	// (1:4) -> heights 2,3; an error would be fine as well, a dead process is not
	got, err := exchg.GetRangeByHeight(ctx, store.Headers[1], 4)
	if err == nil {
		require.Len(t, got, 2)
		require.EqualValues(t, 2, got[0].Height())
		require.EqualValues(t, 3, got[1].Height())
	}
}
