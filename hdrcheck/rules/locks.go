package rules

import (
	"sort"
	"strings"

	"golang.org/x/tools/go/ssa"

	"hdrcheck/an"
)

// Lock balance: a forward may-analysis over the CFG of one function with, per
// mutex (keyed by the term of its address, e.g. "&p0.stateLk"), the set of states
// the mutex may be in: unlocked, write-locked, read-locked, locked-with-deferred-
// release. The rule reports
//   - a Lock/RLock where this function may already hold the write lock (self-deadlock:
//     sync mutexes are not re-entrant),
//   - an Unlock/RUnlock where the function may not hold the lock (fatal runtime error),
//   - a return with the lock possibly held and no deferred release (the next
//     operation on the structure blocks for good).
//
// A liveness clause ("the sync finishes", "the waiter is woken", "Head returns")
// cannot hold when one of these fires, whatever the schedule.
const (
	lkU = 1 << iota // unlocked
	lkL             // write-locked
	lkR             // read-locked
	lkD             // locked, release deferred
)

type lockOp struct {
	key string
	op  string // Lock, Unlock, RLock, RUnlock, TryLock
	def bool   // deferred
}

func lockOpOf(t *an.Terms, in ssa.Instruction) (lockOp, bool) {
	ci, ok := in.(ssa.CallInstruction)
	if !ok {
		return lockOp{}, false
	}
	if _, isGo := in.(*ssa.Go); isGo {
		return lockOp{}, false
	}
	cc := ci.Common()
	full := an.StaticFullName(cc)
	if !strings.HasPrefix(full, "(*sync.Mutex).") && !strings.HasPrefix(full, "(*sync.RWMutex).") {
		return lockOp{}, false
	}
	if len(cc.Args) == 0 {
		return lockOp{}, false
	}
	_, isDefer := in.(*ssa.Defer)
	return lockOp{key: an.Stable(t.Of(cc.Args[0])), op: full[strings.LastIndex(full, ".")+1:], def: isDefer}, true
}

// checkLockBalance analyses fns and returns the number of mutex operations covered.
func checkLockBalance(c *an.Ctx, id string, fns ...*ssa.Function) int {
	total := 0
	for _, fn := range fns {
		if fn == nil || fn.Blocks == nil {
			continue
		}
		t := c.T(fn)
		keys := map[string]bool{}
		skip := ""
		an.Instrs(fn, func(in ssa.Instruction) {
			if op, ok := lockOpOf(t, in); ok {
				keys[op.key] = true
				if op.op == "TryLock" {
					skip = "TryLock"
				}
			}
		})
		if len(keys) == 0 {
			continue
		}
		if skip != "" {
			// conditional acquisition: decided by the property that owns it (C16.e)
			continue
		}
		var ks []string
		for k := range keys {
			ks = append(ks, k)
		}
		sort.Strings(ks)
		for _, key := range ks {
			nOps := 0
			in := make([]int, len(fn.Blocks))
			out := make([]int, len(fn.Blocks))
			in[0] = lkU
			type viol struct {
				at  ssa.Instruction
				why string
			}
			var viols []viol
			transfer := func(b *ssa.BasicBlock, st int, report bool) int {
				for _, ins := range b.Instrs {
					if op, ok := lockOpOf(t, ins); ok && op.key == key {
						if report {
							nOps++
						}
						switch {
						case op.def && (op.op == "Unlock" || op.op == "RUnlock"):
							if report && st&(lkU|lkD) != 0 {
								viols = append(viols, viol{ins, "release deferred while the lock may not be held (or is already deferred)"})
							}
							st = lkD
						case op.def:
							// a deferred acquisition makes no sense in this code base; treat as undecidable
							if report {
								viols = append(viols, viol{ins, "deferred acquisition"})
							}
						case op.op == "Lock":
							if report && st&(lkL|lkR|lkD) != 0 {
								viols = append(viols, viol{ins, "Lock while this function may already hold the mutex (self-deadlock)"})
							}
							st = lkL
						case op.op == "RLock":
							if report && st&(lkL|lkD) != 0 {
								viols = append(viols, viol{ins, "RLock while this function may hold the write lock (self-deadlock)"})
							}
							st = lkR
						case op.op == "Unlock":
							if report && st != lkL {
								viols = append(viols, viol{ins, "Unlock while the write lock may not be held"})
							}
							st = lkU
						case op.op == "RUnlock":
							if report && st != lkR {
								viols = append(viols, viol{ins, "RUnlock while the read lock may not be held"})
							}
							st = lkU
						}
					}
					if r, isRet := ins.(*ssa.Return); isRet && report && st&(lkL|lkR) != 0 {
						viols = append(viols, viol{r, "return with the mutex possibly held and no deferred release"})
					}
				}
				return st
			}
			for changed := true; changed; {
				changed = false
				for _, b := range fn.Blocks {
					st := in[b.Index]
					if b.Index != 0 {
						st = 0
						for _, p := range b.Preds {
							st |= out[p.Index]
						}
					}
					if b == fn.Recover {
						continue
					}
					if st != in[b.Index] || out[b.Index] == 0 {
						in[b.Index] = st
						if st == 0 {
							continue
						}
						o := transfer(b, st, false)
						if o != out[b.Index] {
							out[b.Index] = o
							changed = true
						}
					}
				}
			}
			for _, b := range fn.Blocks {
				if in[b.Index] != 0 && b != fn.Recover {
					transfer(b, in[b.Index], true)
				}
			}
			total += nOps
			if len(viols) == 0 {
				c.Ok(id, "lock-balance:"+an.FuncName(fn)+":"+key, "every acquisition of the mutex is released on every path, never re-acquired while held, never released while free", fn, nil, "", nil)
				continue
			}
			for _, v := range viols {
				c.Fail(id, "lock-balance:"+an.FuncName(fn)+":"+key, "every acquisition of the mutex is released on every path, never re-acquired while held, never released while free", fn, v.at, v.why, nil)
			}
		}
	}
	return total
}

// lockSpec attaches the lock-balance rule to a clause of a property: every function of the
// package that operates on the named mutex field (wherever a refactoring moves the operations),
// i.e. the mutex discipline that clause's liveness depends on.
type lockSpec struct {
	id    string
	pkg   string // function-name prefix of the package, e.g. "store."
	mutex string // field name of the mutex, e.g. "onDeleteMu" ("RWMutex" for an embedded one)
	min   int    // mutex operations confirmed by hand on the pinned tree
	why   string
}

var lockTable = map[string][]lockSpec{
	"C03": {{"C03.e", "sync.", "incomingMu", 2, "incomingMu serialises the acceptance of network heads"}},
	"C04": {{"C04.a", "store.(*batch).", "lk", 8, "the pending batch is read by every lookup"}},
	"C07": {{"C07.d", "sync.", "stateLk", 4, "stateLk guards the sync state"}, {"C07.e", "sync.(*ranges).", "lk", 4, "the queue of pending ranges"}, {"C07.e", "sync.(*headerRange).", "lk", 6, "each pending range"}},
	"C11": {{"C11.e", "p2p.", "verifierMu", 2, "verifierMu guards the one-time registration"}},
	"C12": {{"C12.c", "store.", "heightSubsLk", 6, "heightSubsLk orders waiters against publications"}},
	"C14": {{"C14.a", "store.", "onDeleteMu", 2, "onDeleteMu guards the handler list"}},
	"C17": {{"C17.d", "store.(*batch).", "lk", 8, "the pending batch is shared by the writer and all readers"}},
	"C18": {{"C18.d", "p2p.", "statsLk", 2, "the peer queue"}, {"C18.d", "p2p.", "peerLk", 6, "the peer tracker"}, {"C18.d", "p2p.(*peerStat).", "RWMutex", 4, "per-peer statistics"}},
	"C19": {{"C19.c", "sync.", "headMu", 4, "headMu guards the single-flight state"}},
}

func runLockTable(prop string, c *an.Ctx) {
	for _, ls := range lockTable[prop] {
		var fns []*ssa.Function
		for _, fn := range funcsNamed(c.P, ls.pkg) {
			t := c.T(fn)
			uses := false
			an.Instrs(fn, func(in ssa.Instruction) {
				if op, ok := lockOpOf(t, in); ok && strings.HasSuffix(op.key, "."+ls.mutex) {
					uses = true
				}
			})
			if uses {
				fns = append(fns, fn)
			}
		}
		n := checkLockBalance(c, ls.id, fns...)
		c.Min(ls.id, "mutex operations on "+ls.mutex+" with balanced acquisition ("+ls.why+")", n, ls.min)
	}
}

// funcsNamed returns the repository functions (closures included) whose name starts with one of the prefixes.
func funcsNamed(p *an.Prog, prefixes ...string) []*ssa.Function {
	var out []*ssa.Function
	for _, fn := range p.RepoFuncs() {
		name := an.FuncName(fn)
		for _, pre := range prefixes {
			if strings.HasPrefix(name, pre) {
				out = append(out, fn)
				break
			}
		}
	}
	sort.Slice(out, func(i, j int) bool { return an.FuncName(out[i]) < an.FuncName(out[j]) })
	return out
}
