package rules

import (
	"strings"

	"golang.org/x/tools/go/ssa"

	"hdrcheck/an"
)

// Clauses that came out of the third seeding round.

// checkCachePurgeAfterDiskDelete (C08.b, shared as C17.f): in the per-height deletion step the
// in-memory caches are purged AFTER the header left the datastore. Both caches refill on a read that
// is served from disk: a reader between an early purge and the disk delete puts the header back and
// nothing removes it afterwards — it is served after DeleteRange returned, and the tail recedes onto it.
func checkCachePurgeAfterDiskDelete(c *an.Ctx, id string, single *ssa.Function) {
	rms := removalsIn(c, single)
	var disk, caches []removal
	for _, r := range rms {
		switch r.Kind {
		case "ds-hash", "ds-height":
			disk = append(disk, r)
		case "cache", "index-cache":
			caches = append(caches, r)
		}
	}
	c.Min(id, "datastore removals of the per-height step", len(disk), 2)
	c.Min(id, "cache purges of the per-height step", len(caches), 2)
	fl := an.Flow{Fn: single}
	for _, cr := range caches {
		ok := true
		for _, dr := range disk {
			dr := dr
			if !fl.MustPrecede(func(in ssa.Instruction) bool { return in == ssa.Instruction(dr.Instr) }, cr.Instr) {
				ok = false
			}
		}
		c.Check(ok, id, "cache-purge-after-disk-delete:"+cr.Kind, "a cache is purged only after the header left the datastore (the caches refill from disk: purged earlier, a concurrent read brings the header back for good)", single, cr.Instr, "", nil)
	}
}

// checkHandlerListWriters (C14.a): the OnDelete handler list only grows — it is written by OnDelete
// (appending to itself) and nowhere else; a cleanup that drops it (on Stop, on a whole-store wipe)
// silently ends "every handler is called for every removed header".
func checkHandlerListWriters(c *an.Ctx, id string) {
	n := 0
	for _, fn := range c.P.RepoFuncs() {
		if fn.Blocks == nil || fn.Pkg == nil || !strings.HasSuffix(fn.Pkg.Pkg.Path(), "/store") {
			continue
		}
		t := c.T(fn)
		an.Instrs(fn, func(in ssa.Instruction) {
			st, ok := in.(*ssa.Store)
			if !ok {
				return
			}
			fa, isFA := st.Addr.(*ssa.FieldAddr)
			if !isFA || !isFieldOf(fa, nil, "onDelete") {
				return
			}
			n++
			okW := an.FuncName(an.Enclosing(fn)) == "store.(*Store).OnDelete"
			if okW {
				// append(s.onDelete, …)
				okW = false
				if ap, isCall := st.Val.(*ssa.Call); isCall {
					if b, isB := ap.Call.Value.(*ssa.Builtin); isB && b.Name() == "append" && len(ap.Call.Args) > 0 {
						if ld, isLd := ap.Call.Args[0].(*ssa.UnOp); isLd {
							if fa2, isFA2 := ld.X.(*ssa.FieldAddr); isFA2 && isFieldOf(fa2, nil, "onDelete") {
								okW = true
							}
						}
					}
				}
			}
			c.Check(okW, id, "handler-list-only-grows:"+an.FuncName(fn), "the OnDelete handler list is written only by OnDelete, which appends to it", fn, st, "stores "+an.Stable(t.Of(st.Val)), nil)
		})
	}
	c.Min(id, "writers of the OnDelete handler list", n, 1)
}

// checkRenewedTailStored (C16.e): renewTail hands back either the old tail unchanged, a header it
// read from the store, or a header it has just appended to the store. A new tail that is returned
// without being stored leaves an empty Store empty: every Head()/Start fails with "store is empty".
func checkRenewedTailStored(c *an.Ctx, id string, renew *ssa.Function) {
	t, ff := c.T(renew), c.F(renew)
	fl := an.Flow{Fn: renew}
	onStore := func(s string) bool { return s == "p0.store" || strings.HasPrefix(s, "p0.store.") }
	var appends, reads []*ssa.Call
	appends = append(appends, invokesOf(t, "Append", onStore)...)
	an.Instrs(renew, func(in ssa.Instruction) {
		// s.store is the concrete *syncStore: its own Append is a static call
		if call, ok := in.(*ssa.Call); ok && !call.Call.IsInvoke() {
			if cal := an.StaticCallee(&call.Call); cal != nil && strings.HasSuffix(an.FuncName(cal), ").Append") && len(call.Call.Args) > 0 && onStore(strings.TrimPrefix(an.Stable(t.Of(call.Call.Args[0])), "&")) {
				appends = append(appends, call)
			}
		}
	})
	for _, m := range []string{"Get", "GetByHeight"} {
		reads = append(reads, invokesOf(t, m, onStore)...)
	}
	n := 0
	for _, r := range ff.Returns() {
		if t.ErrShape(errResult(r)) != "nil" {
			continue
		}
		n++
		v := ff.UnphiAt(ff.Unphi(t.Deref(r.Results[0])), r)
		vt := t.Of(v)
		ok := vt == "p2"
		for _, rd := range reads {
			if vt == t.Of(rd)+"#0" && ff.AtInstr(r).Has(an.EQ(t.Of(rd)+"#1", "nil")) {
				ok = true
			}
		}
		if !ok {
			stored := func(in ssa.Instruction) bool {
				call, isCall := in.(*ssa.Call)
				if !isCall {
					return false
				}
				for _, a := range appends {
					if a == call {
						for _, arg := range an.VariadicArgs(call.Call.Args[len(call.Call.Args)-1]) {
							if t.Of(arg) == vt || t.Of(ff.Unphi(arg)) == vt {
								return true
							}
						}
					}
				}
				return false
			}
			ok = fl.MustPrecede(stored, r)
		}
		c.Check(ok, id, "renewed-tail-stored", "renewTail returns the old tail, a header read from the store, or a header it has appended to the store — never a new tail that is not stored", renew, r, "returns "+an.Stable(vt), nil)
	}
	c.Min(id, "successful returns of renewTail", n, 3)
}

// checkHeadRequestCapScope (C16.e / C19): the context capped with NetworkHeadRequestTimeout bounds
// the request for the network head (and the verification of its answer). The tail renewal, the
// diff sync and the pruning that follow a new head may take longer by design: they never run under
// that cap.
func checkHeadRequestCapScope(c *an.Ctx, id string) {
	forbidden := map[string]bool{
		"sync.(*Syncer).subjectiveTail": true, "sync.(*Syncer).renewTail": true, "sync.(*Syncer).moveTail": true,
		"sync.(*Syncer).doSync": true, "sync.(*Syncer).sync": true, "sync.(*Syncer).tailHeight": true,
	}
	n := 0
	for _, fn := range c.P.RepoFuncs() {
		if fn.Blocks == nil || fn.Pkg == nil || !strings.HasSuffix(fn.Pkg.Pkg.Path(), "/sync") {
			continue
		}
		t := c.T(fn)
		an.Instrs(fn, func(in ssa.Instruction) {
			def, ok := in.(*ssa.Call)
			if !ok || len(def.Call.Args) < 2 {
				return
			}
			switch name := an.StaticFullName(&def.Call); {
			case strings.HasPrefix(name, "context.WithTimeout"):
				if !strings.Contains(t.Of(def.Call.Args[1]), "NetworkHeadRequestTimeout") {
					return
				}
			case strings.HasPrefix(name, "context.WithDeadline"):
				// WithTimeout(p, d) is WithDeadline(p, time.Now().Add(d))
				dl := an.Stable(t.Of(def.Call.Args[1]))
				if !strings.Contains(dl, "time.Now") || !strings.Contains(dl, "Add") || !strings.Contains(dl, "NetworkHeadRequestTimeout") {
					return
				}
			default:
				return
			}
			n++
			// the derived context: the extract and, when it is kept in a cell, the loads of that cell
			derived := map[ssa.Value]bool{}
			cells := map[*ssa.Alloc]bool{}
			if def.Referrers() != nil {
				for _, r := range *def.Referrers() {
					if ex, isEx := r.(*ssa.Extract); isEx && ex.Index == 0 {
						derived[ex] = true
						if ex.Referrers() != nil {
							for _, rr := range *ex.Referrers() {
								if st, isSt := rr.(*ssa.Store); isSt && st.Val == ssa.Value(ex) {
									if al, isAl := st.Addr.(*ssa.Alloc); isAl {
										cells[al] = true
									}
								}
							}
						}
					}
				}
			}
			isDerived := func(v ssa.Value) bool {
				if derived[v] {
					return true
				}
				if u, isU := v.(*ssa.UnOp); isU {
					if al, isAl := u.X.(*ssa.Alloc); isAl && cells[al] {
						return true
					}
				}
				return false
			}
			bad := ""
			var at ssa.Instruction
			an.Instrs(fn, func(in2 ssa.Instruction) {
				call, isCall := in2.(*ssa.Call)
				if !isCall {
					return
				}
				cal := an.StaticCallee(&call.Call)
				if cal == nil || !forbidden[an.FuncName(cal)] {
					return
				}
				for _, a := range call.Call.Args {
					if isDerived(a) {
						bad, at = an.FuncName(cal), call
					}
				}
			})
			c.Check(bad == "", id, "head-request-cap-scope:"+an.FuncName(fn), "the context capped with NetworkHeadRequestTimeout is handed only to the head request and the verification of its answer, never to the tail renewal, the diff sync or the pruning", fn, at, "handed to "+bad, nil)
		})
	}
	c.Min(id, "contexts capped with NetworkHeadRequestTimeout", n, 1)
}

// checkDeleteSideAdvanceGuarded (C17.a): advanceHead is the write loop's own step (a plain
// load–walk–store on the head pointer). Its one caller outside the write loop, setTail on the
// DeleteRange path, runs it only when the store was left without a head or the new tail lies above
// the head — never as a routine second writer racing the write loop.
func checkDeleteSideAdvanceGuarded(c *an.Ctx, id string) {
	p := c.P
	setTail := p.Method("store", "Store", "setTail")
	advance := p.Method("store", "Store", "advanceHead")
	if !c.Need(setTail, id, "store.(*Store).setTail") || !c.Need(advance, id, "store.(*Store).advanceHead") {
		return
	}
	t, ff := c.T(setTail), c.F(setTail)
	calls := callsTo(setTail, advance)
	for _, call := range calls {
		fs := ff.AtInstr(call)
		guarded := false
		for _, f := range fs {
			if f.Op == "B" && f.Pos && strings.HasPrefix(f.A, "IsZero(") {
				guarded = true
			}
			if f.Op == "LT" && f.Pos && strings.HasPrefix(f.A, "Height(") && f.B == "p3" {
				guarded = true // head.Height() < to
			}
		}
		// the two tests may be joined by `||`: then neither is a fact on its own; accept the call
		// when dropping both assumptions makes it unreachable
		if !guarded {
			var assume []an.Fact
			for _, cf := range condFacts(t) {
				if cf.Op == "B" && strings.HasPrefix(cf.A, "IsZero(") {
					assume = append(assume, an.NotB(cf.A))
				}
				if cf.Op == "LT" && strings.HasPrefix(cf.A, "Height(") && cf.B == "p3" {
					assume = append(assume, an.GE(cf.A, cf.B))
				}
			}
			if len(assume) >= 2 {
				guarded = !ff.Prune(assume...).Reachable(call.Block())
			}
		}
		c.Check(guarded, id, "delete-side-advance-guarded", "outside the write loop the head is advanced only when the store was left without a head or the new tail lies above it", setTail, call, "", fs)
	}
}
