package selftest

import (
	"fmt"
	"go/ast"
	"go/token"
	"go/types"
	"os"
	"sort"
	"strings"
	"sync"

	"hdrcheck/an"
	"hdrcheck/rules"
)

// Systematic mutation analysis of the checker (thorough tier, evidence only):
// every function a property's rule looked at is mutated with classical
// operators (relational operator replacement, condition negation, guard
// deletion, call deletion, &&/|| swap, 0/1 literal shift, argument swap); each
// mutant that still type-checks is analysed with the overlay loader, and the
// rule "kills" it when it reports an obligation that is fine on the current
// tree. Survivors are either behaviour-preserving mutants (log lines, metrics,
// equivalent comparisons) or clauses the rule does not cover; they are listed in
// the evidence so that the coverage of the structural clauses is measured, not
// asserted. The verdict of a check never depends on this score.

// Mutant is one source mutation.
type Mutant struct {
	File  string // absolute path
	Start int    // byte offsets in the file
	End   int
	Repl  string
	Op    string
	Func  string
	Line  int
	Desc  string
}

// MutationSummary is recorded in the evidence of the thorough tier.
type MutationSummary struct {
	Functions int      `json:"functions_mutated"`
	Generated int      `json:"mutants_generated"`
	Invalid   int      `json:"mutants_not_compiling"`
	Killed    int      `json:"mutants_reported_by_the_rule"`
	Survived  int      `json:"mutants_not_reported"`
	ByOp      []string `json:"by_operator"`
	Survivors []string `json:"survivors"`
	Note      string   `json:"note"`
}

var relSwap = map[token.Token][]string{
	token.LSS: {"<="}, token.LEQ: {"<"}, token.GTR: {">="}, token.GEQ: {">"},
	token.EQL: {"!="}, token.NEQ: {"=="}, token.LAND: {"||"}, token.LOR: {"&&"},
}

// generate builds the mutants of the named functions.
func generate(p *an.Prog, funcs map[string]bool) ([]Mutant, int) {
	var out []Mutant
	nFn := 0
	for _, pk := range p.Pkgs {
		for _, file := range pk.Syntax {
			tf := p.Fset.File(file.Pos())
			if tf == nil {
				continue
			}
			fname := tf.Name()
			if strings.HasSuffix(fname, ".pb.go") {
				continue
			}
			for _, decl := range file.Decls {
				fd, ok := decl.(*ast.FuncDecl)
				if !ok || fd.Body == nil {
					continue
				}
				obj, _ := pk.TypesInfo.Defs[fd.Name].(*types.Func)
				if obj == nil {
					continue
				}
				sf := p.SSA.FuncValue(obj)
				if sf == nil {
					continue
				}
				name := an.FuncName(sf)
				if !funcs[name] {
					continue
				}
				nFn++
				off := func(pos token.Pos) int { return tf.Offset(pos) }
				add := func(n ast.Node, start, end token.Pos, repl, op, desc string) {
					out = append(out, Mutant{File: fname, Start: off(start), End: off(end), Repl: repl, Op: op, Func: name,
						Line: tf.Line(n.Pos()), Desc: desc})
				}
				ast.Inspect(fd.Body, func(n ast.Node) bool {
					switch x := n.(type) {
					case *ast.BinaryExpr:
						for _, r := range relSwap[x.Op] {
							add(x, x.OpPos, x.OpPos+token.Pos(len(x.Op.String())), r, "relop", x.Op.String()+"→"+r)
						}
					case *ast.IfStmt:
						if x.Cond != nil {
							out = append(out, Mutant{File: fname, Start: off(x.Cond.Pos()), End: off(x.Cond.End()), Repl: "\x00NEG", Op: "negate-cond", Func: name, Line: tf.Line(x.Pos()), Desc: "negate if condition"})
						}
						// delete a guard: `if c { return … }` / `{ continue }` / `{ break }`
						if x.Else == nil && x.Init == nil && len(x.Body.List) >= 1 {
							switch x.Body.List[len(x.Body.List)-1].(type) {
							case *ast.ReturnStmt, *ast.BranchStmt:
								add(x, x.Pos(), x.End(), "{}", "delete-guard", "delete guard")
							}
						}
					case *ast.ExprStmt:
						if call, ok := x.X.(*ast.CallExpr); ok {
							// do not count logging as a mutation target
							if sel, ok := call.Fun.(*ast.SelectorExpr); ok {
								if id, ok := sel.X.(*ast.Ident); ok && (id.Name == "log" || id.Name == "span" || id.Name == "newSpan") {
									return true
								}
								if strings.Contains(fmt.Sprint(sel.X), "metrics") {
									return true
								}
							}
							add(x, x.Pos(), x.End(), "{}", "delete-call", "delete call statement")
						}
					case *ast.BasicLit:
						if x.Kind == token.INT && (x.Value == "0" || x.Value == "1") {
							v := "1"
							if x.Value == "1" {
								v = "2"
							}
							add(x, x.Pos(), x.End(), v, "literal", x.Value+"→"+v)
						}
					case *ast.CallExpr:
						if len(x.Args) >= 2 {
							t0, t1 := pk.TypesInfo.TypeOf(x.Args[0]), pk.TypesInfo.TypeOf(x.Args[1])
							if t0 != nil && t1 != nil && types.Identical(t0, t1) && x.Ellipsis == token.NoPos {
								out = append(out, Mutant{File: fname, Start: off(x.Args[0].Pos()), End: off(x.Args[1].End()), Repl: "\x00SWAP:" + fmt.Sprint(off(x.Args[0].End())) + ":" + fmt.Sprint(off(x.Args[1].Pos())), Op: "swap-args", Func: name, Line: tf.Line(x.Pos()), Desc: "swap first two arguments"})
							}
						}
					case *ast.DeferStmt:
						add(x, x.Pos(), x.End(), "{}", "delete-defer", "delete defer")
					}
					return true
				})
			}
		}
	}
	sort.SliceStable(out, func(i, j int) bool {
		if out[i].File != out[j].File {
			return out[i].File < out[j].File
		}
		return out[i].Start < out[j].Start
	})
	return out, nFn
}

func applyMutant(src []byte, m Mutant) []byte {
	switch {
	case m.Repl == "\x00NEG":
		return []byte(string(src[:m.Start]) + "!(" + string(src[m.Start:m.End]) + ")" + string(src[m.End:]))
	case strings.HasPrefix(m.Repl, "\x00SWAP:"):
		var a0End, a1Start int
		fmt.Sscanf(strings.TrimPrefix(m.Repl, "\x00SWAP:"), "%d:%d", &a0End, &a1Start)
		a0 := string(src[m.Start:a0End])
		mid := string(src[a0End:a1Start])
		a1 := string(src[a1Start:m.End])
		return []byte(string(src[:m.Start]) + a1 + mid + a0 + string(src[m.End:]))
	}
	return []byte(string(src[:m.Start]) + m.Repl + string(src[m.End:]))
}

// Mutate runs the mutation analysis of one property. max caps the number of mutants (0 = all).
func Mutate(repo, prop string, jobs, max int, seed int) (MutationSummary, error) {
	var sum MutationSummary
	r := rules.Get(prop)
	if r == nil && prop != "any" {
		return sum, fmt.Errorf("no rule %s", prop)
	}
	p, err := an.LoadNormalized(repo, nil, true)
	if err != nil {
		return sum, err
	}
	ctx := an.NewCtx(p, prop, "mutate")
	for _, id := range rules.IDs() {
		if prop != "any" && id != prop {
			continue
		}
		func() {
			defer func() { recover() }()
			rules.Execute(rules.Get(id), ctx)
		}()
	}
	base := map[string]bool{}
	for _, o := range ctx.Obls {
		if o.Status != an.Discharged {
			base[o.Key] = true
		}
	}
	funcs := map[string]bool{}
	// the functions that carry at least one obligation of the rule (functions the rule
	// merely scans, e.g. "no other writer in the package", are not mutation targets:
	// nearly every mutant of them is irrelevant to the property)
	for _, o := range ctx.Obls {
		f := o.Func
		if f == "" {
			continue
		}
		// closures are mutated with their enclosing declaration
		if i := strings.Index(f, "$"); i >= 0 {
			f = f[:i]
		}
		funcs[f] = true
	}
	muts, nFn := generate(p, funcs)
	sum.Functions = nFn
	if max > 0 && len(muts) > max {
		// deterministic sample spread over the whole list
		step := float64(len(muts)) / float64(max)
		var pick []Mutant
		for i := 0; i < max; i++ {
			pick = append(pick, muts[(int(float64(i)*step)+seed)%len(muts)])
		}
		muts = pick
	}
	sum.Generated = len(muts)
	srcs := map[string][]byte{}
	for _, m := range muts {
		if _, ok := srcs[m.File]; !ok {
			b, err := os.ReadFile(m.File)
			if err != nil {
				return sum, err
			}
			srcs[m.File] = b
		}
	}
	type res struct {
		invalid bool
		killed  bool
		keys    []string
	}
	results := make([]res, len(muts))
	var wg sync.WaitGroup
	sem := make(chan struct{}, jobs)
	for i, m := range muts {
		wg.Add(1)
		go func(i int, m Mutant) {
			defer wg.Done()
			sem <- struct{}{}
			defer func() { <-sem }()
			defer func() {
				if e := recover(); e != nil {
					results[i] = res{killed: true, keys: []string{"analyser-panic"}}
				}
			}()
			ov := map[string][]byte{m.File: applyMutant(srcs[m.File], m)}
			keys, err := failing(repo, ov, prop)
			if err != nil {
				results[i] = res{invalid: true}
				return
			}
			var nk []string
			for _, k := range keys {
				if !base[k] {
					nk = append(nk, k)
				}
			}
			results[i] = res{killed: len(nk) > 0, keys: nk}
		}(i, m)
	}
	wg.Wait()
	byOp := map[string][3]int{}
	for i, m := range muts {
		c := byOp[m.Op]
		switch {
		case results[i].invalid:
			sum.Invalid++
			c[0]++
		case results[i].killed:
			sum.Killed++
			c[1]++
		default:
			sum.Survived++
			c[2]++
			rel := strings.TrimPrefix(m.File, repo+"/")
			sum.Survivors = append(sum.Survivors, fmt.Sprintf("%s:%d %s [%s] %s", rel, m.Line, m.Func, m.Op, m.Desc))
		}
		byOp[m.Op] = c
	}
	var ops []string
	for op := range byOp {
		ops = append(ops, op)
	}
	sort.Strings(ops)
	for _, op := range ops {
		c := byOp[op]
		sum.ByOp = append(sum.ByOp, fmt.Sprintf("%s: %d reported, %d not reported, %d not compiling", op, c[1], c[2], c[0]))
	}
	sum.Note = "survivors are behaviour-preserving mutants (logging, metrics, tracing, equivalent comparisons, dead stores) or mutate a clause the property's structural rule does not cover (see not_decided); the check's verdict does not depend on this score"
	return sum, nil
}
