package an

import (
	"go/types"
	"sort"

	"golang.org/x/tools/go/ssa"
)

// CallSite is one resolved call inside the repository.
type CallSite struct {
	Caller *ssa.Function
	Instr  ssa.CallInstruction
	Callee *ssa.Function // generic origin for instantiations; nil for dynamic/invoke
	Method *types.Func   // interface method for invokes
	Kind   string        // "call", "go", "defer", "closure" (creation of a closure = may call)
}

// CallGraph is a conservative call graph restricted to repository functions:
// static callees (mapped to generic origins), closure creation edges, go/defer
// edges, and interface invokes resolved by method name + receiver interface
// against the repository's own named types (CHA restricted to repo types).
type CallGraph struct {
	P       *Prog
	Funcs   []*ssa.Function
	Out     map[*ssa.Function][]CallSite
	In      map[*ssa.Function][]CallSite
	Invokes []CallSite
	// GoRoots are functions started by a go statement.
	GoRoots map[*ssa.Function][]CallSite
}

// CG builds (once) the call graph.
func (p *Prog) CG() *CallGraph {
	if p.cg != nil {
		return p.cg
	}
	g := &CallGraph{P: p, Out: map[*ssa.Function][]CallSite{}, In: map[*ssa.Function][]CallSite{}, GoRoots: map[*ssa.Function][]CallSite{}}
	g.Funcs = p.RepoFuncs()
	// methods by name for CHA
	byName := map[string][]*ssa.Function{}
	for _, f := range g.Funcs {
		if f.Signature.Recv() != nil {
			byName[f.Name()] = append(byName[f.Name()], f)
		}
	}
	add := func(cs CallSite) {
		g.Out[cs.Caller] = append(g.Out[cs.Caller], cs)
		if cs.Callee != nil {
			g.In[cs.Callee] = append(g.In[cs.Callee], cs)
		}
	}
	for _, f := range g.Funcs {
		f := f
		Instrs(f, func(in ssa.Instruction) {
			switch v := in.(type) {
			case *ssa.MakeClosure:
				add(CallSite{Caller: f, Callee: v.Fn.(*ssa.Function), Kind: "closure"})
			case ssa.CallInstruction:
				cc := v.Common()
				kind := "call"
				switch v.(type) {
				case *ssa.Go:
					kind = "go"
				case *ssa.Defer:
					kind = "defer"
				}
				if cc.IsInvoke() {
					cs := CallSite{Caller: f, Instr: v, Method: cc.Method, Kind: kind}
					g.Invokes = append(g.Invokes, cs)
					g.Out[f] = append(g.Out[f], cs)
					// CHA over repo types
					for _, m := range byName[cc.Method.Name()] {
						if implementsRecv(m, cc.Value.Type()) {
							c2 := cs
							c2.Callee = m
							g.In[m] = append(g.In[m], c2)
							g.Out[f] = append(g.Out[f], c2)
						}
					}
					return
				}
				cal := StaticCallee(cc)
				if cal == nil {
					// call of a function value: bound method closures ($bound) or func params
					add(CallSite{Caller: f, Instr: v, Kind: kind})
					return
				}
				cs := CallSite{Caller: f, Instr: v, Callee: cal, Kind: kind}
				add(cs)
				if kind == "go" {
					g.GoRoots[cal] = append(g.GoRoots[cal], cs)
				}
				// go func(){…}() – the closure value is the callee
			}
			// function values used as arguments or stored (method values): x.M as value
			if mv, ok := in.(*ssa.MakeClosure); ok {
				if fn, ok := mv.Fn.(*ssa.Function); ok && fn.Synthetic != "" {
					// bound method wrapper: s.requestHandler$bound → target method
					if obj, ok := fn.Object().(*types.Func); ok && obj != nil {
						if tgt := p.SSA.FuncValue(obj); tgt != nil {
							if o := tgt.Origin(); o != nil {
								tgt = o
							}
							add(CallSite{Caller: f, Callee: tgt, Kind: "closure"})
						}
					}
				}
			}
		})
	}
	p.cg = g
	return g
}

// implementsRecv: could a value of static (interface / type-param) type it hold
// method m's receiver type? Approximated by method-set inclusion on the generic
// origin types (by method names), which over-approximates.
func implementsRecv(m *ssa.Function, it types.Type) bool {
	recv := m.Signature.Recv()
	if recv == nil {
		return false
	}
	var iface *types.Interface
	switch t := it.(type) {
	case *types.TypeParam:
		iface, _ = t.Constraint().Underlying().(*types.Interface)
	default:
		iface, _ = it.Underlying().(*types.Interface)
	}
	if iface == nil {
		return false
	}
	ms := types.NewMethodSet(recv.Type())
	for i := 0; i < iface.NumMethods(); i++ {
		if ms.Lookup(iface.Method(i).Pkg(), iface.Method(i).Name()) == nil {
			return false
		}
	}
	return true
}

// Callers returns the distinct callers of fn (any edge kind).
func (g *CallGraph) Callers(fn *ssa.Function) []*ssa.Function {
	seen := map[*ssa.Function]bool{}
	var out []*ssa.Function
	for _, cs := range g.In[fn] {
		if !seen[cs.Caller] {
			seen[cs.Caller] = true
			out = append(out, cs.Caller)
		}
	}
	sort.Slice(out, func(i, j int) bool { return FuncName(out[i]) < FuncName(out[j]) })
	return out
}

// Sites returns the call sites (with instruction) of fn.
func (g *CallGraph) Sites(fn *ssa.Function) []CallSite {
	var out []CallSite
	for _, cs := range g.In[fn] {
		if cs.Instr != nil {
			out = append(out, cs)
		}
	}
	return out
}

// Reaches computes the set of repo functions reachable from root (following
// every edge kind except, optionally, go edges).
func (g *CallGraph) Reaches(root *ssa.Function, followGo bool) map[*ssa.Function]bool {
	seen := map[*ssa.Function]bool{}
	var walk func(f *ssa.Function)
	walk = func(f *ssa.Function) {
		if f == nil || seen[f] {
			return
		}
		seen[f] = true
		for _, cs := range g.Out[f] {
			if cs.Kind == "go" && !followGo {
				continue
			}
			walk(cs.Callee)
		}
	}
	walk(root)
	return seen
}

// Enclosing returns the outermost named function of a (possibly anonymous) function.
func Enclosing(f *ssa.Function) *ssa.Function {
	for f.Parent() != nil {
		f = f.Parent()
	}
	return f
}

// RootsReaching returns the named "root" functions (exported API functions and
// methods, go-statement targets) from which target is reachable without
// crossing a go edge, plus go roots themselves.
func (g *CallGraph) RootsReaching(target *ssa.Function) []*ssa.Function {
	// reverse reachability
	seen := map[*ssa.Function]bool{}
	var roots []*ssa.Function
	var walk func(f *ssa.Function)
	walk = func(f *ssa.Function) {
		if f == nil || seen[f] {
			return
		}
		seen[f] = true
		isRoot := false
		if _, ok := g.GoRoots[f]; ok {
			isRoot = true
		}
		if f.Parent() == nil && f.Object() != nil && f.Object().Exported() {
			isRoot = true
		}
		if isRoot {
			// an API entry point or goroutine body: whoever calls it enters through it
			roots = append(roots, f)
			if f != target {
				return
			}
		}
		for _, cs := range g.In[f] {
			if cs.Kind == "go" {
				continue
			}
			walk(cs.Caller)
		}
		// an anonymous function is (conservatively) callable by its parent
		if f.Parent() != nil && len(g.In[f]) == 0 {
			walk(f.Parent())
		}
	}
	walk(target)
	sort.Slice(roots, func(i, j int) bool { return FuncName(roots[i]) < FuncName(roots[j]) })
	return roots
}
