#!/bin/bash
# regress_par.sh — the replay of tools/regress.sh, spread over N scratch worktrees of /repo (outside /repo
# and /verif, removed at the end) so that /repo itself is never touched and the replay takes minutes.
# Same verdicts and the same exit status as regress.sh. Usage: tools/regress_par.sh [N] [filter-regex]
set -u
N=${1:-8}; FILTER=${2:-.}
cd /verif
head=$(git -C /repo rev-parse HEAD)
[ -z "$(git -C /repo status --porcelain)" ] || { echo "/repo not clean"; exit 2; }
work=$(mktemp -d /tmp/regresspar.XXXX)
ls -d seeded/*/ | sed 's#/$##' | grep -E "$FILTER" > $work/all.txt
ls benign/*.diff | grep -E "$FILTER" >> $work/all.txt
split -n r/$N -d $work/all.txt $work/part.
worker() {
  i=$1; wt=$work/wt$i
  git -C /repo worktree add -q --detach $wt $head || exit 2
  while read item; do
    case $item in
      seeded/*) id=$(basename $item); patch=/verif/$item/patch.diff; kind=SEEDED
                prop=$(python3 -c "import json;print(json.load(open('/verif/$item/meta.json'))['property'])");;
      *) id=$(basename $item .diff); patch=/verif/$item; kind=BENIGN; prop=;;
    esac
    if ! git -C $wt apply "$patch" 2>/dev/null; then echo "$kind $id: patch does not apply (stale: rebase it onto /repo HEAD)"; continue; fi
    got=$(/verif/bin/hdrcheck -property all -repo $wt -verif $work/verif$i 2>&1 | grep -E "^ *(VIOLATED|UNDECIDED)|LOAD ERROR" | awk '{print $2}' | sort -u | tr '\n' ' ')
    git -C $wt checkout -q -- . ; git -C $wt clean -fdq
    if [ $kind = SEEDED ]; then
      case " $got" in *" $prop."*) echo "SEEDED $id: reported [$got]";; *) echo "SEEDED $id: MISSED under $prop [$got]";; esac
    else
      if [ -n "$got" ]; then echo "BENIGN $id: FALSE ALARM [$got]"; else echo "BENIGN $id: silent"; fi
    fi
  done < $work/part.$(printf %02d $i) > $work/out.$i
  git -C /repo worktree remove --force $wt
}
for i in $(seq 0 $((N-1))); do worker $i & done
wait
cat $work/out.* | sort
ns=$(cat $work/out.* | grep -c "^SEEDED.*\(reported\|MISSED\)"); nb=$(cat $work/out.* | grep -c "^BENIGN.*\(silent\|FALSE\)")
stale=$(cat $work/out.* | grep -c "does not apply"); badn=$(cat $work/out.* | grep -c "MISSED\|FALSE ALARM\|does not apply")
rm -rf $work; git -C /repo worktree prune
echo "regress: $ns seeded, $nb benign, $stale stale, $( [ $badn = 0 ] && echo all as expected || echo FAILURES )"
[ $badn = 0 ]
