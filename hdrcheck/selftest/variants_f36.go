package selftest

// Finding F36 re-introduced (the downward walk bounded by the estimate instead of by the height it reads), and equivalents.
func init() {
	const tl = "sync/syncer_tail.go"
	const bound = "\tfor newTailHeight > oldTail.Height()+1 && newTailHeight-1 <= s.store.Height() {\n"
	add(
		Variant{Prop: "C16", Name: "f36-walk-down-bounded-by-the-estimate", File: tl, Expect: "C16.c",
			Old: bound, New: "\tfor newTailHeight > oldTail.Height()+1 && newTailHeight <= s.store.Height() {\n"},
		Variant{Prop: "C16", Name: "benign-f36-bound-written-on-the-estimate", File: tl,
			Old: bound, New: "\tfor newTailHeight > oldTail.Height()+1 && newTailHeight <= s.store.Height()+1 {\n"},
		Variant{Prop: "C16", Name: "walk-down-reads-above-the-store-head", File: tl, Expect: "C16.c",
			Old: bound, New: "\tfor newTailHeight > oldTail.Height()+1 && newTailHeight-1 <= s.store.Height()+1 {\n"},
	)
}
