package rules

import (
	"golang.org/x/tools/go/ssa"

	"hdrcheck/an"
)

// checkTrustingPeriodValidated (C16.f): "no parameter set accepted by Validate wedges Head()/Start".
// isExpired(h, period) is `time.Since(h.Time().Add(period)) > 0`: with a period that is zero or
// negative every header — also the one just fetched from the trusted peers — is expired, the
// subjective initialisation refuses it, and Start/Head fail on every attempt. Validate therefore has
// to reject every trusting period that is not positive (and NewSyncer has to fail on a Validate error,
// which C16.a already requires).
func checkTrustingPeriodValidated(c *an.Ctx, id string) {
	val := c.P.Method("sync", "Parameters", "Validate")
	if !c.Need(val, id, "sync.(*Parameters).Validate") {
		return
	}
	t, ff := c.T(val), c.F(val)
	tp := ""
	an.Instrs(val, func(in ssa.Instruction) {
		if u, ok := in.(*ssa.UnOp); ok && tp == "" {
			if fa, isFA := u.X.(*ssa.FieldAddr); isFA && isFieldOf(fa, nil, "trustingPeriod") {
				tp = t.Of(u)
			}
		}
	})
	if tp == "" {
		c.Fail(id, "trusting-period-read", "Validate looks at the trusting period", val, nil, "no read of Parameters.trustingPeriod in Validate", nil)
		return
	}
	for _, cs := range []struct {
		name   string
		assume an.Fact
	}{
		{"zero", an.EQ(tp, "0")},
		{"negative", an.LT(tp, "0")},
	} {
		pr := ff.Prune(cs.assume)
		ok, n := true, 0
		var at ssa.Instruction
		for _, r := range pr.Returns() {
			n++
			if t.ErrShape(errResult(r)) == "nil" || pr.AtInstr(r).Has(an.EQ(t.Of(errResult(r)), "nil")) {
				ok, at = false, r
			}
		}
		c.Check(ok && n > 0, id, "trusting-period-"+cs.name+"-rejected", "Validate rejects a trusting period that is not positive (with it every header counts as expired and Head()/Start fail for good)", val, at, "a "+cs.name+" trusting period is accepted", nil)
	}
}
