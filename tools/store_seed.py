#!/usr/bin/env python3
"""store_seed.py <Cxx/n> <summary> <needs> [note]

Stores one confirmed seeded change under /verif/seeded/<Cxx>-<n>/:
  patch.diff      the change (applies to /repo HEAD)
  demo_test.go    the demonstration (first line names its package directory)
  meta.json       property, summary, what it needs to manifest, what was run, which checks report it

Reads the confirmation result written by tools/confirm_all.sh (/tmp/confirm/<Cxx>-<n>.result),
refuses to store a change whose confirmation is incomplete, then applies the patch to /repo,
runs every check, and undoes the patch straight afterwards (git -C /repo checkout -- .).
"""
import json, os, re, shutil, subprocess, sys

ident, summary, needs = sys.argv[1], sys.argv[2], sys.argv[3]
note = sys.argv[4] if len(sys.argv) > 4 else ""
prop, n = ident.split("/")
root = os.environ.get("SEEDROOT", "/tmp/seed")            # where the seeder wrote out_<prop>/change<n>.*
confirm = os.environ.get("CONFIRMDIR", "/tmp/confirm")     # where tools/confirm_all.sh wrote <prop>-<n>.result
offset = int(os.environ.get("NOFFSET", "0"))               # stored as <prop>-<n+offset> (second round: 2)
src = f"{root}/out_{prop}"
res_path = f"{confirm}/{prop}-{n}.result"
res = {}
for line in open(res_path):
    if "=" in line:
        k, v = line.rstrip("\n").split("=", 1)
        res[k] = v
need = {"demo_clean": "pass", "apply": "ok", "build": "ok", "demo_changed": "fail-as-expected"}
for k, v in need.items():
    if res.get(k) != v:
        sys.exit(f"{ident}: not confirmed: {k}={res.get(k)}")
if not res.get("suite", "").startswith("pass"):
    sys.exit(f"{ident}: not confirmed: suite={res.get('suite')}")

patch = f"{src}/change{n}.diff"
if subprocess.run(["git", "-C", "/repo", "status", "--porcelain"], capture_output=True, text=True).stdout.strip():
    sys.exit("/repo is not clean")
if subprocess.run(["git", "-C", "/repo", "apply", "--check", patch]).returncode != 0:
    sys.exit(f"{ident}: patch does not apply to /repo HEAD")
subprocess.run(["git", "-C", "/repo", "apply", patch], check=True)
try:
    out = subprocess.run(["/verif/bin/hdrcheck", "-property", "all", "-verif", "/tmp/seed_verif"], capture_output=True).stdout.decode("utf-8", "replace")
finally:
    subprocess.run(["git", "-C", "/repo", "checkout", "--", "."], check=True)
assert not subprocess.run(["git", "-C", "/repo", "status", "--porcelain"], capture_output=True, text=True).stdout.strip()
keys = sorted(set(m.group(1) for m in re.finditer(r"^\s*(?:VIOLATED|UNDECIDED)\s+\S+\s+(\S+)", out, re.M)))
by_prop = sorted(set(k.split(".")[0] for k in keys))
own = [k for k in keys if k.startswith(prop + ".")]

dst = f"/verif/seeded/{prop}-{int(n) + offset}"
os.makedirs(dst, exist_ok=True)
shutil.copy(patch, f"{dst}/patch.diff")
shutil.copy(f"{src}/change{n}_demo_test.go", f"{dst}/demo_test.go")
if os.path.exists(f"{src}/change{n}.md"):
    shutil.copy(f"{src}/change{n}.md", f"{dst}/seeder_notes.md")
head = subprocess.run(["git", "-C", "/repo", "rev-parse", "--short", "HEAD"], capture_output=True, text=True).stdout.strip()
meta = {
    "property": prop,
    "summary": summary,
    "needs": needs,
    "detected": bool(own),
    "detected_by": own,
    "also_reported_by": [k for k in keys if not k.startswith(prop + ".")],
    "properties_reporting": by_prop,
    "ran": {
        "confirmation": "tools/confirm_all.sh in a scratch worktree of /repo: " + ", ".join(f"{k}={res[k]}" for k in ["demo_clean", "apply", "build", "demo_changed", "suite"])
                        + "".join(f"; {k}={v}" for k, v in res.items() if k.startswith("suite_try")),
        "demo_package": res.get("pkg", ""),
        "demo_run": res.get("run", ""),
        "detection": f"git -C /repo apply patch.diff (HEAD {head}); /verif/bin/hdrcheck -property all; git -C /repo checkout -- .",
    },
}
if not own:
    meta["missed_reason"] = note or "not reported under its own property"
elif note:
    meta["note"] = note
json.dump(meta, open(f"{dst}/meta.json", "w"), indent=1, ensure_ascii=False)
print(f"{ident}: stored; detected_by={own or 'NONE'}; others={by_prop}")
