package rules

import (
	"go/types"

	"golang.org/x/tools/go/ssa"
)

func derefStruct(fa *ssa.FieldAddr) (*types.Struct, bool) {
	pt, ok := fa.X.Type().Underlying().(*types.Pointer)
	if !ok {
		return nil, false
	}
	st, ok := pt.Elem().Underlying().(*types.Struct)
	return st, ok
}
