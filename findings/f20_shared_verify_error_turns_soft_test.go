package headertest

// Demonstration for finding F20 (property C01).
// Copy into /repo/headertest and run: go test ./headertest -run 'TestF20' -count=1
//
// F20: header.Verify marked a non-adjacent failure as soft by writing SoftFailure = true into the *VerifyError
//      the Header implementation had returned. An implementation that returns the same error value more than
//      once (a package-level *VerifyError) had it turned soft for good by the first non-adjacent failure:
//      every later adjacent failure — which is final — was reported as soft too ("SoftFailure exactly when the
//      type's own check rejected a non-adjacent header"). Noticed independently by three sixth-round seeders
//      (C01, C02, C09). Rule C01.d `soft-target`; repaired by /repo d404fd6 (the flag is set on a copy).
//      Fails on /repo c0286ea, passes from d404fd6 on.

import (
	"errors"
	"testing"

	"github.com/celestiaorg/go-header"
)

// O1: a header type that returns one shared (package-level) hard *VerifyError.
func TestF20_SharedVerifyErrorStaysHardForAdjacent(t *testing.T) {
	suite := NewTestSuite(t)
	trusted := suite.GenDummyHeaders(1)[0]
	shared := &header.VerifyError{Reason: errors.New("bad commit")} // hard
	trusted.VerifyFn = func(*DummyHeader) error { return shared }

	adj := suite.NextHeader()  // trusted+1
	far := suite.NextHeader()  // trusted+2

	var ve *header.VerifyError
	err := header.Verify(trusted, adj)
	errors.As(err, &ve)
	t.Logf("adjacent before: soft=%v", ve.SoftFailure)
	if ve.SoftFailure {
		t.Fatal("unexpected")
	}
	err = header.Verify(trusted, far)
	errors.As(err, &ve)
	t.Logf("non-adjacent: soft=%v", ve.SoftFailure)
	err = header.Verify(trusted, adj)
	errors.As(err, &ve)
	t.Logf("adjacent after: soft=%v", ve.SoftFailure)
	if ve.SoftFailure {
		t.Errorf("adjacent header rejected hard by the type is now reported as SoftFailure")
	}
}

