package rules

import (
	"fmt"
	"strings"

	"golang.org/x/tools/go/ssa"

	"hdrcheck/an"
)

func init() {
	register(&Rule{
		ID: "C14",
		Explanation: "Decides for the OnDelete mechanism: (a) every registered handler is wrapped in a closure with a deferred recover() that converts a panic into a non-nil error; " +
			"(b) in the per-height step every removal event (datastore deletes, cache removals, pending purge) is dominated by the exit of a loop over all handlers whose body returns the handler's error immediately, so a failing or panicking handler leaves the header in place and its error is returned; " +
			"(c) handlers are invoked only in the per-height step, which the sequential and the parallel driver call once per height of the range; the handler list is read only under its mutex and only to be passed to that step; " +
			"(d) no header data is removed anywhere on the DeleteRange path outside the per-height step (the whole-store path deletes through the step before it drops the pointers); " +
			"(e) progress made before a failure is reflected in the tail/head pointer so that a retry invokes the handlers again for what is left (see C08.d).",
		NotDecided: []string{
			"'still readable through GetByHeight while the handler runs' beyond the ordering checked in (b): concurrent readers and cache states are runtime behaviour",
			"retry histories",
		},
		Technique: "recover containment, all-elements loop rule with early return, dominance of removal events by the loop exit, who-may-call on the handler list, effect inventory over the call graph",
		Trusted:   "go/types+go/ssa; go-datastore and LRU library contracts",
		Run:       runC14,
		Imports: []Import{
			{From: "C08.d", As: "C14.e", Why: "a failed or partial deletion must leave the pointers at the progress actually made, so that the retry re-runs the handlers only for what is still stored"},
			{From: "C08.c", Match: "shutdown-steps", As: "C14.f", Why: "the parallel deletion reports the lowest failed height (results sorted ascending, first failure returned): a vetoed header below the reported height would end up under the tail and never be retried"},
			{From: "C08.c", Match: "evaluation-loop", As: "C14.f", Why: "see shutdown-steps"},
			{From: "C08.c", Match: "worker-stops-on-error", As: "C14.f", Why: "a handler's veto is the worker's last word: a worker that takes another job after a failed step overwrites the veto with the next success and the deletion reports nil"},
			{From: "C08.c", Match: "worker-forgets-missing", As: "C14.f", Why: "see worker-stops-on-error: the recorded error is dropped only for the 'already missing' classification"},
			{From: "C08.c", Match: "first-failed-result-returned", As: "C14.f", Why: "see shutdown-steps"},
			{From: "C08.c", Match: "next-result-needs-success", As: "C14.f", Why: "see shutdown-steps"},
		},
	})
}

func runC14(c *an.Ctx) {
	d, ok := resolveDelete(c, "C14.a")
	if !ok {
		return
	}
	checkHandlerListWriters(c, "C14.a")
	// --- C14.a recover containment of the registered wrapper
	{
		nWrap := 0
		// the wrappers: the literals of OnDelete, and those a wrapper factory of the package returns when
		// OnDelete hands it the user's function (`append(s.onDelete, recoverOnDelete(fn))`)
		type wrapper struct {
			cl *ssa.Function
			fv string
		}
		var wrappers []wrapper
		factories := map[*ssa.Function]bool{}
		for _, cl := range d.onDelete.AnonFuncs {
			wrappers = append(wrappers, wrapper{cl, "fn"})
		}
		if len(d.onDelete.Params) >= 2 {
			wrappers = wrappers[:0]
			for _, cl := range d.onDelete.AnonFuncs {
				wrappers = append(wrappers, wrapper{cl, d.onDelete.Params[1].Name()})
			}
			an.Instrs(d.onDelete, func(in ssa.Instruction) {
				call, isCall := in.(*ssa.Call)
				if !isCall || len(call.Call.Args) != 1 || call.Call.Args[0] != ssa.Value(d.onDelete.Params[1]) {
					return
				}
				g := an.StaticCallee(&call.Call)
				if g == nil || g.Blocks == nil || g.Pkg != d.onDelete.Pkg || len(g.Params) != 1 {
					return
				}
				// every return of the factory is one of its own literals
				okF, n := true, 0
				for _, b := range g.Blocks {
					r, isRet := b.Instrs[len(b.Instrs)-1].(*ssa.Return)
					if !isRet || len(r.Results) != 1 {
						continue
					}
					n++
					mc, isMC := r.Results[0].(*ssa.MakeClosure)
					if !isMC {
						okF = false
						continue
					}
					if lit, isFn := mc.Fn.(*ssa.Function); !isFn || lit.Parent() != g {
						okF = false
					}
				}
				if okF && n > 0 {
					factories[g] = true
					for _, cl := range g.AnonFuncs {
						wrappers = append(wrappers, wrapper{cl, g.Params[0].Name()})
					}
				}
			})
		}
		for _, w := range wrappers {
			cl := w.cl
			nWrap++
			ct := c.T(cl)
			guard := an.HasRecoverGuard(cl)
			okG := false
			okRes := false
			if guard != nil {
				gt, gf := c.T(guard), c.F(guard)
				an.Instrs(guard, func(in ssa.Instruction) {
					if st, isSt := in.(*ssa.Store); isSt {
						if fv, isFV := st.Addr.(*ssa.FreeVar); isFV && an.IsErrorType(st.Val.Type()) && gt.ErrShape(st.Val) != "nil" {
							for _, f := range gf.AtInstr(st) {
								if f.Op == "EQ" && !f.Pos && (f.A == "nil" || f.B == "nil") {
									okG = true
								}
							}
							// the variable written is the wrapper's (named) error result: what the
							// wrapper returns after a recovered panic is a load of that very variable
							if bound := boundAlloc(cl, guard, fv); bound != nil && cl.Recover != nil {
								if r, isRet := cl.Recover.Instrs[len(cl.Recover.Instrs)-1].(*ssa.Return); isRet && len(r.Results) == 1 {
									if u, isU := r.Results[0].(*ssa.UnOp); isU && u.X == ssa.Value(bound) {
										okRes = true
									}
								}
							}
						}
					}
				})
			}
			c.Check(okG, "C14.a", "handler-recover", "a registered handler runs under a deferred recover() that turns a panic into a non-nil error", cl, nil, "", nil)
			c.Check(okRes, "C14.a", "recovered-error-is-result", "the error built from a recovered panic is stored into the wrapper's own error result, which is what the wrapper returns after the panic", cl, nil, "", nil)
			// the wrapper calls the user function with its own arguments and returns its result
			okCall := false
			an.Instrs(cl, func(in ssa.Instruction) {
				if call, isCall := in.(*ssa.Call); isCall && strings.Contains(ct.Of(call.Call.Value), "fv:"+w.fv) && len(call.Call.Args) == 2 && ct.Of(call.Call.Args[0]) == "p0" && ct.Of(call.Call.Args[1]) == "p1" {
					okCall = true
				}
			})
			c.Check(okCall, "C14.a", "wrapper-calls-handler", "the wrapper calls the user's handler with the context and height it was given", cl, nil, "", nil)
		}
		c.Min("C14.a", "handler wrappers created by OnDelete", nWrap, 1)
		// OnDelete appends the wrapper (not the raw function) under the mutex
		ot := c.T(d.onDelete)
		okApp := false
		an.Instrs(d.onDelete, func(in ssa.Instruction) {
			st, isSt := in.(*ssa.Store)
			if !isSt {
				return
			}
			fa, isFA := st.Addr.(*ssa.FieldAddr)
			if !isFA || fieldName(fa) != "onDelete" {
				return
			}
			// every value stored into the handler list is append(list, <wrapper closure>)
			okThis := false
			if call, isCall := st.Val.(*ssa.Call); isCall {
				if b, isB := call.Call.Value.(*ssa.Builtin); isB && b.Name() == "append" {
					args := an.VariadicArgs(call.Call.Args[1])
					if len(args) == 1 {
						_, isMC := args[0].(*ssa.MakeClosure)
						if fc, isFC := args[0].(*ssa.Call); isFC && factories[an.StaticCallee(&fc.Call)] {
							isMC = true // the wrapper made by the factory
						}
						if isMC && an.LockHeld(d.onDelete, mutexOp(ot, "onDeleteMu", "Lock"), mutexOp(ot, "onDeleteMu", "Unlock"), st, nil) {
							okThis = true
						}
					}
				}
			}
			if okThis && !okApp {
				okApp = true
			}
			if !okThis {
				c.Fail("C14.a", "raw-handler-stored", "only recover-wrapped handlers are stored into the handler list", d.onDelete, st, ot.Of(st.Val), nil)
			}
		})
		c.Check(okApp, "C14.a", "registers-wrapper", "OnDelete registers the recover-wrapper (never the raw handler) while holding onDeleteMu", d.onDelete, nil, "", nil)
	}

	// --- C14.b handlers before removal
	st, sf := c.T(d.single), c.F(d.single)
	loop := loopOver(st, "p3")
	if loop == nil || len(loop.Elems) == 0 {
		c.Undecided("C14.b", "handler-loop", "the per-height step walks every handler in order", d.single, nil, "no index-walk loop over the handler list")
		return
	}
	var hcall *ssa.Call
	an.Instrs(d.single, func(in ssa.Instruction) {
		if call, isCall := in.(*ssa.Call); isCall && loop.isElem(call.Call.Value) {
			hcall = call
		}
	})
	if !c.Check(hcall != nil && len(hcall.Call.Args) == 2 && st.Of(hcall.Call.Args[1]) == "p2", "C14.b", "handler-call", "each handler is called with the height being removed", d.single, nil, "", nil) {
		return
	}
	hErr := st.Of(hcall)
	// failing handler: return its error, no removal reachable
	prF := sf.Prune(an.NE(hErr, "nil"))
	rems := removalsIn(c, d.single)
	c.Min("C14.b", "removal events in the per-height step", len(rems), 5)
	for _, rm := range rems {
		fs := sf.AtInstr(rm.Instr)
		c.Check(fs.Has(loop.InLoop.Neg()), "C14.b", "removal-after-all-handlers:"+rm.Kind, "a header is removed from this tier only after the loop over all handlers has finished", d.single, rm.Instr, "", fs)
	}
	nFail := 0
	for _, r := range prF.Returns() {
		if !prF.AtInstr(r).Has(an.NE(hErr, "nil")) {
			continue
		}
		nFail++
		sh := st.ErrShape(errResult(r))
		c.Check(strings.Contains(sh, hErr), "C14.b", "handler-error-returned", "a handler error stops the step and is returned (wrapped)", d.single, r, sh, nil)
	}
	c.Min("C14.b", "returns for a failing handler", nFail, 1)
	for _, pred := range loop.Header.Preds {
		if sf.Dominates(loop.Header, pred) {
			ef := sf.EdgeFacts(pred, loop.Header)
			c.Check(ef.Has(an.EQ(hErr, "nil")), "C14.b", "next-handler-needs-success", "the next handler runs only after the previous one returned nil", d.single, hcall, "", ef)
		}
	}

	// once the handlers of a height have run, the only thing that can still stop the
	// step is the removal itself: every error return after the handler loop carries the
	// error of a handler or of a removal operation (no other failure point between
	// "handlers were told" and "header removed")
	{
		nAfter := 0
		for _, r := range sf.Returns() {
			if !(an.Flow{Fn: d.single}).CanReach(hcall, r) {
				continue
			}
			ev := errResult(r)
			if st.ErrShape(ev) == "nil" {
				continue
			}
			nAfter++
			okSrc := false
			src := ""
			if call, isCall := st.Deref(ev).(*ssa.Call); isCall && strings.HasSuffix(an.StaticFullName(&call.Call), "fmt.Errorf") && len(call.Call.Args) == 2 {
				for _, a := range an.VariadicArgs(call.Call.Args[1]) {
					a = an.Unwrap(a)
					if !an.IsErrorType(a.Type()) {
						continue
					}
					src = st.Of(a)
					if a == ssa.Value(hcall) {
						okSrc = true
					}
					for _, rm := range rems {
						if rm.Instr != nil && a == ssa.Value(rm.Instr) {
							okSrc = true
						}
					}
				}
			} else {
				src = st.Of(ev)
			}
			c.Check(okSrc, "C14.b", "no-failure-point-after-handlers", "after the handlers of a height ran, the step fails only with a handler's error or with the error of a removal operation", d.single, r, "error from "+an.Stable(src), nil)
		}
		c.Min("C14.b", "error returns after the handler loop", nAfter, 3)
	}
	// the drivers treat "header already missing" as success; a handler's error must never be mistaken for it:
	// the sentinel they test for is private to package store, so no handler (foreign code) can produce it
	{
		// does the step hand a handler's / removal's error on in a form errors.Is can see through?
		transparent := false
		for _, r := range sf.Returns() {
			if !(an.Flow{Fn: d.single}).CanReach(hcall, r) {
				continue
			}
			ev := st.Deref(errResult(r))
			call, isCall := ev.(*ssa.Call)
			switch {
			case isCall && strings.HasSuffix(an.StaticFullName(&call.Call), "fmt.Errorf"):
				if k, isK := call.Call.Args[0].(*ssa.Const); !isK || strings.Contains(k.Value.ExactString(), "%w") {
					transparent = true
				}
			case st.ErrShape(errResult(r)) == "nil":
			default:
				transparent = true
			}
		}
		nCls := 0
		for _, drv := range funcsNamed(c.P, "store.(*Store).deleteSequential", "store.(*Store).deleteParallel") {
			dt := c.T(drv)
			for _, sc := range callsTo(drv, d.single) {
				an.Instrs(drv, func(in ssa.Instruction) {
					call, isCall := in.(*ssa.Call)
					if !isCall || len(call.Call.Args) == 0 {
						return
					}
					// errors.Is on the result of the step, directly or through the field it was stored into
					onStep := call.Call.Args[0] == ssa.Value(sc) || dt.Deref(call.Call.Args[0]) == ssa.Value(sc)
					// the classification written as a predicate of the package (`if isAlreadyDeleted(err)`): the
					// errors.Is tests it makes on its parameter are the classification
					if cal := an.StaticCallee(&call.Call); cal != nil && cal.Blocks != nil && cal.Pkg == d.single.Pkg && len(cal.Params) == 1 && isErrorTyped(cal.Params[0]) {
						viaField := false
						if u, isU := call.Call.Args[0].(*ssa.UnOp); isU {
							if fa, isFA := u.X.(*ssa.FieldAddr); isFA {
								for _, ref := range *sc.Referrers() {
									if sto, isSt := ref.(*ssa.Store); isSt {
										if fb, isFB := sto.Addr.(*ssa.FieldAddr); isFB && fb.Field == fa.Field && fb.X == fa.X {
											viaField = true
										}
									}
								}
							}
						}
						if onStep || viaField {
							an.Instrs(cal, func(in2 ssa.Instruction) {
								ic, ok := in2.(*ssa.Call)
								if !ok || an.StaticFullName(&ic.Call) != "errors.Is" || ic.Call.Args[0] != ssa.Value(cal.Params[0]) {
									return
								}
								nCls++
								g := an.GlobalLoad(ic.Call.Args[1])
								private := g != nil && g.Pkg == d.single.Pkg && !g.Object().Exported()
								name := "?"
								if g != nil {
									name = g.Pkg.Pkg.Name() + "." + g.Name()
								}
								c.Check(private || !transparent, "C14.b", "handler-error-not-mistaken-for-missing:"+an.FuncName(drv),
									"the error the drivers skip as 'header already missing' cannot be matched by a handler's (or a removal's) error: either the sentinel is private to package store, or the step does not wrap those errors transparently (%w)",
									drv, call, "through "+an.FuncName(cal)+": tests for "+name+"; the step wraps foreign errors with %w: "+fmt.Sprint(transparent), nil)
							})
						}
						return
					}
					if an.StaticFullName(&call.Call) != "errors.Is" {
						return
					}
					if u, isU := call.Call.Args[0].(*ssa.UnOp); isU && !onStep {
						if fa, isFA := u.X.(*ssa.FieldAddr); isFA {
							for _, ref := range *sc.Referrers() {
								if sto, isSt := ref.(*ssa.Store); isSt {
									if fb, isFB := sto.Addr.(*ssa.FieldAddr); isFB && fb.Field == fa.Field && fb.X == fa.X {
										onStep = true
									}
								}
							}
						}
					}
					if !onStep {
						return
					}
					nCls++
					g := an.GlobalLoad(call.Call.Args[1])
					private := g != nil && g.Pkg == d.single.Pkg && !g.Object().Exported()
					name := "?"
					if g != nil {
						name = g.Pkg.Pkg.Name() + "." + g.Name()
					}
					c.Check(private || !transparent, "C14.b", "handler-error-not-mistaken-for-missing:"+an.FuncName(drv),
						"the error the drivers skip as 'header already missing' cannot be matched by a handler's (or a removal's) error: either the sentinel is private to package store, or the step does not wrap those errors transparently (%w)",
						drv, call, "tests for "+name+"; the step wraps foreign errors with %w: "+fmt.Sprint(transparent), nil)
				})
			}
		}
		c.Min("C14.b", "'header missing' classifications in the drivers", nCls, 2)
	}

	// --- C14.c once per height, handlers only in the step
	nLoads := 0
	for _, fn := range c.P.RepoFuncs() {
		if an.Enclosing(fn).Pkg != d.single.Pkg {
			continue
		}
		t := c.T(fn)
		an.Instrs(fn, func(in ssa.Instruction) {
			u, isLoad := in.(*ssa.UnOp)
			if !isLoad {
				return
			}
			fa, isFA := u.X.(*ssa.FieldAddr)
			if !isFA || fieldName(fa) != "onDelete" || !typeIsNamed(fa.X.Type(), "/store", "Store") || u.Referrers() == nil {
				return
			}
			nLoads++
			held := an.LockHeld(fn, mutexOp(t, "onDeleteMu", "Lock"), mutexOp(t, "onDeleteMu", "Unlock"), u, nil)
			for _, r := range *u.Referrers() {
				call, isCall := r.(*ssa.Call)
				okUse := false
				if isCall {
					if b, isB := call.Call.Value.(*ssa.Builtin); isB && b.Name() == "append" && fn == d.onDelete {
						okUse = true
					}
					if strings.HasPrefix(an.StaticFullName(&call.Call), "slices.Clone") {
						okUse = true
						// the clone is only handed to the per-height step
						if call.Referrers() != nil {
							for _, rr := range *call.Referrers() {
								switch x := rr.(type) {
								case *ssa.Call:
									okUse = okUse && an.StaticCallee(&x.Call) == d.single
								case *ssa.MakeClosure, *ssa.DebugRef:
								case *ssa.Store:
									// kept in a local of the deletion; a copy parked in a field or a global outlives
									// the deletion and is handed out again after more handlers were registered
									if _, isLocal := x.Addr.(*ssa.Alloc); !isLocal {
										okUse = false
									}
								case *ssa.Return:
									// a snapshot helper: fine when only the deletion drivers call it
									sites := c.P.CG().Sites(fn)
									okUse = okUse && len(sites) > 0
									for _, cs := range sites {
										root := an.Enclosing(cs.Caller)
										okUse = okUse && (root == d.seq || root == d.par)
									}
								default:
									okUse = false
								}
							}
						}
					}
				}
				if _, isDbg := r.(*ssa.DebugRef); isDbg {
					continue
				}
				c.Check(okUse && held, "C14.c", "handler-list-use:"+an.FuncName(fn), "the handler list is read only under onDeleteMu, to register a handler or to hand a copy to the per-height step", fn, r, "", nil)
			}
		})
	}
	c.Min("C14.c", "reads of the handler list", nLoads, 2)
	// callers of the step
	callers := c.P.CG().Sites(d.single)
	c.Min("C14.c", "call sites of the per-height step", len(callers), 2)
	for _, cs := range callers {
		root := an.Enclosing(cs.Caller)
		c.Check(root == d.seq || root == d.par, "C14.c", "step-caller:"+an.FuncName(cs.Caller), "the per-height step (and with it the handlers) is called only by the sequential and the parallel deletion driver", cs.Caller, cs.Instr, "", nil)
	}
	checkDriverCoverage(c, "C14.c", d)
	checkHandlersFromCurrentList(c, "C14.c", d.single, callers)

	// --- C14.d no removal without handlers on the DeleteRange path
	reach := reachableIn(c, []*ssa.Function{d.deleteRange}, true)
	nRem := 0
	for _, fn := range reach {
		if fn == d.single {
			continue
		}
		for _, rm := range removalsIn(c, fn) {
			nRem++
			switch {
			case rm.Kind == "ds-pointer" && an.Enclosing(fn) == d.wipe:
				c.Ok("C14.d", "pointer-delete:"+an.FuncName(fn), "dropping the head/tail pointer keys is not a header removal", fn, rm.Instr, rm.Arg, nil)
			case (rm.Kind == "cache-purge" || rm.Kind == "index-cache-purge") && fn == d.deinit:
				c.Ok("C14.d", "cache-purge:"+rm.Kind, "purging the caches after the headers were deleted removes no header data", fn, rm.Instr, "", nil)
			default:
				c.Fail("C14.d", "removal-outside-step:"+an.FuncName(fn)+":"+rm.Kind, "header data is removed only by the per-height step, after the handlers ran", fn, rm.Instr, rm.Kind+"("+rm.Arg+")", nil)
			}
		}
	}
	c.Ok("C14.d", "removal-outside-step:inventory", "the removal events of every function reachable from DeleteRange were enumerated (each one outside the per-height step is a violation of its own)", d.deleteRange, nil, itoa(nRem)+" removal events outside the step, "+itoa(len(reach))+" functions", nil)
	// wipe/deinit run only after a complete, clean deletion of the range
	dt, df := c.T(d.deleteRange), c.F(d.deleteRange)
	for _, wc := range callsTo(d.deleteRange, d.wipe) {
		okW := false
		for _, rc := range callsTo(d.deleteRange, d.raw) {
			if (an.Flow{Fn: d.deleteRange}).MustPrecede(func(in ssa.Instruction) bool { return in == ssa.Instruction(rc) }, wc) &&
				df.AtInstr(wc).Has(an.EQ(dt.Of(rc)+"#2", "nil")) && dt.Of(rc.Call.Args[2]) == "p2" && dt.Of(rc.Call.Args[3]) == "p3" {
				okW = true
			}
		}
		c.Check(okW, "C14.d", "wipe-after-deletion", "the whole-store path drops the pointers only after every header of the range went through the per-height step without error", d.deleteRange, wc, "", df.AtInstr(wc))
	}
	for _, cs := range c.P.CG().Sites(d.wipe) {
		c.Check(cs.Caller == d.deleteRange, "C14.d", "wipe-caller:"+an.FuncName(cs.Caller), "wipe is called only from DeleteRange", cs.Caller, cs.Instr, "", nil)
	}
	_ = nRem
}
