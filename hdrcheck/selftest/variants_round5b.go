package selftest

// The essence of the fifth-round seeded changes that needed a clause of their own (second part).
func init() {
	const ex = "p2p/exchange.go"
	const sd = "store/store_delete.go"
	const st = "store/store.go"
	const pb = "p2p/pb/header_request.pb.go"
	const tl = "sync/syncer_tail.go"
	const sy = "sync/syncer.go"
	const sh = "sync/syncer_head.go"
	const se = "p2p/session.go"
	const sm = "p2p/subscriber_metrics.go"
	add(
		Variant{Prop: "C13", Name: "seed-single-trusted-peer-asked-with-the-callers-context", File: ex, Expect: "C13.d",
			Old: "\t// Fire requests to all trusted peers in parallel and return the first\n", New: "\tif len(trustedPeers) == 1 {\n\t\treturn ex.request(ctx, trustedPeers[0], req)\n\t}\n\n\t// Fire requests to all trusted peers in parallel and return the first\n"},
		Variant{Prop: "C14", Name: "seed-handler-snapshot-cached-in-a-field", File: sd, Expect: "C14.c",
			Old: "\tctx, doneTx := s.withReadTransaction(ctx)\n\tdefer doneTx()\n\n\ts.onDeleteMu.Lock()\n\tonDelete := slices.Clone(s.onDelete)\n\ts.onDeleteMu.Unlock()\n", New: "\tctx, doneTx := s.withReadTransaction(ctx)\n\tdefer doneTx()\n\n\ts.onDeleteMu.Lock()\n\tif s.onDeleteRO == nil {\n\t\ts.onDeleteRO = slices.Clone(s.onDelete)\n\t}\n\tonDelete := s.onDeleteRO\n\ts.onDeleteMu.Unlock()\n",
			More: []Edit{{File: st, Old: "\tonDelete   []func(context.Context, uint64) error\n", New: "\tonDelete   []func(context.Context, uint64) error\n\tonDeleteRO []func(context.Context, uint64) error\n"}}},
		Variant{Prop: "C14", Name: "seed-missing-classified-by-a-predicate-that-also-takes-datastore-not-found", File: sd, Expect: "C14.b",
			Old: "\t\terr := s.deleteSingle(ctx, height, onDelete)\n\t\tif errors.Is(err, errHeaderMissing) {", New: "\t\terr := s.deleteSingle(ctx, height, onDelete)\n\t\tif isAlreadyDeleted(err) {",
			More: []Edit{{File: sd, Old: "// deleteSingle deletes a single header from the store,", New: "func isAlreadyDeleted(err error) bool {\n\treturn errors.Is(err, errHeaderMissing) || errors.Is(err, datastore.ErrNotFound)\n}\n\n// deleteSingle deletes a single header from the store,"}}},
		Variant{Prop: "C14", Name: "benign-missing-classified-by-a-predicate", File: sd,
			Old: "\t\terr := s.deleteSingle(ctx, height, onDelete)\n\t\tif errors.Is(err, errHeaderMissing) {", New: "\t\terr := s.deleteSingle(ctx, height, onDelete)\n\t\tif isAlreadyDeleted(err) {",
			More: []Edit{{File: sd, Old: "// deleteSingle deletes a single header from the store,", New: "func isAlreadyDeleted(err error) bool {\n\treturn errors.Is(err, errHeaderMissing)\n}\n\n// deleteSingle deletes a single header from the store,"}}},
		Variant{Prop: "C11", Name: "seed-first-accept-metric-dereferences-nil", File: sm, Expect: "C11.nil",
			Old: "\t\tif lastTime == nil || lastTime.IsZero() {\n", New: "\t\tif lastTime.IsZero() {\n"},
		Variant{Prop: "C10", Name: "seed-decoder-skip-loses-its-overflow-guard", File: pb, Expect: "C10.j",
			Old: "\t\t\tskippy, err := skipHeaderRequest(dAtA[iNdEx:])\n\t\t\tif err != nil {\n\t\t\t\treturn err\n\t\t\t}\n\t\t\tif (skippy < 0) || (iNdEx+skippy) < 0 {\n\t\t\t\treturn ErrInvalidLengthHeaderRequest\n\t\t\t}\n\t\t\tif (iNdEx + skippy) > l {\n\t\t\t\treturn io.ErrUnexpectedEOF\n\t\t\t}\n\t\t\tiNdEx += skippy\n\t\t}\n\t}\n\n\tif iNdEx > l {\n\t\treturn io.ErrUnexpectedEOF\n\t}\n\treturn nil\n}\nfunc skipHeaderRequest",
			New: "\t\t\tskippy, err := skipHeaderRequest(dAtA[iNdEx:])\n\t\t\tif err != nil {\n\t\t\t\treturn err\n\t\t\t}\n\t\t\tif skippy < 0 {\n\t\t\t\treturn ErrInvalidLengthHeaderRequest\n\t\t\t}\n\t\t\tif (iNdEx + skippy) > l {\n\t\t\t\treturn io.ErrUnexpectedEOF\n\t\t\t}\n\t\t\tiNdEx += skippy\n\t\t}\n\t}\n\n\tif iNdEx > l {\n\t\treturn io.ErrUnexpectedEOF\n\t}\n\treturn nil\n}\nfunc skipHeaderRequest"},
		Variant{Prop: "C16", Name: "seed-upward-walk-reads-below-the-old-tail", File: tl, Expect: "C16.c",
			Old: "\tfor newTailHeight > oldTail.Height() && newTailHeight < s.store.Height() {", New: "\tfor newTailHeight < s.store.Height() {"},
		Variant{Prop: "C16", Name: "seed-tail-computed-before-the-gossip-header-is-verified", File: sy, Expect: "C16.e",
			Old: "\t\tif err := s.incomingNetworkHead(ctx, h); err != nil {\n\t\t\treturn err\n\t\t}\n\t\t// lazily trigger pruning by getting subjective tail\n\t\tif _, err := s.subjectiveTail(ctx, h); err != nil {\n\t\t\tlog.Errorw(\"subjective tail\", \"head\", h.Height(), \"err\", err)\n\t\t}\n\n\t\treturn nil\n",
			New: "\t\t// lazily trigger pruning by getting subjective tail\n\t\tif _, err := s.subjectiveTail(ctx, h); err != nil {\n\t\t\tlog.Errorw(\"subjective tail\", \"head\", h.Height(), \"err\", err)\n\t\t}\n\n\t\treturn s.incomingNetworkHead(ctx, h)\n"},
		Variant{Prop: "C17", Name: "seed-write-loop-launched-before-init", File: st, Expect: "C17.e",
			Old: "\tif err := s.init(ctx); err != nil {\n\t\treturn fmt.Errorf(\"header/store: initializing: %w\", err)\n\t}\n\n\t//nolint:gosec // G118 - cancel is called in Stop\n\tctx, cancel := context.WithCancel(context.Background())\n\ts.cancel = cancel\n\tgo s.flushLoop(ctx)\n\treturn nil\n",
			New: "\t//nolint:gosec // G118 - cancel is called in Stop\n\tloopCtx, cancel := context.WithCancel(context.Background())\n\ts.cancel = cancel\n\tgo s.flushLoop(loopCtx)\n\n\tif err := s.init(ctx); err != nil {\n\t\treturn fmt.Errorf(\"header/store: initializing: %w\", err)\n\t}\n\treturn nil\n"},
		Variant{Prop: "C18", Name: "seed-collector-takes-one-result-per-request", File: se, Expect: "C18.b",
			Old: "LOOP:\n\tfor {\n\t\tselect {", New: "LOOP:\n\tfor range requests {\n\t\tselect {"},
		Variant{Prop: "C18", Name: "seed-exchange-start-keeps-a-cancelled-context", File: ex, Expect: "C18.a",
			Old: "func (ex *Exchange[H]) Start(context.Context) error {\n", New: "func (ex *Exchange[H]) Start(context.Context) error {\n\tif ex.cancel != nil {\n\t\treturn nil\n\t}\n"},
		Variant{Prop: "C15", Name: "seed-refusal-remembered-instead-of-searching-again", File: sh, Expect: "C15.a",
			Old: "\t\t// bifurcate for soft failures only\n\t\treturn s.verifyBifurcating(ctx, sbjHead, newHead)\n", New: "\t\t// bifurcate for soft failures only\n\t\tif bytes.Equal(s.refusedHead, newHead.Hash()) {\n\t\t\treturn err\n\t\t}\n\t\terr = s.verifyBifurcating(ctx, sbjHead, newHead)\n\t\tif err != nil {\n\t\t\ts.refusedHead = newHead.Hash()\n\t\t}\n\t\treturn err\n",
			More: []Edit{{File: sy, Old: "\tincomingMu sync.Mutex\n", New: "\tincomingMu sync.Mutex\n\trefusedHead header.Hash\n"}, {File: sh, Old: "import (\n\t\"context\"\n", New: "import (\n\t\"bytes\"\n\t\"context\"\n"}}},
		Variant{Prop: "C19", Name: "seed-verification-skipped-while-the-local-head-is-expired", File: sh, Expect: "C19.e",
			Old: "\terr = header.Verify(sbjHead, newHead)\n\tif err == nil {\n\t\treturn nil\n\t}\n", New: "\tif expired, _ := isExpired(sbjHead, s.Params.trustingPeriod); expired && newHead.Height() > sbjHead.Height() {\n\t\treturn nil\n\t}\n\terr = header.Verify(sbjHead, newHead)\n\tif err == nil {\n\t\treturn nil\n\t}\n"},
	)
}
