package rules

import (
	"go/types"
	"strings"

	"golang.org/x/tools/go/ssa"

	"hdrcheck/an"
)

// Result use ("the value of a failed call is not used"): for `v, err := f(…)` where the function
// looks at err, every use of v happens where err == nil is known, where the error was classified
// (errors.Is/As on it holds), or in a return that hands v back together with an error (callers
// apply the same rule). Dropping the `if err != nil { return … }` behind a call — or negating it —
// makes the function go on with the zero value: a nil stream, a zero header, an empty slice.
func checkResultUse(c *an.Ctx, id string, fns ...*ssa.Function) int {
	n := 0
	for _, fn := range fns {
		if fn == nil || fn.Blocks == nil {
			continue
		}
		t, ff := c.T(fn), c.F(fn)
		an.Instrs(fn, func(in ssa.Instruction) {
			call, isCall := in.(*ssa.Call)
			if !isCall {
				return
			}
			tup, isTup := call.Type().(*types.Tuple)
			if !isTup || tup.Len() < 2 || !an.IsErrorType(tup.At(tup.Len()-1).Type()) || call.Referrers() == nil {
				return
			}
			ei := tup.Len() - 1
			var errEx *ssa.Extract
			var vals []*ssa.Extract
			for _, r := range *call.Referrers() {
				if ex, ok := r.(*ssa.Extract); ok {
					if ex.Index == ei {
						errEx = ex
					} else {
						vals = append(vals, ex)
					}
				}
			}
			if errEx == nil || !usedBeyondDebug(errEx) || len(vals) == 0 {
				return // the error is discarded on purpose (`v, _ := …`) or there is no value
			}
			errTerm := t.Of(call) + "#" + itoa(ei)
			for _, v := range vals {
				// an integer count (bytes written) is not a resource: only pointers, interfaces, slices, maps, type parameters
				switch v.Type().Underlying().(type) {
				case *types.Basic:
					continue
				}
				if v.Referrers() == nil {
					continue
				}
				n++
				var bad ssa.Instruction
				why := ""
				for _, u := range usesThroughLocals(v) {
					if _, isDbg := u.(*ssa.DebugRef); isDbg {
						continue
					}
					if r, isRet := u.(*ssa.Return); isRet {
						// handed back together with an error value
						last := r.Results[len(r.Results)-1]
						if t.ErrShape(last) != "nil" {
							continue
						}
					}
					fs := ff.AtRefined(u.Block())
					ok := fs.Has(an.EQ(errTerm, "nil"))
					for _, f := range fs {
						if f.Op == "B" && f.Pos && (strings.HasPrefix(f.A, "errors.Is("+errTerm+",") || strings.HasPrefix(f.A, "As("+errTerm+",")) {
							ok = true
						}
					}
					if ph, isPhi := u.(*ssa.Phi); isPhi {
						// merged with other definitions: judged on the edge that carries it
						ok = true
						for _, pe := range ff.PhiOperands(ph) {
							if pe.Val == ssa.Value(v) && !pe.Facts.Has(an.EQ(errTerm, "nil")) && !phiOnlyReturnedWithError(t, ph) {
								ok = false
							}
						}
					}
					if !ok {
						bad, why = u, "used at "+c.P.InstrPos(u)+" without err == nil"
					}
				}
				key := "result-use:" + an.FuncName(fn) + ":" + an.Stable(t.Of(v))
				rule := "the value returned by a call is used only where that call's error is known to be nil (or was classified)"
				if bad != nil {
					c.Fail(id, key, rule, fn, bad, why, ff.AtRefined(bad.Block()))
				} else {
					c.Ok(id, key, rule, fn, call, "", nil)
				}
			}
		})
	}
	return n
}

func usedBeyondDebug(v ssa.Value) bool {
	if v.Referrers() == nil {
		return false
	}
	for _, r := range *v.Referrers() {
		if _, isDbg := r.(*ssa.DebugRef); !isDbg {
			return true
		}
	}
	return false
}

// usesThroughLocals lists the instructions using v, following a store into a local variable to the loads of it.
func usesThroughLocals(v ssa.Value) []ssa.Instruction {
	var out []ssa.Instruction
	for _, r := range *v.Referrers() {
		if st, ok := r.(*ssa.Store); ok && st.Val == v {
			if al, isAl := st.Addr.(*ssa.Alloc); isAl && len(an.AllocStores(al)) == 1 {
				for _, rr := range *al.Referrers() {
					if ld, isLd := rr.(*ssa.UnOp); isLd && ld.Referrers() != nil {
						out = append(out, *ld.Referrers()...)
					}
				}
				continue
			}
			continue // stored into a variable with other definitions or into the heap: not tracked
		}
		out = append(out, r)
	}
	return out
}

// phiOnlyReturnedWithError: the phi's only uses are returns that carry a non-nil error shape.
func phiOnlyReturnedWithError(t *an.Terms, ph *ssa.Phi) bool {
	if ph.Referrers() == nil {
		return true
	}
	for _, r := range *ph.Referrers() {
		switch x := r.(type) {
		case *ssa.DebugRef:
		case *ssa.Return:
			if t.ErrShape(x.Results[len(x.Results)-1]) == "nil" {
				return false
			}
		default:
			return false
		}
	}
	return true
}
