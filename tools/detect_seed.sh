#!/bin/bash
# detect_seed.sh <patch.diff>...  — applies each patch to /repo, runs every check, undoes it straight afterwards.
for PATCH in "$@"; do
  echo "=== $PATCH"
  if [ -n "$(git -C /repo status --porcelain)" ]; then echo "REPO NOT CLEAN"; exit 2; fi
  if ! git -C /repo apply "$PATCH"; then echo "APPLY FAILED"; continue; fi
  /verif/bin/hdrcheck -property all -verif /tmp/seed_verif 2>&1 | grep -E "^ *(VIOLATED|UNDECIDED)|LOAD ERROR" | sed 's/^ */  DETECT /' | sort | uniq -c | sort -rn | head -12
  git -C /repo checkout -- .
  [ -z "$(git -C /repo status --porcelain)" ] || echo "REPO NOT RESTORED"
done
