package sync

// Demonstration for finding F1 (property C16): parameters accepted by Validate
// (the defaults: blockTime == 0) make tail estimation divide by zero.
// Copy into /repo/sync and run: go test ./sync -run TestF1 -count=1

import (
	"context"
	"testing"
	"time"

	"github.com/stretchr/testify/require"

	"github.com/celestiaorg/go-header/headertest"
	"github.com/celestiaorg/go-header/local"
)

func TestF1_DefaultParamsStartDoesNotPanic(t *testing.T) {
	ctx, cancel := context.WithTimeout(context.Background(), 5*time.Second)
	defer cancel()

	suite := headertest.NewTestSuite(t)
	head := suite.Head()
	remote := newTestStore(t, ctx, head)
	require.NoError(t, remote.Append(ctx, suite.GenDummyHeaders(20)...))
	require.NoError(t, remote.Sync(ctx))

	// empty local store: the tail has to be estimated on first start
	localStore := headertest.NewStore[*headertest.DummyHeader](t, suite, 0)
	_ = localStore
	ds := newEmptyStore(t, ctx)

	syncer, err := NewSyncer(local.NewExchange(remote), ds, headertest.NewDummySubscriber())
	require.NoError(t, err) // default parameters pass Validate
	require.NotPanics(t, func() { _ = syncer.Start(ctx) })
	_ = syncer.Stop(ctx)
}

func TestF1_FindTailHeightZeroBlockTime(t *testing.T) {
	suite := headertest.NewTestSuite(t)
	hs := suite.GenDummyHeaders(2)
	oldTail, head := hs[0], hs[1]
	oldTail.Timestamp = time.Now().Add(-10 * time.Hour)
	head.Timestamp = time.Now()
	p := DefaultParameters()
	p.PruningWindow = time.Hour
	s := &Syncer[*headertest.DummyHeader]{Params: &p}
	require.NotPanics(t, func() { _, _ = s.findTailHeight(context.Background(), oldTail, head) })
}
