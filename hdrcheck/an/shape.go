package an

import (
	"go/constant"
	"go/types"
	"strings"

	"golang.org/x/tools/go/ssa"
)

// VariadicArgs resolves the elements of a `xs...` argument built by the
// compiler as `new [n]T (varargs)` + stores + slice.
func VariadicArgs(v ssa.Value) []ssa.Value {
	sl, ok := v.(*ssa.Slice)
	if !ok {
		return nil
	}
	al, ok := sl.X.(*ssa.Alloc)
	if !ok || al.Referrers() == nil {
		return nil
	}
	type ent struct {
		idx int64
		val ssa.Value
	}
	var ents []ent
	for _, r := range *al.Referrers() {
		ia, ok := r.(*ssa.IndexAddr)
		if !ok || ia.Referrers() == nil {
			continue
		}
		c, ok := ia.Index.(*ssa.Const)
		if !ok {
			continue
		}
		i, _ := constant.Int64Val(c.Value)
		for _, rr := range *ia.Referrers() {
			if st, ok := rr.(*ssa.Store); ok && st.Addr == ia {
				ents = append(ents, ent{i, st.Val})
			}
		}
	}
	out := make([]ssa.Value, len(ents))
	for _, e := range ents {
		if int(e.idx) < len(out) {
			out[e.idx] = e.val
		}
	}
	return out
}

// Unwrap strips interface conversions.
func Unwrap(v ssa.Value) ssa.Value {
	for {
		switch x := v.(type) {
		case *ssa.MakeInterface:
			v = x.X
		case *ssa.ChangeInterface:
			v = x.X
		case *ssa.ChangeType:
			v = x.X
		default:
			return v
		}
	}
}

// GlobalLoad returns the global when v is `*G`.
func GlobalLoad(v ssa.Value) *ssa.Global {
	v = Unwrap(v)
	if u, ok := v.(*ssa.UnOp); ok {
		if g, ok := u.X.(*ssa.Global); ok {
			return g
		}
	}
	return nil
}

// ErrShape classifies an error-typed value:
//
//	nil                         the nil constant
//	S:<pkg.Name>                load of a package-level sentinel
//	wrap(S:<pkg.Name>)          fmt.Errorf with a %w verb whose arguments contain that sentinel
//	&T{F:shape,…}               freshly allocated struct with the fields stored on the way
//	prop(<term>)                any other value (propagated), identified by its term
func (t *Terms) ErrShape(v ssa.Value) string {
	return t.errShape(v, 0)
}

func (t *Terms) errShape(v ssa.Value, depth int) string {
	if depth > 6 {
		return "prop(" + t.Of(v) + ")"
	}
	v = Unwrap(v)
	switch x := v.(type) {
	case *ssa.Const:
		if x.Value == nil {
			return "nil"
		}
	case *ssa.UnOp:
		if g, ok := x.X.(*ssa.Global); ok {
			return "S:" + globalName(g)
		}
		if al, ok := x.X.(*ssa.Alloc); ok {
			if sv := t.reachingStore(al, x); sv != nil {
				return t.errShape(sv, depth+1)
			}
		}
	case *ssa.Call:
		switch StaticFullName(&x.Call) {
		case "fmt.Errorf":
			if len(x.Call.Args) == 2 {
				if c, ok := x.Call.Args[0].(*ssa.Const); ok && c.Value != nil && strings.Contains(constant.StringVal(c.Value), "%w") {
					var inner []string
					for _, a := range VariadicArgs(x.Call.Args[1]) {
						if a == nil {
							continue
						}
						if types.Implements(Unwrap(a).Type(), errorIface()) || isErrorType(a.Type()) {
							inner = append(inner, t.errShape(a, depth+1))
						}
					}
					if len(inner) == 1 {
						return "wrap(" + inner[0] + ")"
					}
					if len(inner) > 1 {
						return "wrap(" + strings.Join(inner, "+") + ")"
					}
				}
			}
			return "fmt.Errorf(no %w)"
		case "errors.New":
			return "errors.New"
		}
		// an error constructed by a helper of the module: when every return of the helper has the
		// same closed shape (a sentinel, a wrap of one, a struct literal over those — nothing that
		// depends on the helper's inputs), the call has that shape (the "extract the error
		// construction into a function" refactoring)
		if cal := StaticCallee(&x.Call); cal != nil && cal.Blocks != nil && t.P != nil && t.P.InModule(cal) && depth < 4 {
			if res := cal.Signature.Results(); res.Len() == 1 {
				ct := NewTerms(t.P, cal)
				shape, same := "", true
				n := 0
				for _, b := range cal.Blocks {
					r, isRet := b.Instrs[len(b.Instrs)-1].(*ssa.Return)
					if !isRet || b == cal.Recover || (b.Index != 0 && len(b.Preds) == 0) {
						continue
					}
					n++
					s := ct.errShape(r.Results[0], depth+1)
					if shape == "" {
						shape = s
					} else if shape != s {
						same = false
					}
				}
				if n > 0 && same && shape != "nil" && !strings.Contains(shape, "prop(") {
					return shape
				}
			}
		}
	case *ssa.Alloc:
		// &T{…}: collect field stores
		if st, ok := deref(x.Type()).Underlying().(*types.Struct); ok && x.Referrers() != nil {
			var parts []string
			for _, r := range *x.Referrers() {
				fa, ok := r.(*ssa.FieldAddr)
				if !ok || fa.Referrers() == nil {
					continue
				}
				for _, rr := range *fa.Referrers() {
					if s, ok := rr.(*ssa.Store); ok && s.Addr == fa {
						fn := st.Field(fa.Field).Name()
						val := t.Of(s.Val)
						if isErrorType(s.Val.Type()) {
							val = t.errShape(s.Val, depth+1)
						}
						parts = append(parts, fn+":"+val)
					}
				}
			}
			return "&" + typeShort(deref(x.Type())) + "{" + strings.Join(parts, ",") + "}"
		}
	}
	return "prop(" + t.Of(v) + ")"
}

func typeShort(t types.Type) string {
	return types.TypeString(t, func(p *types.Package) string { return p.Name() })
}

var errIface *types.Interface

func errorIface() *types.Interface {
	if errIface == nil {
		errIface = types.Universe.Lookup("error").Type().Underlying().(*types.Interface)
	}
	return errIface
}

func isErrorType(t types.Type) bool {
	n, ok := t.(*types.Named)
	return ok && n.Obj().Pkg() == nil && n.Obj().Name() == "error"
}

// IsErrorType is exported for rules.
func IsErrorType(t types.Type) bool { return isErrorType(t) }

// HasRecoverGuard reports whether fn defers (unconditionally, in its entry
// path) a closure that calls recover() at its top level. It returns the
// closure for further inspection.
func HasRecoverGuard(fn *ssa.Function) *ssa.Function {
	if fn == nil || len(fn.Blocks) == 0 {
		return nil
	}
	for _, b := range fn.Blocks {
		for _, in := range b.Instrs {
			d, ok := in.(*ssa.Defer)
			if !ok {
				continue
			}
			var cl *ssa.Function
			switch v := d.Call.Value.(type) {
			case *ssa.MakeClosure:
				cl, _ = v.Fn.(*ssa.Function)
			case *ssa.Function:
				cl = v
			}
			if cl == nil || len(cl.Blocks) == 0 {
				continue
			}
			// the defer must dominate every other effect: require it in the entry block
			// before any call that is not itself a defer.
			if b.Index != 0 {
				continue
			}
			early := true
			for _, prev := range b.Instrs {
				if prev == in {
					break
				}
				if c, ok := prev.(*ssa.Call); ok {
					_ = c
					early = false
				}
			}
			if !early {
				continue
			}
			// recover() must be called in the entry block of the closure
			for _, ci := range cl.Blocks[0].Instrs {
				if c, ok := ci.(*ssa.Call); ok {
					if bi, ok := c.Call.Value.(*ssa.Builtin); ok && bi.Name() == "recover" {
						return cl
					}
				}
			}
		}
	}
	return nil
}

// eqConst splits an EQ atom into (term, constant) when exactly one side is an
// integer literal or a const(...) term.
func eqConst(a Atom) (string, string, bool) {
	isK := func(s string) bool {
		if s == "" {
			return false
		}
		if strings.HasPrefix(s, "const(") {
			return true
		}
		for i, r := range s {
			if (r < '0' || r > '9') && !(i == 0 && r == '-') {
				return false
			}
		}
		return true
	}
	switch {
	case isK(a.A) && !isK(a.B):
		return a.B, a.A, true
	case isK(a.B) && !isK(a.A):
		return a.A, a.B, true
	}
	return "", "", false
}

// Deref follows loads of spilled locals (result parameters in functions with
// defer, address-taken variables) to the value stored, when it is unambiguous.
func (t *Terms) Deref(v ssa.Value) ssa.Value {
	for i := 0; i < 8; i++ {
		u, ok := v.(*ssa.UnOp)
		if !ok {
			return v
		}
		al, ok := u.X.(*ssa.Alloc)
		if !ok {
			return v
		}
		sv := t.reachingStore(al, u)
		if sv == nil {
			return v
		}
		v = sv
	}
	return v
}
