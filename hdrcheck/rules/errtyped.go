package rules

import (
	"go/types"

	"golang.org/x/tools/go/ssa"
)

// isErrorTyped: the value has the predeclared type error.
func isErrorTyped(v ssa.Value) bool {
	return v != nil && types.Identical(v.Type(), types.Universe.Lookup("error").Type())
}
