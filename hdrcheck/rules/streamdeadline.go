package rules

import (
	"strings"

	"golang.org/x/tools/go/ssa"

	"hdrcheck/an"
)

// checkStreamReadDeadline (C18.e): reads from a libp2p stream do not look at a context.
// The request timeout that doRequest / Exchange.request put on the context reaches the reading loop of
// sendMessage only through the stream's deadline: whenever the context has a deadline, the stream's
// deadline for READS (SetDeadline, or SetReadDeadline) is set from it before the first response is read.
// With only the write side bounded a peer that accepts the request and never answers holds the worker —
// and with it the range request — for as long as it likes.
func checkStreamReadDeadline(c *an.Ctx, id string, send *ssa.Function) {
	t, ff := c.T(send), c.F(send)
	var dlCall *ssa.Call
	an.Instrs(send, func(in ssa.Instruction) {
		if call, ok := in.(*ssa.Call); ok && call.Call.IsInvoke() && call.Call.Method.Name() == "Deadline" && t.Of(call.Call.Value) == "p0" {
			dlCall = call
		}
	})
	var reads []*ssa.Call
	an.Instrs(send, func(in ssa.Instruction) {
		if call, ok := in.(*ssa.Call); ok && strings.HasSuffix(an.StaticFullName(&call.Call), "serde.Read") {
			reads = append(reads, call)
		}
	})
	c.Min(id, "response reads of sendMessage", len(reads), 1)
	rule := "when the request context has a deadline the stream's read deadline is set from it before a response is read (stream reads ignore the context)"
	if dlCall == nil {
		c.Fail(id, "read-side-deadline", rule, send, nil, "sendMessage does not ask its context for the deadline", nil)
		return
	}
	dl := t.Of(dlCall)
	setsRead := func(in ssa.Instruction) bool {
		call, ok := in.(*ssa.Call)
		if !ok || !call.Call.IsInvoke() || len(call.Call.Args) != 1 {
			return false
		}
		if n := call.Call.Method.Name(); n != "SetDeadline" && n != "SetReadDeadline" {
			return false
		}
		return t.Of(call.Call.Args[0]) == dl+"#0"
	}
	pr := ff.Prune(an.B(dl + "#1"))
	fl := an.Flow{Fn: send, Skip: pr.Removed}
	for _, rd := range reads {
		// the stream that is read is the stream whose deadline was set
		sameStream := false
		an.Instrs(send, func(in ssa.Instruction) {
			if call, ok := in.(*ssa.Call); ok && setsRead(in) && len(rd.Call.Args) > 0 && t.Of(call.Call.Value) == t.Of(rd.Call.Args[0]) {
				sameStream = true
			}
		})
		c.Check(sameStream && fl.MustPrecede(setsRead, rd), id, "read-side-deadline", rule, send, rd, "", ff.AtInstr(rd))
	}
}
