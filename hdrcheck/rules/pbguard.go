package rules

import (
	"go/token"
	"go/types"
	"strings"

	"golang.org/x/tools/go/ssa"

	"hdrcheck/an"
)

// checkDecoderSumsGuarded (C10.j): "for every request a peer can send, the server neither panics …".
// The generated wire decoders (package p2p/pb: the Unmarshal methods and the field skipper) advance an
// int index by lengths read from the peer's bytes. A length near MaxInt makes `index + length` wrap to a
// negative value, which passes the `> len` test and then indexes the buffer: a panic in the stream
// handler's goroutine, outside every recover (CVE-2021-3121; the generator emits the guard since gogo
// 1.3.2, regenerating with an older plug-in drops it). The arithmetic engine reads ints as mathematical
// integers, so this is decided structurally: every sum of two non-constant ints in these functions that
// goes on to be used as an index, a slice bound, the loop-carried index or the result is tested for being
// negative first — the sum itself or a merge that carries it — and the non-negative branch of that test
// dominates the use.
func checkDecoderSumsGuarded(c *an.Ctx, id string) {
	rule := "in the wire decoders a sum of two values read from the input is tested for having wrapped negative before it is used as an index, a bound, the carried position or the result"
	nFn, nSum := 0, 0
	for _, fn := range c.P.RepoFuncs() {
		if fn.Blocks == nil || fn.Pkg == nil || !strings.HasSuffix(fn.Pkg.Pkg.Path(), "/p2p/pb") {
			continue
		}
		// functions that index or slice a []byte parameter
		var buf *ssa.Parameter
		for _, p := range fn.Params {
			if sl, ok := p.Type().Underlying().(*types.Slice); ok {
				if b, isB := sl.Elem().Underlying().(*types.Basic); isB && b.Kind() == types.Uint8 {
					buf = p
				}
			}
		}
		if buf == nil {
			continue
		}
		reads := false
		an.Instrs(fn, func(in ssa.Instruction) {
			switch x := in.(type) {
			case *ssa.IndexAddr:
				reads = reads || x.X == ssa.Value(buf)
			case *ssa.Slice:
				reads = reads || x.X == ssa.Value(buf)
			case *ssa.Index:
				reads = reads || x.X == ssa.Value(buf)
			}
		})
		if !reads {
			continue
		}
		nFn++
		// (terms and facts made here, not through the context: the generated decoders are decided by this
		// clause only and stay out of the value-model sweeps, whose masks-and-shifts idioms they are full of)
		t := an.NewTerms(c.P, fn)
		ff := an.NewFuncFacts(t)
		// sums of two non-constant ints, grouped by term (go/ssa does not share `a+b` written twice)
		groups := map[string][]*ssa.BinOp{}
		an.Instrs(fn, func(in ssa.Instruction) {
			b, ok := in.(*ssa.BinOp)
			if !ok || b.Op != token.ADD {
				return
			}
			if bt, isB := b.Type().Underlying().(*types.Basic); !isB || bt.Kind() != types.Int {
				return
			}
			if _, isK := b.X.(*ssa.Const); isK {
				return
			}
			if _, isK := b.Y.(*ssa.Const); isK {
				return
			}
			groups[t.Of(b)] = append(groups[t.Of(b)], b)
		})
		for term, sums := range groups {
			nSum++
			// carriers: the sums and the (non-loop-header) merges that carry them, two levels
			carrier := map[ssa.Value]bool{}
			for _, s := range sums {
				carrier[s] = true
			}
			isHeaderPhi := func(ph *ssa.Phi) bool {
				for _, p := range ph.Block().Preds {
					if ph.Block().Dominates(p) {
						return true
					}
				}
				return false
			}
			for level := 0; level < 2; level++ {
				an.Instrs(fn, func(in ssa.Instruction) {
					ph, ok := in.(*ssa.Phi)
					if !ok || isHeaderPhi(ph) {
						return
					}
					for _, e := range ph.Edges {
						if carrier[e] {
							carrier[ph] = true
						}
					}
				})
			}
			// negativity tests on a carrier: the blocks dominated by their non-negative branch
			var safe []*ssa.BasicBlock
			an.Instrs(fn, func(in ssa.Instruction) {
				ifi, ok := in.(*ssa.If)
				if !ok {
					return
				}
				f := t.Cond(ifi.Cond)
				for v := range carrier {
					if f == an.LT(t.Of(v), "0") { // v < 0 → true branch is the negative one
						safe = append(safe, ifi.Block().Succs[1])
					}
					if f == an.GE(t.Of(v), "0") {
						safe = append(safe, ifi.Block().Succs[0])
					}
				}
			})
			// a short-circuit `a || s < 0`: the facts at the use say ¬(s < 0)
			guardedAt := func(b *ssa.BasicBlock) bool {
				for _, sb := range safe {
					if sb == b || (sb.Dominates(b) && len(sb.Preds) == 1) {
						return true
					}
				}
				fs := ff.AtRefined(b)
				for v := range carrier {
					if fs.Has(an.GE(t.Of(v), "0")) {
						return true
					}
				}
				return false
			}
			ok := true
			var at ssa.Instruction
			what := ""
			for v := range carrier {
				refs := v.Referrers()
				if refs == nil {
					continue
				}
				for _, r := range *refs {
					var useBlock *ssa.BasicBlock
					kind := ""
					switch x := r.(type) {
					case *ssa.IndexAddr:
						useBlock, kind = x.Block(), "index"
					case *ssa.Index:
						useBlock, kind = x.Block(), "index"
					case *ssa.Slice:
						useBlock, kind = x.Block(), "slice bound"
					case *ssa.Return:
						useBlock, kind = x.Block(), "result"
					case *ssa.Store:
						useBlock, kind = x.Block(), "stored position"
					case *ssa.Phi:
						if !isHeaderPhi(x) {
							continue // a carrier
						}
						for i, e := range x.Edges {
							if e == v {
								useBlock, kind = x.Block().Preds[i], "carried position"
							}
						}
					default:
						continue // comparisons, further arithmetic
					}
					if useBlock != nil && !guardedAt(useBlock) {
						ok, at, what = false, r, kind
					}
				}
			}
			c.Check(ok, id, "decoder-sum-overflow-guarded:"+an.FuncName(fn)+":"+an.Stable(term), rule, fn, at, strings.TrimSpace("unguarded use as "+what), nil)
		}
	}
	c.Min(id, "wire decoding functions", nFn, 3)
	c.Min(id, "sums of input-derived ints in the wire decoders", nSum, 4)
}
