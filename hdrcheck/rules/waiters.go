package rules

import (
	"golang.org/x/tools/go/ssa"

	"hdrcheck/an"
)

// checkWaiterCounted (C12.b): the subscription of a height is shared by its waiters and carries their
// number; a waiter that gives up decrements it and closes the shared signal when it reaches zero. Every
// waiter therefore has to be counted before it parks — the first one (which creates the subscription)
// included — or a co-waiter that cancels releases a reader whose context is still alive with "not found".
// On every way to the blocking select of heightSub.Wait the count field was raised by one (or the
// subscription was created with a count of one).
func checkWaiterCounted(c *an.Ctx, id string) {
	wait := waitBody(c)
	if !c.Need(wait, id, "store.(*heightSub).Wait") {
		return
	}
	isCount := func(in ssa.Instruction) bool {
		st, ok := in.(*ssa.Store)
		if !ok {
			return false
		}
		fa, isFA := st.Addr.(*ssa.FieldAddr)
		if !isFA || !isFieldOf(fa, nil, "count") {
			return false
		}
		if k, isK := st.Val.(*ssa.Const); isK && k.Value != nil && k.Value.ExactString() == "1" {
			return true // created with one waiter
		}
		add, isAdd := st.Val.(*ssa.BinOp)
		if !isAdd || add.Op.String() != "+" {
			return false
		}
		one, isK := add.Y.(*ssa.Const)
		ld, isLd := add.X.(*ssa.UnOp)
		if !isK || one.Value == nil || one.Value.ExactString() != "1" || !isLd {
			return false
		}
		fa2, isFA2 := ld.X.(*ssa.FieldAddr)
		return isFA2 && isFieldOf(fa2, nil, "count")
	}
	n := 0
	fl := an.Flow{Fn: wait}
	an.Instrs(wait, func(in ssa.Instruction) {
		sel, ok := in.(*ssa.Select)
		if !ok || !sel.Blocking {
			return
		}
		n++
		c.Check(fl.MustPrecede(isCount, sel), id, "waiter-counted", "every reader is counted on the subscription of its height before it parks (the one that creates the subscription included)", wait, sel, "", nil)
	})
	c.Min(id, "parking points of heightSub.Wait", n, 1)
}
