package rules

import (
	"golang.org/x/tools/go/ssa"

	"hdrcheck/an"
)

// checkResetAfterSuccess (C06.b, shared as C12.f): the pending batch is what keeps an appended header
// readable and retried until it is on disk. It is cleared at one of two places, and at both only after
// success: in the write loop's step after the flush of its content returned nil, or in flush itself
// after the Commit of the datastore batch returned nil. A reset after a failed attempt drops headers
// whose Append has returned.
func checkResetAfterSuccess(c *an.Ctx, closure, flush *ssa.Function, fc *ssa.Call) {
	isReset := func(call *ssa.Call) bool {
		cal := an.StaticCallee(&call.Call)
		return cal != nil && an.FuncName(cal) == "store.(*batch).Reset"
	}
	nReset := 0
	ct, cf := c.T(closure), c.F(closure)
	fErr := ct.Of(fc)
	an.Instrs(closure, func(in ssa.Instruction) {
		if call, isCall := in.(*ssa.Call); isCall && isReset(call) {
			nReset++
			fs := cf.AtInstr(call)
			c.Check(fs.Has(an.EQ(fErr, "nil")), "C06.b", "reset-after-success", "the pending batch is cleared only after the flush of its content returned nil", closure, call, "", fs)
		}
	})
	ft, ff := c.T(flush), c.F(flush)
	var commits []*ssa.Call
	an.Instrs(flush, func(in ssa.Instruction) {
		if call, isCall := in.(*ssa.Call); isCall && call.Call.IsInvoke() && call.Call.Method.Name() == "Commit" {
			commits = append(commits, call)
		}
	})
	an.Instrs(flush, func(in ssa.Instruction) {
		call, isCall := in.(*ssa.Call)
		if !isCall || !isReset(call) {
			return
		}
		nReset++
		fs := ff.AtInstr(call)
		ok := false
		for _, cm := range commits {
			if fs.Has(an.EQ(ft.Of(cm), "nil")) {
				ok = true
			}
		}
		c.Check(ok, "C06.b", "reset-after-success", "the pending batch is cleared only after the Commit of its content returned nil", flush, call, "", fs)
	})
	c.Min("C06.b", "pending resets", nReset, 1)
}
