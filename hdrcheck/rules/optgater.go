package rules

import (
	"go/types"

	"golang.org/x/tools/go/ssa"

	"hdrcheck/an"
)

// checkOptionalCollaboratorsGuarded (C05.d, finding F28): "no peer response can crash the client". The client
// is built by NewExchange from collaborators it is handed as pointers — the connection gater among them —
// and a nil one is accepted: nothing in NewExchange refuses it (the library's own test helper passes nil).
// What a peer's response triggers runs in goroutines nothing recovers, so every method call through a
// pointer field of the peer tracker that is filled from such an unvalidated constructor parameter stands
// under the fact that the loaded field is not nil. A field whose parameter NewExchange validates (a return
// under `param == nil`) is exempt.
func checkOptionalCollaboratorsGuarded(c *an.Ctx, id string) {
	p := c.P
	newEx := p.Func("p2p", "NewExchange")
	newPT := p.Func("p2p", "newPeerTracker")
	if !c.Need(newEx, id, "p2p.NewExchange") || !c.Need(newPT, id, "p2p.newPeerTracker") {
		return
	}
	// fields of the tracker filled from a pointer parameter of its constructor
	type slot struct {
		field int
		name  string
		par   *ssa.Parameter
	}
	var slots []slot
	an.Instrs(newPT, func(in ssa.Instruction) {
		st, ok := in.(*ssa.Store)
		if !ok {
			return
		}
		fa, isFA := st.Addr.(*ssa.FieldAddr)
		par, isPar := st.Val.(*ssa.Parameter)
		if !isFA || !isPar {
			return
		}
		if _, isPtr := par.Type().Underlying().(*types.Pointer); !isPtr {
			return
		}
		slots = append(slots, slot{fa.Field, fieldName(fa), par})
	})
	c.Min(id, "pointer collaborators of the peer tracker", len(slots), 1)
	// which of them does NewExchange hand over unvalidated
	et, ef := c.T(newEx), c.F(newEx)
	var ptCall *ssa.Call
	for _, call := range callsTo(newEx, newPT) {
		ptCall = call
	}
	if !c.Check(ptCall != nil, id, "optional-gater-guarded", "NewExchange builds the peer tracker", newEx, nil, "no call of newPeerTracker", nil) {
		return
	}
	optional := map[int]string{}
	for _, s := range slots {
		idx := -1
		for i, fp := range newPT.Params {
			if fp == s.par {
				idx = i
			}
		}
		if idx < 0 || idx >= len(ptCall.Call.Args) {
			continue
		}
		arg := ptCall.Call.Args[idx]
		if _, fromCaller := arg.(*ssa.Parameter); !fromCaller {
			continue // built by NewExchange itself
		}
		if ef.AtInstr(ptCall).Has(an.NE(et.Of(arg), "nil")) {
			continue // validated
		}
		optional[s.field] = s.name
	}
	// every method call through such a field is guarded
	named := p.NamedType("p2p", "peerTracker")
	n := 0
	for _, fn := range p.RepoFuncs() {
		if fn.Pkg == nil || fn.Pkg.Pkg.Name() != "p2p" || fn.Blocks == nil {
			continue
		}
		an.Instrs(fn, func(in ssa.Instruction) {
			call, ok := in.(*ssa.Call)
			if !ok || len(call.Call.Args) == 0 && !call.Call.IsInvoke() {
				return
			}
			recv := call.Call.Value
			if !call.Call.IsInvoke() {
				if an.StaticCallee(&call.Call) == nil || an.StaticCallee(&call.Call).Signature.Recv() == nil {
					return
				}
				recv = call.Call.Args[0]
			}
			ld, isLd := recv.(*ssa.UnOp)
			if !isLd {
				return
			}
			fa, isFA := ld.X.(*ssa.FieldAddr)
			if !isFA || named == nil || !typeIsNamed(fa.X.Type(), "/p2p", "peerTracker") {
				return
			}
			name, isOpt := optional[fa.Field]
			if !isOpt {
				return
			}
			n++
			t, ff := c.T(fn), c.F(fn)
			fs := ff.AtInstr(call)
			c.Check(fs.Has(an.NE(t.Of(ld), "nil")), id, "optional-gater-guarded:"+name,
				"a collaborator NewExchange accepts as nil is called only where it is known to be there (what a peer's response triggers runs in goroutines nothing recovers)",
				fn, call, "field "+name, fs)
		})
	}
	c.Note("C05.d optional collaborators of the peer tracker: %d, calls through them: %d", len(optional), n)
}
