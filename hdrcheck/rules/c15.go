package rules

import (
	"strings"

	"golang.org/x/tools/go/ssa"

	"hdrcheck/an"
)

func init() {
	register(&Rule{
		ID: "C15",
		Explanation: "Decides the structure of the bifurcation search: (a) it is entered only for a *VerifyError with SoftFailure returned by Verify(subjectiveHead, candidate head), with exactly those two headers; " +
			"(b) it returns nil only under Verify(promoted intermediate, new head)==nil; (c) an intermediate becomes subjective head (setLocalHead, loop-carried subject) only under Verify(current subject, intermediate)==nil, and the loop-carried subject is only ever the initial subjective head or such a verified intermediate; " +
			"(d) a getter error, a non-soft verification failure of an intermediate, and a failed re-verification at distance ≤ 1 all return a non-nil error; " +
			"(e) ranking structure: every path back to the loop head either halves the distance or re-bases it on the promoted intermediate (followed by the ≤ 1 exit test); the candidate height is subject height + distance/2; one getter request per iteration.",
		NotDecided: []string{
			"the iteration bound for all trust predicates: termination needs the runtime fact that verifying an already-known height fails hard; the ranking structure is checked, and that the answer's height is the requested one (F25)",
			"the 'if' direction of the iff: that an existing verifiable path is always found",
			"wrap-freedom of the initial distance newHead.Height() - subjHead.Height() is left to the caller's order (verify is only reached for a head above the subjective head); the re-based distance is wrap-free because the promoted answer sits at the requested height, at most the new head's",
		},
		Technique: "dominance facts with errors.As refinement, loop-carried value (phi) edge classification, assumption pruning for the refusal cases",
		Trusted:   "go/types+go/ssa; C01 for the meaning of Verify; purity of header observers",
		Run:       runC15,
		Imports: []Import{
			{From: "C01.d", As: "C15.g", Why: "the bifurcation is started only for a soft failure: Verify has to flag every failure of a non-adjacent header as soft, whatever kind of error the header type's own Verify reports, or a head with a verifiable path is refused outright"},
			{From: "C03.b", As: "C15.f", Why: "a soft-failing head is accepted only through the bifurcation: every other way into the subjective-head setter must carry a successful verification, or the bifurcation is bypassed"},
		},
	})
}

func runC15(c *an.Ctx) {
	p := c.P
	verifyFn := p.Method("sync", "Syncer", "verify")
	bif := p.Method("sync", "Syncer", "verifyBifurcating")
	setLocal := p.Method("sync", "Syncer", "setLocalHead")
	localHead := p.Method("sync", "Syncer", "localHead")
	hVerify := p.Func("", "Verify")
	ok := true
	for name, f := range map[string]*ssa.Function{"sync.(*Syncer).verify": verifyFn, "sync.(*Syncer).verifyBifurcating": bif, "sync.(*Syncer).setLocalHead": setLocal,
		"sync.(*Syncer).localHead": localHead, "header.Verify": hVerify} {
		ok = c.Need(f, "C15.a", name) && ok
	}
	if !ok {
		return
	}

	// the functions from which a head reaches the verification (callers of verify, transitively within
	// the package up to the entry points) are part of what the property reasons about: the sweeps that
	// follow every rule (derived contexts not used after their cancel, value-changing conversions)
	// cover them too — a bifurcation handed a dead context cannot fetch a single intermediate header
	{
		g := p.CG()
		seen := map[*ssa.Function]bool{verifyFn: true}
		work := []*ssa.Function{verifyFn}
		nCallers := 0
		for len(work) > 0 {
			f := work[0]
			work = work[1:]
			for _, cs := range g.In[f] {
				cal := an.Enclosing(cs.Caller)
				if cal == nil || seen[cal] || cal.Pkg == nil || cal.Pkg != verifyFn.Pkg || cal.Blocks == nil {
					continue
				}
				seen[cal] = true
				nCallers++
				c.T(cal)
				work = append(work, cal)
			}
		}
		c.Min("C15.a", "functions through which a head reaches the verification", nCallers, 2)
	}

	// --- C15.a only soft failures bifurcate
	{
		t, ff := c.T(verifyFn), c.F(verifyFn)
		vcs := callsTo(verifyFn, hVerify)
		bcs := callsTo(verifyFn, bif)
		lcs := callsTo(verifyFn, localHead)
		c.Min("C15.a", "bifurcation entry points", len(bcs), 1)
		checkSoftFailureAlwaysSearched(c, "C15.a", verifyFn, bif)
		if len(vcs) == 1 && len(lcs) == 1 {
			vc := vcs[0]
			vErr := t.Of(vc)
			sbj := t.Of(lcs[0]) + "#0"
			c.Check(t.Of(vc.Call.Args[0]) == sbj && t.Of(vc.Call.Args[1]) == "p2" && ff.AtInstr(vc).Has(an.EQ(t.Of(lcs[0])+"#1", "nil")), "C15.a", "direct-verify",
				"a candidate head is first verified directly against the current subjective head", verifyFn, vc, "", ff.AtInstr(vc))
			for _, bc := range bcs {
				fs := ff.AtInstr(bc)
				okB := fs.Has(an.NE(vErr, "nil")) && fs.Has(an.B("As("+vErr+",*header.VerifyError)")) && hasSoftFact(fs) &&
					t.Of(bc.Call.Args[2]) == sbj && t.Of(bc.Call.Args[3]) == "p2"
				c.Check(okB, "C15.a", "only-soft-bifurcates", "bifurcation starts only for a *VerifyError with SoftFailure, from the same subjective head towards the same candidate", verifyFn, bc, "", fs)
			}
			// every other failure is returned as is; nil only for direct success or the bifurcation result
			for _, r := range ff.Returns() {
				sh := t.ErrShape(errResult(r))
				fs := ff.AtInstr(r)
				switch {
				case sh == "nil":
					c.Check(fs.Has(an.EQ(vErr, "nil")), "C15.a", "nil-needs-verify", "verify returns nil directly only when Verify returned nil", verifyFn, r, "", fs)
				case strings.HasPrefix(sh, "prop(call:") && strings.Contains(sh, "verifyBifurcating"):
				case sh == "prop("+vErr+")":
					c.Check(fs.Has(an.NE(vErr, "nil")), "C15.a", "hard-failure-returned", "a verification failure that is not soft is returned unchanged", verifyFn, r, "", fs)
				}
			}
		} else {
			c.Undecided("C15.a", "verify-shape", "verify calls localHead and header.Verify once", verifyFn, nil, "unexpected number of calls")
		}
	}

	// --- the loop
	t, ff := c.T(bif), c.F(bif)
	var getC *ssa.Call
	nGet := 0
	an.Instrs(bif, func(in ssa.Instruction) {
		if call, isCall := in.(*ssa.Call); isCall && call.Call.IsInvoke() && call.Call.Method.Name() == "GetByHeight" && isRecvField(t, call.Call.Value, "getter") {
			getC = call
			nGet++
		}
	})
	if !c.Check(nGet == 1, "C15.e", "one-request-per-iteration", "each iteration of the search makes exactly one getter request", bif, nil, "getter requests: "+itoa(nGet), nil) {
		return
	}
	cand, gErr := t.Of(getC)+"#0", t.Of(getC)+"#1"
	vcs := callsTo(bif, hVerify)
	var vCand, vNew *ssa.Call
	for _, vc := range vcs {
		switch {
		case t.Of(vc.Call.Args[1]) == cand:
			vCand = vc
		case t.Of(vc.Call.Args[1]) == "p3":
			vNew = vc
		}
	}
	if !c.Check(vCand != nil && vNew != nil, "C15.b", "two-verifications", "the search verifies the intermediate against the subject and the new head against the promoted intermediate", bif, nil, "", nil) {
		return
	}
	subjPhi, okPhi := vCand.Call.Args[0].(*ssa.Phi)
	if !c.Check(okPhi, "C15.c", "loop-carried-subject", "the intermediate is verified against the loop-carried subjective head", bif, vCand, "arg "+t.Of(vCand.Call.Args[0]), nil) {
		return
	}
	vcT, vnT := t.Of(vCand), t.Of(vNew)

	// --- C15.c promotion
	okSubj := true
	for _, pe := range ff.PhiOperands(subjPhi) {
		v := t.Of(pe.Val)
		switch {
		case !ff.Dominates(subjPhi.Block(), pe.Pred):
			okSubj = okSubj && v == "p2"
		case v == t.Of(subjPhi):
		case v == cand:
			okSubj = okSubj && pe.Facts.Has(an.EQ(vcT, "nil")) && pe.Facts.Has(an.EQ(gErr, "nil"))
		default:
			okSubj = false
		}
	}
	c.Check(okSubj, "C15.c", "subject-only-verified", "the loop-carried subjective head is the initial one or an intermediate that passed Verify against the previous subject", bif, subjPhi, "", nil)
	scs := callsTo(bif, setLocal)
	c.Min("C15.c", "promotions of an intermediate", len(scs), 1)
	for _, sc := range scs {
		fs := ff.AtInstr(sc)
		c.Check(t.Of(sc.Call.Args[2]) == cand && fs.Has(an.EQ(vcT, "nil")) && fs.Has(an.EQ(gErr, "nil")), "C15.c", "promote-only-verified",
			"only an intermediate that passed verification against the current subject is made the sync target", bif, sc, "", fs)
	}
	checkAnswerHeightBound(c, bif, getC, vCand, cand, scs)
	c.Check(t.Of(vNew.Call.Args[0]) == cand && ff.AtInstr(vNew).Has(an.EQ(vcT, "nil")), "C15.b", "reverify-against-promoted", "the new head is re-verified against the intermediate that was just promoted", bif, vNew, "", ff.AtInstr(vNew))

	// --- C15.b / C15.d returns
	nNil := 0
	for _, r := range ff.Returns() {
		sh := t.ErrShape(errResult(r))
		fs := ff.AtRefined(r.Block())
		switch {
		case sh == "nil":
			nNil++
			c.Check(fs.Has(an.EQ(vnT, "nil")) && fs.Has(an.EQ(vcT, "nil")), "C15.b", "accept-needs-verified-path", "bifurcation accepts the new head only after it verified against a verified intermediate", bif, r, "", fs)
		}
	}
	c.Min("C15.b", "accepting returns", nNil, 1)
	refusal := func(name, rule string, assume ...an.Fact) {
		pr := ff.Prune(assume...)
		n := 0
		for _, r := range pr.Returns() {
			ok := true
			for _, a := range assume {
				ok = ok && pr.AtRefined(r.Block()).Has(a)
			}
			if !ok {
				continue
			}
			n++
			c.Check(t.ErrShape(errResult(r)) != "nil", "C15.d", name, rule, bif, r, t.ErrShape(errResult(r)), nil)
		}
		if n == 0 {
			c.Fail("C15.d", name, rule, bif, nil, "no return under "+an.FactSet(assume).String(), nil)
		}
	}
	refusal("getter-error-refuses", "when an intermediate cannot be fetched the new head is refused", an.NE(gErr, "nil"))
	// non-soft failure of the intermediate
	{
		asF := an.B("As(" + vcT + ",*header.VerifyError)")
		var soft *an.Fact
		for _, b := range bif.Blocks {
			for _, f := range ff.At(b) {
				if f.Op == "B" && strings.Contains(f.A, ".SoftFailure") {
					g := an.B(f.A)
					soft = &g
				}
			}
		}
		if c.Check(soft != nil, "C15.d", "soft-test", "the search distinguishes soft from hard failures of an intermediate", bif, nil, "", nil) {
			pr := ff.Prune(an.NE(vcT, "nil"), asF, soft.Neg())
			n := 0
			for _, r := range pr.Returns() {
				if !pr.AtInstr(r).Has(soft.Neg()) {
					continue
				}
				n++
				c.Check(t.ErrShape(errResult(r)) == "prop("+vcT+")", "C15.d", "hard-intermediate-refuses", "an intermediate that fails verification hard ends the search with that error", bif, r, t.ErrShape(errResult(r)), nil)
			}
			c.Min("C15.d", "returns for a hard-failing intermediate", n, 1)
		}
	}
	// distance phi
	var diffPhi, heightPhi *ssa.Phi
	for _, in := range subjPhi.Block().Instrs {
		ph, isPhi := in.(*ssa.Phi)
		if !isPhi || ph == subjPhi {
			continue
		}
		for _, pe := range ff.PhiOperands(ph) {
			if !ff.Dominates(ph.Block(), pe.Pred) {
				switch t.Of(pe.Val) {
				case "(-Height(p2)+Height(p3))":
					diffPhi = ph
				case "Height(p2)":
					heightPhi = ph
				}
			}
		}
	}
	if !c.Check(diffPhi != nil && heightPhi != nil, "C15.e", "distance-state", "the search carries the subject height and the distance to the new head, initialised from the two headers", bif, nil, "", nil) {
		return
	}
	dT, hT := t.Of(diffPhi), t.Of(heightPhi)
	c.Check(t.Of(getC.Call.Args[1]) == "(("+dT+" / 2)+"+hT+")", "C15.e", "candidate-height", "the intermediate is requested at subject height + distance/2", bif, getC, "requests "+t.Of(getC.Call.Args[1]), nil)
	rebased := "(-Height(" + cand + ")+Height(p3))"
	okD, okH := true, true
	nHalve, nRebase := 0, 0
	for _, pe := range ff.PhiOperands(diffPhi) {
		if !ff.Dominates(diffPhi.Block(), pe.Pred) {
			continue
		}
		v := t.Of(pe.Val)
		switch v {
		case "(" + dT + " / 2)":
			nHalve++
			okD = okD && pe.Facts.Has(an.NE(vcT, "nil"))
		case rebased:
			nRebase++
			okD = okD && pe.Facts.Has(an.EQ(vcT, "nil")) && pe.Facts.Has(an.NE(vnT, "nil")) && pe.Facts.Has(an.LT("1", rebased))
		default:
			okD = false
		}
	}
	for _, pe := range ff.PhiOperands(heightPhi) {
		if !ff.Dominates(heightPhi.Block(), pe.Pred) {
			continue
		}
		v := t.Of(pe.Val)
		okH = okH && (v == hT || (v == "Height("+cand+")" && pe.Facts.Has(an.EQ(vcT, "nil"))))
	}
	c.Check(okD && nHalve >= 1 && nRebase >= 1, "C15.e", "distance-ranking", "on every way back to the loop head the distance is halved (intermediate failed softly) or re-based on the promoted intermediate and found > 1", bif, diffPhi, "", nil)
	c.Check(okH, "C15.e", "height-follows-subject", "the subject height changes only together with a promotion", bif, heightPhi, "", nil)
	refusal("exhausted-refuses", "when the new head still fails against an adjacent (distance ≤ 1) verified intermediate it is refused", an.EQ(vcT, "nil"), an.NE(vnT, "nil"), an.LE(rebased, "1"))
}
