package selftest

func init() {
	const sd = "store/store_delete.go"
	const st = "store/store.go"
	add(
		Variant{Prop: "C14", Name: "handler-recover-removed", File: sd, Expect: "C14.a",
			Old: "\t\tdefer func() {\n\t\t\terr := recover()\n\t\t\tif err != nil {\n\t\t\t\trerr = fmt.Errorf(", New: "\t\tdefer func() {\n\t\t\tvar err any\n\t\t\tif err != nil {\n\t\t\t\trerr = fmt.Errorf("},
		Variant{Prop: "C14", Name: "raw-handler-registered", File: sd, Expect: "C14.a",
			Old: "\ts.onDelete = append(s.onDelete, func(ctx context.Context, height uint64) (rerr error) {", New: "\ts.onDelete = append(s.onDelete, fn)\n\t_ = append(s.onDelete, func(ctx context.Context, height uint64) (rerr error) {"},
		Variant{Prop: "C14", Name: "handlers-after-datastore-delete", File: sd, Expect: "C14.b",
			Old: "\tfor _, deleteFn := range onDelete {\n\t\tif err := deleteFn(ctx, height); err != nil {\n\t\t\treturn fmt.Errorf(\"on delete handler for %d: %w\", height, err)\n\t\t}\n\t}\n\n\tif err := s.ds.Delete(ctx, hashKey(hash)); err != nil {\n\t\treturn fmt.Errorf(\"delete hash key (%X): %w\", hash, err)\n\t}\n",
			New: "\tif err := s.ds.Delete(ctx, hashKey(hash)); err != nil {\n\t\treturn fmt.Errorf(\"delete hash key (%X): %w\", hash, err)\n\t}\n\tfor _, deleteFn := range onDelete {\n\t\tif err := deleteFn(ctx, height); err != nil {\n\t\t\treturn fmt.Errorf(\"on delete handler for %d: %w\", height, err)\n\t\t}\n\t}\n\n"},
		Variant{Prop: "C14", Name: "handler-error-ignored", File: sd, Expect: "C14.b",
			Old: "\t\tif err := deleteFn(ctx, height); err != nil {\n\t\t\treturn fmt.Errorf(\"on delete handler for %d: %w\", height, err)\n\t\t}", New: "\t\tif err := deleteFn(ctx, height); err != nil {\n\t\t\tlog.Errorw(\"on delete handler\", \"height\", height, \"err\", err)\n\t\t\tbreak\n\t\t}"},
		Variant{Prop: "C14", Name: "only-first-handler", File: sd, Expect: "C14.b",
			Old: "\tfor _, deleteFn := range onDelete {\n\t\tif err := deleteFn(ctx, height); err != nil {", New: "\tfor _, deleteFn := range onDelete[:min(1, len(onDelete))] {\n\t\tif err := deleteFn(ctx, height); err != nil {"},
		Variant{Prop: "C14", Name: "handler-gets-wrong-height", File: sd, Expect: "C14.b",
			Old: "\t\tif err := deleteFn(ctx, height); err != nil {", New: "\t\tif err := deleteFn(ctx, height+1); err != nil {"},
		Variant{Prop: "C14", Name: "handlers-called-in-driver-too", File: sd, Expect: "C14.c",
			Old: "\tfor height := from; height < to; height++ {\n\t\tif h := s.pending", New: "\tfor _, fn := range s.onDelete {\n\t\t_ = fn(ctx, from)\n\t}\n\tfor height := from; height < to; height++ {\n\t\tif h := s.pending"},
		Variant{Prop: "C14", Name: "handler-list-read-without-lock", File: sd, Expect: "C14.c",
			Old: "\ts.onDeleteMu.Lock()\n\tonDelete := slices.Clone(s.onDelete)\n\ts.onDeleteMu.Unlock()\n\n\tfor height := from; height < to; height++ {", New: "\tonDelete := slices.Clone(s.onDelete)\n\n\tfor height := from; height < to; height++ {"},
		Variant{Prop: "C14", Name: "wipe-before-deletion", File: sd, Expect: "C14.d",
			Old: "\t\t\tactualTo, _, err := s.deleteRangeRaw(ctx, from, to)\n\t\t\tif err != nil {\n\t\t\t\t// reflect the progress made", New: "\t\t\tactualTo, err := to, error(nil)\n\t\t\tif err != nil {\n\t\t\t\t// reflect the progress made"},
		Variant{Prop: "C14", Name: "pending-reset-in-settail", File: st, Expect: "C14.d",
			Old: "\t// set directly to `to`, avoiding iteration in recedeTail\n\ts.tailHeader.Store(&newTail)", New: "\t// set directly to `to`, avoiding iteration in recedeTail\n\ts.pending.DeleteRange(0, to)\n\ts.tailHeader.Store(&newTail)"},
		// benign
		Variant{Prop: "C14", Name: "benign-indexed-handler-loop", File: sd,
			Old: "\tfor _, deleteFn := range onDelete {\n\t\tif err := deleteFn(ctx, height); err != nil {", New: "\tfor i := 0; i < len(onDelete); i++ {\n\t\tdeleteFn := onDelete[i]\n\t\tif err := deleteFn(ctx, height); err != nil {"},
		Variant{Prop: "C14", Name: "benign-recover-var-renamed", File: sd,
			Old: "\t\t\terr := recover()\n\t\t\tif err != nil {\n\t\t\t\trerr = fmt.Errorf(\n\t\t\t\t\t\"user provided onDelete panicked on %d with: %s\\n%s\",\n\t\t\t\t\theight,\n\t\t\t\t\terr,", New: "\t\t\tr := recover()\n\t\t\tif nil != r {\n\t\t\t\trerr = fmt.Errorf(\n\t\t\t\t\t\"user provided onDelete panicked on %d with: %s\\n%s\",\n\t\t\t\t\theight,\n\t\t\t\t\tr,"},
	)
}
