package rules

import (
	"strings"

	"golang.org/x/tools/go/ssa"

	"hdrcheck/an"
)

// checkStopKeepsLoopContext (C06.c, finding F22): "after a clean Stop and Start the Store reports the
// same Head … including everything whose Append returned before Stop". Stop queues its signal BEHIND
// the writes already accepted; the write loop still processes those, and moving the head over them
// (advanceHead/recedeTail) needs a live context. The loop's context is therefore cancelled only once
// the loop is done, or when Stop gives up waiting for it: every call of the cancel function in Stop
// comes after the select that waits for the loop (the one that receives from writesDn).
func checkStopKeepsLoopContext(c *an.Ctx, id string) {
	stop := c.P.Method("store", "Store", "Stop")
	if !c.Need(stop, id, "store.(*Store).Stop") {
		return
	}
	t := c.T(stop)
	isWait := func(in ssa.Instruction) bool {
		sel, ok := in.(*ssa.Select)
		if !ok {
			return false
		}
		for _, st := range sel.States {
			if st.Send == nil && strings.HasSuffix(an.Stable(t.Of(st.Chan)), "p0.writesDn") {
				// (the first select of Stop, the non-blocking "already stopped?" probe, has a default case)
				return sel.Blocking
			}
		}
		return false
	}
	n := 0
	fl := an.Flow{Fn: stop}
	an.Instrs(stop, func(in ssa.Instruction) {
		call, ok := in.(*ssa.Call)
		if !ok || call.Call.IsInvoke() || an.StaticCallee(&call.Call) != nil {
			return
		}
		if !strings.HasSuffix(an.Stable(t.Of(call.Call.Value)), "p0.cancel") {
			return
		}
		n++
		c.Check(fl.MustPrecede(isWait, call), id, "loop-context-kept-until-drained", "Stop cancels the write loop's context only after waiting for the loop (it is done, or Stop gives up): the writes queued before the stop signal are processed with a live context, the head is moved over them", stop, call, "", nil)
	})
	c.Min(id, "cancellations of the write loop's context in Stop", n, 1)
}
