package rules

import (
	"golang.org/x/tools/go/ssa"

	"hdrcheck/an"
)

// checkAdvanceAfterReinit (C06.d, follow-up of finding F23): ensureInit starts the head pointer of an
// empty store at the LOWEST header of the batch it is given, so every call of it in the write loop's step
// is followed by an advance of the head over what is contiguous before the pointers are written out by
// flush. The re-initialisation right before a flush (a whole-store deletion dropped the pointers while
// headers were pending) is such a call: without the advance the head key written with that flush is the
// lowest pending header although the ones above it are stored with it, and a reopened store reports it.
func checkAdvanceAfterReinit(c *an.Ctx, id string, closure, ensure, adv *ssa.Function, fc *ssa.Call) {
	if ensure == nil || adv == nil {
		c.Undecided(id, "anchor:ensureInit/advanceHead", "ensureInit and advanceHead must resolve", closure, nil, "not found")
		return
	}
	isAdv := an.IsCallTo(adv)
	n := 0
	for _, ec := range callsTo(closure, ensure) {
		n++
		// is the flush reachable from this call without crossing an advance of the head?
		bare := reachesWithout(closure, ec, fc, isAdv)
		c.Check(!bare, id, "head-advanced-after-reinit", "every (re)initialisation of the pointers in the write loop's step is followed by an advance of the head over the contiguous run before the pointers are flushed (ensureInit starts the head at the lowest header)", closure, ec, "", nil)
	}
	c.Min(id, "ensureInit calls in the write loop's step", n, 1)
}

// reachesWithout: `to` can execute after `from` on a path on which no instruction satisfying x executes
// in between.
func reachesWithout(fn *ssa.Function, from, to ssa.Instruction, x an.InstrPred) bool {
	seen := map[*ssa.BasicBlock]bool{}
	found := false
	var walk func(b *ssa.BasicBlock, start int)
	walk = func(b *ssa.BasicBlock, start int) {
		for i := start; i < len(b.Instrs); i++ {
			in := b.Instrs[i]
			if in == to {
				found = true
				return
			}
			if x(in) {
				return
			}
		}
		for _, s := range b.Succs {
			if found {
				return
			}
			if seen[s] {
				continue
			}
			seen[s] = true
			walk(s, 0)
		}
	}
	fb := from.Block()
	idx := 0
	for i, in := range fb.Instrs {
		if in == from {
			idx = i + 1
		}
	}
	walk(fb, idx)
	return found
}
