package store

// Demonstration for finding F29 (property C12).
// Copy into /repo/store and run: go test ./store -run 'TestF29' -count=1
//
// F29: a reader whose context has ended takes its count off the subscription of its height once it gets the
//      mutex: notify(height, false). It did so without checking that the subscription registered under the
//      height was still its own (its sibling, the branch taken when the check after the registration finds the
//      header, does check). If the height was notified in the meantime — which closed and removed the waiter's
//      subscription — and a later reader registered a new subscription under the same height (the header was
//      removed again by a head-side DeleteRange, so the height is a future one once more), the cancelled waiter
//      decremented and closed the NEW subscription: the later reader was released although nothing had been
//      appended, looked the height up, and came back with "not found" for a height above Height() with a live
//      context — "blocks until its context ends … other waiters on the same height".
//      The window lies between the waiter's select and its Lock; the test fixes the order by holding the mutex,
//      at the level of heightSub. Noticed by a sixth-round seeder by reading, shown by a seventh-round seeder
//      (C12). Rule C12.b `releases-own-subscription-only`; repaired by the /repo fix commit 83e64b1, recorded in
//      known_findings.json.

import (
	"context"
	"testing"
	"time"

	"github.com/stretchr/testify/require"
)

// Observation on the UNCHANGED tree (heightSub level only): a waiter whose context has ended calls
// notify(height, false) once it gets the mutex, without checking that the subscription registered
// under the height is still its own. If the height was published (Notify closed and removed the
// waiter's subscription) and another reader subscribed to the same height before the cancelled
// waiter got the mutex, the cancelled waiter decrements (and here closes) the subscription of that
// next reader, which is then released although no header of that height was published since.
// The test FAILS on the unchanged tree.
func TestF29_CancelledWaiterLeavesTheNextReadersSubscriptionAlone(t *testing.T) {
	hs := newHeightSub()
	hs.Init(10)

	ctxA, cancelA := context.WithCancel(context.Background())
	defer cancelA()
	errA := make(chan error, 1)
	go func() { errA <- hs.Wait(ctxA, 20) }()
	require.Eventually(t, func() bool {
		hs.heightSubsLk.Lock()
		defer hs.heightSubsLk.Unlock()
		_, ok := hs.heightSubs[20]
		return ok
	}, time.Second, time.Millisecond)

	hs.heightSubsLk.Lock()
	// A's context ends: A leaves the select through ctx.Done and queues for the mutex
	cancelA()
	time.Sleep(20 * time.Millisecond)
	// height 20 is published (what Notify does under the mutex)
	hs.notify(20, true)
	// the next reader of height 20 subscribes (what wait does under the mutex)
	next := &sub{signal: make(chan struct{}, 1), count: 1}
	hs.heightSubs[20] = next
	hs.heightSubsLk.Unlock()

	require.ErrorIs(t, <-errA, context.Canceled)
	select {
	case <-next.signal:
		t.Fatal("the next subscriber of height 20 was released by the cancellation of the previous one")
	default:
	}
}
