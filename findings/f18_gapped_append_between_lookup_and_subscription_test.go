package store

// Demonstration for finding F18 (property C12).
// Copy into /repo/store and run: go test ./store -run 'TestF18' -count=1
//
// F18: GetByHeight looked the header up, then subscribed for its height and waited. A header appended
//      above a gap does not advance the published height; the write loop only notifies the waiters that
//      are registered at that moment, and notifications are not kept. When the append landed between a
//      reader's (missing) lookup and its registration, the reader parked until its context ended —
//      "awaiting header 6 with head 1: context deadline exceeded" — although the header was stored.
//      "… returns the header as soon as it has been appended, no matter how the append interleaves with
//      the call (before, during or after the lookup) and whether or not the header is contiguous with Head."
//      First noticed by a bug-seeding sub-agent (fifth round) as a side remark; rule C12.a
//      `lookup-after-subscription` decides it; repaired by /repo 12ef854 (the waiting function runs a
//      final lookup once the subscription is registered).
//      Fails on /repo 21665d4, passes from 12ef854 on.

import (
	"context"
	gosync "sync"
	"sync/atomic"
	"testing"
	"time"

	"github.com/ipfs/go-datastore"
	"github.com/ipfs/go-datastore/sync"
	"github.com/stretchr/testify/require"

	"github.com/celestiaorg/go-header/headertest"
)

type f18ReaderTag struct{}

// f18GateDS holds a tagged reader right after its (missing) lookup of the watched height index key,
// until the test releases it.
type f18GateDS struct {
	datastore.Batching

	armed   atomic.Bool
	keyName string

	readerOnce gosync.Once
	readerCh   chan struct{} // closed once the reader is held at the gate
	releaseCh  chan struct{} // closed by the test to let the held reader go
}

func (g *f18GateDS) Get(ctx context.Context, key datastore.Key) ([]byte, error) {
	val, err := g.Batching.Get(ctx, key)
	if g.armed.Load() && ctx.Value(f18ReaderTag{}) != nil && key.Name() == g.keyName {
		g.readerOnce.Do(func() { close(g.readerCh) })
		select {
		case <-g.releaseCh:
		case <-time.After(5 * time.Second):
		}
	}
	return val, err
}

// A header above a gap is appended after a reader's lookup missed it and before the reader has
// subscribed for its height. The header is stored and readable; the reader has to come back with it.
func TestF18_GappedAppendBetweenLookupAndSubscription(t *testing.T) {
	ctx, cancel := context.WithTimeout(context.Background(), 10*time.Second)
	t.Cleanup(cancel)

	suite := headertest.NewTestSuite(t)
	head := suite.Head()
	_ = suite.GenDummyHeaders(4) // leave a gap above the head
	want := suite.NextHeader()

	gate := &f18GateDS{
		Batching:  sync.MutexWrap(datastore.NewMapDatastore()),
		keyName:   heightKey(want.Height()).Name(),
		readerCh:  make(chan struct{}),
		releaseCh: make(chan struct{}),
	}
	store := NewTestStore(t, ctx, gate, head, WithWriteBatchSize(100))
	gate.armed.Store(true)

	type result struct {
		h   *headertest.DummyHeader
		err error
	}
	resCh := make(chan result, 1)
	go func() {
		rctx, rcancel := context.WithTimeout(context.WithValue(ctx, f18ReaderTag{}, true), 3*time.Second)
		defer rcancel()
		h, err := store.GetByHeight(rctx, want.Height())
		resCh <- result{h, err}
	}()

	// the reader's lookup has missed and is held before it can subscribe
	select {
	case <-gate.readerCh:
	case <-time.After(2 * time.Second):
		t.Fatal("reader did not reach the index lookup")
	}

	// the header is appended and made readable (and its waiters, none yet, are notified)
	require.NoError(t, store.Append(ctx, want))
	require.NoError(t, store.Sync(ctx))
	ok, err := store.Has(ctx, want.Hash())
	require.NoError(t, err)
	require.True(t, ok, "header must be stored")

	// now the reader goes on: it subscribes for the height
	close(gate.releaseCh)

	select {
	case res := <-resCh:
		require.NoError(t, res.err, "header %d is stored, the reader must get it", want.Height())
		require.Equal(t, want.Hash(), res.h.Hash())
	case <-time.After(5 * time.Second):
		t.Fatalf("reader of height %d did not return", want.Height())
	}
}
