#!/bin/bash
# confirm_all.sh <out-dir> <Cxx/n>...   e.g. confirm_all.sh /tmp/confirm C01/1 C01/2
# Confirms seeded changes produced under /tmp/seed/out_Cxx/change<n>.{diff,_demo_test.go}
# in a scratch worktree of /repo (never in /repo itself):
#   demo passes on the clean tree; patch applies; library builds; demo fails with the
#   change; the whole existing suite (demo removed) passes with the change (up to 3 tries,
#   the suite has timing-sensitive tests that fail under machine load on the clean tree too).
# One line per step is appended to <out-dir>/<Cxx>-<n>.result.
set -u
OUT=$1; shift
mkdir -p "$OUT"
WT=/tmp/confirm_wt
for ID in "$@"; do
  P=${ID%/*}; N=${ID#*/}
  PATCH=${SEEDROOT:-/tmp/seed}/out_$P/change$N.diff
  DEMO=${SEEDROOT:-/tmp/seed}/out_$P/change${N}_demo_test.go
  R=$OUT/$P-$N.result
  : >"$R"
  [ -f "$PATCH" ] && [ -f "$DEMO" ] || { echo "missing=1" >>"$R"; continue; }
  PKG=$(grep -m1 -E '^package ' "$DEMO" | awk '{print $2}')
  case $PKG in headertest|store|sync|p2p|local) ;; header) PKG=. ;; *) PKG=$(head -1 "$DEMO" | grep -oE '(headertest|store|sync|p2p|local)/' | head -1 | tr -d /) ;; esac
  RUN="^($(grep -oE '^func (Test[A-Za-z0-9_]+)' "$DEMO" | awk '{print $2}' | paste -sd'|'))\$"
  echo "pkg=$PKG" >>"$R"; echo "run=$RUN" >>"$R"
  git -C /repo worktree remove --force $WT >/dev/null 2>&1; rm -rf $WT
  git -C /repo worktree add -q --detach $WT HEAD || { echo "worktree=FAIL" >>"$R"; continue; }
  cp "$DEMO" $WT/$PKG/zz_seed_demo_test.go
  (cd $WT && go test -count=1 -run "$RUN" ./$PKG >$OUT/$P-$N.clean.log 2>&1) && echo "demo_clean=pass" >>"$R" || echo "demo_clean=FAIL" >>"$R"
  git -C $WT apply "$PATCH" 2>>"$R" && echo "apply=ok" >>"$R" || echo "apply=FAIL" >>"$R"
  (cd $WT && go build ./... >$OUT/$P-$N.build.log 2>&1) && echo "build=ok" >>"$R" || echo "build=FAIL" >>"$R"
  (cd $WT && go vet ./$PKG >/dev/null 2>&1) && echo "vet_pkg=ok" >>"$R" || echo "vet_pkg=FAIL" >>"$R"
  (cd $WT && go test -count=1 -run "$RUN" ./$PKG >$OUT/$P-$N.changed.log 2>&1) && echo "demo_changed=PASS-unexpected" >>"$R" || echo "demo_changed=fail-as-expected" >>"$R"
  rm -f $WT/$PKG/zz_seed_demo_test.go
  S=FAIL
  for TRY in 1 2 3; do
    if (cd $WT && go test -count=1 ./... >$OUT/$P-$N.suite$TRY.log 2>&1); then S="pass(try $TRY)"; break; fi
    echo "suite_try${TRY}_failed=$(grep -E '^--- FAIL' $OUT/$P-$N.suite$TRY.log | awk '{print $3}' | paste -sd,)" >>"$R"
  done
  echo "suite=$S" >>"$R"
  git -C /repo worktree remove --force $WT >/dev/null 2>&1; rm -rf $WT
  echo "done $ID: $(grep -E '^(demo_clean|apply|build|demo_changed|suite)=' "$R" | paste -sd' ')"
done
