// Package rules holds one file per property: the obligations of DESIGN.md §5.
package rules

import (
	"fmt"
	"sort"
	"strings"

	"hdrcheck/an"
)

// Rule is the static check of one property.
type Rule struct {
	ID          string
	Explanation string   // what is decided, for the evidence file
	NotDecided  []string // clauses of the property the static check does not decide
	Assumptions []string
	Technique   string // deciding method, for MANIFEST.json
	Trusted     string // trusted base / assumptions, for MANIFEST.json (level_note)
	Run         func(c *an.Ctx)
	// Imports are clauses of other properties that this property's statement also
	// depends on; their obligations are re-evaluated and reported under this
	// property as well (id As), so a change that breaks the shared clause is
	// reported by every property whose statement it breaks.
	Imports []Import
}

// Import re-uses the obligations with id From (e.g. "C06.a") of another property's rule.
type Import struct {
	From  string // obligation id of the other rule, e.g. "C06.a"
	Match string // optional: only obligations whose key contains this
	As    string // id under which it is reported here, e.g. "C04.f"
	Why   string // why this property's statement depends on that clause
}

// Execute runs a rule and its imports into ctx.
func Execute(r *Rule, ctx *an.Ctx) {
	r.Run(ctx)
	runLockTable(r.ID, ctx)
	runErrTable(r.ID, ctx)
	runProvTable(r.ID, ctx)
	runConvSweep(r.ID, ctx)
	runCtxSweep(r.ID, ctx)
	runNilLoadSweep(r.ID, ctx)
	done := map[string]*an.Ctx{}
	for _, im := range r.Imports {
		prop := im.From
		if i := indexByte(prop, '.'); i >= 0 {
			prop = prop[:i]
		}
		other := registry[prop]
		if other == nil {
			ctx.Undecided(im.As, "import:"+im.From, "imported clause must resolve", nil, nil, "no rule "+prop)
			continue
		}
		sub := done[prop]
		if sub == nil {
			sub = an.NewCtx(ctx.P, prop, ctx.Tier)
			func() {
				defer func() {
					if e := recover(); e != nil {
						sub.Undecided(im.From, "analyser-panic", "the analyser must not panic", nil, nil, "panic in imported rule")
					}
				}()
				other.Run(sub)
			}()
			done[prop] = sub
		}
		n := 0
		for _, o := range sub.Obls {
			if o.ID != im.From || !strings.Contains(o.Key, im.Match) {
				continue
			}
			n++
			ctx.ImportObligation(o, im.As, im.Why)
		}
		ctx.Min(im.As, "obligations shared from "+im.From+" "+im.Match, n, 1)
	}
}

func indexByte(s string, b byte) int {
	for i := 0; i < len(s); i++ {
		if s[i] == b {
			return i
		}
	}
	return -1
}

var registry = map[string]*Rule{}

func register(r *Rule) { registry[r.ID] = r }

// Get returns the rule of a property or nil.
func Get(id string) *Rule { return registry[id] }

// IDs lists the registered properties.
func IDs() []string {
	var out []string
	for id := range registry {
		out = append(out, id)
	}
	sort.Strings(out)
	return out
}

// runConvSweep closes the one gap of the value model every rule shares: the terms treat integer
// conversions as the identity. In every function a rule of the property has reasoned about, a
// conversion that can change the value (unsigned→signed, narrowing) and feeds a decision must have
// its operand proven in range; sites already recorded by the property's own arithmetic clause are
// not repeated.
func runConvSweep(id string, c *an.Ctx) {
	have := map[string]bool{}
	for _, o := range c.Obls {
		for _, k := range []string{":sconv:", ":uwrap:"} {
			if i := strings.Index(o.Key, k); i >= 0 {
				have[o.Key[i:]] = true
			}
		}
	}
	for _, fn := range c.TermFuncs() {
		if fn == nil || fn.Blocks == nil {
			continue
		}
		ff := c.F(fn)
		for _, v := range an.DischargeArith(ff, nil) {
			if v.Site.Kind != "sconv" && v.Site.Kind != "uwrap" {
				continue
			}
			key := fmt.Sprintf("%s:%s:%s", v.Site.Kind, an.FuncName(fn), v.Site.Desc)
			if have[":"+an.Stable(key)] {
				continue
			}
			if v.OK {
				c.Ok(id+".conv", key, arithRule(v.Site.Kind), fn, v.Site.Instr, v.Why, nil)
			} else {
				c.Fail(id+".conv", key, arithRule(v.Site.Kind), fn, v.Site.Instr, v.Why, ff.At(v.Site.Instr.Block()))
			}
		}
	}
}
