package an

import (
	"go/token"
	"go/types"
	"sort"
	"strconv"
	"strings"

	"golang.org/x/tools/go/ssa"
)

// Atom is a normalised boolean condition over terms.
//
//	LT(a,b)   a < b        (operands in order)
//	EQ(a,b)   a == b       (operands sorted)
//	B(x)      boolean term x (calls such as IsZero(p0), errors.Is(e,S), As(e,T))
type Atom struct {
	Op   string
	A, B string
}

// Fact is an atom with polarity: Pos=false means the negation holds.
type Fact struct {
	Atom
	Pos bool
}

func (f Fact) String() string {
	s := f.Op + "(" + f.A
	if f.B != "" {
		s += "," + f.B
	}
	s += ")"
	if !f.Pos {
		return "¬" + s
	}
	return s
}

func (f Fact) Neg() Fact { f.Pos = !f.Pos; return f }

func LT(a, b string) Fact { return Fact{Atom{"LT", a, b}, true} }
func GE(a, b string) Fact { return Fact{Atom{"LT", a, b}, false} } // a >= b
func LE(a, b string) Fact { return Fact{Atom{"LT", b, a}, false} } // a <= b
func GT(a, b string) Fact { return Fact{Atom{"LT", b, a}, true} }  // a > b
func EQ(a, b string) Fact {
	if a > b {
		a, b = b, a
	}
	return Fact{Atom{"EQ", a, b}, true}
}
func NE(a, b string) Fact { return EQ(a, b).Neg() }
func B(x string) Fact     { return Fact{Atom{"B", x, ""}, true} }
func NotB(x string) Fact  { return Fact{Atom{"B", x, ""}, false} }

// FactSet is a conjunction.
type FactSet []Fact

func (fs FactSet) Has(f Fact) bool {
	for _, g := range fs {
		if g == f {
			return true
		}
	}
	return false
}

func (fs FactSet) Strings() []string {
	out := make([]string, len(fs))
	for i, f := range fs {
		out[i] = f.String()
	}
	sort.Strings(out)
	return out
}

func (fs FactSet) String() string { return "{" + strings.Join(fs.Strings(), " ∧ ") + "}" }

// Cond normalises a boolean SSA value into a fact (for its being true).
func (t *Terms) Cond(v ssa.Value) Fact {
	switch v := v.(type) {
	case *ssa.UnOp:
		if v.Op == token.NOT {
			return t.Cond(v.X).Neg()
		}
	case *ssa.BinOp:
		a, b := t.Of(v.X), t.Of(v.Y)
		// x.Compare(y) <op> 0  →  x <op> y
		if ca, cb, ok := t.compareCall(v.X); ok && b == "0" {
			a, b = ca, cb
		} else if ca, cb, ok := t.compareCall(v.Y); ok && a == "0" {
			a, b = cb, ca // 0 <op> cmp(x,y)  ≡  y <op> x
		}
		// canonical forms for non-negative x: x<1 ≡ x==0, x>0 ≡ x!=0, x>=1 ≡ x!=0, x<=0 ≡ x==0
		if nonNegValue(v.X) || nonNegValue(v.Y) {
			switch {
			case v.Op == token.LSS && b == "1" && nonNegValue(v.X), v.Op == token.LEQ && b == "0" && nonNegValue(v.X):
				return EQ(a, "0")
			case v.Op == token.GTR && b == "0" && nonNegValue(v.X), v.Op == token.GEQ && b == "1" && nonNegValue(v.X):
				return NE(a, "0")
			case v.Op == token.GTR && a == "1" && nonNegValue(v.Y), v.Op == token.GEQ && a == "0" && nonNegValue(v.Y):
				return EQ(b, "0")
			case v.Op == token.LSS && a == "0" && nonNegValue(v.Y), v.Op == token.LEQ && a == "1" && nonNegValue(v.Y):
				return NE(b, "0")
			}
		}
		switch v.Op {
		case token.LSS:
			return LT(a, b)
		case token.GTR:
			return GT(a, b)
		case token.LEQ:
			return LE(a, b)
		case token.GEQ:
			return GE(a, b)
		case token.EQL:
			return EQ(a, b)
		case token.NEQ:
			return NE(a, b)
		}
	case *ssa.Call:
		if !v.Call.IsInvoke() {
			if f := v.Call.StaticCallee(); f != nil && f.Object() != nil {
				obj := f.Object().(*types.Func)
				full := obj.FullName()
				switch full {
				case "(time.Time).Before":
					return LT(t.Of(v.Call.Args[0]), t.Of(v.Call.Args[1]))
				case "(time.Time).After":
					return GT(t.Of(v.Call.Args[0]), t.Of(v.Call.Args[1]))
				case "(time.Time).Equal":
					return EQ(t.Of(v.Call.Args[0]), t.Of(v.Call.Args[1]))
				case "errors.As":
					return B("As(" + t.Of(v.Call.Args[0]) + "," + t.asTargetType(v.Call.Args[1]) + ")")
				}
			}
		}
	case *ssa.Const:
		if v.Value != nil {
			return B("const(" + v.Value.ExactString() + ")")
		}
	}
	return B(t.Of(v))
}

// compareCall recognises time.Time.Compare(x,y) (and cmp.Compare) calls.
func (t *Terms) compareCall(v ssa.Value) (string, string, bool) {
	c, ok := v.(*ssa.Call)
	if !ok || c.Call.IsInvoke() {
		return "", "", false
	}
	f := c.Call.StaticCallee()
	if f == nil || f.Object() == nil {
		return "", "", false
	}
	switch f.Object().(*types.Func).FullName() {
	case "(time.Time).Compare":
		return t.Of(c.Call.Args[0]), t.Of(c.Call.Args[1]), true
	}
	return "", "", false
}

// asTargetType renders the pointee type of the errors.As target (any <- **T).
func (t *Terms) asTargetType(arg ssa.Value) string {
	if mi, ok := arg.(*ssa.MakeInterface); ok {
		arg = mi.X
	}
	tp := arg.Type()
	if p, ok := tp.(*types.Pointer); ok {
		tp = p.Elem()
	}
	return types.TypeString(tp, func(p *types.Package) string { return p.Name() })
}

// AsTarget returns the alloc that an errors.As call writes to.
func AsTarget(c *ssa.Call) *ssa.Alloc {
	if len(c.Call.Args) != 2 {
		return nil
	}
	arg := c.Call.Args[1]
	if mi, ok := arg.(*ssa.MakeInterface); ok {
		arg = mi.X
	}
	a, _ := arg.(*ssa.Alloc)
	return a
}

// ---------------------------------------------------------------------------
// dominance facts

// FuncFacts computes guard facts per block of one function.
type FuncFacts struct {
	T  *Terms
	Fn *ssa.Function
	// Removed edges (assumption pruning): key "from->to" block indices.
	removed map[[2]int]bool
	idom    map[*ssa.BasicBlock]*ssa.BasicBlock
	reach   map[*ssa.BasicBlock]bool
	memo    map[*ssa.BasicBlock]FactSet

	phiIneqs []*Affine

	loop, loopKnown bool

	// Assume holds function-wide facts supplied by a rule (caller context proven at every call site).
	Assume FactSet
	// Implications are conditional facts supplied by a rule (established callee postconditions).
	Implications []Implication
}

// NewFuncFacts analyses fn with no pruning.
func NewFuncFacts(t *Terms) *FuncFacts {
	ff := &FuncFacts{T: t, Fn: t.Fn, removed: map[[2]int]bool{}}
	ff.recompute()
	ff.foldDecided()
	return ff
}

// doneErrNonNil applies the contract of context.Context: once a receive from ctx.Done() has
// succeeded, ctx.Err() is non-nil. cond is `x != nil` / `x == nil` with x = ctx.Err() evaluated
// where the facts say that a select took its `<-ctx.Done()` case for the same ctx. It returns
// +1 when cond is known true, -1 when known false, 0 otherwise.
func (ff *FuncFacts) doneErrNonNil(cond ssa.Value, fs FactSet) int {
	bo, ok := cond.(*ssa.BinOp)
	if !ok || (bo.Op != token.NEQ && bo.Op != token.EQL) {
		return 0
	}
	var x ssa.Value
	switch {
	case isNilConst(bo.Y):
		x = bo.X
	case isNilConst(bo.X):
		x = bo.Y
	default:
		return 0
	}
	if d := ff.T.Deref(x); d != nil {
		x = d // a local that holds the value (the caller's `err` variable)
	}
	call, ok := x.(*ssa.Call)
	if !ok || !call.Call.IsInvoke() || call.Call.Method.Name() != "Err" || call.Call.Method.Pkg() == nil || call.Call.Method.Pkg().Path() != "context" {
		return 0
	}
	recv := ff.T.Of(call.Call.Value)
	known := false
	Instrs(ff.Fn, func(in ssa.Instruction) {
		sel, isSel := in.(*ssa.Select)
		if !isSel || known {
			return
		}
		for k, st := range sel.States {
			if st.Send != nil {
				continue
			}
			dc, isCall := st.Chan.(*ssa.Call)
			if !isCall || !dc.Call.IsInvoke() || dc.Call.Method.Name() != "Done" || ff.T.Of(dc.Call.Value) != recv {
				continue
			}
			if fs.Has(EQ(ff.T.Of(sel)+"#0", strconv.Itoa(k))) {
				known = true
			}
		}
	})
	if !known {
		return 0
	}
	if bo.Op == token.NEQ {
		return 1
	}
	return -1
}

// DeadEdges returns the edges the analysis found infeasible.
func (ff *FuncFacts) DeadEdges() map[[2]int]bool {
	out := map[[2]int]bool{}
	for k, v := range ff.removed {
		if v {
			out[k] = true
		}
	}
	return out
}

// foldDecided removes the edges of tests that are already decided by the facts dominating
// them: a repeated `if err != nil` below a branch on which err != nil holds has only one
// feasible way out (re-tested conditions appear when a helper's error return is spliced in front
// of the caller's own check, and in hand-written code that re-tests after logging).
func (ff *FuncFacts) foldDecided() {
	for round := 0; round < 4; round++ {
		changed := false
		for _, b := range ff.Fn.Blocks {
			if !ff.reach[b] {
				continue
			}
			iff, ok := lastInstr(b).(*ssa.If)
			if !ok {
				continue
			}
			c := ff.T.Cond(iff.Cond)
			fs := ff.At(b)
			var kill *ssa.BasicBlock
			switch {
			case fs.Has(c):
				kill = b.Succs[1]
			case fs.Has(c.Neg()):
				kill = b.Succs[0]
			case ff.doneErrNonNil(iff.Cond, fs) == 1:
				kill = b.Succs[1]
			case ff.doneErrNonNil(iff.Cond, fs) == -1:
				kill = b.Succs[0]
			default:
				continue
			}
			key := [2]int{b.Index, kill.Index}
			if !ff.removed[key] {
				ff.removed[key] = true
				changed = true
			}
		}
		if !changed {
			return
		}
		ff.recompute()
	}
}

// Prune returns a copy of the analysis in which every if-edge whose fact equals
// `assume.Neg()` is removed, i.e. the analysis under the assumption `assume`.
func (ff *FuncFacts) Prune(assume ...Fact) *FuncFacts {
	n := &FuncFacts{T: ff.T, Fn: ff.Fn, removed: map[[2]int]bool{}, Assume: ff.Assume, Implications: ff.Implications}
	for k, v := range ff.removed {
		n.removed[k] = v
	}
	for _, b := range ff.Fn.Blocks {
		iff, ok := lastInstr(b).(*ssa.If)
		if !ok {
			continue
		}
		c := ff.T.Cond(iff.Cond)
		// arithmetic implication: the assumptions decide an integer comparison
		if c.Op == "LT" && len(assume) > 0 {
			known := ff.T.ineqs(FactSet(assume))
			x, y := ff.T.affOfTerm(c.A), ff.T.affOfTerm(c.B)
			lt := y.Sub(x)
			lt.C--         // y - x - 1 >= 0  ⇔ x < y
			ge := x.Sub(y) // x - y >= 0      ⇔ ¬(x < y)
			holds, fails := proveGE0(lt, known, 3), proveGE0(ge, known, 3)
			if !c.Pos {
				holds, fails = fails, holds
			}
			if holds && !fails {
				n.removed[[2]int{b.Index, b.Succs[1].Index}] = true
			}
			if fails && !holds {
				n.removed[[2]int{b.Index, b.Succs[0].Index}] = true
			}
		}
		if c.Op == "EQ" && len(assume) > 0 && c.A != "nil" && c.B != "nil" && !strings.HasPrefix(c.A, "const(") && !strings.HasPrefix(c.B, "const(") {
			known := ff.T.ineqs(FactSet(assume))
			x, y := ff.T.affOfTerm(c.A), ff.T.affOfTerm(c.B)
			lt := y.Sub(x)
			lt.C--
			gt := x.Sub(y)
			gt.C--
			if len(known) > 0 && (proveGE0(lt, known, 3) || proveGE0(gt, known, 3)) { // x≠y
				if c.Pos {
					n.removed[[2]int{b.Index, b.Succs[0].Index}] = true
				} else {
					n.removed[[2]int{b.Index, b.Succs[1].Index}] = true
				}
			}
		}
		for _, a := range assume {
			if c == a { // condition known true → false edge impossible
				n.removed[[2]int{b.Index, b.Succs[1].Index}] = true
			}
			if c == a.Neg() { // condition known false → true edge impossible
				n.removed[[2]int{b.Index, b.Succs[0].Index}] = true
			}
			// x == k1 assumed ⇒ a test x == k2 (k1 ≠ k2 constants) is false
			if a.Op == "EQ" && a.Pos && c.Op == "EQ" {
				if x1, k1, ok1 := eqConst(a.Atom); ok1 {
					if x2, k2, ok2 := eqConst(c.Atom); ok2 && x1 == x2 && k1 != k2 {
						if c.Pos {
							n.removed[[2]int{b.Index, b.Succs[0].Index}] = true
						} else {
							n.removed[[2]int{b.Index, b.Succs[1].Index}] = true
						}
					}
				}
			}
		}
	}
	n.recompute()
	// fold tests of a phi against nil once the pruning has left only nil (or
	// only never-nil) incoming values: `if idxErr… {err = nil}; if err != nil`.
	for round := 0; round < 4; round++ {
		changed := false
		for _, b := range ff.Fn.Blocks {
			if !n.reach[b] {
				continue
			}
			iff, ok := lastInstr(b).(*ssa.If)
			if !ok {
				continue
			}
			bo, ok := iff.Cond.(*ssa.BinOp)
			if !ok || (bo.Op != token.EQL && bo.Op != token.NEQ) {
				continue
			}
			var ph *ssa.Phi
			if p, ok := bo.X.(*ssa.Phi); ok && isNilConst(bo.Y) {
				ph = p
			} else if p, ok := bo.Y.(*ssa.Phi); ok && isNilConst(bo.X) {
				ph = p
			}
			if ph == nil {
				continue
			}
			allNil, allNonNil, any := true, true, false
			for i, e := range ph.Edges {
				pred := ph.Block().Preds[i]
				if !n.reach[pred] || n.removed[[2]int{pred.Index, ph.Block().Index}] {
					continue
				}
				any = true
				if !isNilConst(e) {
					allNil = false
				}
				if !neverNil(e) {
					allNonNil = false
				}
			}
			if !any || allNil == allNonNil {
				continue
			}
			isNil := allNil
			condTrue := isNil == (bo.Op == token.EQL)
			kill := b.Succs[1]
			if !condTrue {
				kill = b.Succs[0]
			}
			key := [2]int{b.Index, kill.Index}
			if !n.removed[key] {
				n.removed[key] = true
				changed = true
			}
		}
		if !changed {
			break
		}
		n.recompute()
	}
	n.foldDecided()
	return n
}

func isNilConst(v ssa.Value) bool {
	c, ok := v.(*ssa.Const)
	return ok && c.Value == nil
}

func lastInstr(b *ssa.BasicBlock) ssa.Instruction {
	if len(b.Instrs) == 0 {
		return nil
	}
	return b.Instrs[len(b.Instrs)-1]
}

func (ff *FuncFacts) succs(b *ssa.BasicBlock) []*ssa.BasicBlock {
	var out []*ssa.BasicBlock
	for _, s := range b.Succs {
		if !ff.removed[[2]int{b.Index, s.Index}] {
			out = append(out, s)
		}
	}
	return out
}

func (ff *FuncFacts) preds(b *ssa.BasicBlock) []*ssa.BasicBlock {
	var out []*ssa.BasicBlock
	for _, p := range b.Preds {
		if ff.reach[p] && !ff.removed[[2]int{p.Index, b.Index}] {
			out = append(out, p)
		}
	}
	return out
}

// recompute builds reachability and immediate dominators on the pruned CFG
// (simple iterative algorithm; the functions are small).
func (ff *FuncFacts) recompute() {
	ff.memo = map[*ssa.BasicBlock]FactSet{}
	ff.reach = map[*ssa.BasicBlock]bool{}
	if len(ff.Fn.Blocks) == 0 {
		return
	}
	entry := ff.Fn.Blocks[0]
	var order []*ssa.BasicBlock
	var dfs func(b *ssa.BasicBlock)
	dfs = func(b *ssa.BasicBlock) {
		if ff.reach[b] {
			return
		}
		ff.reach[b] = true
		for _, s := range ff.succs(b) {
			dfs(s)
		}
		order = append(order, b)
	}
	dfs(entry)
	// reverse postorder
	for i, j := 0, len(order)-1; i < j; i, j = i+1, j-1 {
		order[i], order[j] = order[j], order[i]
	}
	rpo := map[*ssa.BasicBlock]int{}
	for i, b := range order {
		rpo[b] = i
	}
	idom := map[*ssa.BasicBlock]*ssa.BasicBlock{entry: entry}
	intersect := func(a, b *ssa.BasicBlock) *ssa.BasicBlock {
		for a != b {
			for rpo[a] > rpo[b] {
				a = idom[a]
			}
			for rpo[b] > rpo[a] {
				b = idom[b]
			}
		}
		return a
	}
	for changed := true; changed; {
		changed = false
		for _, b := range order[1:] {
			var nd *ssa.BasicBlock
			for _, p := range ff.preds(b) {
				if idom[p] == nil {
					continue
				}
				if nd == nil {
					nd = p
				} else {
					nd = intersect(p, nd)
				}
			}
			if nd != nil && idom[b] != nd {
				idom[b] = nd
				changed = true
			}
		}
	}
	ff.idom = idom
}

// Reachable reports whether b is reachable under the current pruning.
func (ff *FuncFacts) Reachable(b *ssa.BasicBlock) bool { return ff.reach[b] }

// Dominates reports a dom b (reflexive) on the pruned CFG.
func (ff *FuncFacts) Dominates(a, b *ssa.BasicBlock) bool {
	if !ff.reach[a] || !ff.reach[b] {
		return false
	}
	for {
		if a == b {
			return true
		}
		nb := ff.idom[b]
		if nb == nil || nb == b {
			return false
		}
		b = nb
	}
}

// At returns the conjunction of branch facts that hold on every path reaching b.
func (ff *FuncFacts) At(b *ssa.BasicBlock) FactSet {
	if fs, ok := ff.memo[b]; ok {
		return fs
	}
	var fs FactSet
	if !ff.reach[b] {
		ff.memo[b] = nil
		return nil
	}
	seen := map[Fact]bool{}
	add := func(f Fact) {
		if !seen[f] {
			seen[f] = true
			fs = append(fs, f)
		}
	}
	// walk up the dominator tree; for each dominator D ending in `if`, decide
	// whether one of its out-edges dominates b.
	for d := b; ; {
		nd := ff.idom[d]
		if nd == nil || nd == d {
			break
		}
		d = nd
		iff, ok := lastInstr(d).(*ssa.If)
		if !ok {
			continue
		}
		succs := d.Succs
		tOK := !ff.removed[[2]int{d.Index, succs[0].Index}] && ff.edgeDominates(d, succs[0], b)
		fOK := !ff.removed[[2]int{d.Index, succs[1].Index}] && ff.edgeDominates(d, succs[1], b)
		if succs[0] == succs[1] {
			continue
		}
		c := ff.T.Cond(iff.Cond)
		switch {
		case tOK && !fOK:
			add(c)
		case fOK && !tOK:
			add(c.Neg())
		case ff.removed[[2]int{d.Index, succs[1].Index}] && ff.reach[succs[0]]:
			// the false edge was pruned by assumption: the condition holds
			add(c)
		case ff.removed[[2]int{d.Index, succs[0].Index}] && ff.reach[succs[1]]:
			add(c.Neg())
		}
	}
	ff.memo[b] = fs
	return fs
}

// edgeDominates: every path from entry to b passes the edge d→s.
func (ff *FuncFacts) edgeDominates(d, s, b *ssa.BasicBlock) bool {
	if !ff.Dominates(s, b) {
		return false
	}
	for _, p := range ff.preds(s) {
		if p == d {
			continue
		}
		if !ff.Dominates(s, p) { // another way into s that is not a back edge
			return false
		}
	}
	// d→s counts once even when both successors are s (handled by caller)
	return true
}

// AtInstr is At(block of instr).
// AtInstr returns the facts that hold at i: the dominance facts of its block, refined by the
// boolean-phi (`a && b` evaluated as a value) and error-phi idioms (AtRefined).
func (ff *FuncFacts) AtInstr(i ssa.Instruction) FactSet { return ff.AtRefined(i.Block()) }

// EdgeFacts returns the facts holding when control passes from pred to succ
// (facts at pred plus the branch taken).
func (ff *FuncFacts) EdgeFacts(pred, succ *ssa.BasicBlock) FactSet {
	fs := append(FactSet{}, ff.At(pred)...)
	if iff, ok := lastInstr(pred).(*ssa.If); ok && pred.Succs[0] != pred.Succs[1] {
		c := ff.T.Cond(iff.Cond)
		if pred.Succs[0] == succ {
			fs = append(fs, c)
		} else if pred.Succs[1] == succ {
			fs = append(fs, c.Neg())
		}
	}
	return fs
}

// Returns lists the return instructions reachable under the pruning.
func (ff *FuncFacts) Returns() []*ssa.Return {
	var out []*ssa.Return
	for _, b := range ff.Fn.Blocks {
		if !ff.reach[b] {
			continue
		}
		if r, ok := lastInstr(b).(*ssa.Return); ok {
			out = append(out, r)
		}
	}
	return out
}

// nonNegValue: the value is unsigned or a len/cap result (possibly converted).
func nonNegValue(v ssa.Value) bool {
	if isUnsigned(v.Type()) {
		return true
	}
	switch x := v.(type) {
	case *ssa.Call:
		if b, ok := x.Call.Value.(*ssa.Builtin); ok && (b.Name() == "len" || b.Name() == "cap") {
			return true
		}
	case *ssa.Convert:
		return nonNegValue(x.X)
	}
	return false
}
