package main

import (
	"fmt"
	"os"
	"sort"
	"strings"

	"hdrcheck/an"
	"hdrcheck/rules"
	"hdrcheck/selftest"
)

// describe prints the per-property section of DESIGN.md from the rule registry
// and from a live run on the repository, so that the document cannot drift from
// what the checker does.
func describe(repo string) int {
	p, err := an.LoadNormalized(repo, nil, false)
	if err != nil {
		fmt.Fprintln(os.Stderr, "LOAD ERROR:", err)
		return 2
	}
	for _, id := range rules.IDs() {
		r := rules.Get(id)
		ctx := an.NewCtx(p, id, "describe")
		func() {
			defer func() { recover() }()
			rules.Execute(r, ctx)
		}()
		fmt.Printf("### %s\n\n", id)
		fmt.Printf("**Decides.** %s\n\n", r.Explanation)
		fmt.Printf("**Technique.** %s.\n\n", r.Technique)
		if len(r.NotDecided) > 0 {
			fmt.Printf("**Not decided (runtime quantities, stated honestly).** %s.\n\n", strings.Join(r.NotDecided, "; "))
		}
		fmt.Printf("**Trusted base.** %s.\n\n", r.Trusted)
		if len(r.Imports) > 0 {
			fmt.Printf("**Clauses shared with other properties** (re-evaluated and reported under this property as well, because its statement depends on them):\n\n")
			for _, im := range r.Imports {
				m := ""
				if im.Match != "" {
					m = " (`" + im.Match + "`)"
				}
				fmt.Printf("* `%s` ← `%s`%s: %s\n", im.As, im.From, m, im.Why)
			}
			fmt.Println()
		}
		// obligations by id
		type agg struct {
			n     int
			rules map[string]bool
		}
		by := map[string]*agg{}
		bad := 0
		for _, o := range ctx.Obls {
			a := by[o.ID]
			if a == nil {
				a = &agg{rules: map[string]bool{}}
				by[o.ID] = a
			}
			a.n++
			a.rules[o.Rule] = true
			if o.Status != an.Discharged {
				bad++
			}
		}
		var ids []string
		for k := range by {
			ids = append(ids, k)
		}
		sort.Strings(ids)
		fmt.Printf("**Obligations on the current tree:** %d (%d not discharged).\n\n", len(ctx.Obls), bad)
		for _, k := range ids {
			var rs []string
			for r := range by[k].rules {
				rs = append(rs, r)
			}
			sort.Strings(rs)
			fmt.Printf("* `%s` — %d instance(s):\n", k, by[k].n)
			for _, r := range rs {
				fmt.Printf("  * %s\n", r)
			}
		}
		vs := selftest.For(id)
		nb, ng := 0, 0
		var names []string
		for _, v := range vs {
			if v.Expect == "" {
				ng++
				names = append(names, v.Name+" (benign → silent)")
			} else {
				nb++
				names = append(names, v.Name+" → "+v.Expect)
			}
		}
		fmt.Printf("\n**Self-test variants:** %d broken (must be reported under the named obligation), %d benign (must stay silent): %s.\n\n", nb, ng, strings.Join(names, "; "))
	}
	return 0
}
