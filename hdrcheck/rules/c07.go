package rules

import (
	"strings"

	"golang.org/x/tools/go/ssa"

	"hdrcheck/an"
)

func init() {
	register(&Rule{
		ID: "C07",
		Explanation: "Liveness cannot be decided statically; the necessary structural conditions are decided: (a) no lost wake-up: every addition to the pending ranges is followed by the non-blocking trigger send on a channel created with capacity ≥ 1, and the sync loop leaves only through its context; " +
			"(b) progress of the range-request loop: its condition is from.Height() < to, the request is for min(to−from.Height(), MaxRangeRequestSize) headers up to from.Height()+size+1, and on every way back the loop-carried `from` becomes the last element of a result that was checked non-empty and first-adjacent; " +
			"(c) nothing partial is lost: pending headers are removed only after their Append succeeded and the loop continues from their last element; the remaining gap is always requested; (d) doSync records the error of a failed attempt and clears it on success, under stateLk; " +
			"(e) the pending-range arithmetic cannot wrap and ranges are never adjacent (which bounds the slice taken from a range).",
		NotDecided: []string{
			"that the store head actually reaches the target, that SyncWait returns, burst arrival patterns and virtual time: behaviour over schedules and getter answers",
		},
		Technique: "must-follow pairing (add → trigger), loop-carried value structure of the request loop, dominance facts, arithmetic obligations with a named structural invariant for range slicing",
		Trusted:   "go/types+go/ssa; C03 for what the checked getter contract gives",
		Run:       runC07,
	})
}

func runC07(c *an.Ctx) {
	p := c.P
	setLocal := p.Method("sync", "Syncer", "setLocalHead")
	wantSync := p.Method("sync", "Syncer", "wantSync")
	syncLoop := p.Method("sync", "Syncer", "syncLoop")
	newSyncer := p.Func("sync", "NewSyncer")
	reqHeaders := p.Method("sync", "Syncer", "requestHeaders")
	procHeaders := p.Method("sync", "Syncer", "processHeaders")
	doSync := p.Method("sync", "Syncer", "doSync")
	syncFn := p.Method("sync", "Syncer", "sync")
	rangesAdd := p.Method("sync", "ranges", "Add")
	rangeAmount := p.Method("sync", "headerRange", "rangeAmount")
	ssAppend := p.Method("sync", "syncStore", "Append")
	ok := true
	for name, f := range map[string]*ssa.Function{"sync.(*Syncer).setLocalHead": setLocal, "sync.(*Syncer).wantSync": wantSync, "sync.(*Syncer).syncLoop": syncLoop,
		"sync.NewSyncer": newSyncer, "sync.(*Syncer).requestHeaders": reqHeaders, "sync.(*Syncer).processHeaders": procHeaders, "sync.(*Syncer).doSync": doSync,
		"sync.(*Syncer).sync": syncFn, "sync.(*ranges).Add": rangesAdd, "sync.(*headerRange).rangeAmount": rangeAmount, "sync.(*syncStore).Append": ssAppend} {
		ok = c.Need(f, "C07.a", name) && ok
	}
	if !ok {
		return
	}

	// --- C07.a no lost wake-up
	{
		for _, ac := range callsTo(setLocal, rangesAdd) {
			okF, bad := (an.Flow{Fn: setLocal}).MustFollow(ac, an.IsCallTo(wantSync), nil)
			c.Check(okF, "C07.a", "add-then-trigger", "every new sync target added to the pending ranges is followed by a sync trigger", setLocal, ac, strOf(bad), nil)
		}
		c.Min("C07.a", "pending additions in the setter", len(callsTo(setLocal, rangesAdd)), 1)
		wt := c.T(wantSync)
		okSel := false
		an.Instrs(wantSync, func(in ssa.Instruction) {
			if sel, isSel := in.(*ssa.Select); isSel && !sel.Blocking {
				for _, st := range sel.States {
					if st.Send != nil && isRecvField(wt, st.Chan, "triggerSync") {
						okSel = true
					}
				}
			}
		})
		c.Check(okSel, "C07.a", "non-blocking-trigger", "the trigger is a non-blocking send on the trigger channel (a pending trigger is enough)", wantSync, nil, "", nil)
		nt := c.T(newSyncer)
		okCap := false
		an.Instrs(newSyncer, func(in ssa.Instruction) {
			st, isSt := in.(*ssa.Store)
			if !isSt {
				return
			}
			if fa, isFA := st.Addr.(*ssa.FieldAddr); isFA && fieldName(fa) == "triggerSync" {
				if mc, isMC := st.Val.(*ssa.MakeChan); isMC {
					if k := nt.Of(mc.Size); k != "0" && isDigits(k) {
						okCap = true
					}
				}
			}
		})
		c.Check(okCap, "C07.a", "trigger-buffered", "the trigger channel is created with a constant capacity ≥ 1 (a trigger sent while a sync runs is not lost)", newSyncer, nil, "", nil)
		lt, lf := c.T(syncLoop), c.F(syncLoop)
		okLoop := false
		var sel *ssa.Select
		an.Instrs(syncLoop, func(in ssa.Instruction) {
			if s, isSel := in.(*ssa.Select); isSel {
				sel = s
			}
		})
		if sel != nil {
			trigIdx, ctxIdx := -1, -1
			for i, st := range sel.States {
				if st.Send == nil && isRecvField(lt, st.Chan, "triggerSync") {
					trigIdx = i
				}
				if call, isCall := st.Chan.(*ssa.Call); isCall && call.Call.IsInvoke() && call.Call.Method.Name() == "Done" {
					ctxIdx = i
				}
			}
			okLoop = trigIdx >= 0 && ctxIdx >= 0
			for _, r := range lf.Returns() {
				okLoop = okLoop && lf.AtInstr(r).Has(an.EQ(lt.Of(sel)+"#0", itoa(ctxIdx)))
			}
			// the trigger case calls sync
			okCall := false
			for _, sc := range callsTo(syncLoop, syncFn) {
				if lf.AtInstr(sc).Has(an.EQ(lt.Of(sel)+"#0", itoa(trigIdx))) {
					okCall = true
				}
			}
			okLoop = okLoop && okCall
		}
		c.Check(okLoop, "C07.a", "loop-serves-triggers", "the sync loop runs a sync for every trigger and exits only when its context is done", syncLoop, nil, "", nil)
	}

	// --- C07.b progress of the request loop
	{
		t, ff := c.T(reqHeaders), c.F(reqHeaders)
		var gc *ssa.Call
		an.Instrs(reqHeaders, func(in ssa.Instruction) {
			if call, isCall := in.(*ssa.Call); isCall && call.Call.IsInvoke() && call.Call.Method.Name() == "GetRangeByHeight" {
				gc = call
			}
		})
		if gc == nil {
			c.Undecided("C07.b", "range-request", "requestHeaders asks the getter for ranges", reqHeaders, nil, "no GetRangeByHeight call")
		} else {
			fromPhi, isPhi := gc.Call.Args[1].(*ssa.Phi)
			if c.Check(isPhi, "C07.b", "loop-carried-from", "the range request starts from the loop-carried header", reqHeaders, gc, "", nil) {
				fH := "Height(" + t.Of(fromPhi) + ")"
				res := t.Of(gc) + "#0"
				fs := ff.AtInstr(gc)
				c.Check(fs.Has(an.LT(fH, "p3")), "C07.b", "loop-condition", "a range is requested only while from.Height() < to", reqHeaders, gc, "", fs)
				// reqTo = from.Height() + size + 1 with size = min(to - from.Height(), Max)
				reqTo := gc.Call.Args[2]
				size := t.Affine(reqTo).Sub(t.Affine(fromPhiHeight(t, reqHeaders, fromPhi))).Sub(an.Const(1))
				okSize := false
				sz := size.String()
				if ph := phiNamed(reqHeaders, t, sz); ph != nil {
					okSize = true
					for _, pe := range ff.PhiOperands(ph) {
						v := t.Of(pe.Val)
						switch v {
						case "64":
							okSize = okSize && pe.Facts.Has(an.GE("(-"+fH+"+p3)", "64"))
						case "(-" + fH + "+p3)":
							okSize = okSize && pe.Facts.Has(an.LT("(-"+fH+"+p3)", "64"))
						default:
							okSize = false
						}
					}
				} else if strings.HasPrefix(sz, "min(") {
					okSize = strings.Contains(sz, "(-"+fH+"+p3)") && strings.Contains(sz, "64")
				}
				c.Check(okSize, "C07.b", "request-size", "each request asks for min(to − from.Height(), MaxRangeRequestSize) headers, i.e. up to from.Height()+size+1", reqHeaders, gc, "size = "+sz, nil)
				// back edge: from := headers[len-1] of the checked result
				okBack := true
				nBack := 0
				for _, pe := range ff.PhiOperands(fromPhi) {
					if !ff.Dominates(fromPhi.Block(), pe.Pred) {
						okBack = okBack && t.Of(pe.Val) == "p2"
						continue
					}
					nBack++
					okBack = okBack && t.Of(pe.Val) == res+"[(len("+res+")-1)]" &&
						pe.Facts.Has(an.EQ(t.Of(gc)+"#1", "nil")) && pe.Facts.Has(an.NE("len("+res+")", "0")) && pe.Facts.Has(an.EQ("Height("+res+"[0])", "("+fH+"+1)"))
					// and the result was stored
					stored := false
					for _, ac := range callsTo(reqHeaders, ssAppend) {
						if pe.Facts.Has(an.EQ(t.Of(ac), "nil")) {
							stored = true
						}
					}
					okBack = okBack && stored
				}
				c.Check(okBack && nBack >= 1, "C07.b", "advance-to-last-received", "on every way back the loop continues from the last header of a stored, non-empty, first-adjacent result (so each round advances at least one height)", reqHeaders, fromPhi, "", nil)
				// every failure leaves with an error, success only at loop exit
				for _, r := range ff.Returns() {
					if t.ErrShape(errResult(r)) == "nil" {
						c.Check(ff.AtInstr(r).Has(an.GE(fH, "p3")), "C07.b", "done-only-at-target", "requestHeaders returns nil only when the loop-carried header has reached the target height", reqHeaders, r, "", ff.AtInstr(r))
					}
				}
			}
		}
		n := checkArith(c, "C07.b", []*ssa.Function{reqHeaders}, map[string]bool{"usub": true, "index": true, "slice": true}, nil, nil)
		c.Min("C07.b", "arithmetic/index sites in requestHeaders", n, 3)
	}

	// --- C07.c nothing partial is lost
	{
		t, ff := c.T(procHeaders), c.F(procHeaders)
		var rm *ssa.Call
		an.Instrs(procHeaders, func(in ssa.Instruction) {
			if call, isCall := in.(*ssa.Call); isCall {
				if cal := an.StaticCallee(&call.Call); cal != nil && an.FuncName(cal) == "sync.(*headerRange).Remove" {
					rm = call
				}
			}
		})
		acs := callsTo(procHeaders, ssAppend)
		if c.Check(rm != nil && len(acs) == 1, "C07.c", "append-and-remove", "processHeaders appends cached headers and removes them from the pending range", procHeaders, nil, "", nil) {
			fs := ff.AtInstr(rm)
			c.Check(fs.Has(an.EQ(t.Of(acs[0]), "nil")) && t.Of(rm.Call.Args[1]) == "p3", "C07.c", "remove-after-append", "cached headers are dropped from the pending range only after they were stored successfully", procHeaders, rm, "", fs)
		}
		// the final request always covers the rest, from the loop-carried header
		rcs := callsTo(procHeaders, reqHeaders)
		c.Min("C07.c", "range requests in processHeaders", len(rcs), 2)
		okTail := false
		for _, r := range ff.Returns() {
			if t.ErrShape(errResult(r)) == "nil" {
				c.Fail("C07.c", "rest-requested", "processHeaders never reports success without having requested the rest up to the target", procHeaders, r, "plain nil return", ff.AtInstr(r))
			}
			if ex := t.Deref(errResult(r)); ex != nil {
				if call, isCall := ex.(*ssa.Call); isCall && an.StaticCallee(&call.Call) == reqHeaders && t.Of(call.Call.Args[3]) == "p3" {
					if _, isPhi := call.Call.Args[2].(*ssa.Phi); isPhi {
						okTail = true
					}
				}
			}
		}
		c.Check(okTail, "C07.c", "rest-requested", "after the cached ranges are applied the rest up to the target is always requested, from the last applied header", procHeaders, nil, "", nil)
		// gap in front of a cached range is requested before it is applied
		if len(acs) == 1 {
			gapOK := false
			for _, rc := range rcs {
				if (an.Flow{Fn: procHeaders}).CanReach(rc, acs[0]) && strings.Contains(t.Of(rc.Call.Args[3]), "[0])-1") {
					fsr := ff.AtInstr(rc)
					for _, f := range fsr {
						if f.Op == "EQ" && !f.Pos && strings.Contains(f.A+f.B, "[0])") && strings.Contains(f.A+f.B, "+1)") {
							gapOK = true
						}
					}
				}
			}
			c.Check(gapOK, "C07.c", "gap-filled-first", "when the cached range is not adjacent to the last applied header the gap up to its first header is requested first", procHeaders, nil, "", nil)
		}
	}

	// --- C07.d state error recorded and cleared
	{
		t, ff := c.T(doSync), c.F(doSync)
		lk, ul := mutexOp(t, "stateLk", "Lock"), mutexOp(t, "stateLk", "Unlock")
		pcs := callsTo(doSync, procHeaders)
		if c.Check(len(pcs) == 1, "C07.d", "runs-process", "doSync runs processHeaders once", doSync, nil, "", nil) {
			pErr := t.Of(pcs[0])
			nSet, nClr := 0, 0
			an.Instrs(doSync, func(in ssa.Instruction) {
				st, isSt := in.(*ssa.Store)
				if !isSt {
					return
				}
				fa, isFA := st.Addr.(*ssa.FieldAddr)
				if !isFA || fieldName(fa) != "Error" {
					return
				}
				fs := ff.AtInstr(st)
				held := an.LockHeld(doSync, lk, ul, st, nil)
				v := t.Of(st.Val)
				switch {
				case v == `const("")`:
					nClr++
					c.Check(held && fs.Has(an.EQ(pErr, "nil")), "C07.d", "error-cleared", "a successful sync clears the recorded error, under stateLk", doSync, st, "", fs)
				default:
					nSet++
					c.Check(held && fs.Has(an.NE(pErr, "nil")) && strings.HasPrefix(v, "invoke:Error@"), "C07.d", "error-recorded", "a failed sync records its error text, under stateLk", doSync, st, "", fs)
				}
			})
			c.Check(nSet >= 1 && nClr >= 1, "C07.d", "both-outcomes", "doSync writes State.Error on both outcomes", doSync, nil, "", nil)
			for _, r := range ff.Returns() {
				c.Check(t.ErrShape(errResult(r)) == "prop("+pErr+")", "C07.d", "returns-process-error", "doSync returns the outcome of processHeaders", doSync, r, t.ErrShape(errResult(r)), nil)
			}
		}
	}

	// --- C07.e pending-range arithmetic
	{
		t := c.T(rangesAdd)
		ff := c.F(rangesAdd)
		// ranges are never adjacent: a new range is started only when h.Height() != head.Height()+1
		okNA := false
		an.Instrs(rangesAdd, func(in ssa.Instruction) {
			call, isCall := in.(*ssa.Call)
			if !isCall {
				return
			}
			if cal := an.StaticCallee(&call.Call); cal != nil && an.FuncName(cal) == "sync.newRange" {
				pr := ff.Prune(an.NotB("IsZero("+headTermOf(t, rangesAdd)+")"), an.EQ("Height(p1)", "(Height("+headTermOf(t, rangesAdd)+")+1)"))
				okNA = !pr.Reachable(call.Block())
			}
		})
		c.Check(okNA, "C07.e", "ranges-non-adjacent", "a header adjacent to the last pending range extends it; a new range is started only across a gap (ranges are never adjacent)", rangesAdd, nil, "", nil)
		// ranges stay strictly increasing: a header at or below the pending head is neither appended nor starts a range
		// (a duplicate range [..K],[K] can never be stored and blocks the pending queue for good)
		{
			hd := headTermOf(t, rangesAdd)
			pr := ff.Prune(an.NotB("IsZero("+hd+")"), an.GE("Height("+hd+")", "Height(p1)"))
			nMut := 0
			an.Instrs(rangesAdd, func(in ssa.Instruction) {
				call, isCall := in.(*ssa.Call)
				if !isCall {
					return
				}
				cal := an.StaticCallee(&call.Call)
				if cal == nil || (an.FuncName(cal) != "sync.newRange" && an.FuncName(cal) != "sync.(*headerRange).Append") {
					return
				}
				nMut++
				c.Check(!pr.Reachable(call.Block()), "C07.e", "ranges-strictly-increasing:"+an.FuncName(cal), "a header whose height is at or below the pending head is dropped: it neither extends the last range nor starts a new one", rangesAdd, call, "", ff.AtRefined(call.Block()))
			})
			c.Min("C07.e", "mutations of the pending ranges in Add", nMut, 2)
		}
		n := checkArith(c, "C07.e", []*ssa.Function{rangeAmount, p.Method("sync", "headerRange", "Get"), p.Method("sync", "headerRange", "Remove")}, map[string]bool{"usub": true, "index": true, "slice": true}, nil, []arithException{
			{Func: "sync.(*headerRange).Get", Match: "[:", Reason: "rangeAmount(end) ≤ len(headers): it returns len, or end−start+1 when start+len ≥ end; start+len == end (which would give len+1) needs a range ending exactly at end−1 while `end` is the height of a header of a later pending range, impossible because ranges are never adjacent (checked: C07.e ranges-non-adjacent)"},
			{Func: "sync.(*headerRange).Remove", Match: ":]", Reason: "same bound as headerRange.Get (rangeAmount(end) ≤ len(headers) by the non-adjacency of pending ranges)"},
		})
		c.Min("C07.e", "arithmetic sites of the pending ranges", n, 2)
	}
}

func strOf(i ssa.Instruction) string {
	if i == nil {
		return ""
	}
	return i.String()
}

// fromPhiHeight returns the Height(φ) call value used in fn (any), for affine arithmetic.
func fromPhiHeight(t *an.Terms, fn *ssa.Function, ph *ssa.Phi) ssa.Value {
	var out ssa.Value
	an.Instrs(fn, func(in ssa.Instruction) {
		if call, ok := in.(*ssa.Call); ok && out == nil && call.Call.IsInvoke() && call.Call.Method.Name() == "Height" && call.Call.Value == ssa.Value(ph) {
			out = call
		}
	})
	if out == nil {
		return ph
	}
	return out
}

func phiNamed(fn *ssa.Function, t *an.Terms, term string) *ssa.Phi {
	var out *ssa.Phi
	an.Instrs(fn, func(in ssa.Instruction) {
		if ph, ok := in.(*ssa.Phi); ok && t.Of(ph) == term {
			out = ph
		}
	})
	return out
}

// headTermOf finds the term of the `rs.head()` result in ranges.Add.
func headTermOf(t *an.Terms, fn *ssa.Function) string {
	s := ""
	an.Instrs(fn, func(in ssa.Instruction) {
		if call, ok := in.(*ssa.Call); ok {
			if cal := an.StaticCallee(&call.Call); cal != nil && an.FuncName(cal) == "sync.(*ranges).head" {
				s = t.Of(call)
			}
		}
	})
	return s
}
