package rules

import (
	"go/types"
	"strings"

	"golang.org/x/tools/go/ssa"

	"hdrcheck/an"
)

// checkRequestLifecycle decides the life cycle of one inbound request in the server's stream
// handler (C10.f): a request that cannot be read is dropped before any store call or response; a
// request that was read always reaches one of the request functions; every header of the result is
// written — the response loop goes on after a successful write and stops (resetting the stream) after
// a failed one; an error answer consists of exactly one (empty) response.
func checkRequestLifecycle(c *an.Ctx, id string, handler *ssa.Function, writes []*ssa.Call, requestFns []*ssa.Function, storeCalls func(*ssa.Function) []*ssa.Call) {
	t, ff := c.T(handler), c.F(handler)
	var reads []*ssa.Call
	an.Instrs(handler, func(in ssa.Instruction) {
		if call, ok := in.(*ssa.Call); ok && strings.HasSuffix(an.StaticFullName(&call.Call), "go-libp2p-messenger/serde.Read") {
			reads = append(reads, call)
		}
	})
	var dispatch []*ssa.Call
	for _, f := range requestFns {
		dispatch = append(dispatch, callsTo(handler, f)...)
	}
	c.Min(id, "request functions called by the stream handler", len(dispatch), 2)
	for _, rd := range reads {
		rerr := t.Of(rd) + "#1"
		bad := ff.Prune(an.NE(rerr, "nil"))
		okAbort := true
		for _, d := range dispatch {
			if bad.Reachable(d.Block()) {
				okAbort = false
			}
		}
		for _, w := range writes {
			if bad.Reachable(w.Block()) {
				okAbort = false
			}
		}
		c.Check(okAbort, id, "unreadable-request-dropped", "a request that could not be read reaches no request function and gets no response", handler, rd, "", nil)
		good := ff.Prune(an.EQ(rerr, "nil"))
		served := false
		for _, d := range dispatch {
			if good.Reachable(d.Block()) {
				served = true
			}
		}
		c.Check(served, id, "readable-request-dispatched", "a request that was read reaches the request functions", handler, rd, "", nil)
	}
	for _, w := range writes {
		werr := t.Of(w) + "#1"
		good := ff.Prune(an.EQ(werr, "nil"))
		c.Check((an.Flow{Fn: handler, Skip: good.Removed}).CanReach(w, w), id, "response-loop-continues", "after a response was written the loop goes on to the next header of the result", handler, w, "", nil)
		bad := ff.Prune(an.NE(werr, "nil"))
		c.Check(!(an.Flow{Fn: handler, Skip: bad.Removed}).CanReach(w, w), id, "response-loop-stops-on-failure", "after a failed write nothing more is written", handler, w, "", nil)
	}
	// the error answer: one empty response
	n := 0
	an.Instrs(handler, func(in ssa.Instruction) {
		rule := "an error is answered with exactly one (empty) response carrying the status code"
		switch x := in.(type) {
		case *ssa.MakeSlice:
			n++
			k, isK := x.Len.(*ssa.Const)
			c.Check(isK && k.Value != nil && k.Value.ExactString() == "1", id, "error-answer-single", rule, handler, x, "len "+t.Of(x.Len), nil)
		case *ssa.Alloc:
			// make([]H, k) with a constant k is lowered to a fresh array that is sliced
			if x.Comment != "makeslice" {
				return
			}
			ptr, isPtr := x.Type().Underlying().(*types.Pointer)
			if !isPtr {
				return
			}
			if arr, isArr := ptr.Elem().Underlying().(*types.Array); isArr {
				n++
				c.Check(arr.Len() == 1, id, "error-answer-single", rule, handler, x, "", nil)
			}
		}
	})
	c.Min(id, "error answers built by the stream handler", n, 1)
	_ = storeCalls
}
