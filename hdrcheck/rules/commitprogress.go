package rules

import (
	"go/token"
	"go/types"
	"strings"

	"golang.org/x/tools/go/ssa"

	"hdrcheck/an"
)

// checkCommitFailureNoProgress (C08.c, finding F26): "when it fails part-way … Tail and Head still resolve to
// stored headers … and retrying a tail-side deletion completes it". The removals of a deletion driver sit
// in a write batch until the deferred cleanup commits it; the height the driver reports as its progress
// is what DeleteRange moves the pointers to. When the commit fails nothing of the batch is known to be
// gone, so under `done() != nil` every way out of the deferred closure
//
//   - has stored the first height of the batch into the location that carries the reported height: for
//     the driver that owns the whole range its first height parameter (followed through the captured
//     variables to the parameter itself) into its first result; for a worker, which shares the range with
//     others whose batches do commit, the running minimum of the heights it was given into the one uint64
//     field of its result record (the start of the range may be gone by another worker's hand);
//   - has put back into the pending batch the headers that only sat there: deleteSingle removes those at
//     once, not with the write batch, and with the pointers left where they were Head or Tail would name
//     a header that is gone. The headers to put back are looked up in the pending batch, at the height
//     handed to deleteSingle, before that call.
//
// Reporting the height the loop had reached moves the tail past headers that are still stored, and the
// retry is refused as "not present".
func checkCommitFailureNoProgress(c *an.Ctx, id string, fn, deferred *ssa.Function, doneCall *ssa.Call) {
	dt, dff := c.T(deferred), c.F(deferred)
	dErr := dt.Of(doneCall)
	single := c.P.Method("store", "Store", "deleteSingle")
	pendAppend := c.P.Method("store", "batch", "Append")
	pendGet := c.P.Method("store", "batch", "GetByHeight")
	isReset := func(in ssa.Instruction) bool {
		st, isSt := in.(*ssa.Store)
		if !isSt || !isProgressLocation(st.Addr, deferred) {
			return false
		}
		if fn.Parent() == nil {
			// the driver of the whole range: its first height
			par := capturedParam(st.Val, deferred)
			return par != nil && par == firstUint64Param(par.Parent())
		}
		// a worker: the lowest height it was given
		u, isU := st.Val.(*ssa.UnOp)
		if !isU {
			return false
		}
		cell, owner := capturedAlloc(deferred, u.X)
		return cell != nil && owner == fn && isRunningMinOfHandled(c, cell, owner, single)
	}
	isRestore := func(in ssa.Instruction) bool {
		call, isCall := in.(*ssa.Call)
		if !isCall || pendAppend == nil {
			return false
		}
		cal := an.StaticCallee(&call.Call)
		return cal != nil && originOf(cal) == pendAppend && strings.Contains(an.Stable(dt.Of(call.Call.Args[0])), "pending")
	}
	pr := dff.Prune(an.NE(dErr, "nil"))
	ok, okR := len(pr.Returns()) > 0, len(pr.Returns()) > 0
	for _, r := range pr.Returns() {
		fl := an.Flow{Fn: deferred, Skip: pr.Removed}
		ok = ok && fl.MustPrecede(isReset, r)
		okR = okR && fl.MustPrecede(isRestore, r)
	}
	c.Check(ok, id, "commit-failure-reports-no-progress:"+an.FuncName(fn),
		"when the commit of the deletion batch fails, the driver reports the first height of that batch as its progress — the start of the range for the driver of the whole range, the lowest height it was given for a worker — (nothing of the batch is known to be deleted, so the pointers must not move past it and a retry must find the range)",
		deferred, doneCall, "", nil)
	c.Check(okR, id, "commit-failure-restores-pending:"+an.FuncName(fn),
		"when the commit of the deletion batch fails, the headers that only sat in the pending batch (removed at once, not with the batch) are put back, so the pointers that stay still name readable headers",
		deferred, doneCall, "", nil)
	// what is put back was looked up at the height handed to deleteSingle, before that call
	if single != nil && pendGet != nil {
		ft := c.T(fn)
		n := 0
		for _, sc := range callsTo(fn, single) {
			n++
			h := ft.Of(sc.Call.Args[2])
			looked := (an.Flow{Fn: fn}).MustPrecede(func(in ssa.Instruction) bool {
				call, isCall := in.(*ssa.Call)
				if !isCall {
					return false
				}
				cal := an.StaticCallee(&call.Call)
				return cal != nil && originOf(cal) == pendGet && ft.Of(call.Call.Args[1]) == h
			}, sc)
			c.Check(looked, id, "pending-remembered-before-removal:"+an.FuncName(fn),
				"before a height is handed to deleteSingle the driver looks it up in the pending batch (what only sits there is removed at once and has to be put back if the batch does not commit)",
				fn, sc, "height "+h, nil)
		}
		c.Min(id, "deleteSingle calls of "+an.FuncName(fn), n, 1)
	}
}

// isRunningMinOfHandled: every store into cell is its initialisation from a parameter of the enclosing
// named function, or `cell = h` under `cell > h` (or min(cell, h)) with h the height handed to
// deleteSingle in the same function.
func isRunningMinOfHandled(c *an.Ctx, cell *ssa.Alloc, owner, single *ssa.Function) bool {
	t := c.T(owner)
	handled := map[string]bool{}
	for _, sc := range callsTo(owner, single) {
		handled[t.Of(sc.Call.Args[2])] = true
	}
	isCellLoad := func(v ssa.Value) bool {
		u, isU := v.(*ssa.UnOp)
		return isU && u.X == ssa.Value(cell)
	}
	nMin := 0
	for _, st := range an.AllocStores(cell) {
		if capturedParam(st.Val, owner) != nil {
			continue
		}
		if _, isPar := st.Val.(*ssa.Parameter); isPar {
			continue
		}
		if call, isCall := st.Val.(*ssa.Call); isCall {
			if b, isB := call.Call.Value.(*ssa.Builtin); isB && b.Name() == "min" && len(call.Call.Args) == 2 {
				a0, a1 := call.Call.Args[0], call.Call.Args[1]
				if (isCellLoad(a0) && handled[t.Of(a1)]) || (isCellLoad(a1) && handled[t.Of(a0)]) {
					nMin++
					continue
				}
			}
			return false
		}
		if !handled[t.Of(st.Val)] {
			return false
		}
		b := st.Block()
		if len(b.Preds) != 1 {
			return false
		}
		p := b.Preds[0]
		iff, isIf := p.Instrs[len(p.Instrs)-1].(*ssa.If)
		if !isIf || p.Succs[0] != b {
			return false
		}
		cmp, isCmp := iff.Cond.(*ssa.BinOp)
		if !isCmp {
			return false
		}
		okCmp := (cmp.Op == token.GTR && isCellLoad(cmp.X) && cmp.Y == st.Val) || (cmp.Op == token.LSS && cmp.X == st.Val && isCellLoad(cmp.Y))
		if !okCmp {
			return false
		}
		nMin++
	}
	return nMin >= 1
}

// firstUint64Param: the first parameter of type uint64 of fn (the `from` of a deletion driver).
func firstUint64Param(fn *ssa.Function) *ssa.Parameter {
	if fn == nil {
		return nil
	}
	for _, p := range fn.Params {
		if b, isB := p.Type().Underlying().(*types.Basic); isB && b.Kind() == types.Uint64 {
			return p
		}
	}
	return nil
}

// boundValue: what the free variable fv of the closure fn is bound to in fn's parent.
func boundValue(fn *ssa.Function, fv *ssa.FreeVar) ssa.Value {
	par := fn.Parent()
	if par == nil {
		return nil
	}
	idx := -1
	for i, f := range fn.FreeVars {
		if f == fv {
			idx = i
		}
	}
	var out ssa.Value
	an.Instrs(par, func(in ssa.Instruction) {
		if mc, isMC := in.(*ssa.MakeClosure); isMC && mc.Fn == ssa.Value(fn) && idx >= 0 && idx < len(mc.Bindings) {
			out = mc.Bindings[idx]
		}
	})
	return out
}

// capturedAlloc follows a free variable up through the enclosing closures to the variable's cell.
func capturedAlloc(fn *ssa.Function, v ssa.Value) (*ssa.Alloc, *ssa.Function) {
	for depth := 0; depth < 8 && v != nil; depth++ {
		switch x := v.(type) {
		case *ssa.Alloc:
			return x, fn
		case *ssa.FreeVar:
			v = boundValue(fn, x)
			fn = fn.Parent()
		default:
			return nil, nil
		}
	}
	return nil, nil
}

// capturedParam: v is a load of a captured variable whose cell is written exactly once, with a parameter
// of the enclosing named function (a parameter captured by a closure is spilled into such a cell).
func capturedParam(v ssa.Value, fn *ssa.Function) *ssa.Parameter {
	u, isU := v.(*ssa.UnOp)
	if !isU {
		return nil
	}
	cell, _ := capturedAlloc(fn, u.X)
	if cell == nil {
		return nil
	}
	var par *ssa.Parameter
	n := 0
	for _, st := range an.AllocStores(cell) {
		n++
		par, _ = st.Val.(*ssa.Parameter)
	}
	if n != 1 {
		return nil
	}
	return par
}

// isProgressLocation: addr is the captured first result of the enclosing function (every return of it
// hands out a load of that cell first), or the one uint64 field of a captured record.
func isProgressLocation(addr ssa.Value, fn *ssa.Function) bool {
	// a pointer to the result handed to a helper that was spliced in: the captured cell holds the address
	if u, isU := addr.(*ssa.UnOp); isU {
		if holder, owner := capturedAlloc(fn, u.X); holder != nil {
			stores := an.AllocStores(holder)
			if len(stores) == 1 {
				if target, isA := stores[0].Val.(*ssa.Alloc); isA {
					return returnsFirst(owner, target)
				}
			}
		}
		return false
	}
	switch a := addr.(type) {
	case *ssa.FreeVar:
		cell, owner := capturedAlloc(fn, a)
		if cell == nil || owner == nil {
			return false
		}
		return returnsFirst(owner, cell)
	case *ssa.FieldAddr:
		if _, isFV := a.X.(*ssa.FreeVar); !isFV {
			return false
		}
		st, isSt := structBehind(a.X.Type())
		if !isSt {
			return false
		}
		nU64 := 0
		for i := 0; i < st.NumFields(); i++ {
			if b, isB := st.Field(i).Type().Underlying().(*types.Basic); isB && b.Kind() == types.Uint64 {
				nU64++
			}
		}
		fb, isB := st.Field(a.Field).Type().Underlying().(*types.Basic)
		return isB && fb.Kind() == types.Uint64 && nU64 == 1
	}
	return false
}

// returnsFirst: every return of owner hands out a load of cell as its first result.
func returnsFirst(owner *ssa.Function, cell *ssa.Alloc) bool {
	n := 0
	for _, b := range owner.Blocks {
		ret, isRet := b.Instrs[len(b.Instrs)-1].(*ssa.Return)
		if !isRet || len(ret.Results) == 0 {
			continue
		}
		n++
		ld, isLd := ret.Results[0].(*ssa.UnOp)
		if !isLd || ld.X != ssa.Value(cell) {
			return false
		}
	}
	return n > 0
}

func structBehind(t types.Type) (*types.Struct, bool) {
	if p, isP := t.Underlying().(*types.Pointer); isP {
		t = p.Elem()
	}
	st, ok := t.Underlying().(*types.Struct)
	return st, ok
}
