package an

import (
	"fmt"
	"go/constant"
	"go/token"
	"go/types"
	"sort"
	"strconv"
	"strings"

	"golang.org/x/tools/go/ssa"
)

// Terms numbers the values of one function: two SSA values with the same term
// denote the same run-time value on every path (under the purity assumptions
// listed in PureNote).
type Terms struct {
	P     *Prog
	Fn    *ssa.Function
	memo  map[ssa.Value]string
	aff   map[ssa.Value]*Affine
	busy  map[ssa.Value]bool
	index map[string]*Affine

	leafMemo map[string]bool
	quot     map[string]quotient

	// Dead lists CFG edges (block indices) known to be infeasible (a re-tested condition decided by
	// a dominating fact, see FuncFacts.foldDecided); the reaching-store analysis of locals ignores them.
	Dead map[[2]int]bool
}

// PureNote is recorded in every evidence file.
const PureNote = "header.Header observers (IsZero, ChainID, Hash, Height, LastHeader, Time), len/cap, time.Time " +
	"arithmetic/comparison methods, protobuf getters and header.Hash.String are treated as pure; a header value is immutable once obtained"

func NewTerms(p *Prog, fn *ssa.Function) *Terms {
	return &Terms{P: p, Fn: fn, memo: map[ssa.Value]string{}, aff: map[ssa.Value]*Affine{}, busy: map[ssa.Value]bool{}}
}

// pure observer method names on header values (interface header.Header or a type parameter bound by it)
var headerObservers = map[string]bool{"IsZero": true, "ChainID": true, "Hash": true, "Height": true, "LastHeader": true, "Time": true}

var pureTimeMethods = map[string]bool{"Add": true, "Sub": true, "Before": true, "After": true, "Equal": true, "Compare": true, "UTC": true, "IsZero": true, "Unix": true, "UnixNano": true}

// StaticCallee returns the called function of a call, mapping an instantiation
// (or its wrapper) back to the generic origin. nil for dynamic calls.
func StaticCallee(c *ssa.CallCommon) *ssa.Function {
	f := c.StaticCallee()
	if f == nil {
		return nil
	}
	if o := f.Origin(); o != nil {
		return o
	}
	return f
}

// CalleeName gives a printable callee: static "pkg.Func"/"pkg.(T).M", invoke "invoke:Method".
func CalleeName(c *ssa.CallCommon) string {
	if c.IsInvoke() {
		return "invoke:" + c.Method.Name()
	}
	if f := StaticCallee(c); f != nil {
		return FuncName(f)
	}
	if b, ok := c.Value.(*ssa.Builtin); ok {
		return "builtin:" + b.Name()
	}
	return "dynamic"
}

// IsHeaderType reports whether t is a type parameter constrained by header.Header
// or the header.Header interface itself / a type implementing its observers.
func IsHeaderType(t types.Type) bool {
	if t == nil {
		return false
	}
	if tp, ok := t.(*types.TypeParam); ok {
		return ifaceHasObservers(tp.Constraint())
	}
	if p, ok := t.(*types.Pointer); ok {
		if n, ok := p.Elem().(*types.Named); ok && n.Obj().Name() == "DummyHeader" {
			return true
		}
	}
	return ifaceHasObservers(t)
}

func ifaceHasObservers(t types.Type) bool {
	it, ok := t.Underlying().(*types.Interface)
	if !ok {
		return false
	}
	n := 0
	for i := 0; i < it.NumMethods(); i++ {
		if headerObservers[it.Method(i).Name()] {
			n++
		}
	}
	return n >= len(headerObservers)
}

// pureCallName returns a canonical name when the call is a pure observer.
func (t *Terms) pureCallName(c *ssa.CallCommon) (string, bool) {
	if c.IsInvoke() {
		if headerObservers[c.Method.Name()] && IsHeaderType(c.Value.Type()) {
			return c.Method.Name(), true
		}
		return "", false
	}
	if b, ok := c.Value.(*ssa.Builtin); ok {
		switch b.Name() {
		case "len", "cap", "min", "max":
			return b.Name(), true
		}
		return "", false
	}
	f := c.StaticCallee()
	if f == nil {
		return "", false
	}
	obj, _ := f.Object().(*types.Func)
	if obj == nil || obj.Pkg() == nil {
		return "", false
	}
	full := obj.FullName()
	sig := obj.Type().(*types.Signature)
	if recv := sig.Recv(); recv != nil {
		rt := recv.Type()
		if p, ok := rt.(*types.Pointer); ok {
			rt = p.Elem()
		}
		if n, ok := rt.(*types.Named); ok {
			tn := n.Obj()
			switch {
			case tn.Pkg() != nil && tn.Pkg().Path() == "time" && tn.Name() == "Time" && pureTimeMethods[obj.Name()]:
				return "time." + obj.Name(), true
			case tn.Pkg() != nil && tn.Pkg().Path() == "time" && tn.Name() == "Duration":
				return "dur." + obj.Name(), true
			case tn.Pkg() != nil && tn.Pkg().Path() == ModPath && tn.Name() == "Hash" && obj.Name() == "String":
				return "Hash.String", true
			case tn.Pkg() != nil && strings.HasSuffix(tn.Pkg().Path(), "/p2p/pb") && strings.HasPrefix(obj.Name(), "Get"):
				return "pb." + obj.Name(), true
			case headerObservers[obj.Name()] && tn.Name() == "DummyHeader":
				return obj.Name(), true
			}
		}
		return "", false
	}
	switch full {
	case "bytes.Equal", "errors.Is", "strings.EqualFold":
		return full, true
	}
	return "", false
}

// Of returns the canonical term of v.
func (t *Terms) Of(v ssa.Value) string {
	if v == nil {
		return "<nil-value>"
	}
	if s, ok := t.memo[v]; ok {
		return s
	}
	if t.busy[v] {
		return "cyc@" + v.Name()
	}
	t.busy[v] = true
	s := t.compute(v)
	delete(t.busy, v)
	t.memo[v] = s
	return s
}

func isIntegral(tp types.Type) bool {
	b, ok := tp.Underlying().(*types.Basic)
	return ok && b.Info()&types.IsInteger != 0
}

func isUnsigned(tp types.Type) bool {
	b, ok := tp.Underlying().(*types.Basic)
	return ok && b.Info()&types.IsUnsigned != 0
}

func (t *Terms) compute(v ssa.Value) string {
	switch v := v.(type) {
	case *ssa.Parameter:
		for i, p := range v.Parent().Params {
			if p == v {
				if v.Parent() == t.Fn {
					return "p" + strconv.Itoa(i)
				}
				return FuncName(v.Parent()) + ".p" + strconv.Itoa(i)
			}
		}
		return "param:" + v.Name()
	case *ssa.FreeVar:
		return "fv:" + v.Name()
	case *ssa.Const:
		if v.Value == nil {
			if isIntegral(v.Type()) {
				return "0"
			}
			return "nil"
		}
		if v.Value.Kind() == constant.Int {
			return v.Value.ExactString()
		}
		return "const(" + v.Value.ExactString() + ")"
	case *ssa.Global:
		return "&" + globalName(v)
	case *ssa.Function:
		return "func:" + FuncName(v)
	case *ssa.Builtin:
		return "builtin:" + v.Name()
	case *ssa.Call:
		if name, ok := t.pureCallName(&v.Call); ok {
			var args []string
			if v.Call.IsInvoke() {
				args = append(args, t.Of(v.Call.Value))
			}
			for _, a := range v.Call.Args {
				args = append(args, t.Of(a))
			}
			return name + "(" + strings.Join(args, ",") + ")"
		}
		if n := StaticFullName(&v.Call); n != "" {
			return "call:" + n + "@" + v.Name()
		}
		if v.Call.IsInvoke() {
			return "invoke:" + v.Call.Method.Name() + "@" + v.Name()
		}
		return "call@" + v.Name()
	case *ssa.BinOp:
		if isIntegral(v.Type()) {
			switch v.Op {
			case token.ADD, token.SUB, token.MUL:
				if a := t.Affine(v); a != nil {
					return a.String()
				}
			}
		}
		return "(" + t.Of(v.X) + " " + v.Op.String() + " " + t.Of(v.Y) + ")"
	case *ssa.UnOp:
		switch v.Op {
		case token.MUL:
			return t.load(v)
		case token.NOT:
			return "!" + t.Of(v.X)
		case token.SUB:
			return "-" + t.Of(v.X)
		case token.ARROW:
			return "recv@" + v.Name()
		}
		return v.Op.String() + t.Of(v.X)
	case *ssa.Extract:
		return t.Of(v.Tuple) + "#" + strconv.Itoa(v.Index)
	case *ssa.Phi:
		return "phi@" + v.Name()
	case *ssa.MakeInterface:
		return t.Of(v.X)
	case *ssa.ChangeType:
		return t.Of(v.X)
	case *ssa.ChangeInterface:
		return t.Of(v.X)
	case *ssa.Convert:
		if isIntegral(v.Type()) && isIntegral(v.X.Type()) {
			return t.Of(v.X)
		}
		return "conv(" + t.Of(v.X) + ")"
	case *ssa.Alloc:
		return "alloc@" + v.Name()
	case *ssa.FieldAddr:
		return "&" + t.fieldPath(v)
	case *ssa.Field:
		st := v.X.Type().Underlying().(*types.Struct)
		return t.Of(v.X) + "." + st.Field(v.Field).Name()
	case *ssa.IndexAddr:
		return "&" + t.Of(v.X) + "[" + t.Of(v.Index) + "]"
	case *ssa.Index:
		return t.Of(v.X) + "[" + t.Of(v.Index) + "]"
	case *ssa.Slice:
		lo, hi := "", ""
		if v.Low != nil {
			lo = t.Of(v.Low)
		}
		if v.High != nil {
			hi = t.Of(v.High)
		}
		return t.Of(v.X) + "[" + lo + ":" + hi + "]"
	case *ssa.MakeClosure:
		return "closure:" + FuncName(v.Fn.(*ssa.Function)) + "@" + v.Name()
	case *ssa.TypeAssert:
		return "assert(" + t.Of(v.X) + ")@" + v.Name()
	case *ssa.Lookup:
		return t.Of(v.X) + "[" + t.Of(v.Index) + "]@" + v.Name()
	}
	return fmt.Sprintf("%T@%s", v, v.Name())
}

func globalName(g *ssa.Global) string {
	pk := ""
	if g.Pkg != nil {
		pk = g.Pkg.Pkg.Path()
		pk = strings.TrimPrefix(pk, ModPath+"/")
		if pk == ModPath {
			pk = "header"
		}
	}
	return pk + "." + g.Name()
}

// fieldPath renders x.F for a FieldAddr (x may itself be a field path or a pointer value).
func (t *Terms) fieldPath(fa *ssa.FieldAddr) string {
	pt := fa.X.Type().Underlying().(*types.Pointer)
	st := pt.Elem().Underlying().(*types.Struct)
	name := st.Field(fa.Field).Name()
	var base string
	switch x := fa.X.(type) {
	case *ssa.FieldAddr:
		base = t.fieldPath(x)
	default:
		base = t.Of(fa.X)
	}
	return base + "." + name
}

// stableField lists struct fields that are written only during construction and
// may therefore be read as pure terms.
func stableField(path string) bool {
	for _, s := range []string{".Params.", ".Params"} {
		if strings.Contains(path, s) {
			return true
		}
	}
	for _, s := range []string{".from", ".requestTimeout", ".store", ".getter", ".Amount", ".StatusCode", ".Body"} {
		if strings.HasSuffix(path, s) {
			return true
		}
	}
	return false
}

// load computes the term for *addr.
func (t *Terms) load(u *ssa.UnOp) string {
	switch a := u.X.(type) {
	case *ssa.Global:
		return globalName(a)
	case *ssa.Alloc:
		// spilled local: resolve when there is exactly one reaching store that
		// we can see without a dataflow: (1) a single store in the whole
		// function, or (2) the nearest earlier store in the same block with no
		// intervening call that could write through an escaped pointer.
		if sv := t.reachingStore(a, u); sv != nil {
			return t.Of(sv)
		}
		// several stores may reach, but once no store to the local can execute
		// any more its value is final: all such loads denote the same value.
		if allocMode(a) == 0 && t.frozenAfter(a, u) {
			return "load(" + a.Name() + ")#final"
		}
		return "load(" + a.Name() + ")@" + u.Name()
	case *ssa.FieldAddr:
		// field of a local struct variable that is written exactly once as a
		// whole (res := <-ch; res.err): the field of the stored value
		if al, ok := a.X.(*ssa.Alloc); ok {
			if sv := t.wholeStore(al); sv != nil {
				st := deref(al.Type()).Underlying().(*types.Struct)
				return t.Of(sv) + "." + st.Field(a.Field).Name()
			}
		}
		path := t.fieldPath(a)
		if stableField(path) || t.leafFieldStable(a) {
			return path
		}
		// an earlier load of the same field with no store to that field and no
		// call in between yields the same value
		if first := t.earlierSameLoad(u, a); first != nil {
			return path + "@" + first.Name()
		}
		return path + "@" + u.Name()
	case *ssa.IndexAddr:
		if !t.writtenThroughIndex(a.X) {
			return t.Of(a.X) + "[" + t.Of(a.Index) + "]"
		}
		return t.Of(a.X) + "[" + t.Of(a.Index) + "]@" + u.Name()
	case *ssa.FreeVar:
		return "*fv:" + a.Name() + "@" + u.Name()
	}
	return "*" + t.Of(u.X) + "@" + u.Name()
}

// earlierSameLoad finds the earliest load of the same field (same base value,
// same field index) from which `u` is reached without passing a store to that
// field or any call (which might write it).
func (t *Terms) earlierSameLoad(u *ssa.UnOp, fa *ssa.FieldAddr) *ssa.UnOp {
	pt, ok := fa.X.Type().Underlying().(*types.Pointer)
	if !ok {
		return nil
	}
	baseTerm := t.Of(fa.X)
	clobber := func(in ssa.Instruction) bool {
		switch x := in.(type) {
		case *ssa.Store:
			if f2, isFA := x.Addr.(*ssa.FieldAddr); isFA && f2.Field == fa.Field {
				if p2, ok := f2.X.Type().Underlying().(*types.Pointer); ok && types.Identical(p2.Elem(), pt.Elem()) {
					return true
				}
			}
		case *ssa.Go, *ssa.RunDefers:
			return true
		case *ssa.Call:
			if _, isB := x.Call.Value.(*ssa.Builtin); isB {
				return false
			}
			if _, pure := t.pureCallName(&x.Call); pure {
				return false
			}
			return true
		}
		return false
	}
	fl := Flow{Fn: t.Fn}
	var best *ssa.UnOp
	for _, b := range t.Fn.Blocks {
		for _, in := range b.Instrs {
			cand, isLoad := in.(*ssa.UnOp)
			if !isLoad || cand == u || cand.Op != token.MUL {
				continue
			}
			f2, isFA := cand.X.(*ssa.FieldAddr)
			if !isFA || f2.Field != fa.Field || t.Of(f2.X) != baseTerm {
				continue
			}
			// cand must precede u on every path, with nothing clobbering in between
			if !fl.mustPrecedeWith(func(i ssa.Instruction) bool { return i == ssa.Instruction(cand) }, u) {
				continue
			}
			if fl.Between(cand, u, clobber) != nil {
				continue
			}
			if best == nil || fl.mustPrecedeWith(func(i ssa.Instruction) bool { return i == ssa.Instruction(cand) }, best) {
				best = cand
			}
		}
	}
	return best
}

// leafFieldStable: the function neither stores to this field (of any object of
// the struct type) nor calls anything but pure observers and builtins, so two
// loads of the field through the same base denote the same value.
func (t *Terms) leafFieldStable(fa *ssa.FieldAddr) bool {
	pt, ok := fa.X.Type().Underlying().(*types.Pointer)
	if !ok {
		return false
	}
	key := pt.Elem().String() + "#" + strconv.Itoa(fa.Field)
	if t.leafMemo == nil {
		t.leafMemo = map[string]bool{}
	}
	if v, ok := t.leafMemo[key]; ok {
		return v
	}
	stable := true
	Instrs(t.Fn, func(in ssa.Instruction) {
		switch x := in.(type) {
		case *ssa.Store:
			if f2, isFA := x.Addr.(*ssa.FieldAddr); isFA && f2.Field == fa.Field {
				if p2, ok := f2.X.Type().Underlying().(*types.Pointer); ok && types.Identical(p2.Elem(), pt.Elem()) {
					stable = false
				}
			}
		case *ssa.Go, *ssa.Defer:
			stable = false
		case *ssa.Call:
			if _, isB := x.Call.Value.(*ssa.Builtin); isB {
				return
			}
			if _, pure := t.pureCallName(&x.Call); pure {
				return
			}
			stable = false
		}
	})
	t.leafMemo[key] = stable
	return stable
}

// frozenAfter: no store to the local is reachable from the load (so the local
// keeps its current value for the rest of this activation).
func (t *Terms) frozenAfter(a *ssa.Alloc, load *ssa.UnOp) bool {
	isStore := func(in ssa.Instruction) bool {
		st, ok := in.(*ssa.Store)
		return ok && st.Addr == a
	}
	b := load.Block()
	after := false
	for _, in := range b.Instrs {
		if in == ssa.Instruction(load) {
			after = true
			continue
		}
		if after && isStore(in) {
			return false
		}
	}
	seen := map[*ssa.BasicBlock]bool{}
	var walk func(x *ssa.BasicBlock) bool
	walk = func(x *ssa.BasicBlock) bool {
		for _, s := range x.Succs {
			if seen[s] {
				continue
			}
			seen[s] = true
			for _, in := range s.Instrs {
				if isStore(in) {
					return false
				}
			}
			if !walk(s) {
				return false
			}
		}
		return true
	}
	return walk(b)
}

// wholeStore returns the single value stored to a local struct alloc whose
// other uses are only field reads (FieldAddr + load) and whole loads.
func (t *Terms) wholeStore(a *ssa.Alloc) ssa.Value {
	if _, ok := deref(a.Type()).Underlying().(*types.Struct); !ok || a.Referrers() == nil {
		return nil
	}
	var stored ssa.Value
	n := 0
	for _, r := range *a.Referrers() {
		switch r := r.(type) {
		case *ssa.Store:
			if r.Addr != a {
				return nil
			}
			stored = r.Val
			n++
		case *ssa.FieldAddr:
			if r.Referrers() != nil {
				for _, rr := range *r.Referrers() {
					switch rr.(type) {
					case *ssa.UnOp, *ssa.DebugRef:
					default:
						return nil // field written or address escapes
					}
				}
			}
		case *ssa.UnOp, *ssa.DebugRef:
		default:
			return nil
		}
	}
	if n != 1 {
		return nil
	}
	return stored
}

func (t *Terms) writtenThroughIndex(x ssa.Value) bool {
	refs := x.Referrers()
	if refs == nil {
		return true
	}
	for _, r := range *refs {
		ia, ok := r.(*ssa.IndexAddr)
		if !ok {
			continue
		}
		if ir := ia.Referrers(); ir != nil {
			for _, rr := range *ir {
				if st, ok := rr.(*ssa.Store); ok && st.Addr == ia {
					return true
				}
			}
		}
	}
	return false
}

// AllocStores lists the stores whose address is exactly the alloc.
func AllocStores(a *ssa.Alloc) []*ssa.Store {
	var out []*ssa.Store
	if a.Referrers() == nil {
		return nil
	}
	for _, r := range *a.Referrers() {
		if st, ok := r.(*ssa.Store); ok && st.Addr == a {
			out = append(out, st)
		}
	}
	return out
}

// allocEscapes: the address is used other than by loads/stores (passed to a call, captured…).
func allocEscapes(a *ssa.Alloc) bool {
	if a.Referrers() == nil {
		return false
	}
	for _, r := range *a.Referrers() {
		switch r := r.(type) {
		case *ssa.Store:
			if r.Addr != a {
				return true
			}
		case *ssa.UnOp:
		case *ssa.DebugRef:
		default:
			return true
		}
	}
	return false
}

// allocMode classifies how an address-taken local can be written:
//
//	0  only by stores in this function (possibly read by closures): calls do not clobber it
//	1  it is captured by a closure that writes it, or its address is passed to a
//	   call: every call / defer run may rewrite it
func allocMode(a *ssa.Alloc) int {
	if a.Referrers() == nil {
		return 0
	}
	for _, r := range *a.Referrers() {
		switch r := r.(type) {
		case *ssa.Store:
			if r.Addr != a && !aliasPanicOnly(r) {
				return 1
			}
		case *ssa.UnOp, *ssa.DebugRef:
		case *ssa.MakeClosure:
			fn, _ := r.Fn.(*ssa.Function)
			if fn == nil {
				return 1
			}
			for i, b := range r.Bindings {
				if b != ssa.Value(a) || i >= len(fn.FreeVars) {
					continue
				}
				if freeVarWritten(fn, fn.FreeVars[i], 0) && !panicOnlyWriter(r, fn, fn.FreeVars[i]) {
					return 1
				}
			}
		case *ssa.Call:
			// publishing the address of an (immutable) value through an atomic
			// pointer does not write the local
			full := StaticFullName(&r.Call)
			if strings.HasSuffix(full, "atomic.Pointer[T]).Store") || strings.HasSuffix(full, "atomic.Pointer[T]).CompareAndSwap") {
				continue
			}
			return 1
		default:
			return 1
		}
	}
	return 0
}

// aliasPanicOnly: st stores the address of a local into a pointer variable whose only other use
// is to be captured by a closure that is only deferred and that writes through the pointer only
// while panicking (recover() != nil) — `defer recoverInto(&res)` after inlining. For the
// normal-return value of the local this is not a writer.
func aliasPanicOnly(st *ssa.Store) bool {
	holder, ok := st.Addr.(*ssa.Alloc)
	if !ok || holder.Referrers() == nil {
		return false
	}
	for _, r := range *holder.Referrers() {
		switch x := r.(type) {
		case *ssa.Store:
			if x != st {
				return false
			}
		case *ssa.DebugRef:
		case *ssa.MakeClosure:
			if x.Referrers() != nil {
				for _, rr := range *x.Referrers() {
					switch rr.(type) {
					case *ssa.Defer, *ssa.DebugRef:
					default:
						return false
					}
				}
			}
			fn, _ := x.Fn.(*ssa.Function)
			if fn == nil {
				return false
			}
			for i, b := range x.Bindings {
				if b != ssa.Value(holder) || i >= len(fn.FreeVars) {
					continue
				}
				if !pointerWrittenOnlyPanicking(fn, fn.FreeVars[i]) {
					return false
				}
			}
		default:
			return false
		}
	}
	return true
}

// pointerWrittenOnlyPanicking: fv holds a pointer; every store through a pointer derived from it
// (directly or via a local copy) in fn is guarded by recover() != nil.
func pointerWrittenOnlyPanicking(fn *ssa.Function, fv *ssa.FreeVar) bool {
	t := NewTerms(nil, fn)
	ff := NewFuncFacts(t)
	guardedAt := func(b *ssa.BasicBlock) bool {
		for _, f := range ff.At(b) {
			if f.Op == "EQ" && !f.Pos && (f.A == "nil" || f.B == "nil") {
				other := f.A
				if other == "nil" {
					other = f.B
				}
				ok := false
				Instrs(fn, func(in ssa.Instruction) {
					if c, isCall := in.(*ssa.Call); isCall && t.Of(c) == other {
						if b, isB := c.Call.Value.(*ssa.Builtin); isB && b.Name() == "recover" {
							ok = true
						}
					}
				})
				if ok {
					return true
				}
			}
		}
		return false
	}
	seen := map[ssa.Value]bool{}
	var ptrOK func(v ssa.Value, depth int) bool // v is (an address holding) the pointer
	ptrOK = func(v ssa.Value, depth int) bool {
		if seen[v] || depth > 4 {
			return true
		}
		seen[v] = true
		refs := v.Referrers()
		if refs == nil {
			return true
		}
		for _, r := range *refs {
			switch x := r.(type) {
			case *ssa.DebugRef:
			case *ssa.UnOp:
				// load of the pointer (from the free variable or a local copy): its uses
				for _, rr := range *x.Referrers() {
					switch y := rr.(type) {
					case *ssa.DebugRef:
					case *ssa.Store:
						if y.Addr == ssa.Value(x) {
							if !guardedAt(y.Block()) {
								return false
							}
						} else if al, isAl := y.Addr.(*ssa.Alloc); isAl && y.Val == ssa.Value(x) {
							// copied into a local (parameter binding of an inlined helper)
							if !ptrOK(al, depth+1) {
								return false
							}
						} else {
							return false
						}
					case *ssa.UnOp:
						// reading through the pointer
					default:
						return false
					}
				}
			case *ssa.Store:
				// initialisation of a local copy
			default:
				return false
			}
		}
		return true
	}
	return ptrOK(fv, 0)
}

// panicOnlyWriter: the closure is only deferred and every store it makes to the
// free variable is guarded by recover() != nil, i.e. it writes the variable only
// while panicking. For the normal-return value of the variable such a closure
// is not a writer.
func panicOnlyWriter(mc *ssa.MakeClosure, fn *ssa.Function, fv *ssa.FreeVar) bool {
	if mc.Referrers() == nil {
		return false
	}
	for _, r := range *mc.Referrers() {
		switch r.(type) {
		case *ssa.Defer, *ssa.DebugRef:
		default:
			return false
		}
	}
	if fv.Referrers() == nil {
		return true
	}
	t := NewTerms(nil, fn)
	ff := NewFuncFacts(t)
	for _, r := range *fv.Referrers() {
		switch x := r.(type) {
		case *ssa.Store:
			guarded := false
			for _, f := range ff.At(x.Block()) {
				if f.Op == "EQ" && !f.Pos && (f.A == "nil" || f.B == "nil") {
					other := f.A
					if other == "nil" {
						other = f.B
					}
					if len(other) >= 5 && other[:5] == "call@" {
						// a call of the builtin recover
						Instrs(fn, func(in ssa.Instruction) {
							if c, ok := in.(*ssa.Call); ok && t.Of(c) == other {
								if b, ok := c.Call.Value.(*ssa.Builtin); ok && b.Name() == "recover" {
									guarded = true
								}
							}
						})
					}
				}
			}
			if !guarded {
				return false
			}
		case *ssa.UnOp, *ssa.DebugRef:
		default:
			return false
		}
	}
	return true
}

// freeVarWritten: the closure (or a nested closure) stores through the free variable or lets it escape.
func freeVarWritten(fn *ssa.Function, fv *ssa.FreeVar, depth int) bool {
	if fv.Referrers() == nil {
		return false
	}
	if depth > 3 {
		return true
	}
	for _, r := range *fv.Referrers() {
		switch r := r.(type) {
		case *ssa.Store:
			return true
		case *ssa.UnOp, *ssa.DebugRef:
		case *ssa.MakeClosure:
			inner, _ := r.Fn.(*ssa.Function)
			if inner == nil {
				return true
			}
			for i, b := range r.Bindings {
				if b == ssa.Value(fv) && i < len(inner.FreeVars) && freeVarWritten(inner, inner.FreeVars[i], depth+1) {
					return true
				}
			}
		default:
			return true
		}
	}
	return false
}

// reachingStore returns the value of the unique store to the local that reaches
// the load on every path (a small forward must-analysis per alloc), or nil.
func (t *Terms) reachingStore(a *ssa.Alloc, load *ssa.UnOp) ssa.Value {
	stores := AllocStores(a)
	if len(stores) == 0 {
		return nil
	}
	mode := allocMode(a)
	if mode == 0 && len(stores) == 1 {
		return stores[0].Val
	}
	fn := load.Parent()
	if fn == nil || fn != a.Parent() {
		return nil
	}
	type cell struct {
		st   *ssa.Store // nil + known=false: conflict; nil + known=true: "no store yet"
		conf bool
	}
	n := len(fn.Blocks)
	out := make([]cell, n)
	vis := make([]bool, n)
	transfer := func(b *ssa.BasicBlock, in cell, stop ssa.Instruction) (cell, bool) {
		cur := in
		for _, ins := range b.Instrs {
			if stop != nil && ins == stop {
				return cur, true
			}
			switch x := ins.(type) {
			case *ssa.Store:
				if x.Addr == a {
					cur = cell{st: x}
				}
			case *ssa.RunDefers:
				if mode == 1 {
					cur = cell{conf: true}
				}
			default:
				if _, isCall := ins.(ssa.CallInstruction); isCall && mode == 1 {
					if _, isDefer := ins.(*ssa.Defer); !isDefer {
						cur = cell{conf: true}
					}
				}
			}
		}
		return cur, false
	}
	var meet func(b *ssa.BasicBlock) cell
	// a loop whose exit is decided by a flag that is false on entry (`done := false; for !done {…}`):
	// the exit edge of its header is taken only after at least one iteration, so what reaches the exit
	// is what reaches the header along its back edges
	backOnly := func(h *ssa.BasicBlock) (cell, bool) {
		first := true
		var res cell
		for _, p := range h.Preds {
			if !h.Dominates(p) || !vis[p.Index] || t.Dead[[2]int{p.Index, h.Index}] {
				continue
			}
			o := out[p.Index]
			if first {
				res, first = o, false
				continue
			}
			if o.conf || res.conf || o.st != res.st {
				res = cell{conf: true}
			}
		}
		return res, !first
	}
	meet = func(b *ssa.BasicBlock) cell {
		first := true
		var res cell
		for _, p := range b.Preds {
			if !vis[p.Index] || t.Dead[[2]int{p.Index, b.Index}] {
				continue
			}
			o := out[p.Index]
			if exitOnlyAfterIteration(p, b) {
				if in, ok := backOnly(p); ok {
					o, _ = transfer(p, in, nil)
				}
			}
			if first {
				res, first = o, false
				continue
			}
			if o.conf || res.conf || o.st != res.st {
				res = cell{conf: true}
			}
		}
		return res
	}
	// iterate to a fixed point over reachable blocks (entry first)
	for iter := 0; iter < 2*n+2; iter++ {
		changed := false
		for _, b := range fn.Blocks {
			if b.Index != 0 && len(b.Preds) == 0 {
				continue
			}
			var in cell
			if b.Index != 0 {
				any := false
				for _, p := range b.Preds {
					if vis[p.Index] && !t.Dead[[2]int{p.Index, b.Index}] {
						any = true
					}
				}
				if !any {
					continue
				}
				in = meet(b)
			}
			o, _ := transfer(b, in, nil)
			if !vis[b.Index] || o != out[b.Index] {
				vis[b.Index], out[b.Index] = true, o
				changed = true
			}
		}
		if !changed {
			break
		}
	}
	lb := load.Block()
	var in cell
	if lb.Index != 0 {
		in = meet(lb)
	}
	cur, _ := transfer(lb, in, load)
	if cur.conf || cur.st == nil {
		return nil
	}
	return cur.st.Val
}

// ---------------------------------------------------------------------------
// affine normal forms

// Affine is c0 + Σ ci·ti over opaque sub-terms.
type Affine struct {
	C  int64
	Co map[string]int64
	// Unsigned records which opaque sub-terms have an unsigned (or len-like, ≥0) type.
	NonNeg map[string]bool
}

func newAffine() *Affine { return &Affine{Co: map[string]int64{}, NonNeg: map[string]bool{}} }

func (a *Affine) clone() *Affine {
	b := newAffine()
	b.C = a.C
	for k, v := range a.Co {
		b.Co[k] = v
	}
	for k, v := range a.NonNeg {
		b.NonNeg[k] = v
	}
	return b
}

func (a *Affine) addScaled(b *Affine, k int64) *Affine {
	r := a.clone()
	r.C += k * b.C
	for t, c := range b.Co {
		r.Co[t] += k * c
		if r.Co[t] == 0 {
			delete(r.Co, t)
		}
	}
	for t, v := range b.NonNeg {
		if v {
			r.NonNeg[t] = true
		}
	}
	return r
}

// Sub returns a-b.
func (a *Affine) Sub(b *Affine) *Affine { return a.addScaled(b, -1) }

// Add returns a+b.
func (a *Affine) Add(b *Affine) *Affine { return a.addScaled(b, 1) }

func (a *Affine) IsConst() bool { return len(a.Co) == 0 }

func (a *Affine) String() string {
	keys := make([]string, 0, len(a.Co))
	for k := range a.Co {
		keys = append(keys, k)
	}
	sort.Strings(keys)
	var sb strings.Builder
	for i, k := range keys {
		c := a.Co[k]
		switch {
		case c == 1 && i == 0:
			sb.WriteString(k)
		case c == 1:
			sb.WriteString("+" + k)
		case c == -1:
			sb.WriteString("-" + k)
		case c > 0 && i > 0:
			sb.WriteString("+" + strconv.FormatInt(c, 10) + "*" + k)
		default:
			sb.WriteString(strconv.FormatInt(c, 10) + "*" + k)
		}
	}
	if a.C != 0 || len(keys) == 0 {
		if a.C >= 0 && len(keys) > 0 {
			sb.WriteString("+")
		}
		sb.WriteString(strconv.FormatInt(a.C, 10))
	}
	if len(keys) > 1 || (len(keys) == 1 && a.C != 0) {
		return "(" + sb.String() + ")"
	}
	return sb.String()
}

// Affine returns the affine form of an integer value (never nil for integer values).
func (t *Terms) Affine(v ssa.Value) *Affine {
	if a, ok := t.aff[v]; ok {
		return a
	}
	a := t.affine(v, 0)
	t.aff[v] = a
	return a
}

func (t *Terms) affine(v ssa.Value, depth int) *Affine {
	if depth > 40 {
		return t.opaque(v)
	}
	switch v := v.(type) {
	case *ssa.Const:
		if v.Value == nil {
			return newAffine()
		}
		if v.Value.Kind() == constant.Int {
			if i, ok := constant.Int64Val(v.Value); ok {
				r := newAffine()
				r.C = i
				return r
			}
		}
	case *ssa.BinOp:
		if !isIntegral(v.Type()) {
			break
		}
		switch v.Op {
		case token.ADD:
			return t.affine(v.X, depth+1).Add(t.affine(v.Y, depth+1))
		case token.SUB:
			return t.affine(v.X, depth+1).Sub(t.affine(v.Y, depth+1))
		case token.MUL:
			x, y := t.affine(v.X, depth+1), t.affine(v.Y, depth+1)
			if x.IsConst() {
				return newAffine().addScaled(y, x.C)
			}
			if y.IsConst() {
				return newAffine().addScaled(x, y.C)
			}
		}
	case *ssa.Convert:
		if isIntegral(v.Type()) && isIntegral(v.X.Type()) {
			return t.affine(v.X, depth+1)
		}
	case *ssa.ChangeType:
		return t.affine(v.X, depth+1)
	case *ssa.UnOp:
		if v.Op == token.MUL {
			if al, ok := v.X.(*ssa.Alloc); ok {
				if sv := t.reachingStore(al, v); sv != nil {
					return t.affine(sv, depth+1)
				}
			}
		}
	}
	return t.opaque(v)
}

func (t *Terms) opaque(v ssa.Value) *Affine {
	r := newAffine()
	var s string
	if b, ok := v.(*ssa.BinOp); ok && (b.Op == token.ADD || b.Op == token.SUB || b.Op == token.MUL) {
		// avoid recursion into compute→Affine for non-linear products
		s = "(" + t.Of(b.X) + " " + b.Op.String() + " " + t.Of(b.Y) + ")"
	} else {
		s = t.Of(v)
	}
	r.Co[s] = 1
	if isUnsigned(v.Type()) || strings.HasPrefix(s, "len(") || strings.HasPrefix(s, "cap(") {
		r.NonNeg[s] = true
	}
	// remember integer quotients by a positive constant: the prover knows k·(x/k) ≤ x ≤ k·(x/k)+k−1 for x ≥ 0
	if b, ok := v.(*ssa.BinOp); ok && b.Op == token.QUO && isIntegral(b.Type()) {
		if c, isC := b.Y.(*ssa.Const); isC && c.Value != nil {
			if k, exact := constant.Int64Val(c.Value); exact && k > 0 {
				if t.quot == nil {
					t.quot = map[string]quotient{}
				}
				t.quot[s] = quotient{X: b.X, K: k}
			}
		}
	}
	return r
}

// quotient is an opaque term x/k with constant k > 0.
type quotient struct {
	X ssa.Value
	K int64
}
