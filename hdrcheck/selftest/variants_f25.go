package selftest

// Finding F25 re-introduced (the bifurcation uses a getter's answer of another height), and equivalents of the repair.
func init() {
	const sh = "sync/syncer_head.go"
	const chk = "\t\tif candidateHeader.Height() != candidateHeight {\n"
	add(
		Variant{Prop: "C15", Name: "f25-answer-height-not-compared-with-the-requested-height", File: sh, Expect: "C15.e",
			Old: chk, New: "\t\tif false && candidateHeader.Height() != candidateHeight {\n"},
		Variant{Prop: "C15", Name: "f25-answer-height-only-bounded-from-above", File: sh, Expect: "C15.e",
			Old: chk, New: "\t\tif candidateHeader.Height() > candidateHeight {\n"},
		Variant{Prop: "C15", Name: "f25-answer-height-compared-with-the-subject-height", File: sh, Expect: "C15.e",
			Old: chk, New: "\t\tif candidateHeader.Height() != subjHeight {\n"},
		Variant{Prop: "C15", Name: "benign-answer-height-check-commuted", File: sh,
			Old: chk, New: "\t\tif candidateHeight != candidateHeader.Height() {\n"},
		Variant{Prop: "C15", Name: "benign-answer-height-check-through-a-local", File: sh,
			Old: chk, New: "\t\tgotHeight := candidateHeader.Height()\n\t\tif gotHeight != candidateHeight {\n"},
		Variant{Prop: "C15", Name: "benign-answer-height-check-as-two-inequalities", File: sh,
			Old: chk, New: "\t\tif candidateHeader.Height() < candidateHeight || candidateHeader.Height() > candidateHeight {\n"},
	)
}
