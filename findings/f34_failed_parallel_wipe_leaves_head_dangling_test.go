package store

// Demonstration for finding F34 (property C08, shared with C04 and C14) — KNOWN, not repaired.
// Copy into /repo/store and run: go test ./store -run 'TestF34' -count=1   (fails on the unchanged tree)
//
// F34: "when it fails part-way … Tail and Head still resolve to stored headers with Tail <= Head". A whole-store
//      DeleteRange that goes through the parallel driver (long ranges) and fails in a handler at height k keeps
//      removing the heights above k — the other workers go on and commit — the head included. DeleteRange then
//      moves the tail to k and returns the error, but leaves the head pointer where it was: Head() and
//      GetByHeight(head) keep serving a header for which Has(hash) is false, and after Stop/Start the store has a
//      tail and no head ("store is empty"). (A tail-side deletion that fails the same way leaves holes between
//      the new tail and `to`, below an intact head: that is the documented behaviour of the parallel driver.)
//      Noticed by an eighth-round seeder (C14). Rule C08.d `whole-store-partial-head-reestablished`.
//      Not repaired: which heights above k are gone is known to nobody after the workers finished; a sound repair
//      stops the workers above the lowest failed height before they commit, or records what was removed — a
//      change of the driver's design, not a patch.

import (
	"context"
	"errors"
	gosync "sync"
	"testing"
	"time"

	"github.com/ipfs/go-datastore"
	"github.com/ipfs/go-datastore/sync"
	"github.com/stretchr/testify/require"

	"github.com/celestiaorg/go-header/headertest"
)

// Observation on the UNCHANGED tree (adjacent to C14, see change1.md): a whole-store deletion that
// goes through the parallel driver and fails in a handler at height k keeps deleting the heights
// above k (their handlers run once, they are removed: fine for C14), including the head. The tail
// is moved to k, but the head pointer is left on the removed header: Head() and GetByHeight(head)
// keep serving a header the store no longer has, and after a restart the store has a tail and no head.
func TestF34_FailedParallelWholeStoreDeletionKeepsAReadableHead(t *testing.T) {
	ctx, cancel := context.WithTimeout(context.Background(), time.Second*10)
	t.Cleanup(cancel)

	old := deleteRangeParallelThreshold
	deleteRangeParallelThreshold = 2 // take the parallel driver for a small range
	t.Cleanup(func() { deleteRangeParallelThreshold = old })

	const n, failAt = 30, 4
	suite := headertest.NewTestSuite(t)
	ds := sync.MutexWrap(datastore.NewMapDatastore())
	store := NewTestStore(t, ctx, ds, suite.Head(), WithWriteBatchSize(5))
	require.NoError(t, store.Append(ctx, suite.GenDummyHeaders(n-1)...))
	require.NoError(t, store.Sync(ctx))

	errSeeded := errors.New("seeded handler failure")
	var (
		mu     gosync.Mutex
		others int
		all    = make(chan struct{})
	)
	store.OnDelete(func(hctx context.Context, height uint64) error {
		if height != failAt {
			mu.Lock()
			others++
			if others == n-1 {
				close(all)
			}
			mu.Unlock()
			return nil
		}
		// fail only once every other height has been handed to its handler: deterministic schedule
		select {
		case <-all:
		case <-hctx.Done():
		}
		return errSeeded
	})

	err := store.DeleteRange(ctx, 1, n+1)
	require.ErrorIs(t, err, errSeeded)

	tail, err := store.Tail(ctx)
	require.NoError(t, err)
	require.EqualValues(t, failAt, tail.Height())

	head, err := store.Head(ctx)
	require.NoError(t, err)
	ok, err := store.Has(ctx, head.Hash())
	require.NoError(t, err)
	require.True(t, ok, "Head() is height %d, a header the store has removed", head.Height())
}
