package rules

import (
	"golang.org/x/tools/go/ssa"

	"hdrcheck/an"
)

// checkReleasesOwnSubscriptionOnly (C12.b, finding F29): "… and other waiters on the same height". A reader that
// leaves the waiting function without having been released — its context ended, or its check found the
// header — takes its own count off the subscription of its height: notify(height, false). Between the
// moment it leaves the select (or the check) and the moment it gets the lock, the height may have been
// published — which closed and removed its subscription — and a later reader may have registered a NEW
// subscription under the same height. So every such call stands under the fact that the entry looked up
// in the waiter table, in the same critical section, IS the subscription the caller registered; without it
// the late leaver closes the next reader's signal and that reader comes back with "not found" for a height
// that was not appended.
func checkReleasesOwnSubscriptionOnly(c *an.Ctx, id string, wait *ssa.Function) {
	nf := c.P.Method("store", "heightSub", "notify")
	if nf == nil {
		return
	}
	t, ff := c.T(wait), c.F(wait)
	isUnlock := mutexOp(t, "heightSubsLk", "Unlock")
	isLock := mutexOp(t, "heightSubsLk", "Lock")
	// the caller's subscription: the value whose signal the blocking select waits on
	var own ssa.Value
	an.Instrs(wait, func(in ssa.Instruction) {
		sel, ok := in.(*ssa.Select)
		if !ok || !sel.Blocking {
			return
		}
		for _, st := range sel.States {
			if ld, isLd := st.Chan.(*ssa.UnOp); isLd {
				if fa, isFA := ld.X.(*ssa.FieldAddr); isFA && fieldName(fa) == "signal" {
					own = fa.X
				}
			}
		}
	})
	if !c.Check(own != nil, id, "releases-own-subscription-only", "the waiting function parks on the signal of the subscription it registered", wait, nil, "no select on a subscription's signal", nil) {
		return
	}
	ownT := t.Of(own)
	n := 0
	for _, nc := range callsTo(wait, nf) {
		if len(nc.Call.Args) < 3 {
			continue
		}
		if k, isK := nc.Call.Args[2].(*ssa.Const); !isK || k.Value == nil || k.Value.ExactString() != "false" {
			continue
		}
		n++
		fs := ff.AtInstr(nc)
		ok := false
		an.Instrs(wait, func(in ssa.Instruction) {
			ex, isEx := in.(*ssa.Extract)
			if !isEx || ex.Index != 0 {
				return
			}
			lk, isLk := ex.Tuple.(*ssa.Lookup)
			if !isLk || !lk.CommaOk {
				return
			}
			if u, isU := lk.X.(*ssa.UnOp); !isU {
				return
			} else if fa, isFA := u.X.(*ssa.FieldAddr); !isFA || fieldName(fa) != "heightSubs" {
				return
			}
			lt := t.Of(ex)
			if !(fs.Has(an.EQ(lt, ownT)) || fs.Has(an.EQ(ownT, lt))) {
				return
			}
			// looked up under the lock, in the critical section of the call
			if !an.LockHeld(wait, isLock, isUnlock, lk, nil) || (an.Flow{Fn: wait}).Between(lk, nc, isUnlock) != nil {
				return
			}
			ok = true
		})
		c.Check(ok, id, "releases-own-subscription-only", "a reader that leaves without having been released takes its count off the subscription of its height only where the entry in the waiter table, looked up in the same critical section, is the subscription it registered (a later reader may have registered a new one)", wait, nc, "own subscription "+an.Stable(ownT), fs)
	}
	c.Min(id, "un-registrations in the waiting function", n, 2)
}
