package sync

// Demonstration for finding F16 (property C16).
// Copy into /repo/sync and run: go test ./sync -run 'TestF16' -count=1
//
// F16: Parameters.Validate rejects a trusting period of exactly zero and accepts a negative one.
//      isExpired(h, period) is `time.Since(h.Time().Add(period)) > 0`: with a negative period every
//      header is expired — also the one the trusted peers have just served — so the subjective
//      initialisation refuses it and Start (and every Head()) fails for good, although NewSyncer
//      accepted the parameters. "No parameter set accepted by Validate … wedges Head()/Start."
//      Noticed by a bug-seeding sub-agent (fourth round) next to its seeded change; rule C16.f
//      `trusting-period-negative-rejected` decides it.

import (
	"context"
	"testing"
	"time"

	"github.com/ipfs/go-datastore"
	dssync "github.com/ipfs/go-datastore/sync"
	"github.com/stretchr/testify/require"

	"github.com/celestiaorg/go-header/headertest"
	"github.com/celestiaorg/go-header/store"
)

func TestF16_AcceptedParametersDoNotWedgeStart(t *testing.T) {
	ctx, cancel := context.WithTimeout(context.Background(), 5*time.Second)
	t.Cleanup(cancel)

	suite := headertest.NewTestSuite(t)
	remoteStore := headertest.NewStore[*headertest.DummyHeader](t, suite, 20)
	ds := dssync.MutexWrap(datastore.NewMapDatastore())
	localStore, err := store.NewStore[*headertest.DummyHeader](ds)
	require.NoError(t, err)
	require.NoError(t, localStore.Start(ctx))
	t.Cleanup(func() { _ = localStore.Stop(context.Background()) })

	syncer, err := NewSyncer[*headertest.DummyHeader](
		remoteStore, localStore, headertest.NewDummySubscriber(),
		WithBlockTime(headertest.HeaderTime),
		WithTrustingPeriod(-time.Hour),
	)
	if err != nil {
		return // rejected by Validate: nothing can be wedged
	}
	// accepted: then it has to be usable
	require.NoError(t, syncer.Start(ctx), "a parameter set accepted by NewSyncer/Validate must not make Start fail for good")
	_ = syncer.Stop(ctx)
}
