package store

// Demonstration for finding F23 (property C04).
// Copy into /repo/store and run: go test ./store -run 'TestF23' -count=1
//
// F23: ensureInit gave an empty store the LAST header of its first batch as head and the FIRST as tail.
//      Append(h1, h5) put Head at 5 over the gap 2..4 ("Head … does not move past a gap"); Append(h5, h1) put
//      Tail at 5 above Head at 1 ("Tail ≤ Head"). Noticed by a sixth-round seeder (C04). Rule C06.d
//      `ensure-init-value` (shared as C04.f); repaired by /repo f54f3aa: both pointers start at the lowest
//      header of the batch, the write loop's next step advances the head over what is contiguous.
//      Fails on /repo c0286ea, passes from f54f3aa on.

import (
	"context"
	"testing"
	"time"

	"github.com/ipfs/go-datastore"
	"github.com/ipfs/go-datastore/sync"
	"github.com/stretchr/testify/require"

	"github.com/celestiaorg/go-header/headertest"
)

func f23CheckRange(t *testing.T, ctx context.Context, store *Store[*headertest.DummyHeader]) {
	t.Helper()
	head, err := store.Head(ctx)
	require.NoError(t, err)
	tail, err := store.Tail(ctx)
	require.NoError(t, err)
	require.LessOrEqual(t, tail.Height(), head.Height(), "tail <= head")
	for h := tail.Height(); h <= head.Height(); h++ {
		rctx, cancel := context.WithTimeout(ctx, 100*time.Millisecond)
		got, err := store.GetByHeight(rctx, h)
		cancel()
		require.NoError(t, err, "height %d within [tail %d, head %d]", h, tail.Height(), head.Height())
		require.Equal(t, h, got.Height())
	}
	require.Equal(t, head.Height(), store.Height())
}

// O4: the first Append into an empty store has a gap inside.
func TestF23_FirstBatchWithGap(t *testing.T) {
	ctx, cancel := context.WithTimeout(context.Background(), 10*time.Second)
	t.Cleanup(cancel)
	suite := headertest.NewTestSuite(t)
	ds := sync.MutexWrap(datastore.NewMapDatastore())
	store, err := NewStore[*headertest.DummyHeader](ds)
	require.NoError(t, err)
	require.NoError(t, store.Start(ctx))
	t.Cleanup(func() { _ = store.Stop(context.Background()) })

	hs := append([]*headertest.DummyHeader{suite.Head()}, suite.GenDummyHeaders(9)...)
	require.NoError(t, store.Append(ctx, hs[0], hs[4]))
	require.NoError(t, store.Sync(ctx))
	f23CheckRange(t, ctx, store)
}

// O4b: same, descending.
func TestF23_FirstBatchWithGapDescending(t *testing.T) {
	ctx, cancel := context.WithTimeout(context.Background(), 10*time.Second)
	t.Cleanup(cancel)
	suite := headertest.NewTestSuite(t)
	ds := sync.MutexWrap(datastore.NewMapDatastore())
	store, err := NewStore[*headertest.DummyHeader](ds)
	require.NoError(t, err)
	require.NoError(t, store.Start(ctx))
	t.Cleanup(func() { _ = store.Stop(context.Background()) })

	hs := append([]*headertest.DummyHeader{suite.Head()}, suite.GenDummyHeaders(9)...)
	require.NoError(t, store.Append(ctx, hs[4], hs[0]))
	require.NoError(t, store.Sync(ctx))
	f23CheckRange(t, ctx, store)
}

