package rules

import (
	"golang.org/x/tools/go/ssa"

	"hdrcheck/an"
)

// checkSharedResultSameOptions (C19.c, finding F33): "a stale one triggers exactly one head request verified against
// it, and concurrent callers share that single request and its result". The single-flight wrapper hands the
// leader's options to the getter — among them the trusted head the answer is verified against — and gives
// every follower the leader's result. A follower is a caller that arrived while a request was in flight,
// whatever ITS options are: a stale-head caller, who asks with its subjective head as the trusted head and
// then adopts the answer "as already verified by the Exchange", can join a (re)initialisation request that
// carries no trusted head and verifies nothing. So a return that hands out the shared result to a follower
// is preceded, on every path, by a look at the follower's own options (to tell whether the request in
// flight is one it may share).
func checkSharedResultSameOptions(c *an.Ctx, id string, wrapper *ssa.Function) {
	var opts *ssa.Parameter
	if n := len(wrapper.Params); n >= 3 {
		opts = wrapper.Params[n-1]
	}
	if !c.Check(opts != nil, id, "shared-result-same-options", "the single-flight wrapper takes the caller's options", wrapper, nil, "no options parameter", nil) {
		return
	}
	uses := map[ssa.Instruction]bool{}
	if refs := opts.Referrers(); refs != nil {
		for _, r := range *refs {
			uses[r] = true
		}
	}
	usesOpts := func(in ssa.Instruction) bool { return uses[in] }
	t := c.T(wrapper)
	n := 0
	for _, b := range wrapper.Blocks {
		r, isRet := b.Instrs[len(b.Instrs)-1].(*ssa.Return)
		if !isRet || len(r.Results) == 0 {
			continue
		}
		// the shared result: a load of a field of the wrapper
		ld, isLd := t.Deref(r.Results[0]).(*ssa.UnOp)
		if !isLd {
			continue
		}
		fa, isFA := ld.X.(*ssa.FieldAddr)
		if !isFA || t.Of(fa.X) != "p0" {
			continue
		}
		n++
		c.Check((an.Flow{Fn: wrapper}).MustPrecedeAny(usesOpts, r), id, "shared-result-same-options", "a follower gets the result of the request in flight only after its own options were looked at: the leader's request may have been made with other options (no trusted head to verify the answer against)", wrapper, r, "", nil)
	}
	c.Min(id, "returns of the shared result", n, 1)
}
