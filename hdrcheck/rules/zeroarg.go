package rules

import (
	"fmt"

	"golang.org/x/tools/go/ssa"

	"hdrcheck/an"
)

// nonZeroByFailedCallee: the value v is known to be a non-zero header at a point where the facts say
// that a call `g(…, v, …)` of a module function has failed (its error result is non-nil), when g
// returns a nil error whenever that parameter IsZero() — the contrapositive of g's own guard
// (`if from.IsZero() { return nil }`). Used for values that may be zero after a tolerated failure
// (an empty store) and are only touched in the handling of such a callee's failure.
func nonZeroByFailedCallee(c *an.Ctx, fn *ssa.Function, fs an.FactSet, v ssa.Value) bool {
	t := c.T(fn)
	ok := false
	an.Instrs(fn, func(in ssa.Instruction) {
		call, isCall := in.(*ssa.Call)
		if !isCall || ok {
			return
		}
		callee := an.StaticCallee(&call.Call)
		if callee == nil || callee.Blocks == nil || !c.P.InModule(callee) {
			return
		}
		failed := fs.Has(an.NE(t.Of(call), "nil")) || fs.Has(an.NE(t.Of(call)+"#"+fmt.Sprint(callee.Signature.Results().Len()-1), "nil"))
		if !failed {
			return
		}
		for j, a := range call.Call.Args {
			if a != v {
				continue
			}
			cf, ct := c.F(callee), c.T(callee)
			pr := cf.Prune(an.B(fmt.Sprintf("IsZero(p%d)", j)))
			n, allNil := 0, true
			for _, r := range pr.Returns() {
				n++
				if ct.ErrShape(errResult(r)) != "nil" {
					allNil = false
				}
			}
			if n > 0 && allNil {
				ok = true
			}
		}
	})
	return ok
}
