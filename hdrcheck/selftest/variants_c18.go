package selftest

func init() {
	const se = "p2p/session.go"
	const ps = "p2p/peer_stats.go"
	const he = "p2p/helpers.go"
	const op = "p2p/options.go"
	add(
		Variant{Prop: "C18", Name: "failed-request-dropped-on-empty", File: se, Expect: "C18.a",
			Old: "\t\tselect {\n\t\tcase <-s.ctx.Done():\n\t\t\treturn\n\t\tcase s.reqCh <- req:\n\t\t}\n\t\tlogFn(", New: "\t\tif errors.Is(err, errEmptyResponse) {\n\t\t\treturn\n\t\t}\n\t\tselect {\n\t\tcase <-s.ctx.Done():\n\t\t\treturn\n\t\tcase s.reqCh <- req:\n\t\t}\n\t\tlogFn("},
		Variant{Prop: "C18", Name: "remainder-origin-off-by-one", File: se, Expect: "C18.b",
			Old: "\t\tcase s.reqCh <- prepareRequests(from+1, remainingHeaders, req.Amount)[0]:", New: "\t\tcase s.reqCh <- prepareRequests(from, remainingHeaders, req.Amount)[0]:"},
		Variant{Prop: "C18", Name: "remainder-amount-full", File: se, Expect: "C18.b",
			Old: "\t\tcase s.reqCh <- prepareRequests(from+1, remainingHeaders, req.Amount)[0]:", New: "\t\tcase s.reqCh <- prepareRequests(from+1, req.Amount, req.Amount)[0]:"},
		Variant{Prop: "C18", Name: "remainder-from-first-header", File: se, Expect: "C18.b",
			Old: "\t\tfrom := h[uint64(len(h))-1].Height()", New: "\t\tfrom := h[0].Height()"},
		Variant{Prop: "C18", Name: "partial-answer-not-delivered", File: se, Expect: "C18.b",
			Old: "\t\t\tlog.Debugw(\"sending additional request to get remaining headers\")\n\t\t}", New: "\t\t\tlog.Debugw(\"sending additional request to get remaining headers\")\n\t\t\ts.queue.push(stat)\n\t\t\treturn\n\t\t}"},
		Variant{Prop: "C18", Name: "split-underflow", File: se, Expect: "C18.c",
			Old: "\t\tif amount < headersPerPeer {\n\t\t\trequestSize = amount", New: "\t\tif amount < headersPerPeer/2 {\n\t\t\trequestSize = amount"},
		Variant{Prop: "C18", Name: "origin-after-advance", File: se, Expect: "C18.c",
			Old: "\t\t\tamount -= headersPerPeer\n\t\t\tfrom += headersPerPeer\n\t\t\trequestSize = headersPerPeer\n\t\t}\n\n\t\trequest.Amount = requestSize", New: "\t\t\tamount -= headersPerPeer\n\t\t\tfrom += headersPerPeer\n\t\t\trequestSize = headersPerPeer\n\t\t\trequest.Data = &p2p_pb.HeaderRequest_Origin{Origin: from}\n\t\t}\n\n\t\trequest.Amount = requestSize"},
		Variant{Prop: "C18", Name: "from-not-advanced", File: se, Expect: "C18.c",
			Old: "\t\t\tamount -= headersPerPeer\n\t\t\tfrom += headersPerPeer\n", New: "\t\t\tamount -= headersPerPeer\n\t\t\tfrom += headersPerPeer - 1\n"},
		Variant{Prop: "C18", Name: "per-peer-zero-accepted", File: op, Expect: "C18.c",
			Old: "\tif p.MaxHeadersPerRangeRequest == 0 {\n\t\treturn fmt.Errorf(\"invalid MaxHeadersPerRangeRequest", New: "\tif p.MaxHeadersPerRangeRequest == 0 && p.RequestTimeout == 0 {\n\t\treturn fmt.Errorf(\"invalid MaxHeadersPerRangeRequest"},
		Variant{Prop: "C18", Name: "peer-lost-on-success", File: se, Expect: "C18.d",
			Old: "\theaders <- h\n\ts.queue.push(stat)\n}", New: "\theaders <- h\n\tif remainingHeaders == 0 {\n\t\ts.queue.push(stat)\n\t}\n}"},
		Variant{Prop: "C18", Name: "peer-lost-on-notfound", File: se, Expect: "C18.d",
			Old: "\t\tif errors.Is(err, header.ErrNotFound) {\n\t\t\ts.queue.push(stat)\n\t\t}", New: "\t\tif errors.Is(err, header.ErrNotFound) && stat.score() > 0 {\n\t\t\ts.queue.push(stat)\n\t\t}"},
		Variant{Prop: "C18", Name: "token-before-heap-push", File: ps, Expect: "C18.d",
			Old: "\tp.statsLk.Lock()\n\theap.Push(&p.stats, stat)\n\tp.statsLk.Unlock()\n\t// notify that the peer is available in the queue, so it can be popped out\n\tp.havePeer <- struct{}{}", New: "\tp.havePeer <- struct{}{}\n\tp.statsLk.Lock()\n\theap.Push(&p.stats, stat)\n\tp.statsLk.Unlock()"},
		Variant{Prop: "C18", Name: "token-capacity-one", File: ps, Expect: "C18.d",
			Old: "\tstatsCh := make(chan struct{}, len(stats))", New: "\tstatsCh := make(chan struct{}, 1)"},
		Variant{Prop: "C18", Name: "pop-without-token", File: ps, Expect: "C18.d",
			Old: "\tcase <-p.ctx.Done():\n\t\treturn &peerStat{}\n\tcase <-p.havePeer:\n\t}", New: "\tcase <-p.ctx.Done():\n\tcase <-p.havePeer:\n\t}"},
		Variant{Prop: "C18", Name: "client-reads-one-more", File: he, Expect: "C18.e",
			Old: "\tfor i := uint64(0); i < req.Amount; i++ {", New: "\tfor i := uint64(0); i <= req.Amount; i++ {"},
		// benign
		Variant{Prop: "C18", Name: "benign-remainder-local", File: se,
			Old: "\t\tcase s.reqCh <- prepareRequests(from+1, remainingHeaders, req.Amount)[0]:", New: "\t\tcase s.reqCh <- prepareRequests(1+from, remainingHeaders, req.Amount)[0]:"},
		Variant{Prop: "C18", Name: "benign-split-commuted", File: se,
			Old: "\t\tif amount < headersPerPeer {\n\t\t\trequestSize = amount", New: "\t\tif headersPerPeer > amount {\n\t\t\trequestSize = amount"},
		Variant{Prop: "C18", Name: "benign-loop-guard", File: se,
			Old: "\tfor amount > uint64(0) {", New: "\tfor amount != 0 {"},
		// the read side of the stream bounded by the request context (fourth seeding round)
		Variant{Prop: "C18", Name: "seed-only-the-write-deadline-set", File: "p2p/helpers.go", Expect: "C18.e",
			Old: "\t\tif err = stream.SetDeadline(dl); err != nil {", New: "\t\tif err = stream.SetWriteDeadline(dl); err != nil {"},
		Variant{Prop: "C18", Name: "stream-deadline-after-the-reads", File: "p2p/helpers.go", Expect: "C18.e",
			Old: "\tif dl, ok := ctx.Deadline(); ok {\n\t\tif err = stream.SetDeadline(dl); err != nil {\n\t\t\tlog.Debugf(\"error setting deadline: %s\", err)\n\t\t}\n\t}\n", New: "",
			More: []Edit{{File: "p2p/helpers.go", Old: "\tif errors.Is(err, io.EOF) {\n\t\terr = nil\n\t}\n", New: "\tif errors.Is(err, io.EOF) {\n\t\terr = nil\n\t}\n\tif dl, ok := ctx.Deadline(); ok {\n\t\tif derr := stream.SetDeadline(dl); derr != nil {\n\t\t\tlog.Debugf(\"error setting deadline: %s\", derr)\n\t\t}\n\t}\n"}}},
		Variant{Prop: "C18", Name: "benign-read-and-write-deadline-set-separately", File: "p2p/helpers.go",
			Old: "\t\tif err = stream.SetDeadline(dl); err != nil {\n\t\t\tlog.Debugf(\"error setting deadline: %s\", err)\n\t\t}\n", New: "\t\tif err = stream.SetWriteDeadline(dl); err != nil {\n\t\t\tlog.Debugf(\"error setting deadline: %s\", err)\n\t\t}\n\t\tif err = stream.SetReadDeadline(dl); err != nil {\n\t\t\tlog.Debugf(\"error setting deadline: %s\", err)\n\t\t}\n"},
	)
}
