package rules

import (
	"fmt"
	"strings"

	"golang.org/x/tools/go/ssa"

	"hdrcheck/an"
)

// Typestate of a derived context: `ctx, cancel := context.WithTimeout(parent, d)` … `cancel()` …
// — after the (non-deferred) call of its cancel function the context is done, and every operation
// that honours its context fails at once when handed it. The rules of the properties check that
// a step is present and what it is given; they cannot see from that that the context it is given has
// already been cancelled. This sweep closes the gap for every function a rule of the property has
// reasoned about: no use of a derived context is reachable from an explicit call of its cancel
// function without the context being derived afresh in between (a loop that derives, uses and
// cancels per iteration is fine).
func runCtxSweep(id string, c *an.Ctx) {
	n := 0
	for _, fn := range c.TermFuncs() {
		if fn == nil || fn.Blocks == nil {
			continue
		}
		an.Instrs(fn, func(in ssa.Instruction) {
			def, ok := in.(*ssa.Call)
			if !ok {
				return
			}
			name := an.StaticFullName(&def.Call)
			if !strings.HasPrefix(name, "context.With") || def.Referrers() == nil {
				return
			}
			var ctxV, cancelV ssa.Value
			for _, r := range *def.Referrers() {
				if ex, isEx := r.(*ssa.Extract); isEx {
					switch ex.Index {
					case 0:
						ctxV = ex
					case 1:
						cancelV = ex
					}
				}
			}
			if ctxV == nil || cancelV == nil {
				return
			}
			// the places the two values live in: the SSA value itself and a cell it is stored into
			cells := func(v ssa.Value) (vals map[ssa.Value]bool, allocs map[*ssa.Alloc]bool) {
				vals, allocs = map[ssa.Value]bool{v: true}, map[*ssa.Alloc]bool{}
				if v.Referrers() == nil {
					return
				}
				for _, r := range *v.Referrers() {
					if st, isSt := r.(*ssa.Store); isSt && st.Val == v {
						if al, isAl := st.Addr.(*ssa.Alloc); isAl {
							allocs[al] = true
						}
					}
				}
				return
			}
			ctxVals, ctxCells := cells(ctxV)
			canVals, canCells := cells(cancelV)
			isCtx := func(v ssa.Value) bool {
				if ctxVals[v] {
					return true
				}
				if al, isAl := v.(*ssa.Alloc); isAl && ctxCells[al] {
					return true // the cell itself, captured by a closure
				}
				if u, isU := v.(*ssa.UnOp); isU {
					if al, isAl := u.X.(*ssa.Alloc); isAl && ctxCells[al] {
						return true
					}
				}
				return false
			}
			isCancel := func(v ssa.Value) bool {
				if canVals[v] {
					return true
				}
				if u, isU := v.(*ssa.UnOp); isU {
					if al, isAl := u.X.(*ssa.Alloc); isAl && canCells[al] {
						return true
					}
				}
				return false
			}
			for _, b := range fn.Blocks {
				for i, in2 := range b.Instrs {
					call, isCall := in2.(*ssa.Call) // a deferred cancel is an *ssa.Defer, not a Call
					if !isCall || call.Call.IsInvoke() || !isCancel(call.Call.Value) {
						continue
					}
					n++
					var bad ssa.Instruction
					seen := map[*ssa.BasicBlock]bool{}
					var walk func(bb *ssa.BasicBlock, start int)
					walk = func(bb *ssa.BasicBlock, start int) {
						for _, x := range bb.Instrs[start:] {
							if bad != nil || x == ssa.Instruction(def) {
								return // derived afresh
							}
							var args []ssa.Value
							switch y := x.(type) {
							case *ssa.Call:
								args = y.Call.Args
							case *ssa.Go:
								args = y.Call.Args
							case *ssa.Defer:
								args = y.Call.Args
							case *ssa.MakeClosure:
								args = y.Bindings
							}
							for _, a := range args {
								if isCtx(a) {
									bad = x
									return
								}
							}
						}
						for _, s := range bb.Succs {
							if !seen[s] {
								seen[s] = true
								walk(s, 0)
							}
						}
					}
					walk(b, i+1)
					key := fmt.Sprintf("ctx-after-cancel:%s:%s", an.FuncName(fn), strings.TrimPrefix(name, "context."))
					rule := "a derived context is not handed to any operation after its cancel function has been called (the operation would fail at once on a context-honouring implementation)"
					if bad != nil {
						c.Fail(id+".ctx", key, rule, fn, bad, "cancelled at "+c.P.InstrPos(call)+", used afterwards here", nil)
					} else {
						c.Ok(id+".ctx", key, rule, fn, call, "no use of the context is reachable from this cancel call", nil)
					}
				}
			}
		})
	}
	_ = n
}
