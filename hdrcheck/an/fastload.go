package an

import (
	"bytes"
	"encoding/json"
	"fmt"
	"go/ast"
	"go/parser"
	"go/token"
	"go/types"
	"io"
	"os"
	"os/exec"
	"path/filepath"
	"sort"
	"strings"
	"sync"

	"golang.org/x/tools/go/gcexportdata"
	"golang.org/x/tools/go/packages"
	"golang.org/x/tools/go/ssa"
)

// The fast loader is used for the checker's self-test variants only: it asks
// `go list -export -deps` once for the build's export data of the unmodified
// tree and then type-checks the repository packages from source (with an
// in-memory overlay) against the export data of the external dependencies.
// A variant therefore costs a parse + type-check + SSA build of ~45 files
// instead of a `go list -export` recompilation of every dependent package.

type listPkg struct {
	ImportPath string
	Dir        string
	Export     string
	GoFiles    []string
	Imports    []string
	ImportMap  map[string]string
	Standard   bool
	DepOnly    bool
	Module     *struct{ Path string }
	Error      *struct{ Err string }
}

// BuildIndex is the result of one `go list -export -deps ./...`.
type BuildIndex struct {
	Dir   string
	Pkgs  map[string]*listPkg
	Order []string // repository packages in dependency order
}

var (
	indexMu    sync.Mutex
	indexCache = map[string]*BuildIndex{}
)

// Index runs go list (once per directory and process).
func Index(dir string) (*BuildIndex, error) {
	indexMu.Lock()
	defer indexMu.Unlock()
	if ix, ok := indexCache[dir]; ok {
		return ix, nil
	}
	cmd := exec.Command("go", "list", "-e", "-export", "-deps", "-json=ImportPath,Dir,Export,GoFiles,Imports,ImportMap,Standard,DepOnly,Module,Error", "./...")
	cmd.Dir = dir
	cmd.Env = goEnv()
	var stderr bytes.Buffer
	cmd.Stderr = &stderr
	out, err := cmd.Output()
	if err != nil {
		return nil, fmt.Errorf("go list: %v: %s", err, stderr.String())
	}
	ix := &BuildIndex{Dir: dir, Pkgs: map[string]*listPkg{}}
	dec := json.NewDecoder(bytes.NewReader(out))
	for {
		var lp listPkg
		if err := dec.Decode(&lp); err == io.EOF {
			break
		} else if err != nil {
			return nil, err
		}
		p := lp
		ix.Pkgs[p.ImportPath] = &p
		if p.Module != nil && p.Module.Path == ModPath && !p.DepOnly {
			ix.Order = append(ix.Order, p.ImportPath) // -deps prints dependencies first
		}
	}
	if len(ix.Order) == 0 {
		return nil, fmt.Errorf("go list found no package of %s in %s", ModPath, dir)
	}
	indexCache[dir] = ix
	return ix, nil
}

type fastImporter struct {
	ix      *BuildIndex
	fset    *token.FileSet
	imports map[string]*types.Package // gcexportdata's shared map
	repo    map[string]*types.Package
	from    *listPkg
}

func (fi *fastImporter) Import(path string) (*types.Package, error) {
	return fi.ImportFrom(path, "", 0)
}

func (fi *fastImporter) ImportFrom(path, _ string, _ types.ImportMode) (*types.Package, error) {
	if path == "unsafe" {
		return types.Unsafe, nil
	}
	if fi.from != nil && fi.from.ImportMap != nil {
		if m, ok := fi.from.ImportMap[path]; ok {
			path = m
		}
	}
	if p, ok := fi.repo[path]; ok {
		return p, nil
	}
	if p, ok := fi.imports[path]; ok && p.Complete() {
		return p, nil
	}
	lp := fi.ix.Pkgs[path]
	if lp == nil || lp.Export == "" {
		return nil, fmt.Errorf("no export data for %q", path)
	}
	f, err := os.Open(lp.Export)
	if err != nil {
		return nil, err
	}
	defer f.Close()
	r, err := gcexportdata.NewReader(f)
	if err != nil {
		return nil, err
	}
	return gcexportdata.Read(r, fi.fset, fi.imports, path)
}

// LoadFast type-checks the repository with an overlay against cached export data.
func LoadFast(dir string, overlay map[string][]byte) (*Prog, error) {
	ix, err := Index(dir)
	if err != nil {
		return nil, err
	}
	fset := token.NewFileSet()
	fi := &fastImporter{ix: ix, fset: fset, imports: map[string]*types.Package{}, repo: map[string]*types.Package{}}
	p := &Prog{Dir: dir, Fset: fset, ByPath: map[string]*packages.Package{}, SSAPkgs: map[string]*ssa.Package{}}
	type built struct {
		pk    *packages.Package
		files []*ast.File
	}
	var all []built
	for _, path := range ix.Order {
		lp := ix.Pkgs[path]
		var files []*ast.File
		var names []string
		for _, gf := range lp.GoFiles {
			full := filepath.Join(lp.Dir, gf)
			var src any
			if b, ok := overlay[full]; ok {
				src = b
			}
			f, err := parser.ParseFile(fset, full, src, parser.ParseComments|parser.SkipObjectResolution)
			if err != nil {
				return nil, fmt.Errorf("parse: %v", err)
			}
			files = append(files, f)
			names = append(names, full)
		}
		info := &types.Info{
			Types:        map[ast.Expr]types.TypeAndValue{},
			Defs:         map[*ast.Ident]types.Object{},
			Uses:         map[*ast.Ident]types.Object{},
			Implicits:    map[ast.Node]types.Object{},
			Instances:    map[*ast.Ident]types.Instance{},
			Scopes:       map[ast.Node]*types.Scope{},
			Selections:   map[*ast.SelectorExpr]*types.Selection{},
			FileVersions: map[*ast.File]string{},
		}
		var terrs []string
		fi.from = lp
		conf := types.Config{Importer: fi, Error: func(e error) { terrs = append(terrs, e.Error()) }}
		tp, _ := conf.Check(path, fset, files, info)
		if len(terrs) > 0 {
			sort.Strings(terrs)
			if len(terrs) > 5 {
				terrs = terrs[:5]
			}
			return nil, fmt.Errorf("type-check errors:\n  %s", strings.Join(terrs, "\n  "))
		}
		fi.repo[path] = tp
		pk := &packages.Package{ID: path, Name: tp.Name(), PkgPath: path, GoFiles: names, CompiledGoFiles: names,
			Types: tp, TypesInfo: info, Syntax: files, Fset: fset}
		p.Pkgs = append(p.Pkgs, pk)
		p.ByPath[path] = pk
		p.NFiles += len(names)
		all = append(all, built{pk, files})
	}
	sort.Slice(p.Pkgs, func(i, j int) bool { return p.Pkgs[i].PkgPath < p.Pkgs[j].PkgPath })

	prog := ssa.NewProgram(fset, ssa.BuilderMode(0))
	created := map[*types.Package]bool{}
	var createDeps func(tp *types.Package)
	createDeps = func(tp *types.Package) {
		if tp == nil || created[tp] || tp == types.Unsafe {
			return
		}
		created[tp] = true
		for _, imp := range tp.Imports() {
			createDeps(imp)
		}
		if _, isRepo := fi.repo[tp.Path()]; !isRepo {
			prog.CreatePackage(tp, nil, nil, true)
		}
	}
	for _, ip := range fi.imports {
		createDeps(ip)
	}
	for _, b := range all {
		for _, imp := range b.pk.Types.Imports() {
			createDeps(imp)
		}
		created[b.pk.Types] = true
		sk := prog.CreatePackage(b.pk.Types, b.files, b.pk.TypesInfo, true)
		p.SSAPkgs[b.pk.PkgPath] = sk
	}
	for _, b := range all {
		p.SSAPkgs[b.pk.PkgPath].Build()
	}
	p.SSA = prog
	p.NFuncs = len(p.RepoFuncs())
	p.Toolchain = "fast loader (go/types of the checker's toolchain against `go list -export` data)"
	return p, nil
}
