// Demonstration for finding F31 (property C18) — KNOWN, not repaired.
// Copy into /repo/p2p and run: go test ./p2p -run 'TestF31' -count=1   (fails on the unchanged tree)
//
// F31: "… including peers that answer NOT_FOUND, answer only a prefix, time out once or disconnect". doRequest
//
//	returns a peer to the session's queue only after NOT_FOUND. A peer whose request came back EMPTY — the
//	stream was reset, the request timed out before the first header, the dial failed — has its score lowered
//	and its request re-queued, but the peer itself is neither blocked nor pushed back: it is lost for the rest
//	of the session. If it is the only holder of the range, GetRangeByHeight runs into the caller's deadline
//	although the peer would serve the very next request; with a second peer that answers NOT_FOUND the
//	session spins on that one. Noticed by an eighth-round seeder (C18). Rule C18.d
//	`peer-returned-on-empty-response` (the sibling of `peer-returned-on-notfound`).
//	Not repaired: pushing the peer back unconditionally makes the session spin on a peer that cannot be
//	reached until the caller's context ends; a sound repair needs a retry budget or a back-off per peer.
package p2p

import (
	"context"
	"sync/atomic"
	"testing"
	"time"

	"github.com/ipfs/go-datastore"
	"github.com/ipfs/go-datastore/sync"
	"github.com/libp2p/go-libp2p/core/network"
	"github.com/libp2p/go-libp2p/core/peer"
	"github.com/libp2p/go-libp2p/p2p/net/conngater"
	"github.com/stretchr/testify/require"

	"github.com/celestiaorg/go-header/headertest"
)

func TestF31_PeerThatFailsOnceIsAskedAgain(t *testing.T) {
	const chainLen = 10
	chain := headertest.NewStore[*headertest.DummyHeader](t, headertest.NewTestSuite(t), chainLen)

	for _, withNotFoundPeer := range []bool{false, true} {
		name := "single peer"
		if withNotFoundPeer {
			name = "plus a peer that answers NOT_FOUND"
		}
		t.Run(name, func(t *testing.T) {
			hosts := createMocknet(t, 3)

			// hosts[1]: honest, holds everything, but its very first stream is reset
			// (a benign one-off fault); every later request is served normally.
			srv, err := NewExchangeServer[*headertest.DummyHeader](hosts[1], chain,
				WithNetworkID[ServerParameters](networkID),
			)
			require.NoError(t, err)
			require.NoError(t, srv.Start(context.Background()))
			t.Cleanup(func() { srv.Stop(context.Background()) }) //nolint:errcheck
			var (
				failedOnce atomic.Bool
				served     atomic.Int32
			)
			hosts[1].SetStreamHandler(protocolID(networkID), func(s network.Stream) {
				if failedOnce.CompareAndSwap(false, true) {
					s.Reset() //nolint:errcheck
					return
				}
				served.Add(1)
				srv.requestHandler(s)
			})

			connGater, err := conngater.NewBasicConnectionGater(
				sync.MutexWrap(datastore.NewMapDatastore()),
			)
			require.NoError(t, err)
			client, err := NewExchange[*headertest.DummyHeader](
				hosts[0],
				[]peer.ID{hosts[1].ID()},
				connGater,
				WithNetworkID[ClientParameters](networkID),
				WithChainID(networkID),
			)
			require.NoError(t, err)
			client.ctx, client.cancel = context.WithCancel(context.Background())
			t.Cleanup(client.cancel)

			client.peerTracker.peerLk.Lock()
			client.peerTracker.trackedPeers[hosts[1].ID()] = &peerStat{
				peerID: hosts[1].ID(), peerScore: 100,
			}
			client.peerTracker.peerLk.Unlock()

			if withNotFoundPeer {
				// hosts[2]: honest, holds only header 1, answers NOT_FOUND for the range
				low := headertest.NewStore[*headertest.DummyHeader](t, headertest.NewTestSuite(t), 0)
				require.NoError(t, low.Append(context.Background(), chain.Headers[1]))
				lowSrv, err := NewExchangeServer[*headertest.DummyHeader](hosts[2], low,
					WithNetworkID[ServerParameters](networkID),
				)
				require.NoError(t, err)
				require.NoError(t, lowSrv.Start(context.Background()))
				t.Cleanup(func() { lowSrv.Stop(context.Background()) }) //nolint:errcheck

				client.peerTracker.peerLk.Lock()
				client.peerTracker.trackedPeers[hosts[2].ID()] = &peerStat{
					peerID: hosts[2].ID(), peerScore: 1,
				}
				client.peerTracker.peerLk.Unlock()
			}

			ctx, cancel := context.WithTimeout(context.Background(), 3*time.Second)
			defer cancel()

			got, err := client.GetRangeByHeight(ctx, chain.Headers[1], 6)
			require.NoError(t, err,
				"the capable peer failed one request only (it served %d afterwards)", served.Load())
			require.Len(t, got, 4)
			for i, h := range got {
				require.Equal(t, uint64(i+2), h.Height())
			}
		})
	}
}
