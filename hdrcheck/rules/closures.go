package rules

import (
	"go/types"
	"strings"

	"golang.org/x/tools/go/ssa"

	"hdrcheck/an"
)

// stripUTC removes time.UTC(…) wrappers from a term: UTC() does not change the instant, so
// comparisons of times are the same with or without it.
func stripUTC(s string) string {
	const w = "time.UTC("
	for {
		i := strings.Index(s, w)
		if i < 0 {
			return s
		}
		depth, j := 1, i+len(w)
		for ; j < len(s) && depth > 0; j++ {
			switch s[j] {
			case '(':
				depth++
			case ')':
				depth--
			}
		}
		if depth != 0 {
			return s
		}
		s = s[:i] + s[i+len(w):j-1] + s[j:]
	}
}

// unsignedFacts: every conversion to an unsigned integer type inside the expression v
// yields a value ≥ 0 (whatever the sign of the operand was).
func unsignedFacts(t *an.Terms, v ssa.Value, depth int) an.FactSet {
	var out an.FactSet
	if depth <= 0 || v == nil {
		return out
	}
	switch x := v.(type) {
	case *ssa.Convert:
		if b, ok := x.Type().Underlying().(*types.Basic); ok && b.Info()&types.IsUnsigned != 0 {
			out = append(out, an.GE(t.Of(x), "0"))
		}
		out = append(out, unsignedFacts(t, x.X, depth-1)...)
	case *ssa.BinOp:
		out = append(out, unsignedFacts(t, x.X, depth-1)...)
		out = append(out, unsignedFacts(t, x.Y, depth-1)...)
	case *ssa.Call:
		// min(a, b, …) / max(…): the operands are part of the expression
		if b, ok := x.Call.Value.(*ssa.Builtin); ok && (b.Name() == "min" || b.Name() == "max") {
			for _, a := range x.Call.Args {
				out = append(out, unsignedFacts(t, a, depth-1)...)
			}
		}
	}
	return out
}

// isCallResult: v is component idx of the result tuple of a static call to fn.
func isCallResult(t *an.Terms, v ssa.Value, fn *ssa.Function, idx int) bool {
	if v == nil || fn == nil {
		return false
	}
	if d := t.Deref(v); d != nil {
		v = d
	}
	ex, isEx := v.(*ssa.Extract)
	if !isEx || ex.Index != idx {
		return false
	}
	call, isCall := ex.Tuple.(*ssa.Call)
	return isCall && an.StaticCallee(&call.Call) == fn
}

// storeTarget: the local variable of outer that a store inside the closure inner writes to —
// the captured variable itself, or the variable whose address was put into a captured pointer
// (`defer helper(&res)` after inlining). nil when it cannot be resolved.
func storeTarget(outer, inner *ssa.Function, st *ssa.Store) *ssa.Alloc {
	if fv, ok := st.Addr.(*ssa.FreeVar); ok {
		return boundAlloc(outer, inner, fv)
	}
	// *p = v with p loaded from a captured pointer variable (possibly through a local copy)
	var origin func(v ssa.Value, depth int) *ssa.FreeVar
	origin = func(v ssa.Value, depth int) *ssa.FreeVar {
		if depth > 4 {
			return nil
		}
		u, ok := v.(*ssa.UnOp)
		if !ok {
			return nil
		}
		switch x := u.X.(type) {
		case *ssa.FreeVar:
			return x
		case *ssa.Alloc:
			// local copy: its single store
			var src ssa.Value
			n := 0
			for _, r := range *x.Referrers() {
				if s, isSt := r.(*ssa.Store); isSt && s.Addr == ssa.Value(x) {
					src = s.Val
					n++
				}
			}
			if n == 1 {
				return origin(src, depth+1)
			}
		}
		return nil
	}
	fv := origin(st.Addr, 0)
	if fv == nil {
		return nil
	}
	holder := boundAlloc(outer, inner, fv)
	if holder == nil {
		return nil
	}
	// the holder was initialised once with the address of a local (possibly via a converted copy)
	var target *ssa.Alloc
	n := 0
	for _, r := range *holder.Referrers() {
		if s, isSt := r.(*ssa.Store); isSt && s.Addr == ssa.Value(holder) {
			n++
			v := s.Val
			for {
				switch x := v.(type) {
				case *ssa.ChangeType:
					v = x.X
					continue
				case *ssa.Convert:
					v = x.X
					continue
				}
				break
			}
			target, _ = v.(*ssa.Alloc)
		}
	}
	if n != 1 {
		return nil
	}
	return target
}

// isResultVar: al is a named result of fn — what fn returns after a recovered panic is a load of it.
func isResultVar(fn *ssa.Function, al *ssa.Alloc) bool {
	if fn.Recover == nil || len(fn.Recover.Instrs) == 0 {
		return false
	}
	r, ok := fn.Recover.Instrs[len(fn.Recover.Instrs)-1].(*ssa.Return)
	if !ok {
		return false
	}
	for _, res := range r.Results {
		if u, isU := res.(*ssa.UnOp); isU && u.X == ssa.Value(al) {
			return true
		}
	}
	return false
}

// samePhi looks through phis all of whose operands are (recursively) one and the same value:
// several ways through a loop body that carry the same value back.
func samePhi(v ssa.Value) ssa.Value {
	for depth := 0; depth < 4; depth++ {
		ph, ok := v.(*ssa.Phi)
		if !ok || len(ph.Edges) == 0 {
			return v
		}
		first := samePhi(ph.Edges[0])
		for _, e := range ph.Edges[1:] {
			if samePhi(e) != first {
				return v
			}
		}
		v = first
	}
	return v
}

// boundAlloc returns the local variable (Alloc) of `outer` that the closure `inner`
// captures as free variable fv, looking at the MakeClosure sites of inner in outer.
func boundAlloc(outer, inner *ssa.Function, fv *ssa.FreeVar) *ssa.Alloc {
	idx := -1
	for i, f := range inner.FreeVars {
		if f == fv {
			idx = i
		}
	}
	if idx < 0 {
		return nil
	}
	var out *ssa.Alloc
	for _, b := range outer.Blocks {
		for _, in := range b.Instrs {
			var mc *ssa.MakeClosure
			switch x := in.(type) {
			case *ssa.MakeClosure:
				mc = x
			case *ssa.Defer:
				mc, _ = x.Call.Value.(*ssa.MakeClosure)
			case *ssa.Go:
				mc, _ = x.Call.Value.(*ssa.MakeClosure)
			}
			if mc == nil || mc.Fn != ssa.Value(inner) || idx >= len(mc.Bindings) {
				continue
			}
			if al, isAl := mc.Bindings[idx].(*ssa.Alloc); isAl {
				out = al
			}
		}
	}
	return out
}

// blockReaches reports whether control can flow from block a to block b along one or more edges.
func blockReaches(a, b *ssa.BasicBlock) bool {
	seen := map[*ssa.BasicBlock]bool{}
	var walk func(x *ssa.BasicBlock) bool
	walk = func(x *ssa.BasicBlock) bool {
		for _, s := range x.Succs {
			if s == b {
				return true
			}
			if !seen[s] {
				seen[s] = true
				if walk(s) {
					return true
				}
			}
		}
		return false
	}
	return walk(a)
}
