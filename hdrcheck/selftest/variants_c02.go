package selftest

func init() {
	const f = "verify.go"
	add(
		Variant{Prop: "C02", Name: "empty-range-accepted", File: f, Expect: "C02.a",
			Old: "\tif len(untrstdRange) == 0 {\n\t\treturn nil, &VerifyError{Reason: ErrEmptyRange}\n\t}\n", New: "\tif len(untrstdRange) == 0 {\n\t\treturn nil, nil\n\t}\n"},
		Variant{Prop: "C02", Name: "rolling-trusted-not-updated", File: f, Expect: "C02.b",
			Old: "\t\tverified = append(verified, untrstd)\n\t\ttrstd = untrstd\n", New: "\t\tverified = append(verified, untrstd)\n"},
		Variant{Prop: "C02", Name: "adjacency-check-dropped-for-all", File: f, Expect: "C02.d",
			Old: "if i > 0 && trstd.Height()+1 != untrstd.Height() {", New: "if i > 1 && trstd.Height()+1 != untrstd.Height() {"},
		Variant{Prop: "C02", Name: "adjacency-applied-to-first", File: f, Expect: "C02.d",
			Old: "if i > 0 && trstd.Height()+1 != untrstd.Height() {", New: "if i >= 0 && trstd.Height()+1 != untrstd.Height() {"},
		Variant{Prop: "C02", Name: "adjacency-allows-gap", File: f, Expect: "C02.d",
			Old: "if i > 0 && trstd.Height()+1 != untrstd.Height() {", New: "if i > 0 && trstd.Height()+1 > untrstd.Height() {"},
		Variant{Prop: "C02", Name: "failed-header-included", File: f, Expect: "C02.c",
			Old: "\t\terr := Verify(trstd, untrstd)\n\t\tif err != nil {\n\t\t\treturn verified, err\n\t\t}", New: "\t\terr := Verify(trstd, untrstd)\n\t\tif err != nil {\n\t\t\treturn append(verified, untrstd), err\n\t\t}"},
		Variant{Prop: "C02", Name: "verify-error-swallowed", File: f, Expect: "C02.e",
			Old: "\t\terr := Verify(trstd, untrstd)\n\t\tif err != nil {\n\t\t\treturn verified, err\n\t\t}", New: "\t\terr := Verify(trstd, untrstd)\n\t\tif err != nil && i > 0 {\n\t\t\treturn verified, err\n\t\t}"},
		Variant{Prop: "C02", Name: "append-before-adjacency", File: f, Expect: "C02.d",
			Old:  "\t\t// ensure range is adjacent, as Verify allows non-adjacency",
			New:  "\t\tverified = append(verified, untrstd)\n\t\t// ensure range is adjacent, as Verify allows non-adjacency",
			More: []Edit{{f, "\t\tverified = append(verified, untrstd)\n\t\ttrstd = untrstd\n", "\t\ttrstd = untrstd\n"}}},
		Variant{Prop: "C02", Name: "input-returned-instead-of-prefix", File: f, Expect: "C02.f",
			Old: "\treturn verified, nil\n}", New: "\treturn untrstdRange, nil\n}"},
		Variant{Prop: "C02", Name: "skips-last-element", File: f, Expect: "C02.b",
			Old: "for i, untrstd := range untrstdRange {", New: "for i, untrstd := range untrstdRange[:len(untrstdRange)-1] {"},
		// benign
		Variant{Prop: "C02", Name: "benign-len-lt-1", File: f,
			Old: "if len(untrstdRange) == 0 {", New: "if len(untrstdRange) < 1 {"},
		Variant{Prop: "C02", Name: "benign-indexed-loop", File: f,
			Old: "for i, untrstd := range untrstdRange {", New: "for i := 0; i < len(untrstdRange); i++ {\n\t\tuntrstd := untrstdRange[i]"},
		Variant{Prop: "C02", Name: "benign-adjacency-commuted", File: f,
			Old: "if i > 0 && trstd.Height()+1 != untrstd.Height() {", New: "if 0 < i && untrstd.Height() != 1+trstd.Height() {"},
	)
}
