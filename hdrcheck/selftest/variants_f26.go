package selftest

// Finding F26 re-introduced (a failed commit of the deletion batch reported with the loop's progress, pending-only
// headers not put back, a worker reporting the start of the range), and equivalents of the repair.
func init() {
	const sd = "store/store_delete.go"
	const seqReset = "\t\t\ts.pending.Append(unflushed...)\n\t\t\thighest = from\n"
	const parReset = "\t\t\t\ts.pending.Append(unflushed...)\n\t\t\t\tlast.height = first\n"
	add(
		Variant{Prop: "C08", Name: "f26-sequential-commit-failure-keeps-the-loops-progress", File: sd, Expect: "C08.c",
			Old: seqReset, New: "\t\t\ts.pending.Append(unflushed...)\n"},
		Variant{Prop: "C08", Name: "f26-worker-commit-failure-keeps-the-last-height", File: sd, Expect: "C08.c",
			Old: parReset, New: "\t\t\t\ts.pending.Append(unflushed...)\n"},
		Variant{Prop: "C08", Name: "f26-sequential-commit-failure-reports-the-end-of-the-range", File: sd, Expect: "C08.c",
			Old: seqReset, New: "\t\t\ts.pending.Append(unflushed...)\n\t\t\thighest = to\n"},
		Variant{Prop: "C08", Name: "f26-worker-commit-failure-reports-the-start-of-the-range", File: sd, Expect: "C08.c",
			Old: parReset, New: "\t\t\t\ts.pending.Append(unflushed...)\n\t\t\t\tlast.height = from\n"},
		Variant{Prop: "C08", Name: "f26-worker-first-height-is-the-running-maximum", File: sd, Expect: "C08.c",
			Old: "\t\t\tif first > height {\n\t\t\t\tfirst = height\n\t\t\t}\n", New: "\t\t\tif first < height {\n\t\t\t\tfirst = height\n\t\t\t}\n"},
		Variant{Prop: "C08", Name: "f26-sequential-pending-only-headers-not-put-back", File: sd, Expect: "C08.c",
			Old: seqReset, New: "\t\t\thighest = from\n"},
		Variant{Prop: "C08", Name: "f26-worker-pending-only-headers-not-put-back", File: sd, Expect: "C08.c",
			Old: parReset, New: "\t\t\t\tlast.height = first\n"},
		Variant{Prop: "C08", Name: "f26-sequential-pending-looked-up-after-the-removal", File: sd, Expect: "C08.c",
			Old: "\t\tif h := s.pending.GetByHeight(height); !h.IsZero() {\n\t\t\tunflushed = append(unflushed, h)\n\t\t}\n\t\terr := s.deleteSingle(ctx, height, onDelete)\n",
			New: "\t\terr := s.deleteSingle(ctx, height, onDelete)\n\t\tif h := s.pending.GetByHeight(height); !h.IsZero() {\n\t\t\tunflushed = append(unflushed, h)\n\t\t}\n"},
		Variant{Prop: "C17", Name: "f26-pending-batch-appended-to-by-the-deletion-whatever-the-commit-said", File: sd, Expect: "C17.a",
			Old: "\t\tif derr := done(); derr != nil {\n", New: "\t\ts.pending.Append(unflushed...)\n\t\tif derr := done(); derr != nil {\n"},
		Variant{Prop: "C08", Name: "benign-f26-early-return-when-the-commit-succeeded", File: sd,
			Old: "\t\tif derr := done(); derr != nil {\n\t\t\terr = errors.Join(err, fmt.Errorf(\"committing batch: %w\", derr))\n\t\t\t// nothing of the batch is known to be deleted: put back what was only pending\n\t\t\t// and report no progress, so the pointers stay\n" + seqReset + "\t\t}\n",
			New: "\t\tderr := done()\n\t\tif derr == nil {\n\t\t\treturn\n\t\t}\n\t\thighest = from\n\t\ts.pending.Append(unflushed...)\n\t\terr = errors.Join(err, fmt.Errorf(\"committing batch: %w\", derr))\n"},
		Variant{Prop: "C08", Name: "benign-f26-worker-first-height-through-min", File: sd,
			Old: "\t\t\tif first > height {\n\t\t\t\tfirst = height\n\t\t\t}\n", New: "\t\t\tfirst = min(first, height)\n"},
		Variant{Prop: "C08", Name: "benign-f26-worker-first-height-comparison-commuted", File: sd,
			Old: "\t\t\tif first > height {\n", New: "\t\t\tif height < first {\n"},
	)
}
