#!/usr/bin/env python3
"""Regenerates /verif/MANIFEST.json from the table below (run from anywhere)."""
import json, os

V = "/verif"
props = [json.loads(l) for l in open(os.path.join(V, "properties.jsonl"))]
ids = [p["id"] for p in props]

# property -> (technique, level text, level note, design section)
CLAIMED = {
    "C01": ("guard-table dominance + return-shape classification on SSA (all paths of two loop-free generic functions)",
            "Static rule discharge over every path of header.Verify and its mandatory-check callee: the six rejection guards dominate the nil return, each guard alone leads only to its sentinel, zero-before-use, wrapper shape and the exact SoftFailure guard. Complete for the mandatory part (loop-free code, all paths); the header type's own Verify is an abstract call.",
            "go/types+go/ssa (x/tools v0.29.0); purity/immutability of header observers; time.Now treated as an opaque read"),
    "C02": ("loop-shape and dominance rules on SSA (rolling phi, prefix construction, exact adjacency guard)",
            "Static rule discharge over every path of header.VerifyRange: empty guard, in-order element walk, rolling trusted header, error returns carrying the verified prefix, exact i>0 adjacency guard, append only after both checks, single nil return at loop exit. Together these clauses are the statement; 'passed Verify' rests on C01.",
            "go/types+go/ssa; purity of header observers; C01 for the meaning of Verify"),
    "C10": ("who-may-call on the store surface, linear bound proof at the GetRange call site (per phi edge), status-code table classification with assumption pruning, must-precede for deadlines, context provenance, result-shape rules",
            "Decides the structural clauses behind 'bounded work and only true store data': store surface ⊆ {Get,Head,HasAt,GetRange} outside loops, 1 ≤ to−from ≤ 64 proven at the GetRange call on every path (this found and now guards the below-tail clamp defect), wrap-around guard, OK/NOT_FOUND/reset table incl. the client's mapping, deadlines and request-timeout context, responses are the marshalled elements of the store result in order. Does not decide the behaviour of the store implementation handed in.",
            "go/types+go/ssa; header.Store methods honour their context; libp2p stream/serde library behaviour"),
    "C16": ("arithmetic-safety obligations (division, unsigned subtraction, conversion) discharged by a linear prover over guard facts + validated-parameter invariants; move-direction and lock-region rules",
            "Decides the 'never crash / wrap around' clause structurally: every division in the tail functions has a proven non-zero divisor, every unsigned subtraction is proven not to wrap, estimated heights are proven ≥ 1, the prune/sync direction guards and the tailMu serialisation are in place. Does not decide the numeric retention guarantee or run-time wedging.",
            "go/types+go/ssa; integers read as mathematical integers in guard facts; Parameters are not mutated after NewSyncer"),
}

NOT_YET = "static check for this property is not built yet (work in progress; planned obligations in DESIGN.md section 5)"

checks = []
for pid in ids:
    if pid not in CLAIMED:
        continue
    tech, text, note = CLAIMED[pid]
    checks.append({
        "property_id": pid,
        "quick_cmd": f"/verif/bin/hdrcheck -property {pid} -tier quick",
        "thorough_cmd": f"/verif/bin/hdrcheck -property {pid} -tier thorough",
        "evidence_file": f"/verif/evidence/{pid}.json",
        "replay_cmd_template": f"/verif/bin/hdrcheck -property {pid} -explain {{path}}",
        "engine": "hdrcheck",
        "level_claimed": {"category": "other", "text": text, "design_ref": f"DESIGN.md section 5, {pid}"},
        "level_note": note,
        "technique": "static analysis: " + tech,
    })

NA = {}
na = [{"property_id": p, "reason": NA.get(p, NOT_YET)} for p in ids if p not in CLAIMED]

m = {
    "version": 1,
    "setup_cmd": "cd /verif/hdrcheck && GOFLAGS=-mod=mod GOPROXY=off GOWORK=off go build -o /verif/bin/hdrcheck . && /verif/bin/hdrcheck -warm",
    "hooks": {
        "guard": "verif",
        "enable": "none: static analysis reads /repo's sources through go/packages; no hooks or instrumentation exist",
        "baseline_off_cmd": "cd /repo && go test -vet=off -count=1 -timeout 25m ./...",
        "source_commits": [],
        "add_only": True,
    },
    "engines": [{
        "name": "hdrcheck", "path": "/verif/hdrcheck",
        "serves_properties": sorted(CLAIMED),
        "kind_free_text": "repository-specific static analyser (go/packages + go/types + go/ssa of x/tools v0.29.0): term numbering, dominance guard facts with assumption pruning, linear arithmetic prover, CFG ordering rules, provenance, call graph; self-test by in-memory broken/benign variants",
    }],
    "checks": checks,
    "not_applicable": na,
    "notes": "All checks are static: nothing from /repo is executed. quick = all obligations of the property on the current tree (go/packages load, ~1-3 s warm, ~40 s cold); thorough = the same obligations plus the checker's sensitivity self-test (every broken in-memory variant must be reported under the expected obligation, every benign variant must stay silent). Findings repaired in /repo by 'fix:' commits are listed in known_findings.json with status fixed.",
}
json.dump(m, open(os.path.join(V, "MANIFEST.json"), "w"), indent=1, ensure_ascii=False)
print("claimed:", len(checks), "not claimed:", len(na))
