package rules

import (
	"strings"

	"golang.org/x/tools/go/ssa"

	"hdrcheck/an"
)

// lowestOfBatch: v is the header of lowest height among the elements of the slice parameter `param`
// ("p1"), computed by a scan: a loop-carried value that starts at param[0], is carried on unchanged, or
// is replaced by an element whose height is below its own.
func lowestOfBatch(t *an.Terms, ff *an.FuncFacts, v ssa.Value, param string) bool {
	if d := t.Deref(v); d != nil {
		v = d
	}
	ph, ok := v.(*ssa.Phi)
	if !ok {
		return false
	}
	hasInit, hasStep := false, false
	for i, e := range ph.Edges {
		pred := ph.Block().Preds[i]
		switch et := t.Of(e); {
		case e == ssa.Value(ph):
			// carried on unchanged
		case !ph.Block().Dominates(pred):
			if et != param+"[0]" {
				return false
			}
			hasInit = true
		case strings.HasPrefix(et, param+"["):
			fs := append(append(an.FactSet{}, ff.AtRefined(pred)...), ff.EdgeFacts(pred, ph.Block())...)
			if !fs.Has(an.LT("Height("+et+")", "Height("+t.Of(ph)+")")) {
				return false
			}
			hasStep = true
		default:
			return false
		}
	}
	return hasInit && hasStep
}
