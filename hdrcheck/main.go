// hdrcheck is a repository-specific static analyser for celestiaorg/go-header.
// It decides the structural clauses of properties C01…C19 (see /verif/DESIGN.md)
// from the type-checked sources and SSA form of /repo; it never runs repository code.
package main

import (
	"flag"
	"fmt"
	"os"
	"path/filepath"
	"sort"
	"strconv"
	"strings"
	"time"

	"hdrcheck/an"
	"hdrcheck/rules"
	"hdrcheck/selftest"
)

func main() {
	var (
		property     = flag.String("property", "", "property id (C01…C19) or 'all'")
		tier         = flag.String("tier", "", "quick | thorough (default: $VERIF_TIER or quick)")
		repo         = flag.String("repo", "/repo", "repository to analyse")
		verif        = flag.String("verif", "", "verification directory (default: directory above the binary, or /verif)")
		explain      = flag.String("explain", "", "replay file: re-evaluate the property and print the obligation recorded there")
		self         = flag.String("selftest", "", "run the checker self-test (broken + benign variants) for a property id or 'all'")
		dump         = flag.String("dump", "", "debug: dump terms/facts of a function, e.g. header.Verify")
		jobs         = flag.Int("j", 8, "parallel child processes for self-tests")
		variant      = flag.String("variant", "", "internal: run one self-test variant (prop/index or prop/base)")
		warm         = flag.Bool("warm", false, "load /repo once to warm the go build cache (used by setup_cmd)")
		manifest     = flag.Bool("manifest", false, "regenerate MANIFEST.json from the rule registry")
		mutate       = flag.String("mutate", "", "run the systematic mutation analysis of a property's rule (id or 'all') and print the survivors")
		maxMut       = flag.Int("max-mutants", 0, "cap on the number of mutants per property (0 = all)")
		describeFlag = flag.Bool("describe", false, "print the per-property section of DESIGN.md (markdown) from the rule registry and a live run")
	)
	flag.Parse()
	if *tier == "" {
		*tier = os.Getenv("VERIF_TIER")
	}
	if *tier == "" {
		*tier = "quick"
	}
	if *tier != "quick" && *tier != "thorough" {
		fmt.Println("bad -tier")
		os.Exit(2)
	}
	if *verif == "" {
		*verif = "/verif"
		if exe, err := os.Executable(); err == nil {
			d := filepath.Dir(filepath.Dir(exe))
			if _, err := os.Stat(filepath.Join(d, "properties.jsonl")); err == nil {
				*verif = d
			}
		}
	}
	seed := 0
	if s := os.Getenv("VERIF_SEED"); s != "" {
		seed, _ = strconv.Atoi(s)
	}
	os.Unsetenv("GOWORK")

	if *warm {
		if p, err := an.Load(an.LoadOpts{Dir: *repo}); err != nil {
			fmt.Println("warm-up load failed (checks will report it):", err)
		} else {
			fmt.Printf("warm-up: %d packages, %d files, %d functions, %s\n", len(p.Pkgs), p.NFiles, p.NFuncs, p.Toolchain)
		}
		return
	}
	if os.Getenv("HDRCHECK_INVENTORY") != "" {
		// prints the function inventory of the tree (an/inventory.txt is this list for the tree the rules were confirmed against)
		p, err := an.Load(an.LoadOpts{Dir: *repo})
		if err != nil {
			fmt.Println("LOAD ERROR:", err)
			os.Exit(2)
		}
		for _, n := range p.DeclNames() {
			fmt.Println(n)
		}
		return
	}
	if *describeFlag {
		os.Exit(describe(*repo))
	}
	if *manifest {
		if err := writeManifest(*verif); err != nil {
			fmt.Println("manifest:", err)
			os.Exit(2)
		}
		fmt.Println("wrote", filepath.Join(*verif, "MANIFEST.json"))
		return
	}
	if *dump != "" {
		p, err := an.LoadNormalized(*repo, nil, false)
		if err != nil {
			fmt.Println("LOAD ERROR:", err)
			os.Exit(2)
		}
		an.Dump(p, *dump)
		return
	}

	if *variant != "" {
		os.Exit(selftest.Child(*repo, *variant))
	}
	if *self != "" {
		sum, code := selftest.Run(*repo, *verif, *self, *jobs)
		sum.Print()
		os.Exit(code)
	}
	if *mutate != "" {
		ids := []string{*mutate}
		if *mutate == "all" {
			ids = rules.IDs()
		}
		for _, id := range ids {
			ms, err := selftest.Mutate(*repo, id, *jobs, *maxMut, seed)
			if err != nil {
				fmt.Println("mutation analysis failed:", err)
				os.Exit(2)
			}
			fmt.Printf("== %s mutation analysis: %d functions, %d mutants: %d reported, %d not reported, %d not compiling\n", id, ms.Functions, ms.Generated, ms.Killed, ms.Survived, ms.Invalid)
			for _, l := range ms.ByOp {
				fmt.Println("   " + l)
			}
			for _, s := range ms.Survivors {
				fmt.Println("   survivor " + s)
			}
		}
		return
	}

	if *property == "" {
		fmt.Println("usage: hdrcheck -property Cxx [-tier quick|thorough]")
		os.Exit(2)
	}
	ids := []string{*property}
	if *property == "all" {
		ids = rules.IDs()
	}
	sort.Strings(ids)
	for _, id := range ids {
		if rules.Get(id) == nil {
			fmt.Printf("unknown property %q (known: %s)\n", id, strings.Join(rules.IDs(), " "))
			os.Exit(2)
		}
	}

	start := time.Now()
	p, err := an.LoadNormalized(*repo, nil, false)
	if err != nil {
		// a tree that does not type-check cannot be analysed: the check fails.
		fmt.Println("LOAD ERROR:", err)
		for _, id := range ids {
			fmt.Printf("VIOLATION property=%s replay=%s\n", id, "/dev/null")
		}
		os.Exit(1)
	}
	if p.Norm != nil && len(p.Norm.Notes) > 0 {
		fmt.Printf("normalisation (functions outside the confirmed inventory are inlined before the analysis): %d round(s)\n", p.Norm.Rounds)
		for _, n := range p.Norm.Notes {
			fmt.Println("  " + n)
		}
	}
	exit := 0
	for _, id := range ids {
		t0 := time.Now()
		if len(ids) == 1 {
			t0 = start
		}
		code := runOne(p, id, *tier, *verif, *repo, *jobs, seed, t0)
		if code > exit {
			exit = code
		}
	}
	if *explain != "" {
		b, err := os.ReadFile(*explain)
		if err == nil {
			fmt.Printf("--- recorded obligation (%s):\n%s\n", *explain, b)
		}
	}
	os.Exit(exit)
}

func runOne(p *an.Prog, id, tier, verif, repo string, jobs, seed int, start time.Time) (code int) {
	r := rules.Get(id)
	ctx := an.NewCtx(p, id, tier)
	func() {
		defer func() {
			if e := recover(); e != nil {
				ctx.Undecided(id+".panic", "analyser-panic", "the analyser must not panic", nil, nil, fmt.Sprint(e))
			}
		}()
		rules.Execute(r, ctx)
	}()
	if os.Getenv("HDRCHECK_LIST") != "" {
		for _, o := range ctx.Obls {
			fmt.Printf("%-11s %s | %s | %s\n", o.Status, o.Key, o.Func, o.Rule)
		}
	}
	extra := map[string]any{"not_decided": r.NotDecided}
	stCode := 0
	if tier == "thorough" {
		// thorough = the same obligations + the checker's own sensitivity self-test:
		// every broken variant of the current tree must be reported, every benign one must stay silent.
		sum, c := selftest.Run(repo, verif, id, jobs)
		sum.Print()
		extra["selftest"] = sum
		stCode = c
		// … and a systematic mutation analysis of the functions that carry this property's
		// obligations: how many single-point mutants the rule reports, and which ones it does not
		// (measured coverage of the structural clauses; never part of the verdict)
		if ms, err := selftest.Mutate(repo, id, jobs, 400, seed); err == nil {
			fmt.Printf("  mutation analysis: %d functions, %d mutants: %d reported, %d not reported, %d not compiling\n", ms.Functions, ms.Generated, ms.Killed, ms.Survived, ms.Invalid)
			extra["mutation_analysis"] = ms
		} else {
			extra["mutation_analysis"] = map[string]any{"error": err.Error()}
		}
	}
	res := ctx.Finish(verif, start, seed, r.Explanation, append([]string{an.PureNote}, r.Assumptions...), extra)
	if res.ExitCode == 0 && stCode != 0 {
		fmt.Printf("SELFTEST FAILED for %s: the checker itself misbehaves on its variants (exit 2, no verdict on the property)\n", id)
		return 2
	}
	return res.ExitCode
}
