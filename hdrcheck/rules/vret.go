package rules

import (
	"golang.org/x/tools/go/ssa"

	"hdrcheck/an"
)

// vret is one way out of a function: a return instruction, or — when several ways out were merged into
// a single `return x, err` whose operands are merges of the return's own block (`x, err = v, nil; break`
// in front of a common return) — one incoming edge of that block with the merged operands replaced by
// what the edge carries and with the facts that hold along that edge.
type vret struct {
	r    *ssa.Return
	res  []ssa.Value
	fs   an.FactSet
	pred *ssa.BasicBlock // the incoming edge of r's block this way out stands for (nil: the return as a whole)
}

// reachedFrom: control leaving b for its successor s gets to this way out.
func (v vret) reachedFrom(b, s *ssa.BasicBlock) bool {
	rb := v.r.Block()
	if v.pred == nil {
		return s == rb || blockReaches(s, rb)
	}
	return (s == rb && b == v.pred) || s == v.pred || blockReaches(s, v.pred)
}

func (v vret) err() ssa.Value {
	if len(v.res) == 0 {
		return nil
	}
	return v.res[len(v.res)-1]
}

// virtualReturns lists the ways out of ff's function (under ff's pruning).
func virtualReturns(ff *an.FuncFacts) []vret {
	var out []vret
	for _, r := range ff.Returns() {
		b := r.Block()
		merged := false
		// (a function with a defer returns through spilled results: `*r0 = φ; rundefers; return *r0`)
		under := make([]ssa.Value, len(r.Results))
		for j, x := range r.Results {
			under[j] = x
			if d := ff.T.Deref(x); d != nil {
				under[j] = d
			}
			if ph, ok := under[j].(*ssa.Phi); ok && ph.Block() == b {
				merged = true
			}
		}
		// only a block that does nothing but merge and return is split (anything else in it runs on every edge)
		pure := true
		for _, in := range b.Instrs {
			switch x := in.(type) {
			case *ssa.Phi, *ssa.Return, *ssa.DebugRef, *ssa.RunDefers:
			case *ssa.Store:
				if _, isAlloc := x.Addr.(*ssa.Alloc); !isAlloc {
					pure = false
				}
			case *ssa.UnOp:
				if _, isAlloc := x.X.(*ssa.Alloc); !isAlloc {
					pure = false
				}
			default:
				pure = false
			}
		}
		loopHeader := false
		for _, p := range b.Preds {
			if b.Dominates(p) {
				loopHeader = true
			}
		}
		// … and only when a success was merged in: some edge brings a nil error together with a value.
		// (The exit merge of a rotated loop, `for range n { … }; return nil, lastErr`, also merges a nil
		// error — along the edge that skips the loop — but no value: that is one way out, not two.)
		successMerged := false
		if n := len(under); merged && n >= 2 {
			if eph, ok := under[n-1].(*ssa.Phi); ok && eph.Block() == b {
				for i, e := range eph.Edges {
					k, isK := e.(*ssa.Const)
					if !isK || !k.IsNil() {
						continue
					}
					for j := 0; j < n-1; j++ {
						v := under[j]
						if vph, isPhi := v.(*ssa.Phi); isPhi && vph.Block() == b {
							v = vph.Edges[i]
						}
						if vk, isVK := v.(*ssa.Const); !isVK || !vk.IsNil() {
							successMerged = true
						}
					}
				}
			}
		}
		if !merged || !successMerged || !pure || loopHeader || len(b.Preds) < 2 {
			out = append(out, vret{r: r, res: r.Results, fs: ff.AtInstr(r)})
			continue
		}
		for i, p := range b.Preds {
			if !ff.Reachable(p) || ff.Removed(p, b) {
				continue
			}
			res := make([]ssa.Value, len(r.Results))
			for j, x := range r.Results {
				res[j] = x
				if ph, ok := under[j].(*ssa.Phi); ok && ph.Block() == b {
					res[j] = ph.Edges[i]
				}
			}
			fs := append(append(an.FactSet{}, ff.AtRefined(p)...), ff.EdgeFacts(p, b)...)
			out = append(out, vret{r: r, res: res, fs: fs, pred: p})
		}
	}
	return out
}
