// Package an holds the analysis engines of hdrcheck: loading of the repository
// under analysis, value numbering (terms), guard facts (dominance), the small
// arithmetic prover, ordering rules over the CFG, provenance and the call graph.
//
// Nothing in here executes code of the analysed repository.
package an

import (
	"fmt"
	"go/token"
	"go/types"
	"os"
	"os/exec"
	"path/filepath"
	"sort"
	"strings"

	"golang.org/x/tools/go/packages"
	"golang.org/x/tools/go/ssa"
	"golang.org/x/tools/go/ssa/ssautil"
)

// ModPath is the module path of the repository under analysis.
const ModPath = "github.com/celestiaorg/go-header"

// Prog is the loaded, type-checked and SSA-built repository.
type Prog struct {
	Dir       string
	Fset      *token.FileSet
	Pkgs      []*packages.Package // repository packages only, sorted by path
	ByPath    map[string]*packages.Package
	SSA       *ssa.Program
	SSAPkgs   map[string]*ssa.Package
	Full      bool   // whole-program (LoadAllSyntax + InstantiateGenerics)
	Toolchain string // `go version` of the go command that type-checked the tree
	NFiles    int
	NFuncs    int
	Norm      *Normalized // what the inlining normalisation did (nil: not requested)

	cg *CallGraph
}

// LoadOpts configures Load.
type LoadOpts struct {
	Dir     string
	Overlay map[string][]byte
	Full    bool
}

// goEnv is the environment for every go command started on behalf of the
// checker. GOTOOLCHAIN and GOSUMDB are deliberately left alone: the repository
// needs the cached go1.25.7 toolchain through the default auto switch.
func goEnv() []string {
	env := []string{}
	for _, kv := range os.Environ() {
		k := kv
		if i := strings.IndexByte(kv, '='); i >= 0 {
			k = kv[:i]
		}
		switch k {
		case "GOFLAGS", "GOPROXY", "GOWORK":
			continue
		}
		env = append(env, kv)
	}
	return append(env, "GOFLAGS=-mod=mod", "GOPROXY=off", "GOWORK=off")
}

// Load type-checks the repository at opts.Dir and builds its SSA form.
func Load(opts LoadOpts) (*Prog, error) {
	if opts.Dir == "" {
		opts.Dir = "/repo"
	}
	fset := token.NewFileSet()
	mode := packages.LoadSyntax
	if opts.Full {
		mode = packages.LoadAllSyntax
	}
	cfg := &packages.Config{
		Mode:    mode | packages.NeedModule,
		Dir:     opts.Dir,
		Fset:    fset,
		Env:     goEnv(),
		Tests:   false,
		Overlay: opts.Overlay,
	}
	pkgs, err := packages.Load(cfg, "./...")
	if err != nil {
		return nil, fmt.Errorf("loading %s: %w", opts.Dir, err)
	}
	if len(pkgs) == 0 {
		return nil, fmt.Errorf("loading %s: no packages matched ./...", opts.Dir)
	}
	var errs []string
	packages.Visit(pkgs, nil, func(p *packages.Package) {
		for _, e := range p.Errors {
			errs = append(errs, e.Error())
		}
	})
	if len(errs) > 0 {
		sort.Strings(errs)
		if len(errs) > 10 {
			errs = errs[:10]
		}
		return nil, fmt.Errorf("type-check errors in %s:\n  %s", opts.Dir, strings.Join(errs, "\n  "))
	}
	p := &Prog{
		Dir:     opts.Dir,
		Fset:    fset,
		ByPath:  map[string]*packages.Package{},
		SSAPkgs: map[string]*ssa.Package{},
		Full:    opts.Full,
	}
	for _, pk := range pkgs {
		if pk.PkgPath == ModPath || strings.HasPrefix(pk.PkgPath, ModPath+"/") {
			p.Pkgs = append(p.Pkgs, pk)
			p.ByPath[pk.PkgPath] = pk
			p.NFiles += len(pk.CompiledGoFiles)
		}
	}
	sort.Slice(p.Pkgs, func(i, j int) bool { return p.Pkgs[i].PkgPath < p.Pkgs[j].PkgPath })
	if len(p.Pkgs) == 0 {
		return nil, fmt.Errorf("no package of module %s found under %s", ModPath, opts.Dir)
	}
	// every .go file (non-test) on disk that belongs to a loaded package
	// directory must have been parsed: build tags or GOOS suffixes would hide
	// code from the analysis.
	for _, pk := range p.Pkgs {
		if len(pk.GoFiles) == 0 {
			continue
		}
		dir := filepath.Dir(pk.GoFiles[0])
		ents, _ := os.ReadDir(dir)
		have := map[string]bool{}
		for _, f := range pk.CompiledGoFiles {
			have[filepath.Base(f)] = true
		}
		for _, e := range ents {
			n := e.Name()
			if e.IsDir() || !strings.HasSuffix(n, ".go") || strings.HasSuffix(n, "_test.go") {
				continue
			}
			if !have[n] {
				return nil, fmt.Errorf("file %s/%s belongs to no analysed build (build tag / GOOS?)", dir, n)
			}
		}
	}

	bmode := ssa.BuilderMode(0)
	if opts.Full {
		bmode |= ssa.InstantiateGenerics
	}
	var sp *ssa.Program
	var spkgs []*ssa.Package
	if opts.Full {
		sp, spkgs = ssautil.AllPackages(pkgs, bmode)
	} else {
		sp, spkgs = ssautil.Packages(pkgs, bmode)
	}
	sp.Build()
	p.SSA = sp
	for i, sk := range spkgs {
		if sk == nil {
			return nil, fmt.Errorf("no SSA package for %s", pkgs[i].PkgPath)
		}
	}
	for _, pk := range p.Pkgs {
		sk := sp.Package(pk.Types)
		if sk == nil {
			return nil, fmt.Errorf("no SSA package for %s", pk.PkgPath)
		}
		p.SSAPkgs[pk.PkgPath] = sk
	}
	p.NFuncs = len(p.RepoFuncs())
	if out, err := goVersion(opts.Dir); err == nil {
		p.Toolchain = out
	}
	return p, nil
}

func goVersion(dir string) (string, error) {
	cmd := exec.Command("go", "version")
	cmd.Dir = dir
	cmd.Env = goEnv()
	b, err := cmd.Output()
	return strings.TrimSpace(string(b)), err
}

// PkgPath expands a short package key ("", "store", "sync", "p2p", …) to the
// import path inside the analysed module.
func PkgPath(short string) string {
	if short == "" || short == "header" {
		return ModPath
	}
	return ModPath + "/" + short
}

// Types returns the types.Package for a short key.
func (p *Prog) Types(short string) *types.Package {
	pk := p.ByPath[PkgPath(short)]
	if pk == nil {
		return nil
	}
	return pk.Types
}

// Func resolves a package-level function of the analysed module.
func (p *Prog) Func(short, name string) *ssa.Function {
	tp := p.Types(short)
	if tp == nil {
		return nil
	}
	obj, _ := tp.Scope().Lookup(name).(*types.Func)
	if obj == nil {
		return nil
	}
	return p.SSA.FuncValue(obj)
}

// Method resolves a method (pointer or value receiver) of a named type of the
// analysed module; for generic types the generic origin body is returned.
func (p *Prog) Method(short, typ, name string) *ssa.Function {
	tp := p.Types(short)
	if tp == nil {
		return nil
	}
	tn, _ := tp.Scope().Lookup(typ).(*types.TypeName)
	if tn == nil {
		return nil
	}
	named, _ := tn.Type().(*types.Named)
	if named == nil {
		return nil
	}
	for i := 0; i < named.NumMethods(); i++ {
		m := named.Method(i)
		if m.Name() == name {
			return p.SSA.FuncValue(m)
		}
	}
	return nil
}

// Global resolves a package-level variable.
func (p *Prog) Global(short, name string) *ssa.Global {
	sk := p.SSAPkgs[PkgPath(short)]
	if sk == nil {
		return nil
	}
	g, _ := sk.Members[name].(*ssa.Global)
	return g
}

// NamedType resolves a named type.
func (p *Prog) NamedType(short, name string) *types.Named {
	tp := p.Types(short)
	if tp == nil {
		return nil
	}
	tn, _ := tp.Scope().Lookup(name).(*types.TypeName)
	if tn == nil {
		return nil
	}
	n, _ := tn.Type().(*types.Named)
	return n
}

// InModule reports whether fn is a source function of the analysed module.
func (p *Prog) InModule(fn *ssa.Function) bool {
	if fn == nil {
		return false
	}
	if o := fn.Origin(); o != nil {
		fn = o
	}
	for fn.Parent() != nil {
		fn = fn.Parent()
	}
	if fn.Pkg == nil {
		return false
	}
	for _, pk := range p.Pkgs {
		if p.SSAPkgs[pk.PkgPath] == fn.Pkg {
			return true
		}
	}
	return false
}

// RepoFuncs lists every source function (incl. anonymous) of the module with a body.
func (p *Prog) RepoFuncs() []*ssa.Function {
	var out []*ssa.Function
	seen := map[*ssa.Function]bool{}
	var add func(f *ssa.Function)
	add = func(f *ssa.Function) {
		if f == nil || seen[f] || f.Blocks == nil {
			return
		}
		seen[f] = true
		out = append(out, f)
		for _, a := range f.AnonFuncs {
			add(a)
		}
	}
	for _, pk := range p.Pkgs {
		sk := p.SSAPkgs[pk.PkgPath]
		for _, m := range sk.Members {
			switch m := m.(type) {
			case *ssa.Function:
				if m.Synthetic == "" || m.Name() == "init" {
					add(m)
				}
			case *ssa.Type:
				named, ok := m.Type().(*types.Named)
				if !ok {
					continue
				}
				for i := 0; i < named.NumMethods(); i++ {
					add(p.SSA.FuncValue(named.Method(i)))
				}
			}
		}
	}
	sort.Slice(out, func(i, j int) bool { return FuncName(out[i]) < FuncName(out[j]) })
	return out
}

// FuncName is a stable, readable name: "store.(*Store).DeleteRange", "header.Verify",
// "store.(*Store).flushLoop$1".
func FuncName(f *ssa.Function) string {
	if f == nil {
		return "<nil>"
	}
	if f.Parent() != nil {
		n := f.Name()
		if i := strings.LastIndex(n, "$"); i >= 0 {
			n = n[i:]
		} else {
			n = "$" + n
		}
		return FuncName(f.Parent()) + n
	}
	if o := f.Origin(); o != nil {
		f = o
	}
	pkg := ""
	if f.Pkg != nil {
		pkg = f.Pkg.Pkg.Path()
	} else if f.Object() != nil && f.Object().Pkg() != nil {
		pkg = f.Object().Pkg().Path()
	}
	switch {
	case pkg == ModPath:
		pkg = "header"
	case strings.HasPrefix(pkg, ModPath+"/"):
		pkg = strings.TrimPrefix(pkg, ModPath+"/")
	}
	if recv := f.Signature.Recv(); recv != nil {
		rt := recv.Type()
		star := ""
		if p, ok := rt.(*types.Pointer); ok {
			rt, star = p.Elem(), "*"
		}
		tn := rt.String()
		if n, ok := rt.(*types.Named); ok {
			tn = n.Obj().Name()
		}
		return pkg + ".(" + star + tn + ")." + f.Name()
	}
	if pkg == "" {
		return f.Name()
	}
	return pkg + "." + f.Name()
}

// Pos renders a position relative to the repository directory.
func (p *Prog) Pos(pos token.Pos) string {
	if !pos.IsValid() {
		return "-"
	}
	ps := p.Fset.Position(pos)
	rel, err := filepath.Rel(p.Dir, ps.Filename)
	if err != nil || strings.HasPrefix(rel, "..") {
		rel = ps.Filename
	}
	return fmt.Sprintf("%s:%d:%d", rel, ps.Line, ps.Column)
}

// InstrPos finds the best position for an instruction (go/ssa leaves some NoPos).
func (p *Prog) InstrPos(i ssa.Instruction) string {
	if i == nil {
		return "-"
	}
	if i.Pos().IsValid() {
		return p.Pos(i.Pos())
	}
	// fall back to operands / neighbours in the block
	b := i.Block()
	if b != nil {
		idx := -1
		for k, in := range b.Instrs {
			if in == i {
				idx = k
			}
		}
		for k := idx - 1; k >= 0; k-- {
			if b.Instrs[k].Pos().IsValid() {
				return p.Pos(b.Instrs[k].Pos()) + "(~)"
			}
		}
		for k := idx + 1; k >= 0 && k < len(b.Instrs); k++ {
			if b.Instrs[k].Pos().IsValid() {
				return p.Pos(b.Instrs[k].Pos()) + "(~)"
			}
		}
		if b.Parent() != nil {
			return p.Pos(b.Parent().Pos()) + "(fn)"
		}
	}
	return "-"
}
