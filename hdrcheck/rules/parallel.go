package rules

import (
	"go/types"
	"strings"

	"golang.org/x/tools/go/ssa"

	"hdrcheck/an"
)

// checkParallelProtocol: the parallel deletion driver is a small protocol between one
// dispatcher and N workers. "DeleteRange returned nil ⇒ every header of the range is gone, and
// the reported progress is what the pointers are set to" depends on these structural clauses:
//
//	(1) the error channel that makes the dispatcher stop feeding heights is closed only by a
//	    worker that failed (closing it otherwise silently skips the rest of the range);
//	(2) a worker goes on to the next height only after the step returned nil or reported the
//	    header missing; any other error ends the worker;
//	(3) the dispatcher closes the job channel, then waits for all workers, then orders the
//	    results, and only then evaluates them (no exit before);
//	(4) every worker goroutine signals the wait group by a deferred Done, and the group was
//	    armed with exactly the number of goroutines started;
//	(5) the evaluation returns the first failed result's error and height; it reports success
//	    only after it has looked at every result;
//	(6) the reported progress is the maximum height any worker reached, plus one.
func checkParallelProtocol(c *an.Ctx, id string, d *delFns) {
	par := d.par
	t, ff := c.T(par), c.F(par)
	fl := an.Flow{Fn: par}
	// --- the worker closure (calls the per-height step) and the spawn closure (defers wg.Done)
	var worker, spawn *ssa.Function
	for _, cl := range par.AnonFuncs {
		if len(callsTo(cl, d.single)) > 0 {
			worker = cl
		}
		an.Instrs(cl, func(in ssa.Instruction) {
			if df, ok := in.(*ssa.Defer); ok && strings.HasSuffix(an.StaticFullName(&df.Call), "sync.WaitGroup).Done") {
				spawn = cl
			}
		})
	}
	if !c.Check(worker != nil, id, "parallel-worker", "the parallel driver has a worker closure that calls the per-height step", par, nil, "", nil) {
		return
	}
	wt, wf := c.T(worker), c.F(worker)
	// the per-worker result record: a struct with one error field (the worker's outcome) and one
	// uint64 field (the last height it handled); the rule goes by these types, not by the field names
	errF, heightF := "err", "height"
	an.Instrs(par, func(in ssa.Instruction) {
		ms, ok := in.(*ssa.MakeSlice)
		if !ok {
			return
		}
		sl, isSl := ms.Type().Underlying().(*types.Slice)
		if !isSl {
			return
		}
		st, isSt := sl.Elem().Underlying().(*types.Struct)
		if !isSt {
			return
		}
		var es, hs []string
		for i := 0; i < st.NumFields(); i++ {
			f := st.Field(i)
			if an.IsErrorType(f.Type()) {
				es = append(es, f.Name())
			}
			if b, isB := f.Type().Underlying().(*types.Basic); isB && b.Kind() == types.Uint64 {
				hs = append(hs, f.Name())
			}
		}
		if len(es) == 1 && len(hs) == 1 {
			errF, heightF = es[0], hs[0]
		}
	})

	// (1) errCh closed only on a failed worker
	nClose := 0
	var walkClosures func(fn *ssa.Function, depth int)
	walkClosures = func(fn *ssa.Function, depth int) {
		if depth > 3 {
			return
		}
		ft, ffn := c.T(fn), c.F(fn)
		an.Instrs(fn, func(in ssa.Instruction) {
			call, ok := in.(*ssa.Call)
			if !ok || !strings.HasSuffix(an.StaticFullName(&call.Call), "sync.Once).Do") || len(call.Call.Args) < 2 {
				return
			}
			mc, isMC := call.Call.Args[1].(*ssa.MakeClosure)
			if !isMC {
				return
			}
			closes := false
			an.Instrs(mc.Fn.(*ssa.Function), func(in2 ssa.Instruction) {
				if c2, ok := in2.(*ssa.Call); ok {
					if b, isB := c2.Call.Value.(*ssa.Builtin); isB && b.Name() == "close" {
						closes = true
					}
				}
			})
			if !closes {
				return
			}
			nClose++
			okErr := false
			for _, f := range ffn.AtInstr(call) {
				if f.Op == "EQ" && !f.Pos && (f.A == "nil" || f.B == "nil") && strings.Contains(f.A+f.B, "."+errF) {
					okErr = true
				}
			}
			c.Check(okErr, id, "stop-signal-only-on-error", "the channel that stops the dispatcher is closed only by a worker whose last step failed (otherwise the rest of the range would be skipped silently)", fn, call, "", ffn.AtInstr(call))
			_ = ft
		})
		for _, a := range fn.AnonFuncs {
			walkClosures(a, depth+1)
		}
	}
	walkClosures(worker, 0)
	c.Min(id, "closes of the dispatcher's stop channel", nClose, 1)

	// (2) a worker continues only after nil / header-missing
	for _, sc := range callsTo(worker, d.single) {
		stepErr := wt.Of(sc)
		var isMissing an.Fact
		found := false
		for _, cf := range condFacts(wt) {
			if cf.Op == "B" && strings.HasPrefix(cf.A, "errors.Is(") && strings.Contains(cf.A, "errHeaderMissing") {
				isMissing, found = an.Fact{Atom: cf.Atom, Pos: true}, true
			}
		}
		var recv ssa.Instruction
		an.Instrs(worker, func(in ssa.Instruction) {
			if u, ok := in.(*ssa.UnOp); ok && u.CommaOk && strings.Contains(wt.Of(u.X), "jobCh") {
				recv = u
			}
		})
		if !c.Check(found && recv != nil, id, "worker-loop-shape", "a worker receives heights from the job channel and classifies the step's error", worker, sc, "", nil) {
			continue
		}
		// every way from the step back to the next receive crosses an edge on which the step's error
		// (the call result or the field it was stored into, re-read) is known to be nil or 'missing'
		_ = stepErr
		clears := func(from, to *ssa.BasicBlock) bool {
			for _, f := range wf.EdgeFacts(from, to) {
				if wf.At(from).Has(f) {
					continue // not decided on this edge
				}
				if f == isMissing {
					return true
				}
				if f.Op == "EQ" && f.Pos && (f.A == "nil" || f.B == "nil") && (strings.Contains(f.A+f.B, "."+errF) || strings.Contains(f.A+f.B, stepErr)) {
					return true
				}
			}
			return false
		}
		okStop := true
		seen := map[*ssa.BasicBlock]bool{}
		var dfs func(b *ssa.BasicBlock)
		dfs = func(b *ssa.BasicBlock) {
			if seen[b] {
				return
			}
			seen[b] = true
			for _, s := range b.Succs {
				if clears(b, s) {
					continue
				}
				if s == recv.Block() {
					okStop = false
					return
				}
				dfs(s)
			}
		}
		dfs(sc.Block())
		c.Check(okStop, id, "worker-stops-on-error", "after a step that failed with anything but 'header missing' the worker takes no further height", worker, sc, "", nil)
		// a tolerated 'missing' is not a failure of the worker: when the worker goes on to the next
		// height (or finds the job channel closed) the error it has recorded is nil again, as in the
		// sequential driver, which simply drops it
		isErrField := func(addr ssa.Value) bool {
			fa, ok := addr.(*ssa.FieldAddr)
			return ok && isFieldOf(fa, nil, errF)
		}
		for _, b := range worker.Blocks {
			for i, in := range b.Instrs {
				st, isSt := in.(*ssa.Store)
				if !isSt || !isErrField(st.Addr) || wt.Of(st.Val) != stepErr {
					continue
				}
				okClean := true
				seenB := map[*ssa.BasicBlock]bool{}
				var walk func(bb *ssa.BasicBlock, start int)
				walk = func(bb *ssa.BasicBlock, start int) {
					for _, in2 := range bb.Instrs[start:] {
						if in2 == recv {
							okClean = false
							return
						}
						if s2, ok := in2.(*ssa.Store); ok && isErrField(s2.Addr) {
							if k, isK := s2.Val.(*ssa.Const); isK && k.IsNil() {
								return // recorded error reset
							}
						}
					}
					for _, s := range bb.Succs {
						nilEdge := false
						for _, f := range wf.EdgeFacts(bb, s) {
							if !wf.At(bb).Has(f) && f.Op == "EQ" && f.Pos && (f.A == "nil" || f.B == "nil") && (strings.Contains(f.A+f.B, "."+errF) || strings.Contains(f.A+f.B, stepErr)) {
								nilEdge = true
							}
						}
						if nilEdge || seenB[s] {
							continue
						}
						seenB[s] = true
						walk(s, 0)
					}
				}
				walk(b, i+1)
				c.Check(okClean, id, "worker-forgets-missing", "a worker that goes on after a tolerated 'header missing' does not keep that error as its result: the error it recorded is nil again when it takes the next height or finds the job channel closed", worker, st, "", nil)
			}
		}
	}

	// (3) close(jobCh) → Wait → Sort → evaluation
	var closeJob, wait, sortc *ssa.Call
	var add *ssa.Call
	an.Instrs(par, func(in ssa.Instruction) {
		call, ok := in.(*ssa.Call)
		if !ok {
			return
		}
		if b, isB := call.Call.Value.(*ssa.Builtin); isB && b.Name() == "close" {
			closeJob = call
		}
		full := an.StaticFullName(&call.Call)
		switch {
		case strings.HasSuffix(full, "sync.WaitGroup).Wait"):
			wait = call
		case strings.HasSuffix(full, "sync.WaitGroup).Add"):
			add = call
		case strings.HasPrefix(full, "slices.SortFunc"):
			sortc = call
		}
	})
	is := func(x *ssa.Call) an.InstrPred {
		return func(in ssa.Instruction) bool { return in == ssa.Instruction(x) }
	}
	if c.Check(closeJob != nil && wait != nil && sortc != nil, id, "shutdown-steps", "the dispatcher closes the job channel, waits for the workers and orders their results", par, nil, "", nil) {
		okOrder := fl.MustPrecede(is(closeJob), wait) && fl.MustPrecede(is(wait), sortc)
		for _, r := range ff.Returns() {
			okOrder = okOrder && fl.MustPrecede(is(sortc), r)
		}
		c.Check(okOrder, id, "results-after-shutdown", "no result is evaluated (and the driver does not return) before the job channel was closed, every worker finished and the results were ordered by height", par, sortc, "", nil)
	}
	// (4) wait group arming
	if c.Check(spawn != nil && add != nil && wait != nil, id, "waitgroup", "worker goroutines signal a wait group by a deferred Done", par, nil, "", nil) {
		// spawn loop: `for i := range N { go … }`
		okN := false
		an.Instrs(par, func(in ssa.Instruction) {
			g, ok := in.(*ssa.Go)
			if !ok {
				return
			}
			if mc, isMC := g.Call.Value.(*ssa.MakeClosure); !isMC || mc.Fn != ssa.Value(spawn) {
				return
			}
			for _, f := range ff.AtInstr(g) {
				if f.Op == "LT" && f.Pos && f.B == t.Of(add.Call.Args[1]) {
					okN = true
				}
			}
			// first iteration enters unconditionally when N > 0: the loop-entry test is on the same bound
			for _, cf := range condFacts(t) {
				if cf.Op == "LT" && cf.B == t.Of(add.Call.Args[1]) {
					okN = true
				}
			}
		})
		c.Check(okN && fl.MustPrecede(is(add), wait), id, "waitgroup-armed-with-worker-count", "the wait group is armed, before any worker starts, with the number of goroutines the spawn loop starts", par, add, "Add("+t.Of(add.Call.Args[1])+")", nil)
	}

	// (5)+(6) evaluation loop
	var loop *idxLoop
	for _, l := range indexLoops(t) {
		// the loop over the per-worker results: its elements are structs with an `err` field
		if len(l.Elems) == 0 {
			continue
		}
		if st, ok := l.Elems[0].Type().Underlying().(*types.Struct); ok {
			for i := 0; i < st.NumFields(); i++ {
				if st.Field(i).Name() == errF {
					loop = l
				}
			}
		}
	}
	if !c.Check(loop != nil, id, "evaluation-loop", "the driver walks every worker result", par, nil, "", nil) {
		return
	}
	for _, r := range ff.Returns() {
		fs := ff.AtInstr(r)
		sh := t.ErrShape(errResult(r))
		switch {
		case sh == "nil":
			c.Check(fs.Has(loop.InLoop.Neg()), id, "success-after-all-results", "the parallel driver reports success only after it looked at every worker's result", par, r, "", fs)
		case fs.Has(loop.InLoop):
			okE := false
			for _, f := range fs {
				if f.Op == "EQ" && !f.Pos && (f.A == "nil" || f.B == "nil") && strings.Contains(f.A+f.B, "."+errF) {
					okE = true
				}
			}
			c.Check(okE && strings.Contains(t.Of(errResult(r)), "."+errF), id, "first-failed-result-returned", "a failed worker result ends the evaluation with that result's error (and height)", par, r, "", fs)
		}
	}
	for _, pred := range loop.Header.Preds {
		if !ff.Dominates(loop.Header, pred) {
			continue
		}
		okB := false
		for _, f := range ff.EdgeFacts(pred, loop.Header) {
			if f.Op == "EQ" && f.Pos && (f.A == "nil" || f.B == "nil") && strings.Contains(f.A+f.B, "."+errF) {
				okB = true
			}
		}
		c.Check(okB, id, "next-result-needs-success", "the evaluation moves on to the next result only when the current one carries no error", par, nil, "", ff.EdgeFacts(pred, loop.Header))
	}
	// highest = max over results of .height; success reports highest+1
	var hi *ssa.Phi
	for _, in := range loop.Header.Instrs {
		ph, ok := in.(*ssa.Phi)
		if !ok {
			break
		}
		if ph != loop.Phi && ph.Type().String() == "uint64" {
			hi = ph
		}
	}
	if c.Check(hi != nil, id, "progress-accumulator", "the evaluation carries the highest height reached", par, nil, "", nil) {
		elemH := ""
		an.Instrs(par, func(in ssa.Instruction) {
			if fa, ok := in.(*ssa.FieldAddr); ok && fieldName(fa) == heightF && ff.Dominates(loop.Header, fa.Block()) {
				if ld := firstLoad(fa); ld != nil {
					elemH = t.Of(ld)
				}
			}
		})
		okMax := elemH != ""
		var back ssa.Value
		for i, e := range hi.Edges {
			if ff.Dominates(loop.Header, loop.Header.Preds[i]) {
				back = e
			} else {
				okMax = okMax && t.Of(e) == "0"
			}
		}
		if okMax && back != nil {
			type opnd struct {
				v  ssa.Value
				fs an.FactSet
			}
			var ops []opnd
			if ph, ok := back.(*ssa.Phi); ok && ph.Block() != loop.Header {
				for _, pe := range ff.PhiOperands(ph) {
					ops = append(ops, opnd{pe.Val, pe.Facts})
				}
			} else {
				ops = append(ops, opnd{back, ff.AtInstr(hi)})
			}
			for _, o := range ops {
				nv := t.Affine(o.v)
				okMax = okMax && ff.ProveGEFacts(o.fs, nv, t.Affine(hi), 0) && ff.ProveGEFacts(o.fs, nv, an.Var(elemH, true), 0)
			}
		}
		c.Check(okMax, id, "progress-is-max", "the progress carried on is at least the previous maximum and at least the current result's height (the maximum over all workers)", par, hi, "element height "+an.Stable(elemH), nil)
		for _, r := range ff.Returns() {
			if t.ErrShape(errResult(r)) == "nil" {
				dlt := t.Affine(ff.Unphi(r.Results[0])).Sub(t.Affine(hi))
				// the evaluation moved into a helper and spliced back: `h, m, err := eval(results); if err != nil
				// { return }; h++` — the h that is incremented merges the helper's ways out, of which only the
				// successful one is live where err is nil
				if b, isB := r.Results[0].(*ssa.BinOp); isB && dlt.String() != "1" {
					if k, isK := b.Y.(*ssa.Const); isK && k.Value != nil && k.Value.ExactString() == "1" && b.Op.String() == "+" {
						dlt = t.Affine(ff.UnphiAt(b.X, r)).Sub(t.Affine(hi))
						dlt.C++
					}
				}
				c.Check(dlt.String() == "1", id, "success-reports-max-plus-one", "on success the driver reports the height after the highest one deleted", par, r, "reports "+an.Stable(t.Of(r.Results[0])), nil)
			}
		}
	}
}

func firstLoad(addr ssa.Value) ssa.Value {
	if addr.Referrers() == nil {
		return nil
	}
	for _, r := range *addr.Referrers() {
		if u, ok := r.(*ssa.UnOp); ok && u.X == addr {
			return u
		}
	}
	return nil
}
