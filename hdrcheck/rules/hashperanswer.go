package rules

import (
	"strings"

	"golang.org/x/tools/go/ssa"

	"hdrcheck/an"
)

// checkHashBoundPerAnswer (C13.a, finding F35): "Get(hash) returns a header whose Hash() equals the requested hash or
// an error … taken from the first trusted peer that answers validly, and fail with an error when no trusted peer
// does". performRequest takes the first answer that the per-peer step returns without an error; whatever makes
// an answer invalid has to be found by that step, or one fast peer answering a by-hash request with a valid
// header of another hash decides the outcome for everybody. So the per-peer step compares the hash of every
// header of the answer with the hash the request carries, a mismatch makes it fail, and under a request that
// carries a hash no successful return avoids the loop that compares.
func checkHashBoundPerAnswer(c *an.Ctx, id string, request *ssa.Function) {
	t, ff := c.T(request), c.F(request)
	var eq *ssa.Call
	an.Instrs(request, func(in ssa.Instruction) {
		call, ok := in.(*ssa.Call)
		if !ok || an.StaticFullName(&call.Call) != "bytes.Equal" || len(call.Call.Args) != 2 {
			return
		}
		a, b := t.Of(call.Call.Args[0]), t.Of(call.Call.Args[1])
		isHdrHash := func(s string) bool { return strings.HasPrefix(s, "Hash(") && strings.Contains(s, "processResponses") }
		isReqHash := func(s string) bool { return strings.Contains(s, "GetHash(p3)") }
		if (isHdrHash(a) && isReqHash(b)) || (isHdrHash(b) && isReqHash(a)) {
			eq = call
		}
	})
	if !c.Check(eq != nil, id, "hash-bound-per-answer", "the step that validates one peer's answer compares the hash of the answer's headers with the hash the request carries (a wrong-hash answer is a failed attempt, the next peer's answer is taken)", request, nil, "no bytes.Equal(header.Hash(), req.GetHash()) in the per-peer step", nil) {
		return
	}
	// a mismatch fails the step
	okFail := true
	pr := ff.Prune(an.B(t.Of(eq)).Neg())
	n := 0
	for _, r := range pr.Returns() {
		if !(an.Flow{Fn: request, Skip: pr.Removed}).CanReach(eq, r) || !pr.AtInstr(r).Has(an.B(t.Of(eq)).Neg()) {
			continue
		}
		n++
		okFail = okFail && t.ErrShape(errResult(r)) != "nil"
	}
	c.Check(okFail && n > 0, id, "hash-bound-per-answer:mismatch-fails", "an answer whose header has another hash than the requested one makes the per-peer step fail", request, eq, "", nil)
	// under a by-hash request the successful returns pass through the comparing loop
	h := loopHeaderOf(eq.Block())
	okDom := h != nil
	var hashLen string
	for _, f := range condFacts(t) {
		if strings.Contains(f.A+f.B, "len(pb.GetHash(p3))") {
			hashLen = "len(pb.GetHash(p3))"
		}
	}
	if okDom {
		prH := ff.Prune(an.NE(hashLen, "0"))
		for _, r := range prH.Returns() {
			if t.ErrShape(errResult(r)) != "nil" {
				continue
			}
			if !prH.Reachable(r.Block()) {
				continue
			}
			// the loop header is on every remaining way to this return
			if !(an.Flow{Fn: request, Skip: prH.Removed}).MustPrecedeAny(func(in ssa.Instruction) bool { return in.Block() == h }, r) {
				okDom = false
			}
		}
		okDom = okDom && hashLen != "" && everyTripCrosses(h, func(in ssa.Instruction) bool { return in == ssa.Instruction(eq) })
		// a trip is left early only by the failing return
		for _, x := range loopSideExits(h) {
			r, isRet := x.Instrs[len(x.Instrs)-1].(*ssa.Return)
			if !isRet || t.ErrShape(errResult(r)) == "nil" {
				okDom = false
			}
		}
	}
	c.Check(okDom, id, "hash-bound-per-answer:every-header", "when the request carries a hash every header of the answer goes through the comparison before the step succeeds", request, eq, "", nil)
}
