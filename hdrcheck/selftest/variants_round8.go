package selftest

// The essence of the eighth-round seeded changes that needed a clause of their own, and finding F30 re-introduced.
func init() {
	const tl = "sync/syncer_tail.go"
	const sb = "p2p/subscriber.go"
	const ss = "sync/sync_store.go"
	add(
		Variant{Prop: "C16", Name: "seed-expired-tail-re-estimated-from-the-head", File: tl, Expect: "C16.c",
			Old: "\theight, err := s.findTailHeight(ctx, oldTail, head)\n", New: "\tif expired, _ := isExpired(oldTail, s.Params.trustingPeriod); expired {\n\t\treturn s.estimateTailHeight(head), nil\n\t}\n\n\theight, err := s.findTailHeight(ctx, oldTail, head)\n"},
		Variant{Prop: "C16", Name: "benign-found-height-through-a-local", File: tl,
			Old: "\theight, err := s.findTailHeight(ctx, oldTail, head)\n\tif err != nil {\n\t\treturn 0, fmt.Errorf(\"finding tail height: %w\", err)\n\t}\n\n\treturn height, nil\n", New: "\tfound, err := s.findTailHeight(ctx, oldTail, head)\n\tif err != nil {\n\t\treturn 0, fmt.Errorf(\"finding tail height: %w\", err)\n\t}\n\theight = found\n\n\treturn height, nil\n"},
		Variant{Prop: "C11", Name: "seed-soft-verdict-through-a-helper-that-does-not-unwrap", File: sb, Expect: "C11.b",
			Old: "\tvar verErr *header.VerifyError\n\tswitch err := s.verifier(ctx, hdr); {\n\tcase errors.As(err, &verErr) && verErr.SoftFailure:\n", New: "\tswitch err := s.verifier(ctx, hdr); {\n\tcase header.IsSoftFailure(err):\n",
			More: []Edit{{File: "verify.go", Old: "// clockDrift defines how much new header's time can drift into\n", New: "// IsSoftFailure reports whether err is a soft verification failure.\nfunc IsSoftFailure(err error) bool {\n\tverErr, ok := err.(*VerifyError)\n\treturn ok && verErr.SoftFailure\n}\n\n// clockDrift defines how much new header's time can drift into\n"}}},
		Variant{Prop: "C03", Name: "f30-cached-head-left-on-a-batch-the-store-refused", File: ss, Expect: "C03.c",
			Old: "\t\ts.head.CompareAndSwap(&head, prev)\n", New: "\t\t_ = prev\n"},
		Variant{Prop: "C07", Name: "f30-cached-head-left-on-a-batch-the-store-refused", File: ss, Expect: "C07.b",
			Old: "\t\ts.head.CompareAndSwap(&head, prev)\n", New: "\t\t_ = prev\n"},
		Variant{Prop: "C03", Name: "f30-cached-head-taken-back-before-the-store-was-asked", File: ss, Expect: "C03.c",
			Old: "\tif err := s.Store.Append(ctx, headers...); err != nil {\n\t\t// nothing was handed to the Store: the cached head must not stay on headers that are not there\n\t\t// (the swap does nothing unless the cache still holds what was stored above)\n\t\ts.head.CompareAndSwap(&head, prev)\n\t\treturn err\n\t}\n", New: "\ts.head.CompareAndSwap(&head, prev)\n\tif err := s.Store.Append(ctx, headers...); err != nil {\n\t\treturn err\n\t}\n"},
	)
}
