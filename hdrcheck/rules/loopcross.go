package rules

import (
	"golang.org/x/tools/go/ssa"

	"hdrcheck/an"
)

// loopHeaderOf: the innermost loop header around b — the nearest dominator of b (b included) that has a
// back edge (a predecessor it dominates).
func loopHeaderOf(b *ssa.BasicBlock) *ssa.BasicBlock {
	for h := b; h != nil; h = h.Idom() {
		for _, p := range h.Preds {
			if h.Dominates(p) {
				return h
			}
		}
	}
	return nil
}

// everyTripCrosses: no trip of the loop with the given header gets back to the header without executing an
// instruction that satisfies x (ways out of the loop do not count).
func everyTripCrosses(header *ssa.BasicBlock, x an.InstrPred) bool {
	ok := true
	seen := map[*ssa.BasicBlock]bool{}
	var visit func(b *ssa.BasicBlock)
	visit = func(b *ssa.BasicBlock) {
		if seen[b] || !ok {
			return
		}
		seen[b] = true
		if b != header {
			if !header.Dominates(b) {
				return // left the loop
			}
			for _, in := range b.Instrs {
				if x(in) {
					return
				}
			}
		}
		for _, s := range b.Succs {
			if s == header {
				if b != header {
					ok = false // a back edge taken without having crossed x
				}
				continue
			}
			visit(s)
		}
	}
	visit(header)
	return ok
}

// loopLeftOnlyAtHeader: the loop with the given header is left only by the header's own test — no break,
// return or panic from inside a trip.
func loopLeftOnlyAtHeader(header *ssa.BasicBlock) bool {
	// the body: blocks dominated by the header from which the header can be reached again
	body := map[*ssa.BasicBlock]bool{header: true}
	for changed := true; changed; {
		changed = false
		for _, b := range header.Parent().Blocks {
			if body[b] || !header.Dominates(b) {
				continue
			}
			for _, s := range b.Succs {
				if body[s] {
					body[b] = true
					changed = true
					break
				}
			}
		}
	}
	for b := range body {
		if b == header {
			continue
		}
		for _, s := range b.Succs {
			if !body[s] {
				return false
			}
		}
	}
	return true
}

// loopSideExits: the blocks outside the loop that are entered from a block of the loop other than its header
// (a break, a return or a panic from inside a trip).
func loopSideExits(header *ssa.BasicBlock) []*ssa.BasicBlock {
	body := map[*ssa.BasicBlock]bool{header: true}
	for changed := true; changed; {
		changed = false
		for _, b := range header.Parent().Blocks {
			if body[b] || !header.Dominates(b) {
				continue
			}
			for _, s := range b.Succs {
				if body[s] {
					body[b] = true
					changed = true
					break
				}
			}
		}
	}
	var out []*ssa.BasicBlock
	for b := range body {
		if b == header {
			continue
		}
		for _, s := range b.Succs {
			if !body[s] {
				out = append(out, s)
			}
		}
	}
	return out
}
