package rules

import (
	"go/constant"
	"strings"

	"golang.org/x/tools/go/ssa"

	"hdrcheck/an"
)

// keepsErrIdentity: the error value v still answers errors.Is like the error denoted by the term src
// (or is the sentinel itself): v is src, a %w wrap of such a value, an errors.Join with such a value, or
// a merge of such values. A message built with %v, or a fresh error, does not.
func keepsErrIdentity(t *an.Terms, v ssa.Value, src, sentinel string, depth int) bool {
	if v == nil || depth > 5 {
		return false
	}
	if t.Of(v) == src {
		return true
	}
	if d := t.Deref(v); d != nil && d != v {
		if keepsErrIdentity(t, d, src, sentinel, depth+1) {
			return true
		}
	}
	v = an.Unwrap(v)
	if t.Of(v) == src || (sentinel != "" && t.ErrShape(v) == "S:"+sentinel) {
		return true
	}
	switch x := v.(type) {
	case *ssa.Phi:
		for _, e := range x.Edges {
			if !keepsErrIdentity(t, e, src, sentinel, depth+1) {
				return false
			}
		}
		return len(x.Edges) > 0
	case *ssa.Call:
		switch an.StaticFullName(&x.Call) {
		case "errors.Join":
			if len(x.Call.Args) == 1 {
				for _, a := range an.VariadicArgs(x.Call.Args[0]) {
					if a != nil && keepsErrIdentity(t, a, src, sentinel, depth+1) {
						return true
					}
				}
			}
		case "fmt.Errorf":
			if len(x.Call.Args) == 2 {
				k, ok := x.Call.Args[0].(*ssa.Const)
				if !ok || k.Value == nil || !strings.Contains(constant.StringVal(k.Value), "%w") {
					return false
				}
				// the operand formatted with %w: the i-th verb is %w ⇒ the i-th argument
				verbs := fmtVerbs(constant.StringVal(k.Value))
				args := an.VariadicArgs(x.Call.Args[1])
				for i, vb := range verbs {
					if vb == 'w' && i < len(args) && args[i] != nil && keepsErrIdentity(t, args[i], src, sentinel, depth+1) {
						return true
					}
				}
			}
		}
	}
	return false
}

// fmtVerbs lists the verbs of a format string in order (flags, width and precision skipped; %% ignored).
func fmtVerbs(f string) []byte {
	var out []byte
	for i := 0; i < len(f); i++ {
		if f[i] != '%' {
			continue
		}
		i++
		for i < len(f) && strings.ContainsRune("+-# 0123456789.*[]", rune(f[i])) {
			i++
		}
		if i < len(f) && f[i] != '%' {
			out = append(out, f[i])
		}
	}
	return out
}
