package an

import (
	"go/constant"
	"go/token"
	"go/types"
	"strconv"

	"golang.org/x/tools/go/ssa"
)

// This file is the small arithmetic prover: linear goals over opaque terms are
// discharged from guard facts by a bounded search for a non-negative integer
// combination of known inequalities. No solver is involved.
//
// Integers are treated as mathematical integers: a fact such as
// h.Height()+1 <= to is read without wrap-around. The rules that care about
// wrap-around (C10.c) state it separately.

// affOfTerm re-creates an affine form for a fact operand. Facts carry canonical
// strings; the Terms object remembers the affine form behind each integer term.
func (t *Terms) affOfTerm(s string) *Affine {
	if a, ok := t.byTerm()[s]; ok {
		return a
	}
	if i, err := strconv.ParseInt(s, 10, 64); err == nil {
		r := newAffine()
		r.C = i
		return r
	}
	r := newAffine()
	r.Co[s] = 1
	if len(s) > 4 && (s[:4] == "len(" || s[:4] == "cap(") {
		r.NonNeg[s] = true
	}
	return r
}

func (t *Terms) byTerm() map[string]*Affine {
	m := t.index
	if m == nil {
		m = map[string]*Affine{}
		t.index = m
	}
	// (re)index every integer value seen so far
	for v, a := range t.aff {
		_ = v
		m[a.String()] = a
	}
	for v, s := range t.memo {
		if isIntegral(v.Type()) {
			if _, ok := m[s]; !ok {
				m[s] = t.Affine(v)
			}
		}
	}
	return m
}

// ineqs turns facts into a list of affine expressions known to be >= 0.
func (t *Terms) ineqs(fs FactSet) []*Affine {
	var out []*Affine
	one := newAffine()
	one.C = 1
	var nes [][2]*Affine
	for _, f := range fs {
		switch f.Op {
		case "LT":
			a, b := t.affOfTerm(f.A), t.affOfTerm(f.B)
			if f.Pos { // a < b  ⇒ b-a-1 >= 0
				out = append(out, b.Sub(a).Sub(one))
			} else { // a >= b ⇒ a-b >= 0
				out = append(out, a.Sub(b))
			}
		case "EQ":
			if f.A == "nil" || f.B == "nil" {
				continue
			}
			a, b := t.affOfTerm(f.A), t.affOfTerm(f.B)
			if f.Pos {
				out = append(out, a.Sub(b), b.Sub(a))
			} else {
				nes = append(nes, [2]*Affine{a, b})
			}
		}
	}
	// a != b strengthens a >= b to a >= b+1 (one round)
	for _, ne := range nes {
		d := ne[0].Sub(ne[1])
		if proveGE0(d, out, 2) {
			out = append(out, d.Sub(one))
		}
		e := ne[1].Sub(ne[0])
		if proveGE0(e, out, 2) {
			out = append(out, e.Sub(one))
		}
	}
	return out
}

func triviallyGE0(g *Affine) bool {
	if g.C < 0 {
		return false
	}
	for k, c := range g.Co {
		if c < 0 || !g.NonNeg[k] {
			return false
		}
	}
	return true
}

func proveGE0(g *Affine, known []*Affine, depth int) bool {
	if triviallyGE0(g) {
		return true
	}
	if depth == 0 {
		return false
	}
	for _, k := range known {
		// only try inequalities that share a term with a "bad" part of g
		useful := false
		for term, c := range k.Co {
			gc, ok := g.Co[term]
			if ok && ((gc < 0 && c < 0) || (gc > 0 && c > 0 && !g.NonNeg[term])) {
				useful = true
				break
			}
			if ok && gc < 0 && c > 0 {
				continue
			}
		}
		if !useful && !(g.C < 0 && k.C < 0) {
			continue
		}
		if proveGE0(g.Sub(k), known, depth-1) {
			return true
		}
	}
	return false
}

// ProveGE proves x - y >= k from the facts.
func (t *Terms) ProveGE(fs FactSet, x, y *Affine, k int64) bool {
	g := x.Sub(y)
	g.C -= k
	return proveGE0(g, t.ineqs(fs), 4)
}

// ProveNonZero proves x != 0 (x >= 1 for non-negative x, or an explicit NE fact).
func (t *Terms) ProveNonZero(fs FactSet, x ssa.Value) bool {
	s := t.Of(x)
	if fs.Has(NE(s, "0")) {
		return true
	}
	a := t.Affine(x)
	zero := newAffine()
	if t.ProveGE(fs, a, zero, 1) {
		return true
	}
	// x <= -1
	return t.ProveGE(fs, zero, a, 1)
}

// ArithSite is one arithmetic safety obligation found in a function.
type ArithSite struct {
	Kind  string // "usub", "div", "index", "slice", "makesize", "conv"
	Instr ssa.Instruction
	X, Y  ssa.Value // usub: X-Y; div: X/Y; index: X[Y]; conv: X
	Desc  string
}

// ArithSites collects the arithmetic obligation sites of fn.
func ArithSites(t *Terms) []ArithSite {
	var out []ArithSite
	for _, b := range t.Fn.Blocks {
		for _, in := range b.Instrs {
			switch v := in.(type) {
			case *ssa.BinOp:
				switch v.Op {
				case token.SUB:
					if isUnsigned(v.Type()) {
						if _, isC := v.Y.(*ssa.Const); isC {
							if _, isC2 := v.X.(*ssa.Const); isC2 {
								continue
							}
						}
						out = append(out, ArithSite{Kind: "usub", Instr: v, X: v.X, Y: v.Y,
							Desc: t.Of(v.X) + " - " + t.Of(v.Y)})
					}
				case token.ADD, token.MUL:
					// the terms read integers as mathematical integers; a sum or product with an operand
					// that may be a constant near the top of the type's range wraps around for certain
					if isUnsigned(v.Type()) {
						for _, pair := range [][2]ssa.Value{{v.X, v.Y}, {v.Y, v.X}} {
							if k := hugeConst(pair[0], 0); k != "" {
								if c0, isC := pair[1].(*ssa.Const); isC && c0.Value != nil && c0.Value.ExactString() == "0" {
									continue
								}
								out = append(out, ArithSite{Kind: "uwrap", Instr: v, X: pair[1], Y: pair[0],
									Desc: t.Of(v.X) + " " + v.Op.String() + " " + t.Of(v.Y) + " with " + k})
								break
							}
						}
					}
				case token.QUO, token.REM:
					if isIntegral(v.Type()) {
						if c, isC := v.Y.(*ssa.Const); isC && c.Value != nil && c.Value.ExactString() != "0" {
							continue
						}
						out = append(out, ArithSite{Kind: "div", Instr: v, X: v.X, Y: v.Y,
							Desc: t.Of(v.X) + " " + v.Op.String() + " " + t.Of(v.Y)})
					}
				}
			case *ssa.Convert:
				if isUnsigned(v.Type()) && isIntegral(v.X.Type()) && !isUnsigned(v.X.Type()) {
					if _, isC := v.X.(*ssa.Const); isC {
						continue
					}
					out = append(out, ArithSite{Kind: "conv", Instr: v, X: v.X, Desc: "unsigned(" + t.Of(v.X) + ")"})
				} else if lossyConv(v) && decisionRelevant(v) {
					if _, isC := v.X.(*ssa.Const); isC {
						continue
					}
					out = append(out, ArithSite{Kind: "sconv", Instr: v, X: v.X, Desc: v.Type().String() + "(" + t.Of(v.X) + ")"})
				}
			case *ssa.IndexAddr:
				if _, isC := v.Index.(*ssa.Const); isC {
					if _, isArr := deref(v.X.Type()).Underlying().(interface{ Len() int64 }); isArr {
						continue
					}
				}
				out = append(out, ArithSite{Kind: "index", Instr: v, X: v.X, Y: v.Index,
					Desc: t.Of(v.X) + "[" + t.Of(v.Index) + "]"})
			case *ssa.Index:
				out = append(out, ArithSite{Kind: "index", Instr: v, X: v.X, Y: v.Index,
					Desc: t.Of(v.X) + "[" + t.Of(v.Index) + "]"})
			case *ssa.Slice:
				if v.Low == nil && v.High == nil {
					continue
				}
				out = append(out, ArithSite{Kind: "slice", Instr: v, X: v.X, Desc: t.Of(v)})
			case *ssa.MakeSlice:
				for _, sz := range []ssa.Value{v.Len, v.Cap} {
					if _, isC := sz.(*ssa.Const); isC {
						continue
					}
					out = append(out, ArithSite{Kind: "makesize", Instr: v, X: sz, Desc: "make(…, " + t.Of(sz) + ")"})
				}
			}
		}
	}
	return out
}

// intSize is the size in bytes of an integral basic type on the 64-bit targets the module is built for.
func intSize(tp types.Type) int {
	b, ok := tp.Underlying().(*types.Basic)
	if !ok {
		return 8
	}
	switch b.Kind() {
	case types.Int8, types.Uint8:
		return 1
	case types.Int16, types.Uint16:
		return 2
	case types.Int32, types.Uint32:
		return 4
	}
	return 8
}

// lossyConv reports an integer conversion (other than signed→unsigned, which is the "conv" kind)
// whose result can differ from its operand: unsigned→signed of the same or a smaller size, or a
// narrowing one. The value model of the terms treats integer conversions as the identity, so a
// decision taken on the result of such a conversion needs the operand proven in range.
func lossyConv(v *ssa.Convert) bool {
	if !isIntegral(v.Type()) || !isIntegral(v.X.Type()) {
		return false
	}
	du, su := isUnsigned(v.Type()), isUnsigned(v.X.Type())
	ds, ss := intSize(v.Type()), intSize(v.X.Type())
	switch {
	case du && !su:
		return false // "conv"
	case !du && su:
		return ds <= ss
	default:
		return ds < ss
	}
}

// convMax is the largest value of the conversion's result type (capped at MaxInt64).
func convMax(tp types.Type) int64 {
	bits := uint(8 * intSize(tp))
	if !isUnsigned(tp) {
		bits--
	}
	if bits >= 63 {
		return 1<<63 - 1
	}
	return 1<<bits - 1
}

// decisionRelevant reports whether the value (through arithmetic, phis and further conversions)
// reaches a comparison, an allocation size, an index or slice bound.
func decisionRelevant(v ssa.Value) bool {
	seen := map[ssa.Value]bool{}
	var walk func(x ssa.Value) bool
	walk = func(x ssa.Value) bool {
		if seen[x] {
			return false
		}
		seen[x] = true
		refs := x.Referrers()
		if refs == nil {
			return false
		}
		for _, r := range *refs {
			switch u := r.(type) {
			case *ssa.BinOp:
				switch u.Op {
				case token.EQL, token.NEQ, token.LSS, token.LEQ, token.GTR, token.GEQ:
					return true
				}
				if walk(u) {
					return true
				}
			case *ssa.Phi:
				if walk(u) {
					return true
				}
			case *ssa.Convert:
				if walk(u) {
					return true
				}
			case *ssa.ChangeType:
				if walk(u) {
					return true
				}
			case *ssa.MakeSlice, *ssa.Slice, *ssa.IndexAddr, *ssa.Index:
				return true
			case *ssa.Call:
				if b, ok := u.Call.Value.(*ssa.Builtin); ok && (b.Name() == "min" || b.Name() == "max") {
					if walk(u) {
						return true
					}
				}
			}
		}
		return false
	}
	return walk(v)
}

// hugeConst reports (as text) a constant of at least 2^62 that v is, or may be through phis,
// conversions and min/max, and "" when there is none within a small depth.
func hugeConst(v ssa.Value, depth int) string {
	if depth > 4 {
		return ""
	}
	switch x := v.(type) {
	case *ssa.Const:
		if x.Value != nil && x.Value.Kind() == constant.Int {
			if constant.Compare(x.Value, token.GEQ, constant.Shift(constant.MakeInt64(1), token.SHL, 62)) {
				return "the constant " + x.Value.ExactString()
			}
		}
	case *ssa.Phi:
		for _, e := range x.Edges {
			if s := hugeConst(e, depth+1); s != "" {
				return s + " (through a merge)"
			}
		}
	case *ssa.Convert:
		return hugeConst(x.X, depth+1)
	case *ssa.ChangeType:
		return hugeConst(x.X, depth+1)
	}
	return ""
}
