package rules

import (
	"strings"

	"golang.org/x/tools/go/ssa"

	"hdrcheck/an"
)

func init() {
	register(&Rule{
		ID: "C12",
		Explanation: "Decides the lost-wake-up argument for Store.GetByHeight as structure: (a) GetByHeight looks up, waits, and on a nil or elapsed-height result looks up again and returns that result, any other wait error is returned; " +
			"(b) in heightSub.Wait the published height is re-read under the lock and compared, and the waiter is registered in the same critical section (no Unlock between the re-check and the registration); the blocking select runs without the lock, has a ctx.Done() case returning ctx.Err(), and a signal case returning nil; " +
			"(c) SetHeight publishes the height by CAS (only upwards) before it takes the lock and releases the waiters of (old, new]; Notify releases under the lock; a release closes the signal and deletes the waiter on the same path; every access to the waiter map holds the lock (or sits in a helper all of whose callers hold it); " +
			"(d) the single writer makes headers readable (pending.Append) before it notifies their heights and before it advances the head; (e) an elapsed height returns without any blocking operation.",
		NotDecided: []string{
			"the schedule quantifier itself: that under every interleaving the waiter is woken (the structure checked is the classical sufficient condition: reader check+register atomic, writer publishes before notifying under the same lock)",
			"fairness of the runtime scheduler and mutex",
		},
		Technique: "must-held lock analysis, critical-region rule (no Unlock between two events), must-precede ordering, assumption pruning, caller-holds summaries for lock-protected helpers",
		Trusted:   "go/types+go/ssa; sync.Mutex and sync/atomic semantics; Go memory model for channel close",
		Run:       runC12,
		Imports: []Import{
			{From: "C06.b", Match: "reset-after-success", As: "C12.f", Why: "a header whose height is published stays readable: it leaves the pending batch only after the flush that wrote it to the datastore returned nil (a batch released on a failed commit is in neither place while the commit is retried)"},
			{From: "C17.f", Match: "pending-before-disk", As: "C12.g", Why: "a reader woken by the append of its header looks it up while the write loop may be committing the batch: the flush commits first and resets the pending batch afterwards, so a lookup that asks the pending batch BEFORE the datastore finds the header in one of the two; in the other order it can miss both"},
			{From: "C04.c", Match: "advance-publishes", As: "C12.e", Why: "a reader that parked just before the head moved is woken by the publication of the new height (SetHeight walks the heights in between and releases their waiters); bumping the height without that walk leaves it parked although Height() has reached its height"},
		},
	})
}

func runC12(c *an.Ctx) {
	p := c.P
	checkWaiterCounted(c, "C12.b")
	checkSubscriptionTableStable(c, "C12.b")
	gbh := p.Method("store", "Store", "GetByHeight")
	lookup := p.Method("store", "Store", "getByHeight")
	wait := waitBody(c)
	setH := p.Method("store", "heightSub", "SetHeight")
	notifyPub := p.Method("store", "heightSub", "Notify")
	notify := p.Method("store", "heightSub", "notify")
	initH := p.Method("store", "heightSub", "Init")
	heightFn := p.Method("store", "heightSub", "Height")
	flushLoop := p.Method("store", "Store", "flushLoop")
	ok := true
	for name, f := range map[string]*ssa.Function{"store.(*Store).GetByHeight": gbh, "store.(*Store).getByHeight": lookup, "store.(*heightSub).Wait": wait,
		"store.(*heightSub).SetHeight": setH, "store.(*heightSub).Notify": notifyPub, "store.(*heightSub).notify": notify, "store.(*heightSub).Init": initH,
		"store.(*heightSub).Height": heightFn, "store.(*Store).flushLoop": flushLoop} {
		ok = c.Need(f, "C12.a", name) && ok
	}
	if !ok {
		return
	}
	elapsed := "store.errElapsedHeight"

	// --- C12.a lookup – wait – lookup
	{
		t, ff := c.T(gbh), c.F(gbh)
		lks := callsTo(gbh, lookup)
		wcs := callsTo(gbh, wait)
		c.Min("C12.a", "lookups in GetByHeight", len(lks), 2)
		c.Min("C12.a", "Wait calls in GetByHeight", len(wcs), 1)
		if len(lks) >= 2 && len(wcs) == 1 {
			w := wcs[0]
			wErr := t.Of(w)
			fl := an.Flow{Fn: gbh}
			c.Check(fl.MustPrecede(an.IsCallTo(lookup), w) && t.Of(w.Call.Args[2]) == "p2" && t.Of(w.Call.Args[1]) == "p1", "C12.a", "lookup-before-wait", "a lookup precedes waiting for the same height (with the caller's context)", gbh, w, "", nil)
			isEl := an.B("errors.Is(" + wErr + "," + elapsed + ")")
			// the wait error decides: other errors are returned
			prErr := ff.Prune(an.NE(wErr, "nil"), isEl.Neg())
			n := 0
			for _, r := range prErr.Returns() {
				if !prErr.AtInstr(r).Has(an.NE(wErr, "nil")) {
					continue
				}
				n++
				sh := t.ErrShape(errResult(r))
				c.Check(strings.Contains(sh, wErr) && sh != "nil", "C12.a", "wait-error-returned", "a wait error other than the elapsed-height signal (context end) is returned to the caller", gbh, r, sh, nil)
			}
			c.Min("C12.a", "returns for a failed wait", n, 1)
			// after a nil / elapsed wait: second lookup, returned as is
			for _, assume := range [][]an.Fact{{an.EQ(wErr, "nil")}, {an.NE(wErr, "nil"), isEl}} {
				pr := ff.Prune(assume...)
				m := 0
				for _, r := range pr.Returns() {
					if !fl.MustPrecede(func(in ssa.Instruction) bool { return in == ssa.Instruction(w) }, r) {
						continue
					}
					m++
					okR := false
					if ex, isEx := t.Deref(r.Results[0]).(*ssa.Extract); isEx {
						if call, isCall := ex.Tuple.(*ssa.Call); isCall && an.StaticCallee(&call.Call) == lookup && call != lks[0] &&
							t.Of(call.Call.Args[2]) == "p2" && t.Of(errResult(r)) == t.Of(call)+"#1" {
							okR = true
						}
					}
					c.Check(okR, "C12.a", "second-lookup-returned", "after the wait returned nil or elapsed-height the header is looked up again and that result is returned", gbh, r, "returns "+t.Of(r.Results[0]), nil)
				}
				if m == 0 {
					c.Fail("C12.a", "second-lookup-returned", "after the wait returned nil or elapsed-height the header is looked up again and that result is returned", gbh, w, "no return after the wait under "+an.FactSet(assume).String(), nil)
				}
			}
			// first lookup success is returned directly
			first := lks[0]
			for _, r := range ff.Returns() {
				if t.Of(r.Results[0]) == t.Of(first)+"#0" {
					c.Check(ff.AtInstr(r).Has(an.EQ(t.Of(first)+"#1", "nil")) && t.ErrShape(errResult(r)) == "nil", "C12.a", "first-lookup-hit", "a stored header is returned without waiting", gbh, r, "", ff.AtInstr(r))
				}
			}
		}
	}

	checkLookupAfterSubscription(c, "C12.a", gbh, lookup, wait)
	checkElapsedOnlyWhenPublished(c, "C12.b", wait)
	checkSharedSignalReleasedLast(c, "C12.b")
	checkReleasesOwnSubscriptionOnly(c, "C12.b", wait)
	checkShortcutHeightMatches(c, "C12.a", lookup)
	checkWaitNotUnderReadTransaction(c, "C12.a")
	if np := p.Method("store", "heightSub", "Notify"); c.Need(np, "C12.c", "store.(*heightSub).Notify") {
		checkNotifyAlwaysLooks(c, "C12.c", np)
	}

	// --- C12.b Wait: one critical section for re-check + registration
	// The critical section may live in Wait itself or in a helper method of heightSub that Wait
	// calls with the requested height (extracted "subscribe" step): `sec` is the function that
	// holds it, `hp` the term of the requested height in it.
	wt, wf := c.T(wait), c.F(wait)
	findRecheck := func(fn *ssa.Function, hp string) (*ssa.If, an.Fact) {
		ft := c.T(fn)
		lk, ul := mutexOp(ft, "heightSubsLk", "Lock"), mutexOp(ft, "heightSubsLk", "Unlock")
		var rc *ssa.If
		var rf an.Fact
		for _, b := range fn.Blocks {
			iff, isIf := b.Instrs[len(b.Instrs)-1].(*ssa.If)
			if !isIf {
				continue
			}
			f := ft.Cond(iff.Cond)
			if f.Op == "LT" && f.B == hp && strings.Contains(f.A, "Height") && an.LockHeld(fn, lk, ul, iff, nil) {
				rc, rf = iff, f
			}
		}
		return rc, rf
	}
	sec, hp := wait, "p2"
	var secCall *ssa.Call
	recheck, recheckFact := findRecheck(wait, "p2")
	if recheck == nil {
		an.Instrs(wait, func(in ssa.Instruction) {
			call, isCall := in.(*ssa.Call)
			if !isCall || recheck != nil {
				return
			}
			cal := an.StaticCallee(&call.Call)
			if cal == nil || cal.Blocks == nil || !strings.HasPrefix(an.FuncName(cal), "store.(*heightSub).") {
				return
			}
			for i, a := range call.Call.Args {
				if wt.Of(a) == "p2" {
					if rc, rf := findRecheck(cal, "p"+itoa(i)); rc != nil {
						sec, hp, secCall, recheck, recheckFact = cal, "p"+itoa(i), call, rc, rf
					}
				}
			}
		})
	}
	if !c.Check(recheck != nil, "C12.b", "recheck-under-lock", "Wait re-reads the published height and compares it with the requested height while holding the lock", wait, nil, "", nil) {
		return
	}
	_ = hp
	st, sf := c.T(sec), c.F(sec)
	isLock := mutexOp(st, "heightSubsLk", "Lock")
	isUnlock := mutexOp(st, "heightSubsLk", "Unlock")
	// the height read used by the re-check happens under the lock too
	if bo, isBO := recheck.Cond.(*ssa.BinOp); isBO {
		for _, side := range []ssa.Value{bo.X, bo.Y} {
			if call, isCall := side.(*ssa.Call); isCall {
				c.Check(an.LockHeld(sec, isLock, isUnlock, call, nil), "C12.b", "height-read-under-lock", "the height compared in the re-check is read after the lock was taken", sec, call, "", nil)
			}
		}
	}
	var regs []ssa.Instruction
	an.Instrs(sec, func(in ssa.Instruction) {
		switch x := in.(type) {
		case *ssa.MapUpdate:
			if isRecvField(st, x.Map, "heightSubs") {
				regs = append(regs, x)
			}
		case *ssa.Store:
			if fa, isFA := x.Addr.(*ssa.FieldAddr); isFA && fieldName(fa) == "count" {
				regs = append(regs, x)
			}
		}
	})
	c.Min("C12.b", "registration writes in Wait (map insert, count++)", len(regs), 2)
	for _, r := range regs {
		held := an.LockHeld(sec, isLock, isUnlock, r, nil)
		noGap := (an.Flow{Fn: sec}).Between(recheck, r, isUnlock) == nil
		fs := sf.AtInstr(r)
		c.Check(held && noGap && fs.Has(an.Fact{Atom: recheckFact.Atom, Pos: true}), "C12.b", "register-in-same-section",
			"the waiter is registered under the lock, in the same critical section as the re-check that found the height not yet published", sec, r, "", fs)
	}
	// elapsed: unlock, return errElapsedHeight, no blocking op
	prEl := sf.Prune(an.Fact{Atom: recheckFact.Atom, Pos: false})
	deferredUnlock := func(r ssa.Instruction) bool {
		return (an.Flow{Fn: sec}).MustPrecedeAny(func(in ssa.Instruction) bool {
			d, isD := in.(*ssa.Defer)
			return isD && isUnlock(d)
		}, r)
	}
	for _, r := range prEl.Returns() {
		c.Check(st.ErrShape(errResult(r)) == "S:"+elapsed, "C12.e", "elapsed-returns-signal", "a height at or below the published height returns the elapsed-height signal", sec, r, st.ErrShape(errResult(r)), nil)
		c.Check(!an.LockHeld(sec, isLock, isUnlock, r, prEl.Removed) || deferredUnlock(r), "C12.e", "elapsed-unlocks", "the elapsed path releases the lock before returning (explicitly or by a deferred unlock)", sec, r, "", nil)
	}
	an.Instrs(sec, func(in ssa.Instruction) {
		if _, isSel := in.(*ssa.Select); isSel && prEl.Reachable(in.Block()) {
			c.Fail("C12.e", "elapsed-blocks", "the elapsed path performs no blocking operation", sec, in, "select reachable", nil)
		}
	})
	if secCall != nil {
		// the extracted section reports through its error: Wait hands it on and does not block
		sErr := wt.Of(secCall) + "#1"
		prS := wf.Prune(an.NE(sErr, "nil"))
		okS := len(prS.Returns()) > 0
		for _, r := range prS.Returns() {
			if prS.AtInstr(r).Has(an.NE(sErr, "nil")) {
				okS = okS && strings.Contains(wt.ErrShape(errResult(r)), sErr)
			}
		}
		an.Instrs(wait, func(in ssa.Instruction) {
			if _, isSel := in.(*ssa.Select); isSel && prS.Reachable(in.Block()) {
				okS = false
			}
		})
		c.Check(okS, "C12.e", "section-outcome-returned", "when the registration step reports the elapsed-height signal Wait returns it at once, without blocking", wait, secCall, "", nil)
		isLock, isUnlock = mutexOp(wt, "heightSubsLk", "Lock"), mutexOp(wt, "heightSubsLk", "Unlock")
	}
	// blocking select
	nSel := 0
	an.Instrs(wait, func(in ssa.Instruction) {
		sel, isSel := in.(*ssa.Select)
		if !isSel {
			return
		}
		nSel++
		c.Check(!an.LockHeld(wait, isLock, isUnlock, sel, nil), "C12.b", "select-without-lock", "the waiter blocks only after releasing the lock", wait, sel, "", nil)
		ctxIdx, sigIdx := -1, -1
		for i, st := range sel.States {
			if st.Send != nil {
				continue
			}
			if call, isCall := st.Chan.(*ssa.Call); isCall && call.Call.IsInvoke() && call.Call.Method.Name() == "Done" && wt.Of(call.Call.Value) == "p1" {
				ctxIdx = i
			}
			if strings.Contains(wt.Of(st.Chan), ".signal") {
				sigIdx = i
			}
		}
		okSel := ctxIdx >= 0 && sigIdx >= 0
		if okSel {
			for _, r := range wf.Prune(an.EQ(wt.Of(sel)+"#0", itoa(ctxIdx))).Returns() {
				if wf.Prune(an.EQ(wt.Of(sel)+"#0", itoa(ctxIdx))).AtInstr(r).Has(an.EQ(wt.Of(sel)+"#0", itoa(ctxIdx))) {
					sh := wt.ErrShape(errResult(r))
					okSel = okSel && strings.HasPrefix(sh, "prop(invoke:Err")
				}
			}
			for _, r := range wf.Returns() {
				if wf.AtInstr(r).Has(an.EQ(wt.Of(sel)+"#0", itoa(sigIdx))) {
					okSel = okSel && wt.ErrShape(errResult(r)) == "nil"
				}
			}
		}
		c.Check(okSel, "C12.b", "select-cases", "the waiter selects on its signal (→ nil) and on ctx.Done() (→ ctx.Err()): a cancelled context always releases the caller", wait, sel, "", nil)
	})
	c.Min("C12.b", "blocking selects in Wait", nSel, 1)

	// --- C12.c publish-then-notify, release = close+delete, guarded-by
	{
		st, sf := c.T(setH), c.F(setH)
		sLock, sUnlock := mutexOp(st, "heightSubsLk", "Lock"), mutexOp(st, "heightSubsLk", "Unlock")
		var cas *ssa.Call
		an.Instrs(setH, func(in ssa.Instruction) {
			if call, isCall := in.(*ssa.Call); isCall && strings.HasSuffix(an.StaticFullName(&call.Call), "atomic.Uint64).CompareAndSwap") {
				cas = call
			}
		})
		if c.Check(cas != nil, "C12.c", "publish-by-cas", "SetHeight publishes the new height with a compare-and-swap", setH, nil, "", nil) {
			fs := sf.AtInstr(cas)
			curr, newH := st.Of(cas.Call.Args[1]), st.Of(cas.Call.Args[2])
			c.Check(fs.Has(an.LT(curr, newH)) && newH == "p1", "C12.c", "publish-upwards-only", "the height is only ever raised (CAS from curr to height under curr < height)", setH, cas, "", fs)
			nNotify := 0
			for _, nc := range callsTo(setH, notify) {
				nNotify++
				held := an.LockHeld(setH, sLock, sUnlock, nc, nil)
				after := (an.Flow{Fn: setH}).MustPrecede(func(in ssa.Instruction) bool { return in == ssa.Instruction(cas) }, nc)
				// (when the retry loop's exit is carried by a flag, the swap does not precede the release in
				// the graph — entry → loop test → exit is a path of it — but the flag being true is the swap
				// having returned true on the last trip, which is the fact required anyway)
				published := sf.AtRefined(nc.Block()).Has(an.B(st.Of(cas)))
				c.Check(held && (after || published) && published, "C12.c", "notify-after-publish", "waiters are released under the lock, after the height was successfully published", setH, nc, "", sf.AtRefined(nc.Block()))
				// the loop covers (old, new]: argument walks curr..height with guard curr <= height
				okRange := false
				if ph, isPhi := nc.Call.Args[1].(*ssa.Phi); isPhi {
					for _, e := range ph.Edges {
						if st.Of(e) == curr || st.Of(sf.UnphiAt(e, nc)) == curr {
							okRange = sf.AtInstr(nc).Has(an.LE(st.Of(ph), "p1"))
						}
					}
				}
				c.Check(okRange, "C12.c", "notify-range", "SetHeight releases every height from the old published height up to and including the new one", setH, nc, "", sf.AtInstr(nc))
			}
			c.Min("C12.c", "waiter releases in SetHeight", nNotify, 1)
		}
		nt := c.T(notifyPub)
		nLock, nUnlock := mutexOp(nt, "heightSubsLk", "Lock"), mutexOp(nt, "heightSubsLk", "Unlock")
		for _, nc := range callsTo(notifyPub, notify) {
			c.Check(an.LockHeld(notifyPub, nLock, nUnlock, nc, nil), "C12.c", "notify-under-lock", "Notify releases waiters while holding the lock", notifyPub, nc, "", nil)
			okAll := false
			for _, l := range indexLoops(nt) {
				if nt.Of(l.Slice) == "p1" && len(l.Elems) > 0 && l.isElem(nc.Call.Args[1]) {
					okAll = true
				}
			}
			c.Check(okAll, "C12.c", "notify-all-heights", "Notify releases the waiters of every given height", notifyPub, nc, "", nil)
		}
		// release = close + delete on the same path
		ft := c.T(notify)
		var closeC, delC *ssa.Call
		an.Instrs(notify, func(in ssa.Instruction) {
			if call, isCall := in.(*ssa.Call); isCall {
				if b, isB := call.Call.Value.(*ssa.Builtin); isB {
					switch b.Name() {
					case "close":
						closeC = call
					case "delete":
						if isRecvField(ft, call.Call.Args[0], "heightSubs") && ft.Of(call.Call.Args[1]) == "p1" {
							delC = call
						}
					}
				}
			}
		})
		c.Check(closeC != nil && delC != nil && closeC.Block() == delC.Block(), "C12.c", "release-close-and-delete", "releasing a waiter closes its signal channel and removes it from the map on the same path", notify, nil, "", nil)
		// guarded-by: every access to heightSubs holds the lock, or is in a helper whose callers all hold it
		nAcc := 0
		for _, fn := range c.P.RepoFuncs() {
			if an.Enclosing(fn).Pkg != wait.Pkg {
				continue
			}
			t := c.T(fn)
			lk, ul := mutexOp(t, "heightSubsLk", "Lock"), mutexOp(t, "heightSubsLk", "Unlock")
			an.Instrs(fn, func(in ssa.Instruction) {
				u, isLoad := in.(*ssa.UnOp)
				if !isLoad {
					return
				}
				fa, isFA := u.X.(*ssa.FieldAddr)
				if !isFA || fieldName(fa) != "heightSubs" || !typeIsNamed(fa.X.Type(), "/store", "heightSub") {
					return
				}
				nAcc++
				held := an.LockHeld(fn, lk, ul, in, nil)
				how := "lock held"
				if !held {
					// caller-holds summary
					sites := c.P.CG().Sites(fn)
					held = len(sites) > 0
					for _, cs := range sites {
						ct := c.T(cs.Caller)
						held = held && an.LockHeld(cs.Caller, mutexOp(ct, "heightSubsLk", "Lock"), mutexOp(ct, "heightSubsLk", "Unlock"), cs.Instr, nil)
					}
					how = "every caller holds the lock at the call site"
				}
				c.Check(held, "C12.c", "guarded-by:"+an.FuncName(fn), "every access to the waiter map happens with heightSubsLk held", fn, in, how, nil)
			})
		}
		c.Min("C12.c", "accesses to the waiter map", nAcc, 4)
	}

	// --- C12.d writer order in the flush closure
	{
		var flush *ssa.Function
		for _, cl := range flushLoop.AnonFuncs {
			hasAppend := false
			an.Instrs(cl, func(in ssa.Instruction) {
				if call, isCall := in.(*ssa.Call); isCall {
					if cal := an.StaticCallee(&call.Call); cal != nil && an.FuncName(cal) == "store.(*batch).Append" {
						hasAppend = true
					}
				}
			})
			if hasAppend {
				flush = cl
			}
		}
		if !c.Check(flush != nil, "C12.d", "flush-closure", "the flush loop has one closure that takes new headers into the pending batch", flushLoop, nil, "", nil) {
			return
		}
		ft := c.T(flush)
		var app, ntf, adv *ssa.Call
		var advs []*ssa.Call
		an.Instrs(flush, func(in ssa.Instruction) {
			call, isCall := in.(*ssa.Call)
			if !isCall {
				return
			}
			cal := an.StaticCallee(&call.Call)
			if cal == nil {
				return
			}
			switch an.FuncName(cal) {
			case "store.(*batch).Append":
				app = call
			case "store.(*heightSub).Notify":
				ntf = call
			case "store.(*Store).advanceHead":
				advs = append(advs, call)
			}
		})
		// the advance of the append step is the one that follows the notification on every path; a later
		// re-evaluation (after the pointers were re-initialised before a flush) is not this step's
		if ntf != nil {
			for _, a := range advs {
				a := a
				if f, _ := (an.Flow{Fn: flush}).MustFollow(ntf, func(in ssa.Instruction) bool { return in == ssa.Instruction(a) }, nil); f && adv == nil {
					adv = a
				}
			}
		}
		okO := app != nil && ntf != nil && adv != nil
		if okO {
			fl := an.Flow{Fn: flush}
			is := func(x *ssa.Call) an.InstrPred {
				return func(in ssa.Instruction) bool { return in == ssa.Instruction(x) }
			}
			// order, and nothing between them can skip the next step (each one follows the previous on every path)
			f1, _ := fl.MustFollow(app, is(ntf), nil)
			f2, _ := fl.MustFollow(ntf, is(adv), nil)
			okO = fl.MustPrecede(is(app), ntf) && fl.MustPrecede(is(ntf), adv) && f1 && f2 && app.Block().Index == 0
			// same headers: Append(p0...) and Notify(heights of p0...): through getHeights, or through a
			// slice of len(p0) filled by an index walk with p0[i].Height()
			okArgs := ft.Of(app.Call.Args[1]) == "p0"
			switch gh := ntf.Call.Args[1].(type) {
			case *ssa.Call:
				okArgs = okArgs && an.StaticCallee(&gh.Call) != nil && an.FuncName(an.StaticCallee(&gh.Call)) == "store.getHeights" && ft.Of(gh.Call.Args[0]) == "p0"
			case *ssa.MakeSlice:
				filled := false
				if ft.Of(gh.Len) == "len(p0)" {
					if l := loopOver(ft, "p0"); l != nil {
						an.Instrs(flush, func(in ssa.Instruction) {
							st, isSt := in.(*ssa.Store)
							if !isSt {
								return
							}
							if ia, isIA := st.Addr.(*ssa.IndexAddr); isIA && ia.X == ssa.Value(gh) && ft.Of(ia.Index) == ft.Of(l.K) && ft.Of(st.Val) == "Height(p0["+ft.Of(ia.Index)+"])" {
								filled = true
							}
						})
					}
				}
				okArgs = okArgs && filled
			default:
				okArgs = false
			}
			okO = okO && okArgs
		}
		c.Check(okO, "C12.d", "append-notify-advance", "new headers are added to the readable pending batch, then their heights are notified, then the head is advanced (unconditionally, in that order)", flush, nil, "", nil)
		// nothing in the step publishes a height (heightSub.Init / SetHeight / Notify, directly or through
		// a helper such as ensureInit) before the batch is readable
		if app != nil {
			publishes := map[string]bool{"store.(*heightSub).Init": true, "store.(*heightSub).SetHeight": true, "store.(*heightSub).Notify": true}
			fl := an.Flow{Fn: flush}
			nPub := 0
			an.Instrs(flush, func(in ssa.Instruction) {
				call, isCall := in.(*ssa.Call)
				if !isCall || call == app {
					return
				}
				cal := an.StaticCallee(&call.Call)
				if cal == nil {
					return
				}
				reaches := ""
				for _, r := range reachableIn(c, []*ssa.Function{cal}, true) {
					if publishes[an.FuncName(r)] {
						reaches = an.FuncName(r)
					}
				}
				if reaches == "" {
					return
				}
				nPub++
				c.Check(fl.MustPrecede(func(x ssa.Instruction) bool { return x == ssa.Instruction(app) }, call), "C12.d", "publication-after-readable:"+an.FuncName(cal),
					"a step that publishes a height (here through "+reaches+") runs only after the batch was added to the readable pending batch", flush, call, "", nil)
			})
			c.Min("C12.d", "publishing steps of the write loop", nPub, 2)
		}
		// getHeights yields the height of every header
		if gh := p.Func("store", "getHeights"); gh != nil {
			gt := c.T(gh)
			okGH := false
			for _, l := range indexLoops(gt) {
				if gt.Of(l.Slice) == "p0" {
					okGH = true
				}
			}
			c.Check(okGH, "C12.d", "all-heights", "getHeights walks every header", gh, nil, "", nil)
		}
	}
}
