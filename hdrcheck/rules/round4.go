package rules

import (
	"strings"

	"golang.org/x/tools/go/ssa"

	"hdrcheck/an"
)

// Clauses that came out of the fourth seeding round.

// checkPointerMemoryBeforeDisk (C06.g): every flush rewrites the head and tail pointer keys from the
// in-memory pointers. A setter that writes the pointer key first and the in-memory pointer afterwards
// opens a window in which a concurrent flush puts the OLD pointer back on disk — after a deletion that
// is the hash of a header that no longer exists, and a Store reopened after a clean Stop reports no
// Tail. In setTail and setHead the in-memory pointer is stored before the pointer key is written.
func checkPointerMemoryBeforeDisk(c *an.Ctx, id string) {
	p := c.P
	writeHash := p.Func("store", "writeHeaderHashTo")
	if !c.Need(writeHash, id, "store.writeHeaderHashTo") {
		return
	}
	n := 0
	for _, spec := range []struct{ fn, field, key string }{
		{"setTail", "tailHeader", "store.tailKey"},
		{"setHead", "contiguousHead", "store.headKey"},
		// (setTail also re-seeds the head pointer when the store was left without a head or the new tail
		// lies above it: there is no live old head a flush could put back, the branch is not included)
	} {
		fn := p.Method("store", "Store", spec.fn)
		if !c.Need(fn, id, "store.(*Store)."+spec.fn) {
			continue
		}
		t := c.T(fn)
		fl := an.Flow{Fn: fn}
		isMem := func(in ssa.Instruction) bool {
			call, ok := in.(*ssa.Call)
			return ok && strings.HasSuffix(an.StaticFullName(&call.Call), "atomic.Pointer[T]).Store") && len(call.Call.Args) > 0 && strings.HasSuffix(an.Stable(t.Of(call.Call.Args[0])), "p0."+spec.field)
		}
		for _, wc := range callsTo(fn, writeHash) {
			if len(wc.Call.Args) < 4 || t.Of(wc.Call.Args[3]) != spec.key {
				continue
			}
			n++
			c.Check(fl.MustPrecede(isMem, wc), id, "pointer-memory-before-disk:"+spec.fn+":"+strings.TrimPrefix(spec.key, "store."),
				"a pointer setter stores the in-memory pointer before it writes the pointer key (a concurrent flush rewrites the key from memory: in the other order it can put the old pointer back)", fn, wc, "", nil)
		}
	}
	c.Min(id, "pointer key writes of the pointer setters", n, 2)
}

// checkPointerStoreNeedsChange (C17.b): the write loop's pointer steps (advanceHead, recedeTail) load
// the pointer, walk, and store. They store only when the walk found a different header: an
// unconditional store writes back what was loaded before the walk, and a DeleteRange that moved the
// pointer in between (it is the other, legitimate writer) is undone by it.
func checkPointerStoreNeedsChange(c *an.Ctx, id string) {
	p := c.P
	for _, spec := range []struct{ fn, walk, field string }{
		{"advanceHead", "nextHead", "contiguousHead"},
		{"recedeTail", "nextTail", "tailHeader"},
	} {
		fn, walk := p.Method("store", "Store", spec.fn), p.Method("store", "Store", spec.walk)
		if !c.Need(fn, id, "store.(*Store)."+spec.fn) || !c.Need(walk, id, "store.(*Store)."+spec.walk) {
			continue
		}
		t, ff := c.T(fn), c.F(fn)
		wcs := callsTo(fn, walk)
		n := 0
		an.Instrs(fn, func(in ssa.Instruction) {
			call, ok := in.(*ssa.Call)
			if !ok || !strings.HasSuffix(an.StaticFullName(&call.Call), "atomic.Pointer[T]).Store") || len(call.Call.Args) == 0 || !strings.HasSuffix(an.Stable(t.Of(call.Call.Args[0])), "p0."+spec.field) {
				return
			}
			n++
			okC := false
			for _, wc := range wcs {
				if ff.AtInstr(call).Has(an.B(t.Of(wc) + "#1")) {
					okC = true
				}
			}
			c.Check(okC, id, "pointer-store-needs-change:"+spec.fn, "the write loop stores the pointer only when its walk found a different header (it never writes back what it loaded before the walk)", fn, call, "", ff.AtInstr(call))
		})
		c.Min(id, "pointer stores in "+spec.fn, n, 1)
	}
}

// checkPendingAppendKeepsBothMaps (C17.d / C04.a): the pending batch answers by height (headers) and
// by hash (heights → header). Append writes both entries for every header and removes nothing: a
// clean-up in Append that deletes a hash entry can delete the one it has just written when the same
// header is appended twice.
func checkPendingAppendKeepsBothMaps(c *an.Ctx, id string) {
	fn := c.P.Method("store", "batch", "Append")
	if !c.Need(fn, id, "store.(*batch).Append") {
		return
	}
	writes := map[string]int{}
	deletes := 0
	an.Instrs(fn, func(in ssa.Instruction) {
		switch x := in.(type) {
		case *ssa.MapUpdate:
			if u, ok := x.Map.(*ssa.UnOp); ok {
				if fa, isFA := u.X.(*ssa.FieldAddr); isFA {
					writes[fieldName(fa)]++
				}
			}
		case *ssa.Call:
			if b, isB := x.Call.Value.(*ssa.Builtin); isB && b.Name() == "delete" {
				deletes++
			}
		}
	})
	c.Check(writes["headers"] >= 1 && writes["heights"] >= 1 && deletes == 0, id, "pending-append-writes-both-keeps-all", "appending to the pending batch writes the by-height and the by-hash entry of every header and removes nothing", fn, nil,
		"map writes: headers="+itoa(writes["headers"])+" heights="+itoa(writes["heights"])+", deletes="+itoa(deletes), nil)
}

// checkIndexDeletedLast (C08.b): the per-height deletion step finds a header through the height
// index (hash by height). It removes the header data first and the index entry last: after a failure
// between the two, the retry still finds the header and completes; in the other order the retry takes
// the de-indexed header for "already missing", reports success, and the header data stays on disk,
// retrievable by hash.
func checkIndexDeletedLast(c *an.Ctx, id string, single *ssa.Function) {
	var hashRm, heightRm []removal
	for _, r := range removalsIn(c, single) {
		switch r.Kind {
		case "ds-hash":
			hashRm = append(hashRm, r)
		case "ds-height":
			heightRm = append(heightRm, r)
		}
	}
	fl := an.Flow{Fn: single}
	for _, hr := range heightRm {
		ok := len(hashRm) > 0
		for _, dr := range hashRm {
			dr := dr
			if !fl.MustPrecede(func(in ssa.Instruction) bool { return in == ssa.Instruction(dr.Instr) }, hr.Instr) {
				ok = false
			}
		}
		c.Check(ok, id, "index-entry-deleted-last", "the height index entry, by which a retry finds the header, is removed after the header data", single, hr.Instr, "", nil)
	}
}
