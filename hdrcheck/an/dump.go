package an

import (
	"fmt"
	"os"
	"strings"

	"golang.org/x/tools/go/ssa"
)

// Dump prints SSA with terms and block facts for functions whose name contains pat.
func Dump(p *Prog, pat string) {
	for _, f := range p.RepoFuncs() {
		if !strings.Contains(FuncName(f), pat) {
			continue
		}
		t := NewTerms(p, f)
		ff := NewFuncFacts(t)
		fmt.Printf("=== %s\n", FuncName(f))
		f.WriteTo(os.Stdout)
		for _, b := range f.Blocks {
			fmt.Printf("  block %d facts %s\n", b.Index, ff.At(b))
			for _, in := range b.Instrs {
				if v, ok := in.(ssa.Value); ok {
					fmt.Printf("     %s = %s\n", v.Name(), t.Of(v))
				}
			}
		}
	}
}
