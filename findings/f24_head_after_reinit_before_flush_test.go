package store

// Demonstration for finding F24 (property C06).
// Copy into /repo/store and run: go test ./store -run 'TestF24' -count=1
//
// F24: a regression of the repair of F23. Since f54f3aa ensureInit starts the head of an empty store at
//      the LOWEST header of the batch and leaves it to advanceHead to move it over the contiguous run.
//      The write loop's step calls ensureInit a second time right before a flush (a whole-store deletion
//      may have dropped the pointers while headers were pending), and nothing advanced the head after
//      that call: append 1..10, append 20..22 (pending, above a gap), DeleteRange(1, 11) (wipes the store,
//      the pending headers stay), Stop — the final flush wrote head = 20 with 20..22, and the reopened
//      store reported Head 20 although 21 and 22 were appended, never deleted, and stored.
//      Noticed when the demonstration of a sixth-round seeded change (C06/1) failed on the unchanged tree.
//      Rule C06.d `head-advanced-after-reinit`; repaired by /repo 1d86f8b (advanceHead and recedeTail
//      after the re-initialisation). Passes on /repo c0286ea, fails on f54f3aa, passes from 1d86f8b on.

import (
	"context"
	"testing"
	"time"

	"github.com/ipfs/go-datastore"
	"github.com/ipfs/go-datastore/sync"
	"github.com/stretchr/testify/require"

	"github.com/celestiaorg/go-header/headertest"
)

// A batch appended above a gap is still pending (not yet on disk) when the
// contiguous part of the store below it is deleted as a whole. The Append of
// that batch returned and nothing deleted it, so after a clean Stop and Start
// its headers must still be there.
func TestF24_HeadAfterWipeWithPendingAboveGap(t *testing.T) {
	ctx, cancel := context.WithTimeout(context.Background(), 10*time.Second)
	defer cancel()

	suite := headertest.NewTestSuite(t)
	ds := sync.MutexWrap(datastore.NewMapDatastore())

	st, err := NewStore[*headertest.DummyHeader](ds, WithWriteBatchSize(8))
	require.NoError(t, err)
	require.NoError(t, st.Start(ctx))

	// heights 1..10 are contiguous and get flushed (batch size 8)
	chain := append([]*headertest.DummyHeader{suite.Head()}, suite.GenDummyHeaders(24)...)
	require.NoError(t, st.Append(ctx, chain[:10]...))
	require.NoError(t, st.Sync(ctx))
	head, err := st.Head(ctx)
	require.NoError(t, err)
	require.EqualValues(t, 10, head.Height())

	// heights 20..22 land above a gap and stay in the pending batch (3 < 8)
	gapped := chain[19:22]
	require.EqualValues(t, 20, gapped[0].Height())
	require.NoError(t, st.Append(ctx, gapped...))
	require.NoError(t, st.Sync(ctx))
	for _, h := range gapped {
		got, err := st.GetByHeight(ctx, h.Height())
		require.NoError(t, err)
		require.Equal(t, h.Hash(), got.Hash())
	}

	// delete the whole contiguous range [tail, head+1): nothing sits at 11, so this wipes 1..10
	require.NoError(t, st.DeleteRange(ctx, 1, 11))

	require.NoError(t, st.Stop(ctx))

	// reopen on the surviving data
	st2, err := NewStore[*headertest.DummyHeader](ds, WithWriteBatchSize(8))
	require.NoError(t, err)
	require.NoError(t, st2.Start(ctx))
	defer st2.Stop(ctx) //nolint:errcheck

	for _, h := range gapped {
		got, err := st2.Get(ctx, h.Hash())
		require.NoError(t, err, "height %d was appended before Stop and never deleted", h.Height())
		require.Equal(t, h.Height(), got.Height())
		got, err = st2.GetByHeight(ctx, h.Height())
		require.NoError(t, err)
		require.Equal(t, h.Hash(), got.Hash())
	}
	// the deleted range stays deleted
	for hgt := uint64(1); hgt <= 10; hgt++ {
		ok, err := st2.Has(ctx, chain[hgt-1].Hash())
		require.NoError(t, err)
		require.False(t, ok, "height %d", hgt)
	}
	// pointers resolve to stored headers
	h2, err := st2.Head(ctx)
	require.NoError(t, err)
	require.EqualValues(t, 22, h2.Height())
	t2, err := st2.Tail(ctx)
	require.NoError(t, err)
	require.EqualValues(t, 20, t2.Height())
}
