package an

import (
	"go/types"

	"golang.org/x/tools/go/ssa"
)

func deref(t types.Type) types.Type {
	if p, ok := t.Underlying().(*types.Pointer); ok {
		return p.Elem()
	}
	return t
}

// InstrPred selects instructions ("events").
type InstrPred func(ssa.Instruction) bool

// Calls iterates over the call instructions (call, go, defer) of fn, not descending into closures.
func Calls(fn *ssa.Function, f func(ssa.CallInstruction)) {
	for _, b := range fn.Blocks {
		for _, in := range b.Instrs {
			if c, ok := in.(ssa.CallInstruction); ok {
				f(c)
			}
		}
	}
}

// Instrs iterates over all instructions of fn.
func Instrs(fn *ssa.Function, f func(ssa.Instruction)) {
	for _, b := range fn.Blocks {
		for _, in := range b.Instrs {
			f(in)
		}
	}
}

// Flow answers ordering questions on the CFG of one function.
type Flow struct {
	Fn *ssa.Function
	// Skip marks CFG edges that are ignored (assumption pruning), may be nil.
	Skip func(from, to *ssa.BasicBlock) bool
}

// MustPrecede: on every path from the entry to target, an instruction
// satisfying a has been executed before. Deferred calls do not count.
func (fl Flow) MustPrecede(a InstrPred, target ssa.Instruction) bool {
	return fl.mustPrecedeWith(func(i ssa.Instruction) bool { return isEvent(a, i) }, target)
}

// MustPrecedeAny is MustPrecede with go and defer statements counted as
// instructions in their own right (is a defer registered on every path?).
func (fl Flow) MustPrecedeAny(a InstrPred, target ssa.Instruction) bool {
	return fl.mustPrecedeWith(a, target)
}

func isEvent(a InstrPred, ins ssa.Instruction) bool {
	switch ins.(type) {
	case *ssa.Defer, *ssa.Go:
		return false
	}
	return a(ins)
}

// MustFollow: every path from `from` (exclusive) to a normal return of the
// function passes an instruction satisfying b, except paths through a block for
// which escape returns true (e.g. an error return). Deferred calls matching b
// that were registered before `from` count as following (they run at return).
func (fl Flow) MustFollow(from ssa.Instruction, b InstrPred, escape func(*ssa.Return) bool) (bool, ssa.Instruction) {
	// a matching defer registered on every path to `from` discharges the rule
	deferred := func(ins ssa.Instruction) bool {
		d, ok := ins.(*ssa.Defer)
		return ok && b(d)
	}
	if fl.mustPrecedeRaw(deferred, from) {
		return true, nil
	}
	// DFS forward from `from`; fail when a return is reached without b.
	seen := map[*ssa.BasicBlock]bool{}
	var bad ssa.Instruction
	var walk func(blk *ssa.BasicBlock, start int) bool
	walk = func(blk *ssa.BasicBlock, start int) bool {
		for i := start; i < len(blk.Instrs); i++ {
			ins := blk.Instrs[i]
			if isEvent(b, ins) {
				return true
			}
			if r, ok := ins.(*ssa.Return); ok {
				if escape != nil && escape(r) {
					return true
				}
				bad = r
				return false
			}
			if _, ok := ins.(*ssa.Panic); ok {
				return true
			}
		}
		for _, s := range blk.Succs {
			if fl.Skip != nil && fl.Skip(blk, s) {
				continue
			}
			if seen[s] {
				continue
			}
			seen[s] = true
			if !walk(s, 0) {
				return false
			}
		}
		return true
	}
	fb := from.Block()
	idx := 0
	for i, ins := range fb.Instrs {
		if ins == from {
			idx = i + 1
		}
	}
	ok := walk(fb, idx)
	return ok, bad
}

// mustPrecedeRaw is MustPrecede without the defer/go filter.
func (fl Flow) mustPrecedeRaw(a InstrPred, target ssa.Instruction) bool {
	return fl.mustPrecedeWith(a, target)
}

func (fl Flow) mustPrecedeWith(a InstrPred, target ssa.Instruction) bool {
	fn := fl.Fn
	n := len(fn.Blocks)
	in := make([]bool, n)
	out := make([]bool, n)
	has := make([]bool, n)
	for _, b := range fn.Blocks {
		for _, ins := range b.Instrs {
			if a(ins) {
				has[b.Index] = true
			}
		}
	}
	for i := range out {
		out[i], in[i] = true, true
	}
	in[0] = false
	out[0] = has[0]
	for changed := true; changed; {
		changed = false
		for _, b := range fn.Blocks {
			if b.Index == 0 {
				continue
			}
			v := true
			np := 0
			for _, p := range b.Preds {
				if fl.Skip != nil && fl.Skip(p, b) {
					continue
				}
				// a merge tested for nil right away: only what enters it on the ways that go on to b counts
				if threaded, feasible, val := fl.throughThreadedMerge(p, b, out, has); threaded {
					if !feasible {
						continue
					}
					np++
					v = v && val
					continue
				}
				np++
				v = v && out[p.Index]
			}
			if np == 0 {
				v = true
			}
			o := v || has[b.Index]
			if v != in[b.Index] || o != out[b.Index] {
				in[b.Index], out[b.Index] = v, o
				changed = true
			}
		}
	}
	tb := target.Block()
	if in[tb.Index] {
		return true
	}
	for _, ins := range tb.Instrs {
		if ins == target {
			return false
		}
		if a(ins) {
			return true
		}
	}
	return false
}

// Between reports whether an instruction satisfying x can execute on some path
// strictly between `from` and `to` (both in the same function), without passing
// `to`. Used for "no Unlock between the re-check and the registration".
func (fl Flow) Between(from, to ssa.Instruction, x InstrPred) ssa.Instruction {
	seen := map[*ssa.BasicBlock]bool{}
	var hit ssa.Instruction
	// only blocks from which `to` is still reachable lie on a path from → to
	var canReachTo map[*ssa.BasicBlock]bool
	if to != nil {
		canReachTo = map[*ssa.BasicBlock]bool{to.Block(): true}
		for changed := true; changed; {
			changed = false
			for _, b := range fl.Fn.Blocks {
				if canReachTo[b] {
					continue
				}
				for _, s := range b.Succs {
					if canReachTo[s] && !(fl.Skip != nil && fl.Skip(b, s)) {
						canReachTo[b] = true
						changed = true
						break
					}
				}
			}
		}
	}
	var walk func(blk *ssa.BasicBlock, start int)
	walk = func(blk *ssa.BasicBlock, start int) {
		if canReachTo != nil && !canReachTo[blk] {
			return
		}
		for i := start; i < len(blk.Instrs) && hit == nil; i++ {
			ins := blk.Instrs[i]
			if ins == to {
				return
			}
			if x(ins) {
				hit = ins
				return
			}
		}
		for _, s := range blk.Succs {
			if hit != nil {
				return
			}
			if fl.Skip != nil && fl.Skip(blk, s) {
				continue
			}
			if seen[s] {
				continue
			}
			seen[s] = true
			walk(s, 0)
		}
	}
	fb := from.Block()
	idx := 0
	for i, ins := range fb.Instrs {
		if ins == from {
			idx = i + 1
		}
	}
	walk(fb, idx)
	return hit
}

// CanReach reports whether `to` is reachable from `from` (exclusive) in the CFG.
func (fl Flow) CanReach(from, to ssa.Instruction) bool {
	return fl.Between(from, nil, func(i ssa.Instruction) bool { return i == to }) != nil
}

// ---------------------------------------------------------------------------
// call predicates

// IsCallTo matches calls (not go/defer unless the caller asks) whose static
// callee (generic origin) is fn.
func IsCallTo(fn *ssa.Function) InstrPred {
	return func(i ssa.Instruction) bool {
		c, ok := i.(ssa.CallInstruction)
		if !ok || fn == nil {
			return false
		}
		return StaticCallee(c.Common()) == fn
	}
}

// IsInvoke matches interface method invocations by method name whose receiver
// static type satisfies recvOK (nil = any).
func IsInvoke(method string, recvOK func(types.Type) bool) InstrPred {
	return func(i ssa.Instruction) bool {
		c, ok := i.(ssa.CallInstruction)
		if !ok {
			return false
		}
		cc := c.Common()
		if !cc.IsInvoke() || cc.Method.Name() != method {
			return false
		}
		return recvOK == nil || recvOK(cc.Value.Type())
	}
}

// IsStaticCallNamed matches calls whose static callee has the given
// types.Func full name, e.g. "(*sync.Mutex).Lock" or "errors.Is".
func IsStaticCallNamed(full ...string) InstrPred {
	set := map[string]bool{}
	for _, f := range full {
		set[f] = true
	}
	return func(i ssa.Instruction) bool {
		c, ok := i.(ssa.CallInstruction)
		if !ok {
			return false
		}
		return set[StaticFullName(c.Common())]
	}
}

// StaticFullName returns types.Func.FullName() of a static callee (origin for generics), or "".
func StaticFullName(cc *ssa.CallCommon) string {
	if cc.IsInvoke() {
		return ""
	}
	f := cc.StaticCallee()
	if f == nil {
		return ""
	}
	if o := f.Origin(); o != nil {
		f = o
	}
	if obj, ok := f.Object().(*types.Func); ok && obj != nil {
		return obj.FullName()
	}
	return ""
}

// Or combines predicates.
func Or(ps ...InstrPred) InstrPred {
	return func(i ssa.Instruction) bool {
		for _, p := range ps {
			if p(i) {
				return true
			}
		}
		return false
	}
}

// Always reports whether every normal return of fn is preceded by an event
// (directly, or through a callee that Always emits it; depth-bounded).
func Always(fn *ssa.Function, ev InstrPred, depth int) bool {
	if fn == nil || fn.Blocks == nil {
		return false
	}
	pred := ev
	if depth > 0 {
		pred = func(i ssa.Instruction) bool {
			if ev(i) {
				return true
			}
			if c, ok := i.(*ssa.Call); ok {
				if cal := StaticCallee(&c.Call); cal != nil && cal != fn && cal.Blocks != nil {
					return Always(cal, ev, depth-1)
				}
			}
			return false
		}
	}
	fl := Flow{Fn: fn}
	n := 0
	for _, b := range fn.Blocks {
		if r, ok := lastInstr(b).(*ssa.Return); ok {
			n++
			if !fl.MustPrecede(pred, r) {
				return false
			}
		}
	}
	return n > 0
}

// MayEmit reports whether fn (or a static callee, depth-bounded, including
// closures it creates) contains an event.
func MayEmit(fn *ssa.Function, ev InstrPred, depth int) bool {
	return mayEmit(fn, ev, depth, map[*ssa.Function]bool{})
}

func mayEmit(fn *ssa.Function, ev InstrPred, depth int, seen map[*ssa.Function]bool) bool {
	if fn == nil || fn.Blocks == nil || seen[fn] {
		return false
	}
	seen[fn] = true
	found := false
	Instrs(fn, func(i ssa.Instruction) {
		if found {
			return
		}
		if ev(i) {
			found = true
			return
		}
		if depth == 0 {
			return
		}
		if c, ok := i.(ssa.CallInstruction); ok {
			if cal := StaticCallee(c.Common()); cal != nil && mayEmit(cal, ev, depth-1, seen) {
				found = true
			}
		}
		if mc, ok := i.(*ssa.MakeClosure); ok {
			if mayEmit(mc.Fn.(*ssa.Function), ev, depth-1, seen) {
				found = true
			}
		}
	})
	return found
}
