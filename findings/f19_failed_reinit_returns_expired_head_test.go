package sync

// Demonstration for finding F19 (property C19).
// Copy into /repo/sync and run: go test ./sync -run 'TestF19' -count=1
//
// F19: when the stored head is older than the trusting period, Head() re-initialises from the trusted
//      peers, tries to adopt their head — and dropped the result of that attempt. When the new head could
//      not be verified against the local head (for a real header type that is what verification beyond
//      the trusting period does; the code carries a TODO about this "reinit death loop"), Head() returned
//      the expired local header with a nil error, on every call. "Subjective (re)initialisation … only
//      adopts a head from trusted peers that is itself not expired, and otherwise fails with an error."
//      First noticed by a bug-seeding sub-agent (fifth round) as a side remark; rule C19.b
//      `expired-head-not-returned` decides it; repaired by /repo c0286ea.
//      Fails on /repo 12ef854 ("Head() returned header 5, expired for 1h0m0s, with a nil error"),
//      passes from c0286ea on.

import (
	"context"
	"sync/atomic"
	"testing"
	"time"

	"github.com/stretchr/testify/require"

	"github.com/celestiaorg/go-header"
	"github.com/celestiaorg/go-header/headertest"
)

// f19Getter plays the trusted peers: it serves the head of a fixed chain and
// records how it was asked.
type f19Getter struct {
	chain          []*headertest.DummyHeader
	trustedCalls   atomic.Int32 // head requests without a trusted head (go to trusted peers)
	untrustedCalls atomic.Int32 // head requests with a trusted head (go to tracked peers)
}

func (g *f19Getter) Head(
	_ context.Context,
	opts ...header.HeadOption[*headertest.DummyHeader],
) (*headertest.DummyHeader, error) {
	params := header.HeadParams[*headertest.DummyHeader]{}
	for _, opt := range opts {
		opt(&params)
	}
	head := g.chain[len(g.chain)-1]
	if !params.TrustedHead.IsZero() {
		g.untrustedCalls.Add(1)
		if err := header.Verify(params.TrustedHead, head); err != nil {
			return head, err
		}
		return head, nil
	}
	g.trustedCalls.Add(1)
	return head, nil
}

func (g *f19Getter) Get(context.Context, header.Hash) (*headertest.DummyHeader, error) {
	return nil, header.ErrNotFound
}

func (g *f19Getter) GetByHeight(_ context.Context, h uint64) (*headertest.DummyHeader, error) {
	if h == 0 || h > uint64(len(g.chain)) {
		return nil, header.ErrNotFound
	}
	return g.chain[h-1], nil
}

func (g *f19Getter) GetRangeByHeight(
	ctx context.Context,
	_ *headertest.DummyHeader,
	_ uint64,
) ([]*headertest.DummyHeader, error) {
	<-ctx.Done()
	return nil, ctx.Err()
}

// f19Chain builds a chain of n headers: the first `old` ones are two hours old,
// all the others were produced within the last two seconds.
func f19Chain(n, old int) []*headertest.DummyHeader {
	now := time.Now().UTC()
	chain := make([]*headertest.DummyHeader, n)
	for i := range chain {
		ts := now.Add(-2 * time.Second).Add(time.Duration(i) * time.Millisecond)
		if i < old {
			ts = now.Add(-2 * time.Hour).Add(time.Duration(i) * time.Millisecond)
		}
		chain[i] = &headertest.DummyHeader{
			Chainid:      "test",
			PreviousHash: headertest.RandBytes(32),
			HeightI:      uint64(i + 1),
			Timestamp:    ts,
		}
	}
	return chain
}

// The stored head is older than the trusting period, so Head() re-initialises from the trusted peers.
// Their head is fresh, but it does not verify against the (expired) local head - for a real header type
// that is what verification beyond the trusting period does. The re-initialisation has failed: Head()
// has to say so, not hand out the expired header as if nothing had happened.
func TestF19_FailedReinitDoesNotReturnExpiredHead(t *testing.T) {
	ctx, cancel := context.WithTimeout(context.Background(), 8*time.Second)
	t.Cleanup(cancel)

	const (
		chainLen = 100
		stored   = 5
	)
	chain := f19Chain(chainLen, stored)
	for _, h := range chain[stored:] {
		// nothing that was produced while the node was away verifies against the expired local head
		h.VerifyFailure = true
	}
	localStore := newTestStore(t, ctx, chain[0])
	require.NoError(t, localStore.Append(ctx, chain[1:stored]...))
	getter := &f19Getter{chain: chain}

	const trustingPeriod = time.Hour // the stored head (2h old) is expired
	syncer, err := NewSyncer[*headertest.DummyHeader](
		getter,
		localStore,
		headertest.NewDummySubscriber(),
		WithRecencyThreshold(10*time.Minute),
		WithTrustingPeriod(trustingPeriod),
	)
	require.NoError(t, err)

	for i := 0; i < 2; i++ {
		head, err := syncer.Head(ctx)
		require.GreaterOrEqual(t, getter.trustedCalls.Load(), int32(1), "expired head must be re-initialised via trusted peers")
		if err != nil {
			t.Logf("Head() = %v", err)
			continue
		}
		t.Logf("Head() = header %d", head.Height())
		age := time.Since(head.Time())
		require.Less(t, age, trustingPeriod,
			"Head() returned header %d, expired for %s, with a nil error", head.Height(), age-trustingPeriod)
	}
}
