package rules

import (
	"strings"

	"golang.org/x/tools/go/ssa"

	"hdrcheck/an"
)

func init() {
	register(&Rule{
		ID: "C08",
		Explanation: "Decides for Store.DeleteRange and the functions it drives: (a) every effect (raw deletion, pointer updates, wipe) is dominated by Sync()==nil ∧ from<to ∧ from≤Head ∧ to>Tail, is unreachable unless from==Tail or to==Head+1, and unreachable for a prefix beyond Head+1 or a suffix below Tail; every rejected range returns an error; " +
			"(b) the per-height step reaches its nil return only after the datastore deletes of the hash key and the height key, both cache removals and the pending-batch purge of exactly that height; an index miss does not skip a header that still sits in the pending batch; " +
			"(c) every nil return of DeleteRange is preceded by the raw deletion of [from,to), whose drivers call the per-height step for every height of the range exactly once; " +
			"(d) after the raw deletion the tail pointer is set to the reported progress on the tail side (also when the deletion failed), the head pointer to from−1 on the head side when progress was made, and a deletion error is returned afterwards; from−1 cannot wrap; " +
			"(e) pending writes are synchronised before head and tail are read.",
		NotDecided: []string{
			"continuation histories (re-appending the same heights, restarts) and the interaction of cache and batch sizes",
			"that datastore.Delete really removes the value (library contract)",
		},
		Technique: "assumption pruning over the validation guards, must-precede of removal events on success paths with nil-phi folding, loop-coverage rules for the drivers, arithmetic obligations, pointer-update ordering",
		Trusted:   "go/types+go/ssa; go-datastore Delete/Batch contract; purity of header observers",
		Run:       runC08,
		Imports: []Import{
			{From: "C14.b", Match: "removal-after-all-handlers", As: "C08.f", Why: "none of the deleted headers reappears: a cache purged before the OnDelete handlers ran (they may read the header) is filled again by such a read, and nothing purges it afterwards"},
		},
	})
}

func runC08(c *an.Ctx) {
	d, ok := resolveDelete(c, "C08.a")
	if !ok {
		return
	}
	checkCachePurgeAfterDiskDelete(c, "C08.b", d.single)
	checkIndexDeletedLast(c, "C08.b", d.single)
	fn := d.deleteRange
	t, ff := c.T(fn), c.F(fn)
	one := func(callee *ssa.Function, what, id string) *ssa.Call {
		cs := callsTo(fn, callee)
		if len(cs) < 1 {
			c.Fail(id, "anchor-call:"+what, "DeleteRange calls "+what, fn, nil, "not found", nil)
			return nil
		}
		return cs[0]
	}
	syncC := one(d.syncFn, "Sync", "C08.e")
	headC := one(c.P.Method("store", "Store", "Head"), "Head", "C08.a")
	tailC := one(c.P.Method("store", "Store", "Tail"), "Tail", "C08.a")
	if syncC == nil || headC == nil || tailC == nil {
		return
	}
	headH, tailH := "Height("+t.Of(headC)+"#0)", "Height("+t.Of(tailC)+"#0)"
	updTail := an.EQ("p2", tailH)
	updHead := an.EQ("p3", "("+headH+"+1)")

	// effects
	var effects []*ssa.Call
	for _, callee := range []*ssa.Function{d.raw, d.setTail, d.setHead, d.wipe} {
		effects = append(effects, callsTo(fn, callee)...)
	}
	c.Min("C08.a", "effect calls in DeleteRange (raw deletion, setTail, setHead, wipe)", len(effects), 4)

	// --- C08.e / C08.a
	fl := an.Flow{Fn: fn}
	c.Check(fl.MustPrecede(func(in ssa.Instruction) bool { return in == ssa.Instruction(syncC) }, headC) &&
		fl.MustPrecede(func(in ssa.Instruction) bool { return in == ssa.Instruction(syncC) }, tailC) &&
		ff.AtInstr(headC).Has(an.EQ(t.Of(syncC), "nil")), "C08.e", "sync-first", "pending writes are synchronised (Sync()==nil) before head and tail are read", fn, syncC, "", nil)
	need := an.FactSet{an.EQ(t.Of(syncC), "nil"), an.EQ(t.Of(headC)+"#1", "nil"), an.EQ(t.Of(tailC)+"#1", "nil"), an.LT("p2", "p3"), an.LE("p2", headH), an.LT(tailH, "p3")}
	for _, e := range effects {
		fs := ff.AtInstr(e)
		okE := true
		for _, n := range need {
			okE = okE && fs.Has(n)
		}
		c.Check(okE, "C08.a", "validated:"+an.FuncName(an.StaticCallee(&e.Call)), "every effect of DeleteRange is dominated by Sync()==nil ∧ from<to ∧ from≤Head ∧ Tail<to", fn, e, "", fs)
	}
	type bad struct {
		name   string
		assume []an.Fact
	}
	for _, b := range []bad{
		{"neither-end", []an.Fact{updTail.Neg(), updHead.Neg()}},
		{"prefix-beyond-head+1", []an.Fact{updTail, an.LT("("+headH+"+1)", "p3")}},
		{"suffix-below-tail", []an.Fact{updTail.Neg(), updHead, an.LT("p2", tailH)}},
		{"from>=to", []an.Fact{an.GE("p2", "p3")}},
		{"above-head", []an.Fact{an.LT("p2", "p3"), an.GT("p2", headH)}},
		{"below-tail", []an.Fact{an.LT("p2", "p3"), an.LE("p2", headH), an.LE("p3", tailH)}},
		{"sync-failed", []an.Fact{an.NE(t.Of(syncC), "nil")}},
	} {
		pr := ff.Prune(b.assume...)
		for _, e := range effects {
			if pr.Reachable(e.Block()) {
				c.Fail("C08.a", "rejected:"+b.name, "a range that is neither a prefix from Tail, a suffix to Head+1 nor the whole chain has no effect", fn, e, "effect "+an.FuncName(an.StaticCallee(&e.Call))+" reachable under "+an.FactSet(b.assume).String(), nil)
			}
		}
		n := 0
		for _, r := range pr.Returns() {
			n++
			if t.ErrShape(errResult(r)) == "nil" {
				c.Fail("C08.a", "rejected:"+b.name, "a rejected range returns an error", fn, r, "nil return reachable under "+an.FactSet(b.assume).String(), nil)
			}
		}
		if n > 0 {
			c.Ok("C08.a", "rejected:"+b.name, "a range that is neither a prefix from Tail, a suffix to Head+1 nor the whole chain is rejected with an error and no effect", fn, nil, an.FactSet(b.assume).String(), nil)
		} else {
			c.Fail("C08.a", "rejected:"+b.name, "a rejected range returns an error", fn, nil, "no return reachable under the assumption (guard missing?)", nil)
		}
	}

	// the pointers are dropped (wipe) only for the whole chain: from == Tail ∧ to == Head+1 ∧ no header stored at `to`
	{
		wcs := callsTo(fn, d.wipe)
		c.Min("C08.a", "wipe calls in DeleteRange", len(wcs), 1)
		for _, wc := range wcs {
			fs := ff.AtRefined(wc.Block())
			okTo := false
			for _, gc := range callsTo(fn, c.P.Method("store", "Store", "getByHeight")) {
				if t.Of(gc.Call.Args[2]) == "p3" && fs.Has(an.B("errors.Is("+t.Of(gc)+"#1,header.ErrNotFound)")) {
					okTo = true
				}
			}
			c.Check(fs.Has(updTail) && fs.Has(updHead) && okTo, "C08.a", "wipe-only-whole-chain",
				"the head/tail pointers are dropped only when the range is the whole chain (from == Tail, to == Head+1) and no header is stored at `to`", fn, wc, "", fs)
		}
	}

	// --- C08.c success implies deletion
	isRaw := func(in ssa.Instruction) bool {
		call, isCall := in.(*ssa.Call)
		return isCall && an.StaticCallee(&call.Call) == d.raw && t.Of(call.Call.Args[2]) == "p2" && t.Of(call.Call.Args[3]) == "p3"
	}
	nNil := 0
	for _, r := range ff.Returns() {
		if t.ErrShape(errResult(r)) != "nil" {
			continue
		}
		nNil++
		c.Check(fl.MustPrecede(isRaw, r), "C08.c", "success-implies-deletion", "DeleteRange returns nil only after the raw deletion of [from,to) ran (no shortcut that leaves the headers in place)", fn, r, "", ff.AtInstr(r))
		// and that deletion reported no error
		okErr := true
		for _, rc := range callsTo(fn, d.raw) {
			if fl.MustPrecede(func(in ssa.Instruction) bool { return in == ssa.Instruction(rc) }, r) {
				okErr = okErr && ff.AtRefined(r.Block()).Has(an.EQ(t.Of(rc)+"#2", "nil"))
			}
		}
		c.Check(okErr, "C08.c", "success-needs-clean-deletion", "DeleteRange returns nil only when the raw deletion reported no error", fn, r, "", ff.AtRefined(r.Block()))
	}
	c.Min("C08.c", "nil returns of DeleteRange", nNil, 1)
	// drivers cover [from,to)
	{
		rt := c.T(d.raw)
		nDrv := 0
		for _, drv := range []*ssa.Function{d.seq, d.par} {
			for _, call := range callsTo(d.raw, drv) {
				nDrv++
				c.Check(rt.Of(call.Call.Args[2]) == "p2" && rt.Of(call.Call.Args[3]) == "p3", "C08.c", "raw-passes-range:"+an.FuncName(drv), "deleteRangeRaw hands exactly [from,to) to its driver", d.raw, call, "", nil)
			}
		}
		c.Min("C08.c", "driver calls in deleteRangeRaw", nDrv, 2)
		checkDriversUnderDeletionDeadline(c, "C08.d", d.raw, d.seq, d.par)
		// every return of raw is preceded by one of the drivers
		for _, b := range d.raw.Blocks {
			if r, isRet := b.Instrs[len(b.Instrs)-1].(*ssa.Return); isRet && (b.Index == 0 || len(b.Preds) > 0) {
				c.Check((an.Flow{Fn: d.raw}).MustPrecede(an.Or(an.IsCallTo(d.seq), an.IsCallTo(d.par)), r), "C08.c", "raw-always-deletes", "deleteRangeRaw always runs one of its drivers", d.raw, r, "", nil)
			}
		}
		checkDriverCoverage(c, "C08.c", d)
		checkWriteBatch(c, "C08.c")
		checkParallelProtocol(c, "C08.c", d)
	}

	// --- C08.b per-height step
	st, sf := c.T(d.single), c.F(d.single)
	rem := removalsIn(c, d.single)
	kinds := map[string]*removal{}
	for i := range rem {
		kinds[rem[i].Kind] = &rem[i]
	}
	var idxCall *ssa.Call
	an.Instrs(d.single, func(in ssa.Instruction) {
		if call, isCall := in.(*ssa.Call); isCall {
			if cal := an.StaticCallee(&call.Call); cal != nil && an.FuncName(cal) == "store.(*heightIndexer).HashByHeight" {
				idxCall = call
			}
		}
	})
	if idxCall == nil {
		c.Undecided("C08.b", "index-lookup", "the per-height step resolves the hash through the height index", d.single, nil, "HashByHeight call not found")
		return
	}
	for _, r := range sf.Returns() {
		if st.ErrShape(errResult(r)) != "nil" {
			continue
		}
		for _, k := range []string{"ds-hash", "ds-height", "cache", "index-cache", "pending"} {
			rm := kinds[k]
			okK := rm != nil && (an.Flow{Fn: d.single}).MustPrecede(func(in ssa.Instruction) bool { return in == ssa.Instruction(rm.Instr) }, r)
			if okK {
				switch k {
				case "ds-height", "index-cache":
					okK = rm.Arg == "p2"
				case "pending":
					okK = rm.Arg == "p2..(p2+1)"
				case "ds-hash":
					okK = strings.Contains(rm.Arg, "phi@") || strings.Contains(rm.Arg, "HashByHeight") || strings.Contains(rm.Arg, "Hash(")
				}
			}
			detail := "not found"
			if rm != nil {
				detail = rm.Kind + "(" + rm.Arg + ")"
			}
			c.Check(okK, "C08.b", "tier-purged:"+k, "the per-height step succeeds only after this tier was purged for exactly that height", d.single, r, detail, nil)
		}
	}
	// a datastore delete error aborts the step
	for _, k := range []string{"ds-hash", "ds-height"} {
		if rm := kinds[k]; rm != nil {
			pr := sf.Prune(an.NE(st.Of(rm.Instr), "nil"))
			for _, r := range pr.Returns() {
				if pr.AtInstr(r).Has(an.NE(st.Of(rm.Instr), "nil")) {
					c.Check(st.ErrShape(errResult(r)) != "nil", "C08.b", "delete-error-propagates:"+k, "a failed datastore delete fails the step", d.single, r, "", nil)
				}
			}
		}
	}
	// index miss must not skip a pending header
	idxErr := st.Of(idxCall) + "#1"
	var pend *ssa.Call
	an.Instrs(d.single, func(in ssa.Instruction) {
		if call, isCall := in.(*ssa.Call); isCall {
			if cal := an.StaticCallee(&call.Call); cal != nil && (an.FuncName(cal) == "store.(*batch).GetByHeight") && st.Of(call.Call.Args[1]) == "p2" {
				pend = call
			}
		}
	})
	okPend := pend != nil
	detail := "no lookup of the height in the pending batch"
	if okPend {
		isNF := an.B("errors.Is(" + idxErr + ",github.com/ipfs/go-datastore.ErrNotFound)")
		inPending := an.NotB("IsZero(" + st.Of(pend) + ")")
		pr := sf.Prune(isNF, inPending)
		detail = ""
		for _, r := range pr.Returns() {
			sh := st.ErrShape(errResult(r))
			if strings.Contains(sh, idxErr) || strings.Contains(sh, "phi@") && !strings.Contains(sh, "call@") && strings.Contains(sh, "wrap(prop(phi") {
				okPend = false
				detail = "the index error is still returned (and skipped by the drivers) although the header is in the pending batch"
			}
		}
		// the removals stay reachable on that path
		for _, k := range []string{"pending", "cache"} {
			if rm := kinds[k]; rm == nil || !pr.Reachable(rm.Instr.Block()) {
				okPend = false
				detail = "removal of tier " + k + " unreachable for a pending-only header"
			}
		}
	}
	c.Check(okPend, "C08.b", "unflushed-header-not-skipped", "a header that is only in the pending write batch is not treated as missing: the index miss falls back to the pending batch and the header goes through the regular removal", d.single, idxCall, detail, nil)

	// --- C08.d pointers follow progress
	for _, rc := range callsTo(fn, d.raw) {
		actual := t.Of(rc) + "#0"
		delErr := t.Of(rc) + "#2"
		fsRaw := ff.AtInstr(rc)
		if fsRaw.Has(updHead) && fsRaw.Has(updTail) {
			// whole-store path: on failure the tail is moved to the progress, then the error is returned
			pr := ff.Prune(an.NE(delErr, "nil"))
			for _, r := range pr.Returns() {
				if !pr.AtInstr(r).Has(an.NE(delErr, "nil")) || !fl.MustPrecede(func(in ssa.Instruction) bool { return in == ssa.Instruction(rc) }, r) {
					continue
				}
				okT := fl.MustPrecede(func(in ssa.Instruction) bool {
					call, isCall := in.(*ssa.Call)
					return isCall && an.StaticCallee(&call.Call) == d.setTail && t.Of(call.Call.Args[3]) == actual
				}, r)
				c.Check(okT && t.ErrShape(errResult(r)) != "nil", "C08.d", "whole-store-partial-progress", "when deleting the whole store fails part-way the tail is moved to the reported progress and the error is returned", fn, r, "", nil)
				// the range reaches the head, and the parallel driver (taken for long ranges) goes on above
				// the height that failed — the other workers' removals are committed, the head among them —
				// so "Tail and Head still resolve to stored headers" needs the head pointer looked after too
				// on this path (finding F34: the clean tree moves only the tail)
				okH := fl.MustPrecede(func(in ssa.Instruction) bool {
					call, isCall := in.(*ssa.Call)
					return isCall && an.StaticCallee(&call.Call) != nil && originOf(an.StaticCallee(&call.Call)) == d.setHead && fl.CanReach(rc, in)
				}, r)
				c.Check(okH, "C08.d", "whole-store-partial-head-reestablished", "when deleting the whole store fails part-way the head pointer is re-established as well: the parallel driver keeps removing above the height that failed, the head included", fn, r, "", nil)
			}
			continue
		}
		// regular path
		nTail, nHead := 0, 0
		for _, sc := range callsTo(fn, d.setTail) {
			if !fl.MustPrecede(func(in ssa.Instruction) bool { return in == ssa.Instruction(rc) }, sc) {
				continue
			}
			nTail++
			fs := ff.AtInstr(sc)
			okS := t.Of(sc.Call.Args[3]) == actual && fs.Has(updTail) && !fs.Has(an.EQ(delErr, "nil"))
			c.Check(okS, "C08.d", "tail-follows-progress", "on the tail side the tail pointer is set to the progress reported by the deletion, whether or not it failed", fn, sc, "setTail("+t.Of(sc.Call.Args[3])+")", fs)
		}
		for _, sc := range callsTo(fn, d.setHead) {
			nHead++
			fs := ff.AtInstr(sc)
			okS := t.Of(sc.Call.Args[3]) == "(p2-1)" && fs.Has(updHead) && fs.Has(updTail.Neg()) && fs.Has(an.LT("p2", actual)) && !fs.Has(an.EQ(delErr, "nil"))
			c.Check(okS, "C08.d", "head-follows-progress", "on the head side the head pointer is set to from−1 as soon as any header of the range was deleted, whether or not the deletion failed", fn, sc, "setHead("+t.Of(sc.Call.Args[3])+")", fs)
		}
		c.Min("C08.d", "tail pointer updates after the raw deletion", nTail, 1)
		c.Min("C08.d", "head pointer updates after the raw deletion", nHead, 1)
		// pointer update before the error return
		pr := ff.Prune(an.NE(delErr, "nil"), updTail)
		for _, r := range pr.Returns() {
			if fl.MustPrecede(func(in ssa.Instruction) bool { return in == ssa.Instruction(rc) }, r) && pr.AtInstr(r).Has(an.NE(delErr, "nil")) {
				c.Check(t.ErrShape(errResult(r)) != "nil" && (an.Flow{Fn: fn, Skip: pr.Removed}).MustPrecede(an.IsCallTo(d.setTail), r), "C08.d", "error-after-tail-update", "a failed tail-side deletion returns its error only after the tail pointer was updated", fn, r, "", nil)
			}
		}
	}
	n := checkArith(c, "C08.d", []*ssa.Function{fn, d.raw, d.seq}, map[string]bool{"usub": true}, nil, []arithException{
		{Func: "store.(*Store).deleteRangeRaw", Match: "p3 - p2", Reason: "to−from in deleteRangeRaw: both call sites in DeleteRange are dominated by from<to (C08.a)"},
	})
	c.Min("C08.d", "unsigned subtractions on the deletion path", n, 1)
}

// checkDriverCoverage: the sequential driver calls the per-height step for a
// counter walking from..to with guard height<to; the parallel driver feeds the
// same walk into the job channel and its workers pass every received height to
// the step. Errors other than not-found stop the sequential loop.
func checkDriverCoverage(c *an.Ctx, id string, d *delFns) {
	// sequential
	{
		t, ff := c.T(d.seq), c.F(d.seq)
		calls := callsTo(d.seq, d.single)
		c.Min(id, "per-height step calls in the sequential driver", len(calls), 1)
		for _, call := range calls {
			okW := false
			if ph, isPhi := call.Call.Args[2].(*ssa.Phi); isPhi {
				okW = walksFrom(t, ff, ph, "p2") && ff.AtInstr(call).Has(an.LT(t.Of(ph), "p3"))
			}
			c.Check(okW, id, "sequential-covers-range", "the sequential driver calls the per-height step for every height from..to−1, once each", d.seq, call, "", ff.AtInstr(call))
		}
		// nil-error return reports `to` and happens at loop exit
		for _, r := range ff.Returns() {
			if t.ErrShape(errResult(r)) == "nil" {
				c.Check(t.Of(t.Deref(r.Results[0])) == "p3", id, "sequential-reports-to", "a complete sequential deletion reports `to` as progress", d.seq, r, "reports "+t.Of(t.Deref(r.Results[0])), nil)
			}
		}
	}
	// parallel
	{
		t, ff := c.T(d.par), c.F(d.par)
		okFeed := false
		for _, ss := range selectSends(d.par) {
			if ph, isPhi := ss.Val.(*ssa.Phi); isPhi && walksFrom(t, ff, ph, "p2") && ff.AtInstr(ss.Sel).Has(an.LT(t.Of(ph), "p3")) {
				okFeed = true
			}
		}
		c.Check(okFeed, id, "parallel-feeds-range", "the parallel driver feeds every height from..to−1 into the job channel", d.par, nil, "", nil)
		nW := 0
		for _, cl := range d.par.AnonFuncs {
			ct := c.T(cl)
			for _, call := range callsTo(cl, d.single) {
				nW++
				// argument is the value received from the job channel (range over channel)
				v := call.Call.Args[2]
				okR := false
				if ex, isEx := v.(*ssa.Extract); isEx {
					if u, isU := ex.Tuple.(*ssa.UnOp); isU && u.CommaOk && strings.Contains(ct.Of(u.X), "jobCh") {
						okR = true
					}
				}
				c.Check(okR, id, "worker-deletes-received-height", "a worker passes every height it receives from the job channel to the per-height step", cl, call, "arg "+ct.Of(v), nil)
			}
		}
		c.Min(id, "per-height step calls in the parallel workers", nW, 1)
	}
}

// walksFrom: ph = phi[start, ph+1].
func walksFrom(t *an.Terms, ff *an.FuncFacts, ph *ssa.Phi, start string) bool {
	okInit, okStep := false, false
	for i, e := range ph.Edges {
		pred := ph.Block().Preds[i]
		if ff.Dominates(ph.Block(), pred) {
			okStep = t.Affine(e).Sub(t.Affine(ph)).String() == "1"
		} else {
			okInit = t.Of(e) == start
		}
	}
	return okInit && okStep
}
