package rules

import (
	"strings"

	"golang.org/x/tools/go/ssa"

	"hdrcheck/an"
)

func init() {
	register(&Rule{
		ID: "C06",
		Explanation: "Decides the structure that makes the Store restart- and crash-safe: (a) a flush performs all of its datastore writes (every header, the head and tail pointers, the height index) on the single Batch it creates and commits it last; no direct datastore write is reachable from the flush; " +
			"(b) the pending batch is reset only after a flush returned nil, and the retry loop has no exit with a non-nil error; " +
			"(c) Stop sends the nil sentinel and then waits for the loop's done channel; both receive sites of the write queue flush before testing for the sentinel; the 'batch not full' early return is disabled for the sentinel; the done channel is closed by a defer of the loop; " +
			"(d) readByKey deletes a pointer key whose header is missing before it returns, and init treats only ErrNotFound as 'pointer absent', any other error as fatal, and adopts only a non-zero header.",
		NotDecided: []string{
			"the quantifier itself: whether a given crash image (any prefix of the commit log, any placement of failing writes) re-opens correctly is runtime behaviour",
			"atomicity of the datastore's Batch.Commit (library contract, assumed)",
		},
		Technique: "receiver provenance of datastore writes, must-precede/ordering on the flush, dominance facts on the retry loop and on init, sibling agreement of the two queue receive sites",
		Trusted:   "go/types+go/ssa; go-datastore Batch contract",
		Run:       runC06,
		Imports: []Import{
			{From: "C14.d", As: "C06.f", Why: "(effect inventory: every removal of header data outside the per-height deletion step is a violation `removal-outside-step`) an appended header that was not flushed yet exists only in the pending batch: it may leave the batch only in the deletion step of its own height; a range-wide drop loses headers that were never deleted at the next Stop/Start"},
			{From: "C17.c", Match: "write-loop-stops", As: "C06.c", Why: "everything whose Append returned before Stop is there after the restart: the write loop leaves its loop only on the stop signal, which Stop queues behind the appends, and handles that signal like a batch (it flushes what is pending)"},
			{From: "C17.c", Match: "queued-batch-made-readable", As: "C06.c", Why: "see write-loop-stops"},
			{From: "C08.b", Match: "tier-purged:pending", As: "C06.f", Why: "see removal-outside-step: the pending batch is purged per deleted height, by the step that deleted it"},
		},
	})
}

func runC06(c *an.Ctx) {
	p := c.P
	flush := p.Method("store", "Store", "flush")
	flushLoop := p.Method("store", "Store", "flushLoop")
	stop := p.Method("store", "Store", "Stop")
	readByKey := p.Method("store", "Store", "readByKey")
	initFn := p.Method("store", "Store", "init")
	writeHash := p.Func("store", "writeHeaderHashTo")
	indexTo := p.Func("store", "indexTo")
	ok := true
	for name, f := range map[string]*ssa.Function{"store.(*Store).flush": flush, "store.(*Store).flushLoop": flushLoop, "store.(*Store).Stop": stop,
		"store.(*Store).readByKey": readByKey, "store.(*Store).init": initFn, "store.writeHeaderHashTo": writeHash} {
		ok = c.Need(f, "C06.a", name) && ok
	}
	if !ok {
		return
	}
	checkDeleteCrashOrder(c, "C06.e")
	checkPointerMemoryBeforeDisk(c, "C06.g")

	// --- C06.a one atomic batch per flush
	{
		t, ff := c.T(flush), c.F(flush)
		var batchCall *ssa.Call
		an.Instrs(flush, func(in ssa.Instruction) {
			if call, isCall := in.(*ssa.Call); isCall && strings.HasSuffix(an.StaticFullName(&call.Call), "keytransform.Datastore).Batch") {
				if batchCall != nil {
					c.Fail("C06.a", "one-batch", "a flush writes through one batch: headers, pointers and index become durable together or not at all", flush, call, "a second batch is created", nil)
					return
				}
				batchCall = call
			}
		})
		if !c.Check(batchCall != nil, "C06.a", "creates-batch", "a flush creates one datastore Batch", flush, nil, "", nil) {
			return
		}
		batch := t.Of(batchCall) + "#0"
		var commit *ssa.Call
		nPut := 0
		an.Instrs(flush, func(in ssa.Instruction) {
			call, isCall := in.(*ssa.Call)
			if !isCall {
				return
			}
			full := an.StaticFullName(&call.Call)
			if strings.HasSuffix(full, "keytransform.Datastore).Put") || strings.HasSuffix(full, "keytransform.Datastore).Delete") {
				c.Fail("C06.a", "direct-write", "a flush never writes to the datastore directly, only through its batch", flush, call, full, nil)
			}
			if call.Call.IsInvoke() {
				switch call.Call.Method.Name() {
				case "Put", "Delete":
					nPut++
					c.Check(t.Of(call.Call.Value) == batch, "C06.a", "write-on-batch:"+call.Call.Method.Name(), "every write of a flush goes to the batch created by this flush", flush, call, "receiver "+t.Of(call.Call.Value), nil)
				case "Commit":
					if t.Of(call.Call.Value) == batch {
						commit = call
					}
				}
			}
		})
		c.Min("C06.a", "header writes on the batch", nPut, 1)
		ptrs := map[string]bool{}
		for _, wc := range callsTo(flush, writeHash) {
			key := t.Of(wc.Call.Args[3])
			c.Check(t.Of(wc.Call.Args[1]) == batch, "C06.a", "pointer-on-batch:"+key, "the head and tail pointers are written to the same batch as the headers", flush, wc, "", nil)
			ptrs[key] = true
			// the header whose hash is written is the current pointer value
			hv := ""
			if u, isU := t.Deref(wc.Call.Args[2]).(*ssa.UnOp); isU {
				if lc, isCall := u.X.(*ssa.Call); isCall && strings.HasSuffix(an.StaticFullName(&lc.Call), "atomic.Pointer[T]).Load") {
					hv = an.Stable(t.Of(lc.Call.Args[0]))
				}
			}
			want := map[string]string{"store.headKey": "contiguousHead", "store.tailKey": "tailHeader"}[key]
			c.Check(want != "" && strings.HasSuffix(hv, "."+want), "C06.a", "pointer-value:"+key, "the pointer written is the store's current head (tail) pointer", flush, wc, "value *Load("+hv+")", nil)
		}
		c.Check(ptrs["store.headKey"] && ptrs["store.tailKey"], "C06.a", "both-pointers", "a flush writes both the head and the tail pointer", flush, nil, "", nil)
		ics := callsTo(flush, indexTo)
		for _, ic := range ics {
			c.Check(t.Of(ic.Call.Args[1]) == batch && t.Of(ic.Call.Args[2]) == "p2", "C06.a", "index-on-batch", "the height index of the flushed headers is written to the same batch", flush, ic, "", nil)
		}
		if indexTo == nil {
			// the index helper was folded into flush: the height-index writes are flush's own
			an.Instrs(flush, func(in ssa.Instruction) {
				call, isCall := in.(*ssa.Call)
				if !isCall || !call.Call.IsInvoke() || call.Call.Method.Name() != "Put" {
					return
				}
				if kc, isKC := call.Call.Args[1].(*ssa.Call); isKC && an.StaticCallee(&kc.Call) != nil && an.FuncName(an.StaticCallee(&kc.Call)) == "store.heightKey" {
					ics = append(ics, call)
					c.Check(t.Of(call.Call.Value) == batch, "C06.a", "index-on-batch", "the height index of the flushed headers is written to the same batch", flush, call, "receiver "+t.Of(call.Call.Value), nil)
				}
			})
		}
		c.Min("C06.a", "index writes in flush", len(ics), 1)
		if c.Check(commit != nil, "C06.a", "commits", "the batch is committed", flush, nil, "", nil) {
			fl := an.Flow{Fn: flush}
			allBefore := true
			an.Instrs(flush, func(in ssa.Instruction) {
				call, isCall := in.(*ssa.Call)
				if !isCall || call == commit {
					return
				}
				isWrite := call.Call.IsInvoke() && (call.Call.Method.Name() == "Put" || call.Call.Method.Name() == "Delete")
				if cal := an.StaticCallee(&call.Call); cal == writeHash || cal == indexTo {
					isWrite = true
				}
				if isWrite && fl.CanReach(commit, call) {
					allBefore = false
				}
			})
			// every write step precedes the commit on the path to it
			for _, pred := range []an.InstrPred{an.IsCallTo(writeHash), an.IsCallTo(indexTo)} {
				allBefore = allBefore && fl.MustPrecede(pred, commit)
			}
			c.Check(allBefore, "C06.a", "commit-last", "Commit is the last datastore operation of a flush and is preceded by the pointer and index writes", flush, commit, "", nil)
			// returns: empty input → nil; otherwise nil only through Commit's result
			for _, r := range ff.Returns() {
				sh := t.ErrShape(errResult(r))
				fs := ff.AtInstr(r)
				switch {
				case sh == "nil" && ff.AtRefined(r.Block()).Has(an.EQ(t.Of(commit), "nil")):
					c.Ok("C06.a", "returns-commit-result", "a flush succeeds exactly when its Commit succeeded", flush, r, "nil after Commit() == nil", fs)
				case sh == "nil":
					c.Check(fs.Has(an.EQ("len(p2)", "0")), "C06.a", "nil-only-when-empty", "apart from Commit's own result a flush returns nil only for an empty batch", flush, r, "", fs)
				case sh == "prop("+t.Of(commit)+")":
					c.Ok("C06.a", "returns-commit-result", "a flush succeeds exactly when its Commit succeeded", flush, r, "", fs)
				}
			}
			// a failed step returns before Commit
			for _, wc := range append(callsTo(flush, writeHash), callsTo(flush, indexTo)...) {
				pr := ff.Prune(an.NE(t.Of(wc), "nil"))
				c.Check(!pr.Reachable(commit.Block()), "C06.a", "no-commit-after-failed-step", "a failed write step aborts the flush before Commit (no partial batch is committed)", flush, wc, "", nil)
			}
		}
		// callees write only through the handle they are given
		for _, fn := range []*ssa.Function{writeHash, indexTo} {
			if fn == nil {
				continue
			}
			ft := c.T(fn)
			an.Instrs(fn, func(in ssa.Instruction) {
				if call, isCall := in.(*ssa.Call); isCall && call.Call.IsInvoke() && (call.Call.Method.Name() == "Put" || call.Call.Method.Name() == "Delete") {
					c.Check(ft.Of(call.Call.Value) == "p1", "C06.a", "helper-writes-to-handle:"+an.FuncName(fn), "the write helpers write only to the Write/Batch handle they are given", fn, call, "", nil)
				}
			})
		}
	}

	// --- C06.b retry until committed, reset only after success
	var closure *ssa.Function
	for _, cl := range flushLoop.AnonFuncs {
		if len(callsTo(cl, flush)) > 0 {
			closure = cl
		}
	}
	if !c.Check(closure != nil, "C06.b", "flush-closure", "the flush loop has a closure that flushes the pending batch", flushLoop, nil, "", nil) {
		return
	}
	ct, cf := c.T(closure), c.F(closure)
	fcs := callsTo(closure, flush)
	c.Min("C06.b", "flush calls in the closure", len(fcs), 1)
	fc := fcs[0]
	fErr := ct.Of(fc)
	checkResetAfterSuccess(c, closure, flush, fc)
	// what is flushed is the whole pending batch
	okAll := false
	if sl, isSl := fc.Call.Args[2].(ssa.Value); isSl {
		v := ct.Of(sl)
		okAll = strings.Contains(v, "batch[H]).GetAll")
	}
	c.Check(okAll, "C06.b", "flushes-all-pending", "a flush writes every header of the pending batch", closure, fc, "arg "+ct.Of(fc.Call.Args[2]), nil)
	// flush writes the head and tail pointer keys from the in-memory pointers and dereferences them
	// without a test: they are (re)initialised from the very batch that is about to be written, in this
	// step, before every attempt — a whole-store deletion (wipe → deinit) may have dropped them while
	// these headers were pending (finding F15)
	{
		ensure := p.Method("store", "Store", "ensureInit")
		okInit := false
		if ensure != nil {
			okInit = (an.Flow{Fn: closure}).MustPrecede(func(in ssa.Instruction) bool {
				call, isCall := in.(*ssa.Call)
				return isCall && an.StaticCallee(&call.Call) == ensure && len(call.Call.Args) >= 2 && call.Call.Args[len(call.Call.Args)-1] == fc.Call.Args[2]
			}, fc)
		}
		for _, cs := range p.CG().In[flush] {
			if cs.Caller != closure {
				okInit = false // another caller would reach the dereference without this step
			}
		}
		c.Check(okInit, "C06.b", "pointers-initialised-before-flush", "the step (re)initialises the head and tail pointers from the batch it is about to write before it flushes it (flush dereferences both)", closure, fc, "", nil)
		checkAdvanceAfterReinit(c, "C06.d", closure, ensure, p.Method("store", "Store", "advanceHead"), fc)
	}
	// no exit from the retry loop under a failed flush
	prFail := cf.Prune(an.NE(fErr, "nil"))
	for _, r := range prFail.Returns() {
		if (an.Flow{Fn: closure, Skip: prFail.Removed}).MustPrecede(func(in ssa.Instruction) bool { return in == ssa.Instruction(fc) }, r) {
			c.Fail("C06.b", "gives-up-on-error", "the flush is retried until it succeeds (no exit with a failed flush)", closure, r, "return reachable after a failed flush", nil)
		}
	}
	c.Ok("C06.b", "retry-loop", "the flush is retried until it succeeds (no exit with a failed flush)", closure, fc, "", nil)

	// --- C06.c Stop drains
	{
		st, sf := c.T(stop), c.F(stop)
		var sendSel, waitSel *ssa.Select
		an.Instrs(stop, func(in ssa.Instruction) {
			sel, isSel := in.(*ssa.Select)
			if !isSel {
				return
			}
			for _, s := range sel.States {
				if s.Send != nil && isRecvField(st, s.Chan, "writes") && st.Of(s.Send) == "nil" {
					sendSel = sel
				}
				if s.Send == nil && isRecvField(st, s.Chan, "writesDn") && sel.Blocking {
					waitSel = sel
				}
			}
		})
		okStop := sendSel != nil && waitSel != nil && sendSel != waitSel && (an.Flow{Fn: stop}).MustPrecede(func(in ssa.Instruction) bool { return in == ssa.Instruction(sendSel) }, waitSel)
		c.Check(okStop, "C06.c", "stop-sends-then-waits", "Stop enqueues the nil sentinel and then waits for the flush loop's done channel", stop, nil, "", nil)
		if okStop {
			for _, r := range sf.Returns() {
				if st.ErrShape(errResult(r)) == "nil" || strings.Contains(st.ErrShape(errResult(r)), "metrics") {
					c.Check((an.Flow{Fn: stop}).MustPrecede(func(in ssa.Instruction) bool { return in == ssa.Instruction(waitSel) }, r), "C06.c", "stop-returns-after-drain", "Stop returns successfully only after the loop signalled that it is done", stop, r, "", nil)
				}
			}
		}
		// loop: done channel closed by defer; both receive sites flush before the sentinel test
		lt := c.T(flushLoop)
		okDefer := false
		for _, in := range flushLoop.Blocks[0].Instrs {
			if d, isD := in.(*ssa.Defer); isD {
				if b, isB := d.Call.Value.(*ssa.Builtin); isB && b.Name() == "close" && isRecvFieldVia(lt, d.Call.Args[0], "writesDn") {
					okDefer = true
				}
			}
		}
		c.Check(okDefer, "C06.c", "done-closed-by-defer", "the loop closes its done channel by a defer registered at its start", flushLoop, nil, "", nil)
		nSites := 0
		an.Instrs(flushLoop, func(in ssa.Instruction) {
			ex, isEx := in.(*ssa.Extract)
			if !isEx {
				return
			}
			sel, isSel := ex.Tuple.(*ssa.Select)
			if !isSel || ex.Index < 2 {
				return
			}
			stt := sel.States[recvStateIndex(sel, ex.Index)]
			if stt.Send != nil || !isRecvFieldVia(lt, stt.Chan, "writes") {
				return
			}
			nSites++
			// the received value is passed to the flush closure before it is compared with nil
			var call *ssa.Call
			var test *ssa.If
			for _, r := range *ex.Referrers() {
				if cl, isCall := r.(*ssa.Call); isCall && len(cl.Call.Args) == 1 && cl.Call.Args[0] == ssa.Value(ex) {
					call = cl
				}
				if bo, isBO := r.(*ssa.BinOp); isBO && bo.Referrers() != nil {
					for _, rr := range *bo.Referrers() {
						if iff, isIf := rr.(*ssa.If); isIf {
							test = iff
						}
					}
				}
			}
			okSite := call != nil && test != nil && (an.Flow{Fn: flushLoop}).MustPrecede(func(i2 ssa.Instruction) bool { return i2 == ssa.Instruction(call) }, test)
			if okSite {
				mc, isMC := call.Call.Value.(*ssa.MakeClosure)
				okSite = isMC && mc.Fn == ssa.Value(closure)
			}
			c.Check(okSite, "C06.c", "receive-site-flushes-first", "each receive site of the write queue flushes what it received before it tests for the stop sentinel", flushLoop, ex, "", nil)
		})
		c.Min("C06.c", "receive sites of the write queue", nSites, 2)
		// early return disabled for the sentinel
		prStop := cf.Prune(an.EQ("p0", "nil"))
		c.Check(prStop.Reachable(fc.Block()), "C06.c", "sentinel-forces-flush", "for the stop sentinel the 'batch not full yet' early return is not taken: the pending batch is flushed", closure, fc, "", nil)
		early := false
		for _, r := range prStop.Returns() {
			if !(an.Flow{Fn: closure, Skip: prStop.Removed}).MustPrecede(func(in ssa.Instruction) bool { return in == ssa.Instruction(fc) }, r) {
				early = true
			}
		}
		c.Check(!early, "C06.c", "sentinel-no-early-return", "for the stop sentinel every exit of the flush closure has flushed", closure, nil, "", nil)
		checkStopKeepsLoopContext(c, "C06.c")
		checkWriteLoopContextDetached(c, "C06.c")
	}

	// --- C06.d dangling pointers
	{
		t, ff := c.T(readByKey), c.F(readByKey)
		var getCall *ssa.Call
		for _, gc := range callsTo(readByKey, p.Method("store", "Store", "Get")) {
			getCall = gc
		}
		if c.Check(getCall != nil, "C06.d", "pointer-resolves-header", "readByKey resolves the pointer to its header", readByKey, nil, "", nil) {
			gErr := t.Of(getCall) + "#1"
			isNF := an.B("errors.Is(" + gErr + ",header.ErrNotFound)")
			pr := ff.Prune(an.NE(gErr, "nil"), isNF)
			isDel := func(in ssa.Instruction) bool {
				call, isCall := in.(*ssa.Call)
				return isCall && strings.HasSuffix(an.StaticFullName(&call.Call), "keytransform.Datastore).Delete") && t.Of(call.Call.Args[2]) == "p2"
			}
			n := 0
			for _, r := range pr.Returns() {
				if !pr.AtInstr(r).Has(isNF) {
					continue
				}
				n++
				c.Check((an.Flow{Fn: readByKey, Skip: pr.Removed}).MustPrecede(isDel, r) && t.ErrShape(errResult(r)) != "nil", "C06.d", "dangling-pointer-dropped",
					"a pointer whose header is missing is deleted from the datastore before readByKey returns its error", readByKey, r, "", nil)
				// … and the error it returns is still recognised as header.ErrNotFound by init, which treats
				// exactly that as "pointer absent, start anyway" (a %v wrap makes the reopen after a crash
				// between a deletion and its pointer write fail)
				c.Check(keepsErrIdentity(t, errResult(r), gErr, "header.ErrNotFound", 0), "C06.d", "dangling-pointer-error-identity",
					"the error returned for a dangling pointer keeps the identity of the lookup's ErrNotFound (init tolerates that error and nothing else)", readByKey, r, "returns "+t.ErrShape(errResult(r)), nil)
			}
			c.Min("C06.d", "returns for a dangling pointer", n, 1)
			// an absent pointer key is reported as header.ErrNotFound as well (an empty datastore starts)
			an.Instrs(readByKey, func(in ssa.Instruction) {
				gc, isCall := in.(*ssa.Call)
				if !isCall || !strings.HasSuffix(an.StaticFullName(&gc.Call), "keytransform.Datastore).Get") {
					return
				}
				dErr := t.Of(gc) + "#1"
				absent := an.B("errors.Is(" + dErr + ",github.com/ipfs/go-datastore.ErrNotFound)")
				pa := ff.Prune(an.NE(dErr, "nil"), absent)
				for _, r := range pa.Returns() {
					if pa.AtInstr(r).Has(absent) {
						c.Check(keepsErrIdentity(t, errResult(r), "", "header.ErrNotFound", 0), "C06.d", "absent-pointer-error-identity",
							"an absent pointer key is reported as header.ErrNotFound (init tolerates that error and nothing else)", readByKey, r, "returns "+t.ErrShape(errResult(r)), nil)
					}
				}
			})
			for _, r := range ff.Returns() {
				if t.ErrShape(errResult(r)) == "nil" {
					c.Check(ff.AtInstr(r).Has(an.EQ(gErr, "nil")) && t.Of(t.Deref(r.Results[0])) == t.Of(getCall)+"#0", "C06.d", "returns-resolved-header", "readByKey returns nil-error only with the header the pointer resolved to", readByKey, r, "", ff.AtInstr(r))
				}
			}
		}
		it, itf := c.T(initFn), c.F(initFn)
		for _, rc := range callsTo(initFn, readByKey) {
			rErr := it.Of(rc) + "#1"
			isNF := an.B("errors.Is(" + rErr + ",header.ErrNotFound)")
			pr := itf.Prune(an.NE(rErr, "nil"), isNF.Neg())
			n := 0
			for _, r := range pr.Returns() {
				if pr.AtInstr(r).Has(an.NE(rErr, "nil")) {
					n++
					c.Check(it.ErrShape(errResult(r)) != "nil", "C06.d", "init-fatal-on-other-errors", "init fails on any pointer-read error other than ErrNotFound", initFn, r, "", nil)
				}
			}
			c.Min("C06.d", "fatal returns of init for "+an.Stable(it.Of(rc.Call.Args[2])), n, 1)
			prNF := itf.Prune(an.NE(rErr, "nil"), isNF)
			okCont := false
			for _, r := range prNF.Returns() {
				if it.ErrShape(errResult(r)) == "nil" {
					okCont = true
				}
			}
			c.Check(okCont, "C06.d", "init-tolerates-absent-pointer:"+an.Stable(it.Of(rc.Call.Args[2])), "init treats a missing (or dropped dangling) pointer as an absent pointer and starts", initFn, rc, "", nil)
		}
		an.Instrs(initFn, func(in ssa.Instruction) {
			call, isCall := in.(*ssa.Call)
			if !isCall || !strings.HasSuffix(an.StaticFullName(&call.Call), "atomic.Pointer[T]).Store") {
				return
			}
			val := call.Call.Args[1]
			hdr := ""
			if al, isAl := val.(*ssa.Alloc); isAl {
				for _, s := range an.AllocStores(al) {
					hdr = it.Of(s.Val)
				}
			}
			c.Check(hdr != "" && itf.AtInstr(call).Has(an.NotB("IsZero("+hdr+")")), "C06.d", "init-adopts-nonzero:"+an.Stable(it.Of(call.Call.Args[0])), "init adopts a pointer only when it resolved to a non-zero header", initFn, call, "", itf.AtInstr(call))
		})
		checkEnsureInit(c, "C06.d")
	}
}

// checkEnsureInit: a store reopened with one pointer absent (dropped dangling pointer,
// crash between the header deletion and the pointer move) heals on the next append only
// if ensureInit fills in each unset pointer independently: the initialisation of a
// pointer is guarded by nothing but "headers is non-empty" and "this pointer is unset",
// and the value adopted is the last (head) / first (tail) appended header.
func checkEnsureInit(c *an.Ctx, id string) {
	p := c.P
	fn := p.Method("store", "Store", "ensureInit")
	if !c.Need(fn, id, "store.(*Store).ensureInit") {
		return
	}
	t, ff := c.T(fn), c.F(fn)
	want := map[string]string{"contiguousHead": "p1[(len(p1)-1)]", "tailHeader": "p1[0]"}
	seen := map[string]bool{}
	an.Instrs(fn, func(in ssa.Instruction) {
		call, isCall := in.(*ssa.Call)
		if !isCall || !strings.HasSuffix(an.StaticFullName(&call.Call), "atomic.Pointer[T]).CompareAndSwap") {
			return
		}
		field := ""
		for _, f := range []string{"contiguousHead", "tailHeader"} {
			if isRecvFieldVia(t, call.Call.Args[0], f) || an.Stable(t.Of(call.Call.Args[0])) == "&p0."+f {
				field = f
			}
		}
		if field == "" {
			return
		}
		seen[field] = true
		old := t.Of(call.Call.Args[1])
		oldIsOwnLoad := false
		if lc, isLoad := call.Call.Args[1].(*ssa.Call); isLoad && strings.HasSuffix(an.StaticFullName(&lc.Call), "atomic.Pointer[T]).Load") {
			oldIsOwnLoad = an.Stable(t.Of(lc.Call.Args[0])) == an.Stable(t.Of(call.Call.Args[0]))
		}
		c.Check(oldIsOwnLoad, id, "ensure-init-cas-from-unset:"+field, "ensureInit swaps a pointer in only against the value it loaded from that same pointer", fn, call, "old "+an.Stable(old), nil)
		var extra []string
		hasUnset := false
		for _, f := range ff.AtRefined(call.Block()) {
			s := f.String()
			switch {
			case f == an.EQ(old, "nil"):
				hasUnset = true
			case strings.Contains(s, "len(p1)") && !strings.Contains(s, "p0."):
			default:
				extra = append(extra, an.Stable(s))
			}
		}
		c.Check(hasUnset && len(extra) == 0, id, "ensure-init-independent:"+field,
			"ensureInit initialises the "+field+" pointer whenever it is unset and headers were appended, independent of any other state", fn, call,
			"other guards: "+strings.Join(extra, ", "), ff.AtRefined(call.Block()))
		val := ""
		okLowest := false
		if al, isAl := call.Call.Args[2].(*ssa.Alloc); isAl {
			for _, s := range an.AllocStores(al) {
				val = an.Stable(t.Of(s.Val))
				okLowest = lowestOfBatch(t, ff, s.Val, "p1")
			}
		}
		_ = want
		// both pointers start at the LOWEST header of the batch — the batch may come in any order and
		// with gaps; the last header as head puts Head above a gap, the first as tail can put Tail above
		// Head (finding F23) — and the head is then advanced over what is contiguous by the write loop's
		// next step (C04.c pointer-move-unconditional)
		c.Check(okLowest, id, "ensure-init-value:"+field, "ensureInit starts both pointers of an empty store at the lowest header of the batch (the head is advanced over the contiguous run afterwards)", fn, call, "value "+val, nil)
	})
	for _, f := range []string{"contiguousHead", "tailHeader"} {
		if !seen[f] {
			c.Fail(id, "ensure-init-present:"+f, "ensureInit initialises the "+f+" pointer", fn, nil, "no CompareAndSwap on the field", nil)
		}
	}
}

// isRecvFieldVia: v is a load of field `name` of the receiver, possibly through
// the captured-receiver indirection go/ssa uses in functions with closures (*t0).field.
func isRecvFieldVia(t *an.Terms, v ssa.Value, name string) bool {
	s := an.Stable(t.Of(v))
	return s == "p0."+name || strings.HasSuffix(s, "."+name)
}

// recvStateIndex maps an Extract index of a Select tuple (2+i for the i-th receive state) to the state index.
func recvStateIndex(sel *ssa.Select, extractIdx int) int {
	k := extractIdx - 2
	n := -1
	for i, st := range sel.States {
		if st.Send == nil {
			n++
			if n == k {
				return i
			}
		}
	}
	return 0
}
