package store

// Demonstration for finding F13 (property C12).
// Copy into /repo/store and run: go test ./store -run 'TestF13' -count=1
//
// F13: the write loop's step (the `flush` closure of flushLoop) initialises an empty Store from the
//      batch it is about to add — ensureInit sets the head pointer and PUBLISHES the batch's top
//      height through heightSub.Init — before it appends the batch to the pending batch. Between
//      the two, Height() already covers every header of the batch while none of them is readable
//      yet: GetByHeight misses, heightSub.Wait answers "this height has elapsed, look again", the
//      second lookup misses too, and the reader gets "not found" for a header whose Append is being
//      processed. (Every later batch is published by Notify/advanceHead, after pending.Append.)
//      The window is a few instructions wide; the test holds heightSub's mutex, which parks the
//      write loop inside Init right after the height was stored.
//      First suspected by a bug-seeding sub-agent reading the clean tree; rule C12.d
//      `init-publishes-after-readable` decides it.

import (
	"context"
	"testing"
	"time"

	"github.com/ipfs/go-datastore"
	"github.com/ipfs/go-datastore/sync"
	"github.com/stretchr/testify/require"

	"github.com/celestiaorg/go-header/headertest"
)

func TestF13_ReaderDuringTheFirstBatchOfAnEmptyStore(t *testing.T) {
	ctx, cancel := context.WithTimeout(context.Background(), 10*time.Second)
	t.Cleanup(cancel)

	suite := headertest.NewTestSuite(t)
	ds := sync.MutexWrap(datastore.NewMapDatastore())
	st, err := NewStore[*headertest.DummyHeader](ds)
	require.NoError(t, err)
	require.NoError(t, st.Start(ctx))
	t.Cleanup(func() { _ = st.Stop(context.Background()) })

	chain := append([]*headertest.DummyHeader{suite.Head()}, suite.GenDummyHeaders(4)...)
	top := chain[len(chain)-1].Height()
	middle := chain[2]

	// park the write loop where it publishes the height of the first batch
	st.heightSub.heightSubsLk.Lock()
	unlocked := false
	unlock := func() {
		if !unlocked {
			unlocked = true
			st.heightSub.heightSubsLk.Unlock()
		}
	}
	defer unlock()

	require.NoError(t, st.Append(ctx, chain...))
	require.Eventually(t, func() bool { return st.Height() == top }, 2*time.Second, time.Millisecond,
		"the write loop publishes the height of the batch")

	// the Append of `middle` has returned and its height is published: it has to be readable
	readCtx, readCancel := context.WithTimeout(ctx, time.Second)
	defer readCancel()
	got, err := st.GetByHeight(readCtx, middle.Height())
	unlock()
	require.NoError(t, err, "height %d is published (Height()=%d) but not readable", middle.Height(), top)
	require.Equal(t, middle.Hash(), got.Hash())
}
