package rules

import (
	"fmt"
	"strings"

	"golang.org/x/tools/go/ssa"

	"hdrcheck/an"
)

// runNilLoadSweep: the Store keeps its head and tail in atomic pointers that are nil while the store
// is empty — and one of them can be nil while the other is set (a reopened store whose tail pointer
// was left dangling, the moments inside ensureInit and wipe). In every function a rule of the
// property has reasoned about, the value loaded from an atomic.Pointer is dereferenced only where it
// is known to be non-nil.
// nilLoadExceptions: functions whose unguarded dereference is justified by an obligation elsewhere.
var nilLoadExceptions = map[string]string{
	"store.(*Store).flush": "flush has one caller, the write loop's step, which (re)initialises both pointers from the non-empty batch it hands to flush right before the call — obligation C06.b pointers-initialised-before-flush, with C06.d ensure-init-* for what ensureInit establishes; flush itself returns before the dereference for an empty batch",
}

func runNilLoadSweep(id string, c *an.Ctx) {
	for _, fn := range c.TermFuncs() {
		if fn == nil || fn.Blocks == nil {
			continue
		}
		var loads []*ssa.Call
		an.Instrs(fn, func(in ssa.Instruction) {
			// Load, and Swap (which hands back the previous pointer: nil the first time)
			if call, ok := in.(*ssa.Call); ok && (strings.HasSuffix(an.StaticFullName(&call.Call), "atomic.Pointer[T]).Load") || strings.HasSuffix(an.StaticFullName(&call.Call), "atomic.Pointer[T]).Swap")) {
				loads = append(loads, call)
			}
		})
		if len(loads) == 0 {
			continue
		}
		t, ff := c.T(fn), c.F(fn)
		for _, ld := range loads {
			if ld.Referrers() == nil {
				continue
			}
			pt := t.Of(ld)
			for _, r := range *ld.Referrers() {
				u, ok := r.(*ssa.UnOp)
				if !ok || u.X != ssa.Value(ld) || u.Op.String() != "*" {
					continue
				}
				fs := ff.AtInstr(u)
				okNN := fs.Has(an.NE(pt, "nil")) || fs.Has(an.NE("nil", pt))
				key := fmt.Sprintf("nil-load:%s:%s", an.FuncName(fn), an.Stable(pt))
				rule := "a pointer loaded from an atomic.Pointer is dereferenced only where it is known to be non-nil"
				if okNN {
					c.Ok(id+".nil", key, rule, fn, u, "", nil)
				} else if why := nilLoadExceptions[an.FuncName(fn)]; why != "" {
					c.Ok(id+".nil", key, rule+" (named exception: "+why+")", fn, u, "exception", nil)
				} else {
					c.Fail(id+".nil", key, rule, fn, u, "dereferenced without a nil test on the path", fs)
				}
			}
		}
	}
}
