#!/usr/bin/env python3
"""Prints section 10 of DESIGN.md from /verif/seeded/*/meta.json."""
import glob, json, os

V = os.path.dirname(os.path.dirname(os.path.abspath(__file__)))
metas = []
for f in sorted(glob.glob(os.path.join(V, "seeded", "*", "meta.json"))):
    try:
        m = json.load(open(f))
        m["_dir"] = os.path.basename(os.path.dirname(f))
        metas.append(m)
    except Exception as e:  # noqa
        print(f"<!-- unreadable {f}: {e} -->")

print("## 10. Seeded changes from independent sub-agents: which check catches which change\n")
print("Each change below was written by a fresh sub-agent that saw only the text of one property and its own")
print("scratch worktree of `/repo` (nothing from `/verif`). A change is kept only after it was confirmed here:")
print("it compiles, the whole existing suite passes with it, and its demonstration test fails with the change and")
print("passes without. `seeded/<id>/` holds `patch.diff`, the demonstration and `meta.json`. To replay:")
print("`git -C /repo apply /verif/seeded/<id>/patch.diff; /verif/bin/hdrcheck -property Cxx; git -C /repo checkout -- .`\n")
if not metas:
    print("*(no seeded change has been confirmed yet)*\n")
else:
    caught = sum(1 for m in metas if m.get("detected"))
    print(f"Confirmed changes: {len(metas)}; reported by the checks: {caught}; missed: {len(metas) - caught}.\n")
    print("| id | property | what the change does | needs, to manifest | verdict of the checks |")
    print("|---|---|---|---|---|")
    for m in metas:
        det = m.get("detected_by") or []
        verdict = "**caught**: " + ", ".join(f"`{d}`" for d in det[:4]) if m.get("detected") else "**missed** — " + m.get("missed_reason", "")
        others = [p for p in m.get("properties_reporting", []) if p != m.get("property")]
        if others:
            verdict += " (also reported under " + ", ".join(others) + ")"
        if m.get("detected") and m.get("note"):
            verdict += " — " + m["note"]
        print(f"| {m['_dir']} | {m.get('property','')} | {m.get('summary','')} | {m.get('needs','')} | {verdict} |")
    print()
    missed = [m for m in metas if not m.get("detected")]
    if missed:
        print("Missed changes are kept: they mark the boundary of what the structural clauses cover.\n")
