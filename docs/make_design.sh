#!/bin/sh
# Assembles /verif/DESIGN.md: hand-written head and tail + the generated per-property section
# (from the rule registry and a live run on /repo) + the table of seeded changes (from seeded/*/meta.json).
set -e
cd "$(dirname "$0")/.."
{
  cat docs/DESIGN.head.md
  bin/hdrcheck -describe
  cat docs/DESIGN.tail.md
  python3 docs/seeded_table.py
} > DESIGN.md.new
mv DESIGN.md.new DESIGN.md
echo "DESIGN.md: $(wc -c < DESIGN.md) bytes"
