package selftest

// Finding F27 re-introduced (a waiting look-up under a read transaction opened before it), and equivalents.
func init() {
	const st = "store/store.go"
	const fixed = "\th, err := s.GetByHeight(ctx, to-1)\n\tif err != nil {\n\t\treturn nil, err\n\t}\n\n\tctx, done := s.withReadTransaction(ctx)\n\tdefer done()\n"
	add(
		Variant{Prop: "C12", Name: "f27-range-read-waits-under-its-read-transaction", File: st, Expect: "C12.a",
			Old: fixed, New: "\tctx, done := s.withReadTransaction(ctx)\n\tdefer done()\n\n\th, err := s.GetByHeight(ctx, to-1)\n\tif err != nil {\n\t\treturn nil, err\n\t}\n"},
		Variant{Prop: "C12", Name: "f27-transaction-opened-by-the-public-range-read", File: st, Expect: "C12.a",
			Old: "\treturn s.getRangeByHeight(ctx, from, to)\n}\n\nfunc (s *Store[H]) getRangeByHeight(", New: "\tctx, done := s.withReadTransaction(ctx)\n\tdefer done()\n\treturn s.getRangeByHeight(ctx, from, to)\n}\n\nfunc (s *Store[H]) getRangeByHeight("},
		Variant{Prop: "C12", Name: "benign-f27-transaction-context-under-its-own-name", File: st,
			Old: fixed + "\n\tln := to - from\n\theaders := make([]H, ln)\n\tfor i := ln - 1; i > 0; i-- {\n\t\theaders[i] = h\n\t\th, err = s.Get(ctx, h.LastHeader())",
			New: "\th, err := s.GetByHeight(ctx, to-1)\n\tif err != nil {\n\t\treturn nil, err\n\t}\n\n\ttxCtx, done := s.withReadTransaction(ctx)\n\tdefer done()\n\n\tln := to - from\n\theaders := make([]H, ln)\n\tfor i := ln - 1; i > 0; i-- {\n\t\theaders[i] = h\n\t\th, err = s.Get(txCtx, h.LastHeader())"},
		Variant{Prop: "C12", Name: "benign-f27-transaction-open-but-the-wait-gets-the-callers-context", File: st,
			Old: fixed, New: "\ttxCtx, done := s.withReadTransaction(ctx)\n\tdefer done()\n\n\th, err := s.GetByHeight(ctx, to-1)\n\tif err != nil {\n\t\treturn nil, err\n\t}\n\tctx = txCtx\n"},
	)
}
