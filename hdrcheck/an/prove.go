package an

import (
	"go/token"
	"go/types"

	"golang.org/x/tools/go/ssa"
)

// PhiIneqs derives simple loop invariants for integer phis: when every back
// edge adds a non-negative (resp. non-positive) constant to the phi itself, the
// phi never drops below (resp. rises above) its initial values.
func (ff *FuncFacts) PhiIneqs() []*Affine {
	if ff.phiIneqs != nil {
		return ff.phiIneqs
	}
	out := []*Affine{}
	t := ff.T
	for _, b := range ff.Fn.Blocks {
		for _, in := range b.Instrs {
			ph, ok := in.(*ssa.Phi)
			if !ok {
				break
			}
			if !isIntegral(ph.Type()) {
				continue
			}
			self := t.Affine(ph)
			var inits []*Affine
			up, down, okShape := true, true, true
			for i, e := range ph.Edges {
				pred := b.Preds[i]
				if ff.Dominates(b, pred) { // back edge
					d := t.Affine(e).Sub(self)
					if !d.IsConst() {
						okShape = false
						break
					}
					if d.C < 0 {
						up = false
					}
					if d.C > 0 {
						down = false
					}
				} else {
					inits = append(inits, t.Affine(e))
				}
			}
			if !okShape || len(inits) == 0 || len(inits) == len(ph.Edges) {
				continue // not a loop-carried phi
			}
			for _, init := range inits {
				if up {
					out = append(out, self.Sub(init)) // phi >= init
				}
				if down {
					out = append(out, init.Sub(self)) // phi <= init
				}
			}
		}
	}
	ff.phiIneqs = out
	return out
}

// ProveGE proves x - y >= k at block b from the dominating facts, loop
// invariants of monotone phis and extra facts.
func (ff *FuncFacts) ProveGE(b *ssa.BasicBlock, x, y *Affine, k int64, extra ...Fact) bool {
	fs := append(append(FactSet{}, ff.AtRefined(b)...), extra...)
	// in a loop-free function every term denotes one value, so the facts that
	// hold at b may be assumed while looking for more facts: a join in front of
	// b keeps the facts of the one branch that is consistent with them.
	if !ff.hasLoop() && len(ff.removed) == 0 && len(fs) > 0 {
		if pf := ff.Prune(fs...); pf.Reachable(b) {
			for _, f := range pf.AtRefined(b) {
				if !fs.Has(f) {
					fs = append(fs, f)
				}
			}
		}
	}
	fs = append(fs, ff.Assume...)
	for _, im := range ff.Implications {
		if fs.Has(im.If) {
			fs = append(fs, im.Then...)
		}
	}
	g := x.Sub(y)
	g.C -= k
	return ff.proveCore(fs, b, g)
}

// Implication is a conditional fact supplied by a rule (a callee postcondition
// that was itself established as an obligation): wherever If holds, Then holds.
type Implication struct {
	If   Fact
	Then FactSet
}

// proveCore proves g >= 0 from fs (and, when b is given, from facts that hold at b).
func (ff *FuncFacts) proveCore(fs FactSet, b *ssa.BasicBlock, g *Affine) bool {
	return ff.proveSplit(fs, b, g, 3)
}

func (ff *FuncFacts) proveSplit(fs FactSet, b *ssa.BasicBlock, g *Affine, depth int) bool {
	if depth <= 0 {
		return false
	}
	known := append(ff.T.ineqs(fs), ff.PhiIneqs()...)
	if b != nil {
		known = append(known, ff.usubIneqs(b)...)
	}
	// integer division by a positive constant: for x ≥ 0 and q = x/k:  k·q ≤ x ≤ k·q + (k−1)
	for s, q := range ff.T.quot {
		if _, used := g.Co[s]; !used {
			continue
		}
		x := ff.T.Affine(q.X)
		if !proveGE0(x, known, 3) {
			continue
		}
		kq := newAffine()
		kq.Co[s] = q.K
		known = append(known, x.Sub(kq))
		up := kq.Sub(x)
		up.C += q.K - 1
		known = append(known, up)
	}
	if proveGE0(g, known, 4) {
		return true
	}
	// min(a,b,…) in the goal: m equals one of its arguments and is ≤ each of them.
	for term, co := range g.Co {
		if len(term) < 5 || (term[:4] != "min(" && term[:4] != "max(") {
			continue
		}
		call := ff.builtinByTerm(term)
		if call == nil {
			continue
		}
		sign := co
		if term[:4] == "max(" {
			sign = -co // max(a,b) = −min(−a,−b): the roles of "all" and "any" swap
		}
		okAll, okAny := true, false
		for _, a := range call.Call.Args {
			g2 := g.clone()
			delete(g2.Co, term)
			g2 = g2.addScaled(ff.T.Affine(a), co)
			if ff.proveSplit(fs, b, g2, depth-1) {
				okAny = true
			} else {
				okAll = false
			}
		}
		if (sign > 0 && okAll) || (sign < 0 && okAny) {
			return true
		}
	}
	// case split on a merge phi occurring in the goal: prove the goal for every
	// incoming edge with the edge's value substituted and the edge's facts added.
	for term, co := range g.Co {
		ph := ff.phiByTerm(term)
		if ph == nil || b == nil || !ff.Dominates(ph.Block(), b) {
			continue
		}
		loop := false
		for i := range ph.Edges {
			if ff.Dominates(ph.Block(), ph.Block().Preds[i]) {
				loop = true
			}
		}
		if loop {
			continue
		}
		all := true
		n := 0
		for i, e := range ph.Edges {
			pred := ph.Block().Preds[i]
			if !ff.Reachable(pred) {
				continue
			}
			n++
			g2 := g.clone()
			delete(g2.Co, term)
			g2 = g2.addScaled(ff.T.Affine(e), co)
			fs2 := append(append(FactSet{}, fs...), ff.EdgeFacts(pred, ph.Block())...)
			if !ff.proveSplit(fs2, b, g2, depth-1) {
				all = false
				break
			}
		}
		if all && n > 0 {
			return true
		}
	}
	return false
}

func (ff *FuncFacts) builtinByTerm(term string) *ssa.Call {
	var out *ssa.Call
	Instrs(ff.Fn, func(in ssa.Instruction) {
		if c, ok := in.(*ssa.Call); ok && out == nil {
			if _, isB := c.Call.Value.(*ssa.Builtin); isB && ff.T.Of(c) == term {
				out = c
			}
		}
	})
	return out
}

func (ff *FuncFacts) phiByTerm(term string) *ssa.Phi {
	if len(term) < 5 || term[:4] != "phi@" {
		return nil
	}
	for _, b := range ff.Fn.Blocks {
		for _, in := range b.Instrs {
			ph, ok := in.(*ssa.Phi)
			if !ok {
				break
			}
			if ff.T.Of(ph) == term {
				return ph
			}
		}
	}
	return nil
}

// usubIneqs: every unsigned subtraction X-Y executed in a block that strictly
// dominates b did not wrap (that is its own obligation, reported separately:
// assume-guarantee), hence X-Y >= 0 may be used at b.
func (ff *FuncFacts) usubIneqs(b *ssa.BasicBlock) []*Affine {
	var out []*Affine
	for _, blk := range ff.Fn.Blocks {
		if blk == b || !ff.Dominates(blk, b) {
			continue
		}
		for _, in := range blk.Instrs {
			if bo, ok := in.(*ssa.BinOp); ok && bo.Op == token.SUB && isUnsigned(bo.Type()) {
				out = append(out, ff.T.Affine(bo.X).Sub(ff.T.Affine(bo.Y)))
			}
		}
	}
	return out
}

// ProveGEFacts is ProveGE with an explicit fact set.
func (ff *FuncFacts) ProveGEFacts(fs FactSet, x, y *Affine, k int64) bool {
	g := x.Sub(y)
	g.C -= k
	return ff.proveCore(fs, nil, g)
}

// Const builds a constant affine form.
func Const(k int64) *Affine {
	a := newAffine()
	a.C = k
	return a
}

// Var builds the affine form of one opaque (non-negative if nonNeg) term.
func Var(term string, nonNeg bool) *Affine {
	a := newAffine()
	a.Co[term] = 1
	if nonNeg {
		a.NonNeg[term] = true
	}
	return a
}

// LenOf returns the affine form of len(x).
func (t *Terms) LenOf(x ssa.Value) *Affine {
	if ms, ok := x.(*ssa.MakeSlice); ok {
		return t.Affine(ms.Len) // len(make([]T, n)) == n
	}
	return Var("len("+t.Of(x)+")", true)
}

// ArithVerdict is the outcome for one arithmetic site.
type ArithVerdict struct {
	Site ArithSite
	OK   bool
	Why  string // how it was discharged, or what is not bounded
}

// DischargeArith tries to discharge every arithmetic site of fn from guard facts.
// nonZero is an optional oracle for divisors (validated parameters).
func DischargeArith(ff *FuncFacts, nonZero func(term string) (bool, string)) []ArithVerdict {
	t := ff.T
	var out []ArithVerdict
	for _, s := range ArithSites(t) {
		b := s.Instr.Block()
		if !ff.Reachable(b) {
			continue
		}
		v := ArithVerdict{Site: s}
		switch s.Kind {
		case "usub":
			if ff.ProveGE(b, t.Affine(s.X), t.Affine(s.Y), 0) {
				v.OK, v.Why = true, "guard facts prove "+t.Of(s.Y)+" <= "+t.Of(s.X)
			} else {
				v.Why = "no dominating guard bounds " + t.Of(s.Y) + " <= " + t.Of(s.X) + " (unsigned subtraction can wrap)"
			}
		case "div":
			fs := ff.At(b)
			if t.ProveNonZero(fs, s.Y) {
				v.OK, v.Why = true, "guard facts prove the divisor non-zero"
			} else if nonZero != nil {
				if ok, why := nonZero(t.Of(s.Y)); ok {
					v.OK, v.Why = true, why
				}
			}
			if !v.OK {
				v.Why = "divisor " + t.Of(s.Y) + " is not proven non-zero by a local guard or a validated-parameter invariant"
			}
		case "conv":
			if ff.ProveGE(b, t.Affine(s.X), Const(0), 0) {
				v.OK, v.Why = true, "operand proven non-negative"
			} else if q, ok := s.X.(*ssa.BinOp); ok && q.Op == token.QUO &&
				ff.ProveGE(b, t.Affine(q.X), Const(0), 0) && ff.ProveGE(b, t.Affine(q.Y), Const(1), 0) {
				v.OK, v.Why = true, "quotient of a non-negative dividend and a positive divisor"
			} else {
				v.Why = "signed operand " + t.Of(s.X) + " of an unsigned conversion is not proven non-negative"
			}
		case "uwrap":
			if ff.ProveGE(b, Const(0), t.Affine(s.X), 0) {
				v.OK, v.Why = true, "the other operand is proven zero"
			} else {
				v.Why = s.Desc + ": the result wraps around whenever " + t.Of(s.X) + " is not zero, and every bound proven about it afterwards is about the wrapped value"
			}
		case "sconv":
			cv := s.Instr.(*ssa.Convert)
			hi := ff.ProveGE(b, Const(convMax(cv.Type())), t.Affine(s.X), 0)
			lo := isUnsigned(cv.X.Type()) || ff.ProveGE(b, t.Affine(s.X), Const(-convMax(cv.Type())-1), 0)
			if hi && lo {
				v.OK, v.Why = true, "operand proven within the range of the result type"
			} else {
				v.Why = "a decision depends on " + s.Desc + " and " + t.Of(s.X) + " is not proven to fit the result type (the conversion can change the value)"
			}
		case "makesize":
			if ff.ProveGE(b, t.Affine(s.X), Const(0), 0) {
				v.OK, v.Why = true, "size proven non-negative"
			} else {
				v.Why = "allocation size " + t.Of(s.X) + " is not proven non-negative"
			}
		case "index":
			ln := t.LenOf(s.X)
			if arr, ok := deref(s.X.Type()).Underlying().(*types.Array); ok {
				ln = Const(arr.Len())
			}
			lo := ff.ProveGE(b, t.Affine(s.Y), Const(0), 0)
			hi := ff.ProveGE(b, ln, t.Affine(s.Y), 1)
			if lo && hi {
				v.OK, v.Why = true, "0 <= index < len proven"
			} else {
				v.Why = "index " + t.Of(s.Y) + " not proven within [0,len(" + t.Of(s.X) + "))"
			}
		case "slice":
			sl := s.Instr.(*ssa.Slice)
			ln := t.LenOf(sl.X)
			if arr, ok := deref(sl.X.Type()).Underlying().(*types.Array); ok {
				ln = Const(arr.Len())
			}
			okAll := true
			lo, hi := Const(0), ln
			if sl.Low != nil {
				lo = t.Affine(sl.Low)
				okAll = okAll && ff.ProveGE(b, lo, Const(0), 0)
			}
			if sl.High != nil {
				hi = t.Affine(sl.High)
				// high <= cap; we only know len, which is <= cap
				okAll = okAll && ff.ProveGE(b, ln, hi, 0)
			}
			okAll = okAll && ff.ProveGE(b, hi, lo, 0)
			if okAll {
				v.OK, v.Why = true, "0 <= low <= high <= len proven"
			} else {
				v.Why = "slice bounds of " + t.Of(sl) + " not proven"
			}
		}
		out = append(out, v)
	}
	return out
}
