package selftest

// Finding F32 re-introduced (the far estimate of the window search not compared with the current tail), and equivalents.
func init() {
	const tl = "sync/syncer_tail.go"
	const guard = "\t\tif estimatedTailHeight <= oldTail.Height() {\n"
	add(
		Variant{Prop: "C16", Name: "f32-far-estimate-not-compared-with-the-current-tail", File: tl, Expect: "C16.c",
			Old: guard, New: "\t\tif false && estimatedTailHeight <= oldTail.Height() {\n"},
		Variant{Prop: "C16", Name: "f32-far-estimate-compared-with-the-wrong-bound", File: tl, Expect: "C16.c",
			Old: guard, New: "\t\tif estimatedTailHeight <= 1 {\n"},
		Variant{Prop: "C16", Name: "benign-f32-guard-commuted", File: tl,
			Old: guard, New: "\t\tif oldTail.Height() >= estimatedTailHeight {\n"},
	)
}
