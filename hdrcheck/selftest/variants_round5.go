package selftest

// Variants for the clauses of the fifth seeding round (new file: one place for the round).
func init() {
	const ss = "sync/sync_store.go"
	const rg = "sync/ranges.go"
	add(
		Variant{Prop: "C03", Name: "seed-head-cache-moved-after-the-store-append", File: ss, Expect: "C03.c",
			Old: "\t\t\thead = h\n\t\t}\n\n\t\ts.head.Store(&head)\n\t}\n\n\tif err := s.Store.Append(ctx, headers...); err != nil {\n\t\t// nothing was handed to the Store: the cached head must not stay on headers that are not there\n\t\t// (the swap does nothing unless the cache still holds what was stored above)\n\t\ts.head.CompareAndSwap(&head, prev)\n\t\treturn err\n\t}\n\n\treturn nil\n}",
			New: "\t\t\thead = h\n\t\t}\n\t}\n\n\tif err := s.Store.Append(ctx, headers...); err != nil {\n\t\t_ = prev\n\t\treturn err\n\t}\n\n\tif headers[0].Height() >= head.Height() {\n\t\ts.head.Store(&head)\n\t}\n\treturn nil\n}"},
		Variant{Prop: "C03", Name: "seed-pending-range-shifted-in-place", File: rg, Expect: "C03.g",
			Old: "\tr.headers = r.headers[amnt:]\n", New: "\tn := copy(r.headers, r.headers[amnt:])\n\tr.headers = r.headers[:n]\n"},
		Variant{Prop: "C03", Name: "pending-range-element-overwritten", File: rg, Expect: "C03.g",
			Old: "func (r *headerRange[H]) Append(h ...H) {\n\tr.lk.Lock()\n", New: "func (r *headerRange[H]) Append(h ...H) {\n\tr.lk.Lock()\n\tif len(r.headers) > 0 && len(h) > 0 && r.headers[len(r.headers)-1].Height() == h[0].Height() {\n\t\tr.headers[len(r.headers)-1] = h[0]\n\t\th = h[1:]\n\t}\n"},
		Variant{Prop: "C03", Name: "benign-pending-range-remove-by-clone", File: rg,
			Old: "\tr.headers = r.headers[amnt:]\n", New: "\tr.headers = append([]H(nil), r.headers[amnt:]...)\n"},
	)
}
