package rules

import (
	"go/token"
	"go/types"
	"sort"
	"strings"

	"golang.org/x/tools/go/ssa"

	"hdrcheck/an"
)

// Error discipline ("a step that failed is never reported as success"): for a
// function fn that returns an error and every call in it that yields an error
// which fn looks at, assume the call failed (its error ≠ nil, assumption pruning)
// and follow the CFG from the call: no return of fn whose error is nil may be
// reachable, unless the error was classified on the way (errors.Is / errors.As
// on that very value holds on the path: a tolerated, named outcome such as
// "not found"). An error that fn discards explicitly (`_`) or only hands to a
// logger is not "looked at" and is outside the rule; the properties list those
// sites where they matter.
//
// The rule is what makes "DeleteRange returned nil", "Append returned nil",
// "the flush returned nil" mean that every datastore step behind it succeeded.
type errFlowException struct {
	Func   string // function name
	Callee string // substring of the failing call's term
	Reason string
}

type errSpec struct {
	id       string
	prefixes []string
	min      int // fallible steps confirmed on the pinned tree
	why      string
}

// errTable attaches the error-discipline rule to the clause of each property that says
// "…returned nil ⇒ it happened" (or "a failure is reported, not swallowed").
var errTable = map[string][]errSpec{
	"C01": {{"C01.c", []string{"header.Verify", "header.verify"}, 1, "Verify returning nil means every check passed"}},
	"C02": {{"C02.c", []string{"header.VerifyRange"}, 1, "VerifyRange returning nil means every element verified"}},
	"C03": {{"C03.f", []string{"sync.(*Syncer).incomingNetworkHead", "sync.(*Syncer).verify"}, 2, "a head is accepted only when its verification returned nil"}},
	"C04": {{"C04.a", []string{"store.(*Store).Get", "store.(*Store).get", "store.(*Store).Has", "store.(*Store).Head", "store.(*Store).Tail", "store.(*Store).Append", "store.(*heightIndexer).HashByHeight"}, 7, "a lookup returning nil returned a stored header"}},
	"C05": {{"C05.a", []string{"p2p.(*Exchange).GetRangeByHeight", "p2p.(*session).getRangeByHeight", "p2p.(*session).processResponses", "p2p.(*session).verify", "p2p.processResponses"}, 3, "a range returned without error was verified"}},
	"C06": {{"C06.a", []string{"store.(*Store).flush", "store.writeHeaderHashTo", "store.indexTo", "store.(*Store).readByKey", "store.(*Store).init", "store.(*Store).Start", "store.(*Store).Stop", "store.(*Store).Sync"}, 8, "a flush/start returning nil wrote/loaded everything"}},
	"C07": {{"C07.c", []string{"sync.(*syncStore).Append", "sync.(*Syncer).processHeaders", "sync.(*Syncer).requestHeaders", "sync.(*Syncer).doSync", "sync.(*Syncer).Start"}, 4, "a sync round reporting success stored what it fetched"}},
	"C08": {{"C08.c", []string{"store.(*Store).DeleteRange", "store.(*Store).deleteRangeRaw", "store.(*Store).deleteSequential", "store.(*Store).deleteParallel", "store.(*Store).deleteSingle", "store.(*Store).setTail", "store.(*Store).setHead", "store.(*Store).wipe"}, 10, "DeleteRange returning nil means every deletion and pointer step succeeded"}},
	"C10": {{"C10.d", []string{"p2p.(*ExchangeServer).handle"}, 2, "the server answers OK only when the store read succeeded"}},
	"C11": {{"C11.b", []string{"p2p.(*Subscriber).extractHeader"}, 1, "a header handed to the verifier was decoded and validated"}},
	"C12": {{"C12.a", []string{"store.(*Store).GetByHeight", "store.(*heightSub).Wait"}, 2, "a by-height read returning nil found the header"}},
	"C13": {{"C13.d", []string{"p2p.(*Exchange).Get", "p2p.(*Exchange).GetByHeight", "p2p.(*Exchange).request", "p2p.(*Exchange).performRequest"}, 3, "a request returning nil carries validated headers"}},
	"C14": {{"C14.b", []string{"store.(*Store).deleteSingle", "store.(*Store).OnDelete"}, 2, "the per-height step returning nil ran every handler and every removal"}},
	"C15": {{"C15.d", []string{"sync.(*Syncer).verifyBifurcating"}, 1, "the bifurcation returning nil verified its whole chain"}},
	"C16": {{"C16.c", []string{"sync.(*Syncer).subjectiveTail", "sync.(*Syncer).renewTail", "sync.(*Syncer).moveTail", "sync.(*Syncer).tailHeight", "sync.(*Syncer).findTailHeight", "sync.(*Syncer).tailHash"}, 8, "a tail renewal returning nil resolved, stored and moved to the new tail"}},
	"C18": {{"C18.e", []string{"p2p.sendMessage", "p2p.(*session).getRangeByHeight"}, 2, "a response list returned without error was read completely"}},
	"C19": {{"C19.b", []string{"sync.(*Syncer).Head", "sync.(*Syncer).subjectiveHead", "sync.(*Syncer).networkHead", "sync.(*Syncer).localHead"}, 4, "Head() failing is reported; tolerated request failures are named"}},
}

var errExceptions = []errFlowException{
	{"p2p.sendMessage", "invoke:Close", "a failed Close of a stream whose responses were all read is only logged: the request itself succeeded"},
	{"p2p.sendMessage", "invoke:SetDeadline", "a failed SetDeadline is only logged: the request proceeds without a stream deadline, the request context still bounds it"},
	{"p2p.sendMessage", "invoke:SetReadDeadline", "the same step written for the read side only (C18.e read-side-deadline requires that it is there)"},
	{"p2p.sendMessage", "invoke:SetWriteDeadline", "the same step written for the write side only"},
	{"sync.(*Syncer).networkHead", "syncHead[H]).Head#1", "by design (C19.b failed-request-keeps-head): when the request for a more recent head fails, the current subjective head is returned with a nil error"},
	{"sync.(*Syncer).networkHead", "incomingNetworkHead", "by design (C19.b): a refused soft-failing head leaves the subjective head unchanged, returned with a nil error"},
	{"sync.(*Syncer).Head", "incomingNetworkHead", "by design: whether the candidate was adopted does not matter to the caller as long as the head re-read afterwards is valid — C19.b expired-head-not-returned requires that it is handed out with a nil error only when it is not expired"},
	{"sync.(*Syncer).Start$1", "subjectiveTail", "by design: the gossip validator triggers pruning lazily; a failed tail renewal is logged and does not invalidate the head that was just verified and adopted"},
	{"sync.(*Syncer).subjectiveHead", "localHead#1", "the `expired` case is tested first; localHead returns the zero header with every error and a zero header is never expired (C19.d zero-not-expired), so a failed read cannot take that branch"},
}

// useExceptions: sites that use the value of a call whose error may be non-nil, by design.
var useExceptions = []errFlowException{
	{"p2p.(*session).doRequest", "sendMessage", "by design (C18.b partial-still-delivered): the responses received before a stream failure are still processed"},
	{"sync.(*Syncer).networkHead", "syncHead[H]).Head", "by design (C15): a head that only failed verification softly is handed to the bifurcation"},
	{"sync.(*Syncer).subjectiveHead", "localHead", "the expiry of the (possibly zero) local head is tested before its error: a zero header is never expired (C19.d zero-not-expired)"},
}

func runErrTable(prop string, c *an.Ctx) {
	for _, es := range errTable[prop] {
		n := checkErrorDiscipline(c, es.id, errExceptions, funcsNamed(c.P, es.prefixes...)...)
		c.Min(es.id, "fallible steps under error discipline ("+es.why+")", n, es.min)
	}
}

func errIndex(tp types.Type) (int, bool) {
	if tup, ok := tp.(*types.Tuple); ok {
		for i := tup.Len() - 1; i >= 0; i-- {
			if an.IsErrorType(tup.At(i).Type()) {
				return i, true
			}
		}
		return 0, false
	}
	if an.IsErrorType(tp) {
		return -1, true
	}
	return 0, false
}

// checkErrorDiscipline returns the number of (function, fallible call) pairs examined.
func checkErrorDiscipline(c *an.Ctx, id string, exceptions []errFlowException, fns ...*ssa.Function) int {
	n := 0
	for _, fn := range fns {
		if fn == nil || fn.Blocks == nil {
			continue
		}
		res := fn.Signature.Results()
		if res.Len() == 0 || !an.IsErrorType(res.At(res.Len()-1).Type()) {
			continue
		}
		t, ff := c.T(fn), c.F(fn)
		an.Instrs(fn, func(in ssa.Instruction) {
			call, isCall := in.(*ssa.Call)
			if !isCall {
				return
			}
			idx, has := errIndex(call.Type())
			if !has {
				return
			}
			errTerm := t.Of(call)
			var errVal ssa.Value = call
			if idx >= 0 {
				errTerm = t.Of(call) + "#" + itoa(idx)
				errVal = nil
				for _, ref := range *call.Referrers() {
					if ex, isEx := ref.(*ssa.Extract); isEx && ex.Index == idx {
						errVal = ex
					}
				}
			}
			// looked at? (some non-debug referrer)
			used := false
			if errVal != nil {
				for _, ref := range *errVal.Referrers() {
					if _, isDbg := ref.(*ssa.DebugRef); !isDbg {
						used = true
					}
				}
			}
			// … or the error is assigned to a named variable that is simply never read (the guard behind
			// the call was dropped): only `_` is a deliberate discard
			if !used && fn.Pkg != nil && len(c.P.AssignTargets(call)) > 0 {
				k := idx
				if k < 0 {
					k = 0
				}
				used = c.P.NamedTarget(call, k)
			}
			if !used {
				return
			}
			// constructors of error values are not fallible steps
			full := an.StaticFullName(&call.Call)
			if full == "fmt.Errorf" || full == "errors.New" || full == "errors.Join" || strings.HasPrefix(full, "context.Cause") || strings.HasSuffix(full, ".Err") {
				return
			}
			if call.Call.IsInvoke() && (call.Call.Method.Name() == "Err" || call.Call.Method.Name() == "Unwrap") {
				return
			}
			n++
			key := "error-discipline:" + an.FuncName(fn) + ":" + an.Stable(errTerm)
			for _, ex := range exceptions {
				if ex.Func == an.FuncName(fn) && strings.Contains(an.Stable(errTerm), ex.Callee) {
					c.Ok(id, key, "a failed step is never reported as success (named exception: "+ex.Reason+")", fn, call, "exception", nil)
					return
				}
			}
			pr := ff.Prune(an.NE(errTerm, "nil"))
			// walk the pruned CFG from the call; a block in which the error is known to be
			// classified (errors.Is/As on that value holds) ends the walk: from there on the
			// outcome is a deliberate, named one
			// (the test may be applied to the error itself or to a variable that carries it on this path)
			isClass := func(fs an.FactSet, carried map[ssa.Value]bool) bool {
				terms := []string{errTerm}
				for v := range carried {
					terms = append(terms, t.Of(v))
				}
				for _, f := range fs {
					if f.Op != "B" || !f.Pos {
						continue
					}
					for _, tm := range terms {
						if strings.HasPrefix(f.A, "errors.Is("+tm+",") || strings.HasPrefix(f.A, "As("+tm+",") {
							return true
						}
					}
				}
				return false
			}
			classified := func(b *ssa.BasicBlock, carried map[ssa.Value]bool) bool {
				return isClass(pr.AtRefined(b), carried)
			}
			classifiedEdge := func(from, to *ssa.BasicBlock, carried map[ssa.Value]bool) bool {
				return isClass(pr.EdgeFacts(from, to), carried)
			}
			// the walk is path-sensitive in one respect: a phi that merges the failed error itself
			// is known to be non-nil on the path that carries it (the `err = f(); … if err != nil` idiom
			// with an intermediate re-assignment on another branch)
			var bad *ssa.Return
			var badUse ssa.Instruction
			vals := map[ssa.Value]bool{} // the other results of the failed call, and what carries them on the failing path
			valAllocs := map[*ssa.Alloc]bool{}
			if idx >= 0 && call.Referrers() != nil {
				for _, ref := range *call.Referrers() {
					if ex, isEx := ref.(*ssa.Extract); isEx && ex.Index != idx {
						if _, isBasic := ex.Type().Underlying().(*types.Basic); !isBasic {
							vals[ex] = true
						}
					}
				}
			}
			seen := map[string]bool{}
			// nils: error-typed phis known to be nil on the current path (their operand on the
			// edge taken is the nil constant): `rerr` accumulators that were not assigned
			var walk func(b, from *ssa.BasicBlock, carried, nils map[ssa.Value]bool)
			walk = func(b, from *ssa.BasicBlock, carried, nils map[ssa.Value]bool) {
				if from != nil {
					if !pr.Reachable(b) || classified(b, carried) {
						return
					}
					// phis of b: which of them carry the failed error on this edge
					next := map[ssa.Value]bool{}
					nextNil := map[ssa.Value]bool{}
					idx := -1
					for i, p := range b.Preds {
						if p == from {
							idx = i
						}
					}
					for _, ins := range b.Instrs {
						ph, isPhi := ins.(*ssa.Phi)
						if !isPhi {
							break
						}
						if idx >= 0 && (ph.Edges[idx] == errVal || carried[ph.Edges[idx]]) {
							next[ph] = true
						}
						if idx >= 0 && an.IsErrorType(ph.Type()) && (isNilConst(ph.Edges[idx]) || nils[ph.Edges[idx]]) {
							nextNil[ph] = true
						}
					}
					for v := range carried {
						if _, redefined := next[v]; !redefined && !nextNil[v] {
							next[v] = true
						}
					}
					for v := range nils {
						if ph, isPhi := v.(*ssa.Phi); isPhi && ph.Block() == b {
							continue // re-evaluated above
						}
						nextNil[v] = true
					}
					carried, nils = next, nextNil
					k := itoa(b.Index) + ":"
					for _, ins := range b.Instrs {
						if ph, isPhi := ins.(*ssa.Phi); isPhi && carried[ph] {
							k += ph.Name() + ","
						}
					}
					k += "|"
					var nk []string
					for v := range nils {
						nk = append(nk, v.Name())
					}
					sort.Strings(nk)
					k += strings.Join(nk, ",")
					if seen[k] {
						return
					}
					seen[k] = true
				}
				// uses of the failed call's other results on this (failing, unclassified) path
				started := from != nil
				for _, ins := range b.Instrs {
					if !started {
						started = ins == ssa.Instruction(call)
						continue
					}
					if ph, isPhi := ins.(*ssa.Phi); isPhi {
						if from != nil {
							for i, p := range b.Preds {
								if p == from && vals[ph.Edges[i]] {
									vals[ph] = true
								}
							}
						}
						continue
					}
					if ld, isLd := ins.(*ssa.UnOp); isLd && ld.Op == token.MUL {
						if al, isAl := ld.X.(*ssa.Alloc); isAl && valAllocs[al] {
							vals[ld] = true
							continue
						}
					}
					uses := false
					for _, op := range ins.Operands(nil) {
						if op != nil && *op != nil && vals[*op] {
							uses = true
						}
					}
					if !uses {
						continue
					}
					switch x := ins.(type) {
					case *ssa.DebugRef, *ssa.Extract:
					case *ssa.Store:
						// kept in a local (followed) or put into a structure (not followed: what becomes of the
						// structure on the failing path is the business of the returns)
						if al, isAl := x.Addr.(*ssa.Alloc); isAl && vals[x.Val] {
							valAllocs[al] = true
						}
					case *ssa.Return:
						ev := x.Results[len(x.Results)-1]
						if !(carried[ev] || ev == errVal || (t.ErrShape(ev) != "nil" && !nils[ev])) && badUse == nil {
							badUse = ins
						}
					case *ssa.Call:
						if x.Call.IsInvoke() && x.Call.Method.Name() == "IsZero" && vals[x.Call.Value] {
							continue // asking whether the value is there is not using it
						}
						if strings.HasSuffix(an.StaticFullName(&x.Call), "SugaredLogger).Debugw") || strings.Contains(an.StaticFullName(&x.Call), "zap.SugaredLogger") {
							continue // logging
						}
						if badUse == nil {
							badUse = ins
						}
					case *ssa.MakeInterface, *ssa.ChangeInterface, *ssa.ChangeType, *ssa.Convert, *ssa.Slice:
						vals[x.(ssa.Value)] = true
					default:
						if badUse == nil {
							badUse = ins
						}
					}
				}
				last := b.Instrs[len(b.Instrs)-1]
				if r, isRet := last.(*ssa.Return); isRet {
					ev := r.Results[len(r.Results)-1]
					known := carried[ev] || ev == errVal
					if !known && (nils[ev] || t.ErrShape(ev) == "nil" || pr.AtRefined(b).Has(an.EQ(t.Of(ev), "nil"))) {
						bad = r
					}
				}
				succs := b.Succs
				if iff, isIf := last.(*ssa.If); isIf {
					// `if carried != nil` / `== nil`: only one way out
					if bo, isBO := iff.Cond.(*ssa.BinOp); isBO && isNilConst(bo.Y) {
						nonNil := carried[bo.X] || bo.X == errVal
						isNil := nils[bo.X]
						switch {
						case nonNil && bo.Op.String() == "!=", isNil && bo.Op.String() == "==":
							succs = b.Succs[:1]
						case nonNil && bo.Op.String() == "==", isNil && bo.Op.String() == "!=":
							succs = b.Succs[1:]
						}
					}
				}
				for _, s := range succs {
					if !pr.Removed(b, s) && !classifiedEdge(b, s, carried) {
						walk(s, b, carried, nils)
					}
				}
			}
			if !classified(call.Block(), nil) {
				walk(call.Block(), nil, map[ssa.Value]bool{}, map[ssa.Value]bool{})
			}
			if bad != nil {
				c.Fail(id, key, "a failed step is never reported as success: no nil-error return is reachable after the call once its error is non-nil (unless the error was classified by errors.Is/As)", fn, bad, "nil return reachable after failed "+an.Stable(errTerm), pr.AtRefined(bad.Block()))
			} else {
				c.Ok(id, key, "a failed step is never reported as success: no nil-error return is reachable after the call once its error is non-nil (unless the error was classified by errors.Is/As)", fn, call, "", nil)
			}
			if len(vals) > 0 {
				ukey := "result-use:" + an.FuncName(fn) + ":" + an.Stable(t.Of(call))
				urule := "the value returned by a failed call is not used: on every path on which the call's error is non-nil and unclassified its other results are only handed back together with an error"
				excepted := false
				for _, ex := range useExceptions {
					if ex.Func == an.FuncName(fn) && strings.Contains(an.Stable(t.Of(call)), ex.Callee) {
						c.Ok(id, ukey, urule+" (named exception: "+ex.Reason+")", fn, call, "exception", nil)
						excepted = true
					}
				}
				if !excepted && badUse == nil {
					// a failure that was classified (errors.Is/As) and tolerated still leaves the value
					// results zero: a method invoked on one of them on such a path dereferences nothing
					direct := map[ssa.Value]bool{}
					if call.Referrers() != nil {
						for _, ref := range *call.Referrers() {
							if ex, isEx := ref.(*ssa.Extract); isEx && ex.Index != idx && vals[ex] {
								direct[ex] = true
							}
						}
					}
					seenB := map[*ssa.BasicBlock]bool{}
					var sweep func(b *ssa.BasicBlock, start int)
					sweep = func(b *ssa.BasicBlock, start int) {
						for _, ins := range b.Instrs[start:] {
							if x, isCall := ins.(*ssa.Call); isCall && x.Call.IsInvoke() && direct[x.Call.Value] && x.Call.Method.Name() != "IsZero" && badUse == nil {
								if !pr.AtRefined(b).Has(an.EQ(errTerm, "nil")) && !nonZeroByFailedCallee(c, fn, pr.AtRefined(b), x.Call.Value) {
									badUse = ins
								}
							}
						}
						for _, s := range b.Succs {
							if !seenB[s] && pr.Reachable(s) && !pr.Removed(b, s) {
								seenB[s] = true
								sweep(s, 0)
							}
						}
					}
					for i, ins := range call.Block().Instrs {
						if ins == ssa.Instruction(call) {
							sweep(call.Block(), i+1)
						}
					}
				}
				if !excepted {
					if badUse != nil {
						c.Fail(id, ukey, urule, fn, badUse, "used by `"+badUse.String()+"` at "+c.P.InstrPos(badUse)+" although "+an.Stable(errTerm)+" may be non-nil", pr.AtRefined(badUse.Block()))
					} else {
						c.Ok(id, ukey, urule, fn, call, "", nil)
					}
				}
			}
		})
	}
	return n
}

func isNilConst(v ssa.Value) bool {
	c, ok := v.(*ssa.Const)
	return ok && c.Value == nil
}

// after reports whether b comes after a in the same block.
func after(a, b ssa.Instruction) bool {
	seen := false
	for _, in := range a.Block().Instrs {
		if in == a {
			seen = true
		}
		if in == b {
			return seen
		}
	}
	return false
}
