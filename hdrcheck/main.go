package main

import (
	"fmt"
	"golang.org/x/tools/go/packages"
)

func main() {
	cfg := &packages.Config{Mode: packages.LoadSyntax, Dir: "/repo"}
	pkgs, err := packages.Load(cfg, "./...")
	fmt.Println(len(pkgs), err)
}
