package selftest

func init() {
	const sh = "sync/syncer_head.go"
	add(
		Variant{Prop: "C15", Name: "hard-failures-bifurcate-too", File: sh, Expect: "C15.a",
			Old: "\tif errors.As(err, &verErr) && verErr.SoftFailure {\n\t\t// bifurcate for soft failures only", New: "\tif errors.As(err, &verErr) {\n\t\t// bifurcate for soft failures only"},
		Variant{Prop: "C15", Name: "bifurcate-from-zero-subject", File: sh, Expect: "C15.a",
			Old: "\t\treturn s.verifyBifurcating(ctx, sbjHead, newHead)", New: "\t\treturn s.verifyBifurcating(ctx, newHead, newHead)"},
		Variant{Prop: "C15", Name: "accept-without-reverify", File: sh, Expect: "C15.b",
			Old: "\t\terr = header.Verify(subjHead, newHead)\n\t\tif err == nil {\n\t\t\tlog.Infow(\"bifurcation: confirmed new head\"", New: "\t\terr = header.Verify(subjHead, newHead)\n\t\tif err == nil || diff <= 2 {\n\t\t\tlog.Infow(\"bifurcation: confirmed new head\""},
		Variant{Prop: "C15", Name: "promote-unverified-intermediate", File: sh, Expect: "C15.c",
			Old: "\t\t\tvar verErr *header.VerifyError\n\t\t\tif errors.As(err, &verErr) && !verErr.SoftFailure {\n\t\t\t\treturn err\n\t\t\t}\n\n\t\t\t// candidate failed, go deeper in 1st half.\n\t\t\tdiff /= 2\n\t\t\tcontinue", New: "\t\t\tvar verErr *header.VerifyError\n\t\t\tif errors.As(err, &verErr) && !verErr.SoftFailure {\n\t\t\t\treturn err\n\t\t\t}\n\n\t\t\t// candidate failed, go deeper in 1st half.\n\t\t\tdiff /= 2\n\t\t\tif diff > 1 {\n\t\t\t\tcontinue\n\t\t\t}"},
		Variant{Prop: "C15", Name: "verify-intermediate-against-new-head", File: sh, Expect: "C15.c",
			Old: "\t\tif err := header.Verify(subjHead, candidateHeader); err != nil {", New: "\t\tif err := header.Verify(newHead, candidateHeader); err != nil {"},
		Variant{Prop: "C15", Name: "getter-error-ignored", File: sh, Expect: "C15.d",
			Old: "\t\tcandidateHeader, err := s.getter.GetByHeight(ctx, candidateHeight)\n\t\tif err != nil {\n\t\t\treturn fmt.Errorf(", New: "\t\tcandidateHeader, err := s.getter.GetByHeight(ctx, candidateHeight)\n\t\tif err != nil && diff > 2 {\n\t\t\treturn fmt.Errorf("},
		Variant{Prop: "C15", Name: "hard-intermediate-continues", File: sh, Expect: "C15.d",
			Old: "\t\t\tif errors.As(err, &verErr) && !verErr.SoftFailure {\n\t\t\t\treturn err\n\t\t\t}", New: "\t\t\tif errors.As(err, &verErr) && !verErr.SoftFailure {\n\t\t\t\tlog.Warnw(\"hard\", \"err\", err)\n\t\t\t}"},
		Variant{Prop: "C15", Name: "exhausted-search-accepts", File: sh, Expect: "C15.d",
			Old: "\t\t\treturn fmt.Errorf(\"bifurcation: new head failed: %w\", err)", New: "\t\t\treturn nil"},
		Variant{Prop: "C15", Name: "distance-not-halved", File: sh, Expect: "C15.e",
			Old: "\t\t\t// candidate failed, go deeper in 1st half.\n\t\t\tdiff /= 2\n\t\t\tcontinue", New: "\t\t\t// candidate failed, go deeper in 1st half.\n\t\t\tcontinue"},
		Variant{Prop: "C15", Name: "exit-test-removed", File: sh, Expect: "C15.e",
			Old: "\t\tif diff <= 1 {\n\t\t\ts.metrics.failedBifurcation", New: "\t\tif diff == 0 {\n\t\t\ts.metrics.failedBifurcation"},
		Variant{Prop: "C15", Name: "candidate-at-full-distance", File: sh, Expect: "C15.e",
			Old: "\t\tcandidateHeight := subjHeight + diff/2", New: "\t\tcandidateHeight := subjHeight + diff"},
		// benign
		Variant{Prop: "C15", Name: "benign-exit-test-lt2", File: sh,
			Old: "\t\tif diff <= 1 {\n\t\t\ts.metrics.failedBifurcation", New: "\t\tif 1 >= diff {\n\t\t\ts.metrics.failedBifurcation"},
		Variant{Prop: "C15", Name: "benign-candidate-commuted", File: sh,
			Old: "\t\tcandidateHeight := subjHeight + diff/2", New: "\t\tcandidateHeight := diff/2 + subjHeight"},
	)
}
