package rules

import (
	"strings"

	"golang.org/x/tools/go/ssa"

	"hdrcheck/an"
)

func init() {
	register(&Rule{
		ID: "C17",
		Explanation: "Decides the structural side of the Store's concurrency discipline: (a) single writer: the functions that fill or clear the pending batch, commit a flush, advance the head or recede the tail are reachable only from the flush-loop goroutine, which is started at exactly one go statement; the frozen, named exceptions are the DeleteRange root (after Sync) and the Unsafe* helpers; " +
			"(b) the published height has exactly two kinds of writers: the upward-only CAS in SetHeight and the plain store in Init, whose callers are the store initialisation paths and the head-side deletion; " +
			"(c) DeleteRange synchronises the write queue before anything else; (d) guarded-by: every access to the pending batch's maps holds its RWMutex (the write lock for mutations), the waiter map its mutex, the handler list its mutex; " +
			"(e) publication order: a header enters the readable pending batch before the head may advance onto it, and the pending batch is cleared only after a successful commit.",
		NotDecided: []string{
			"the schedule quantifier: torn reads, equality with a sequential execution, a tail-side delete racing appends (the race detector's territory; only the lock discipline is covered here)",
			"atomicity and visibility guarantees of the datastore and of the LRU caches",
		},
		Technique: "who-may-reach over the call graph with goroutine roots, writer enumeration on atomics, must-held lock analysis incl. read/write lock distinction, must-precede ordering",
		Trusted:   "go/types+go/ssa; sync and sync/atomic semantics; the Go memory model",
		Run:       runC17,
		Imports: []Import{
			{From: "C08.b", Match: "cache-purge-after-disk-delete", As: "C17.f", Why: "a reader racing a tail-side deletion re-populates a cache that was purged before the datastore delete: the header is served after the deletion and the tail recedes onto it"},
			{From: "C06.b", Match: "reset-after-success", As: "C17.g", Why: "'the header returned by Head() is itself retrievable' and 'every header whose Append was followed by Sync is readable' hold between a failed commit and its retry only if the pending batch still holds the headers"},
			{From: "C04.a", Match: "getByHeight-miss-after", As: "C17.f", Why: "a flush moves headers from the pending batch to the datastore: a reader that looked at the index first and at the pending batch afterwards can miss a header that was present the whole time"},
		},
	})
}

func runC17(c *an.Ctx) {
	p := c.P
	g := p.CG()
	flushLoop := p.Method("store", "Store", "flushLoop")
	start := p.Method("store", "Store", "Start")
	deleteRange := p.Method("store", "Store", "DeleteRange")
	if !c.Need(flushLoop, "C17.a", "store.(*Store).flushLoop") || !c.Need(start, "C17.a", "store.(*Store).Start") || !c.Need(deleteRange, "C17.c", "store.(*Store).DeleteRange") {
		return
	}
	// --- C17.a single writer
	goSites := g.GoRoots[flushLoop]
	c.Check(len(goSites) == 1 && goSites[0].Caller == start, "C17.a", "one-flush-loop", "the flush loop is started by exactly one go statement, in Start", start, nil, "go sites: "+itoa(len(goSites)), nil)
	type target struct {
		fn      *ssa.Function
		name    string
		allowed map[string]string // extra roots → reason
	}
	delReason := "DeleteRange runs after Sync() drained the write queue (C17.c); it only purges/realigns what the deletion removed"
	unsafeReason := "Unsafe* recovery helpers are documented as unsafe and are not part of the concurrent API"
	mk := func(short, typ, m string, allowed map[string]string) target {
		f := p.Method(short, typ, m)
		return target{f, short + ".(*" + typ + ")." + m, allowed}
	}
	targets := []target{
		mk("store", "batch", "Append", map[string]string{"store.(*Store).DeleteRange": "a deletion whose write batch did not commit puts back the headers it had removed from the pending batch itself; obligation C17.a pending-append-outside-loop-only-restores confines such a call to the failed-commit branch of a deferred batch cleanup (finding F26)"}),
		mk("store", "batch", "Reset", nil),
		mk("store", "Store", "flush", nil),
		mk("store", "Store", "ensureInit", nil),
		mk("store", "Store", "recedeTail", nil),
		mk("store", "Store", "advanceHead", map[string]string{"store.(*Store).DeleteRange": delReason, "store.UnsafeResetTail": unsafeReason}),
		mk("store", "batch", "DeleteRange", map[string]string{"store.(*Store).DeleteRange": delReason}),
		mk("store", "Store", "setHead", map[string]string{"store.(*Store).DeleteRange": delReason}),
		mk("store", "Store", "setTail", map[string]string{"store.(*Store).DeleteRange": delReason, "store.UnsafeResetTail": unsafeReason}),
		mk("store", "Store", "deinit", map[string]string{"store.(*Store).DeleteRange": delReason + " (the wipe → deinit race with readers is acknowledged by a TODO in the code)", "store.(*Store).Stop": "Stop clears the caches after the flush loop has terminated"}),
	}
	for _, tg := range targets {
		if !c.Need(tg.fn, "C17.a", tg.name) {
			continue
		}
		roots := g.RootsReaching(tg.fn)
		n := 0
		for _, r := range roots {
			name := an.FuncName(r)
			if r == tg.fn && r.Object() != nil && !r.Object().Exported() {
				continue
			}
			if r == tg.fn { // exported methods of unexported types (batch) are not API roots
				if recv := r.Signature.Recv(); recv != nil && typeIsNamed(recv.Type(), "/store", "batch") {
					continue
				}
			}
			n++
			switch {
			case r == flushLoop:
				c.Ok("C17.a", "writer-root:"+tg.name+"<-flushLoop", "a mutator of the write path is reachable from the flush-loop goroutine", tg.fn, nil, "", nil)
			case tg.allowed[name] != "":
				c.Ok("C17.a", "writer-root:"+tg.name+"<-"+name, "a mutator of the write path is reachable only from the flush loop or a named exception", tg.fn, nil, "frozen exception: "+tg.allowed[name], nil)
			default:
				c.Fail("C17.a", "writer-root:"+tg.name+"<-"+name, "a mutator of the write path is reachable only from the flush-loop goroutine (single writer) or a named exception", r, nil, name+" reaches "+tg.name, nil)
			}
		}
		if n == 0 {
			c.Fail("C17.a", "writer-root:"+tg.name, "every mutator of the write path has a root", tg.fn, nil, "no root reaches it (dead code or unresolved call)", nil)
		}
	}

	checkPendingAppendOutsideLoopOnlyRestores(c, flushLoop)

	// --- C17.b writers of the published height
	setH := p.Method("store", "heightSub", "SetHeight")
	initH := p.Method("store", "heightSub", "Init")
	nW := 0
	for _, fn := range p.RepoFuncs() {
		if an.Enclosing(fn).Pkg != flushLoop.Pkg {
			continue
		}
		t, ff := c.T(fn), c.F(fn)
		an.Instrs(fn, func(in ssa.Instruction) {
			call, ok := in.(*ssa.Call)
			if !ok {
				return
			}
			full := an.StaticFullName(&call.Call)
			if !strings.HasPrefix(full, "(*sync/atomic.Uint64).") || len(call.Call.Args) == 0 || !strings.HasSuffix(t.Of(call.Call.Args[0]), ".height") {
				return
			}
			op := full[strings.LastIndex(full, ".")+1:]
			if op == "Load" {
				return
			}
			nW++
			switch {
			case op == "CompareAndSwap" && fn == setH:
				fs := ff.AtInstr(call)
				c.Check(fs.Has(an.LT(t.Of(call.Call.Args[1]), t.Of(call.Call.Args[2]))), "C17.b", "cas-upwards", "SetHeight changes the height only by a CAS from curr to a strictly larger value", fn, call, "", fs)
			case op == "Store" && fn == initH:
				c.Ok("C17.b", "init-store", "Init is the only plain store of the published height", fn, call, "", nil)
			default:
				c.Fail("C17.b", "height-writer:"+an.FuncName(fn)+":"+op, "the published height is written only by SetHeight's CAS and by Init", fn, call, full, nil)
			}
		})
	}
	c.Min("C17.b", "writers of the published height", nW, 2)
	allowedInit := map[string]string{
		"store.(*Store).init":       "start-up: adopts the persisted head",
		"store.(*Store).ensureInit": "first append into an empty store",
		"store.(*Store).setHead":    "head-side DeleteRange explicitly moves the head (and with it the height) back; it runs after Sync",
	}
	for _, caller := range g.Callers(initH) {
		name := an.FuncName(caller)
		if allowedInit[name] != "" {
			c.Ok("C17.b", "init-caller:"+name, "heightSub.Init (which may lower the height) is called only on initialisation paths and by head-side deletion", caller, nil, allowedInit[name], nil)
		} else {
			c.Fail("C17.b", "init-caller:"+name, "heightSub.Init (which may lower the height) is called only on initialisation paths and by head-side deletion", caller, nil, "unexpected caller", nil)
		}
	}

	// the pointer setters used by DeleteRange decide on what they read themselves: a header handed in
	// by the caller is a snapshot taken before the (long, unlocked) deletion and may be below the head
	// that concurrent appends have published meanwhile — writing it back would move Head() down
	{
		nObs := 0
		for _, name := range []string{"setTail", "setHead"} {
			fn := p.Method("store", "Store", name)
			if !c.Need(fn, "C17.b", "store.(*Store)."+name) {
				continue
			}
			st := c.T(fn)
			an.Instrs(fn, func(in ssa.Instruction) {
				call, isCall := in.(*ssa.Call)
				if !isCall || !call.Call.IsInvoke() {
					return
				}
				switch call.Call.Method.Name() {
				case "Height", "IsZero", "Hash":
				default:
					return
				}
				nObs++
				v := call.Call.Value
				if d := st.Deref(v); d != nil {
					v = d
				}
				_, isParam := v.(*ssa.Parameter)
				c.Check(!isParam, "C17.b", "setter-reads-fresh:"+name, "setTail/setHead compare against headers they read themselves (after the deletion), never against a header passed in by the caller", fn, call, "observes "+an.Stable(st.Of(call.Call.Value)), nil)
			})
		}
		c.Min("C17.b", "header observations in the pointer setters", nObs, 4)
	}

	// --- C17.c Sync first
	{
		t, ff := c.T(deleteRange), c.F(deleteRange)
		syncFn := p.Method("store", "Store", "Sync")
		scs := callsTo(deleteRange, syncFn)
		okS := len(scs) >= 1
		if okS {
			sc := scs[0]
			an.Instrs(deleteRange, func(in ssa.Instruction) {
				call, isCall := in.(*ssa.Call)
				if !isCall || call == sc {
					return
				}
				if cal := an.StaticCallee(&call.Call); cal != nil && an.Enclosing(cal).Pkg == deleteRange.Pkg && strings.HasPrefix(an.FuncName(cal), "store.(*Store).") {
					if !ff.AtInstr(call).Has(an.EQ(t.Of(sc), "nil")) {
						okS = false
					}
				}
			})
		}
		c.Check(okS, "C17.c", "sync-dominates", "every store operation of DeleteRange is dominated by a successful Sync()", deleteRange, nil, "", nil)
		checkSyncRoundTrip(c, "C17.c", syncFn, p.Method("store", "Store", "flushLoop"))
		checkPendingFirst(c, "C17.f")
		checkDeleteSideAdvanceGuarded(c, "C17.a")
		checkPointerStoreNeedsChange(c, "C17.b")
		checkPendingAppendKeepsBothMaps(c, "C17.d")
		checkInitBeforeWriteLoop(c, "C17.e")
		checkTailMovesAfterDeletion(c, "C17.a", deleteRange, p.Method("store", "Store", "deleteRangeRaw"), p.Method("store", "Store", "setTail"))
	}

	// --- C17.d guarded-by on the pending batch
	nAcc := 0
	for _, fn := range p.RepoFuncs() {
		recv := fn.Signature.Recv()
		if recv == nil || !typeIsNamed(recv.Type(), "/store", "batch") {
			continue
		}
		t := c.T(fn)
		wl := mutexOp(t, "lk", "Lock")
		wu := mutexOp(t, "lk", "Unlock")
		rl := mutexOp(t, "lk", "Lock", "RLock")
		ru := mutexOp(t, "lk", "Unlock", "RUnlock")
		an.Instrs(fn, func(in ssa.Instruction) {
			u, isLoad := in.(*ssa.UnOp)
			if !isLoad {
				return
			}
			fa, isFA := u.X.(*ssa.FieldAddr)
			if !isFA || (fieldName(fa) != "heights" && fieldName(fa) != "headers") {
				return
			}
			nAcc++
			// is the loaded map mutated?
			mut := false
			if u.Referrers() != nil {
				for _, r := range *u.Referrers() {
					switch x := r.(type) {
					case *ssa.MapUpdate:
						mut = true
					case *ssa.Call:
						if b, isB := x.Call.Value.(*ssa.Builtin); isB && b.Name() == "delete" {
							mut = true
						}
						if strings.HasPrefix(an.StaticFullName(&x.Call), "maps.DeleteFunc") {
							mut = true
						}
					}
				}
			}
			held := an.LockHeld(fn, rl, ru, u, nil)
			how := "read lock"
			if mut {
				held = an.LockHeld(fn, wl, wu, u, nil)
				how = "write lock"
			}
			c.Check(held, "C17.d", "batch-guarded:"+an.FuncName(fn)+":"+fieldName(fa), "every access to the pending batch's maps holds the batch lock (the write lock for mutations)", fn, u, how+" required", nil)
		})
	}
	c.Min("C17.d", "accesses to the pending batch's maps", nAcc, 8)
	// the batch fields are not touched outside batch methods
	for _, fn := range p.RepoFuncs() {
		if an.Enclosing(fn).Pkg != flushLoop.Pkg {
			continue
		}
		recv := an.Enclosing(fn).Signature.Recv()
		if recv != nil && typeIsNamed(recv.Type(), "/store", "batch") {
			continue
		}
		if an.FuncName(fn) == "store.newBatch" {
			continue
		}
		an.Instrs(fn, func(in ssa.Instruction) {
			if fa, isFA := in.(*ssa.FieldAddr); isFA && typeIsNamed(fa.X.Type(), "/store", "batch") {
				c.Fail("C17.d", "batch-field-outside:"+an.FuncName(fn), "the pending batch's fields are accessed only by its own (locking) methods", fn, fa, fieldName(fa), nil)
			}
		})
	}

	// --- C17.e publication order
	{
		var closure *ssa.Function
		for _, cl := range flushLoop.AnonFuncs {
			if len(callsTo(cl, p.Method("store", "Store", "flush"))) > 0 {
				closure = cl
			}
		}
		if c.Check(closure != nil, "C17.e", "flush-closure", "the flush loop has one closure handling new headers", flushLoop, nil, "", nil) {
			app := p.Method("store", "batch", "Append")
			adv := p.Method("store", "Store", "advanceHead")
			acs := callsTo(closure, adv)
			okO := len(acs) > 0
			for _, ac := range acs {
				if !(an.Flow{Fn: closure}).MustPrecede(an.IsCallTo(app), ac) {
					okO = false
				}
			}
			c.Check(okO, "C17.e", "readable-before-head", "new headers are in the readable pending batch before the head can advance onto them", closure, nil, "", nil)
			ct, cf := c.T(closure), c.F(closure)
			// every append round re-evaluates both pointers, whatever the appended range looks like:
			// with overlapping or out-of-order writers the range that closes a gap is not the one that
			// starts at head+1, so a conditional advance makes the final head depend on the schedule
			for _, mv := range []*ssa.Function{adv, p.Method("store", "Store", "recedeTail")} {
				mcs := callsTo(closure, mv)
				// one of the calls is the append step's: unconditional. Further calls (the re-evaluation
				// after the pointers were re-initialised before a flush) can only move the pointers over
				// what is contiguous and are not this clause's concern.
				okU := false
				for _, mc := range mcs {
					// unconditional: it follows the append into the pending batch on every path, and no
					// guard about the appended headers stands in front of it (a loop that merely walks
					// them may: its exit condition is the only fact allowed)
					okOne := true
					for _, ac := range callsTo(closure, app) {
						f, _ := (an.Flow{Fn: closure}).MustFollow(ac, func(in ssa.Instruction) bool { return in == ssa.Instruction(mc) }, nil)
						okOne = okOne && f
					}
					for _, f := range cf.AtRefined(mc.Block()) {
						walkExit := false
						for _, l := range indexLoops(ct) {
							if f == l.InLoop.Neg() {
								walkExit = true
							}
						}
						okOne = okOne && walkExit
					}
					okU = okU || okOne
				}
				name := "?"
				if mv != nil {
					name = an.FuncName(mv)
				}
				c.Check(okU, "C17.e", "pointer-move-unconditional:"+name, "every append round calls advanceHead and recedeTail unconditionally (the result must not depend on which writer's range arrives last)", closure, nil, "", nil)
			}
			for _, rc := range callsTo(closure, p.Method("store", "batch", "Reset")) {
				okR := false
				for _, fc := range callsTo(closure, p.Method("store", "Store", "flush")) {
					if cf.AtInstr(rc).Has(an.EQ(ct.Of(fc), "nil")) {
						okR = true
					}
				}
				c.Check(okR, "C17.e", "reset-after-commit", "the pending batch is cleared only after its content was committed", closure, rc, "", cf.AtInstr(rc))
			}
		}
	}
}
