package rules

import (
	"golang.org/x/tools/go/ssa"

	"hdrcheck/an"
)

// checkAnswerHeightBound (C15.e, finding F25): "only ever promotes verified intermediates" and "terminates
// with a bounded number of getter requests". The search narrows down on HEIGHTS — it asks the getter for
// subject height + distance/2 and re-bases the distance on the height of what it promoted — so every use
// of the getter's answer (the verification against the subject, the promotion, the re-based distance)
// stands under the fact that the answer's height is the height that was asked for. Without it an answer
// above the head under examination is promoted (it verifies: it is a valid header of the chain) and the
// re-based distance, an unsigned difference, wraps around.
func checkAnswerHeightBound(c *an.Ctx, bif *ssa.Function, getC, vCand *ssa.Call, cand string, promotions []*ssa.Call) {
	t, ff := c.T(bif), c.F(bif)
	asked := t.Of(getC.Call.Args[1])
	got := "Height(" + cand + ")"
	bound := func(fs an.FactSet) bool {
		return fs.Has(an.EQ(got, asked)) || fs.Has(an.EQ(asked, got)) ||
			(fs.Has(an.GE(got, asked)) && fs.Has(an.LE(got, asked))) // neither below nor above
	}
	uses := append([]*ssa.Call{vCand}, promotions...)
	for i, u := range uses {
		fs := ff.AtInstr(u)
		what := "promoted"
		if i == 0 {
			what = "verified"
		}
		c.Check(bound(fs), "C15.e", "answer-height-is-requested-height:"+what,
			"the getter's answer is verified against the subject and promoted only where its height is known to be the height that was asked for (the search narrows down on heights; an answer at another height is not an intermediate)",
			bif, u, "asked "+asked+", got "+got, fs)
	}
}
