package sync

// Demonstration for finding F36 (property C16).
// Copy into /repo/sync and run: go test ./sync -run 'TestF36' -count=1
//
// F36: "as long as header times are spaced by at most the configured block time no header younger than the pruning
//      window is deleted". The downward refinement walk of findTailHeight (the repair of F17) reads the header
//      BELOW its estimate and was bounded by estimate <= store.Height(), one tighter than that read needs. An
//      estimate right above the store's head — store head + 1, what the head-based estimate gives a node that
//      is a little behind — skipped the walk: store 1..75, network head 101, headers spaced 1 ms, block time
//      2 ms (an upper bound), window 50 ms; the first header inside the window is 51, the far branch estimates
//      101 − 25 = 76 = store head + 1, 76 is fetched and appended, [1, 76) is deleted: the stored headers
//      51..75, all younger than the window, were pruned.
//      Noticed by a ninth-round seeder (C16). Rule C16.c `walk-down-reaches-the-store-head`; repaired by the
//      /repo fix commit 930ed8d: the bound is on the height that is read.

import (
	"context"
	"testing"
	"time"

	"github.com/ipfs/go-datastore"
	dssync "github.com/ipfs/go-datastore/sync"
	"github.com/stretchr/testify/require"

	"github.com/celestiaorg/go-header/headertest"
	"github.com/celestiaorg/go-header/store"
)

func TestF36_EstimateRightAboveTheStoreHeadIsStillRefinedDownwards(t *testing.T) {
	ctx, cancel := context.WithTimeout(context.Background(), time.Second*10)
	t.Cleanup(cancel)

	const (
		spacing   = time.Millisecond
		blockTime = 2 * spacing
		window    = 50 * spacing
		stored    = 75
		network   = 101
	)

	base := time.Now().Add(-10 * time.Second)
	chain := make([]*headertest.DummyHeader, 0, network)
	for h := uint64(1); h <= network; h++ {
		hdr := &headertest.DummyHeader{
			Chainid:   "test",
			HeightI:   h,
			Timestamp: base.Add(time.Duration(h) * spacing).UTC(),
		}
		if len(chain) > 0 {
			hdr.PreviousHash = chain[len(chain)-1].Hash()
		}
		chain = append(chain, hdr)
	}

	remoteStore := &headertest.Store[*headertest.DummyHeader]{
		Headers: make(map[uint64]*headertest.DummyHeader),
	}
	require.NoError(t, remoteStore.Append(ctx, chain...))

	ds := dssync.MutexWrap(datastore.NewMapDatastore())
	localStore, err := store.NewStore[*headertest.DummyHeader](ds, store.WithWriteBatchSize(1))
	require.NoError(t, err)
	require.NoError(t, localStore.Start(ctx))
	t.Cleanup(func() { _ = localStore.Stop(context.Background()) })
	require.NoError(t, localStore.Append(ctx, chain[:stored]...))
	require.NoError(t, localStore.Sync(ctx))

	syncer, err := NewSyncer[*headertest.DummyHeader](
		remoteStore,
		localStore,
		headertest.NewDummySubscriber(),
		WithBlockTime(blockTime),
		WithPruningWindow(window),
	)
	require.NoError(t, err)
	require.NoError(t, syncer.Start(ctx))
	t.Cleanup(func() { _ = syncer.Stop(context.Background()) })
	require.NoError(t, localStore.Sync(ctx))

	windowStart := chain[network-1].Time().Add(-window)
	tail, err := localStore.Tail(ctx)
	require.NoError(t, err)
	// header 51 is the first one not older than the window: it (and 52..75) must still be stored
	require.False(t, chain[51-1].Time().Before(windowStart))
	require.True(t, chain[50-1].Time().Before(windowStart))
	require.LessOrEqualf(t, tail.Height(), uint64(51),
		"headers %d..%d are within the pruning window and were pruned", 51, tail.Height()-1)
}
