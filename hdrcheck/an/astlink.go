package an

import (
	"go/ast"
	"go/token"

	"golang.org/x/tools/go/ast/astutil"
	"golang.org/x/tools/go/ssa"
)

// fileOf returns the syntax tree that contains pos.
func (p *Prog) fileOf(pos token.Pos) *ast.File {
	if !pos.IsValid() {
		return nil
	}
	for _, pk := range p.Pkgs {
		for _, f := range pk.Syntax {
			if f.Pos() <= pos && pos < f.End() {
				return f
			}
		}
	}
	return nil
}

// AssignTargets returns the left-hand sides of the assignment (or short variable declaration, or
// `var` declaration) whose single right-hand side is the given call, or nil when the call is not
// assigned like that. With it a rule can tell `v, _ := f()` (the error is discarded on purpose)
// from `v, err := f()` whose err is simply never read.
func (p *Prog) AssignTargets(call *ssa.Call) []ast.Expr {
	pos := call.Pos() // position of the opening parenthesis
	f := p.fileOf(pos)
	if f == nil {
		return nil
	}
	path, _ := astutil.PathEnclosingInterval(f, pos, pos)
	for i, n := range path {
		ce, ok := n.(*ast.CallExpr)
		if !ok || ce.Lparen != pos {
			continue
		}
		if i+1 >= len(path) {
			return nil
		}
		switch parent := path[i+1].(type) {
		case *ast.AssignStmt:
			if len(parent.Rhs) == 1 && parent.Rhs[0] == ast.Expr(ce) {
				return parent.Lhs
			}
		case *ast.ValueSpec:
			if len(parent.Values) == 1 && parent.Values[0] == ast.Expr(ce) {
				var out []ast.Expr
				for _, nm := range parent.Names {
					out = append(out, nm)
				}
				return out
			}
		}
		return nil
	}
	return nil
}

// NamedTarget reports whether result idx of the call is assigned to a named variable (not `_`).
func (p *Prog) NamedTarget(call *ssa.Call, idx int) bool {
	lhs := p.AssignTargets(call)
	if idx < 0 {
		idx = 0
	}
	if idx >= len(lhs) {
		return false
	}
	id, ok := lhs[idx].(*ast.Ident)
	return !ok || id.Name != "_"
}
