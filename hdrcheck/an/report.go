package an

import (
	"encoding/json"
	"fmt"
	"os"
	"path/filepath"
	"regexp"
	"sort"
	"strings"
	"time"

	"golang.org/x/tools/go/ssa"
)

// Status of an obligation.
type Status string

const (
	Discharged Status = "discharged"
	Violated   Status = "violated"
	Undecided  Status = "undecided"
)

// Obligation is one checked instance of a rule.
type Obligation struct {
	ID     string   `json:"id"`   // e.g. "C01.a"
	Key    string   `json:"key"`  // rule + construct, stable across line moves
	Rule   string   `json:"rule"` // what is required, in words
	Func   string   `json:"func,omitempty"`
	Site   string   `json:"site,omitempty"` // file:line:col
	Status Status   `json:"status"`
	Detail string   `json:"detail,omitempty"`
	Facts  []string `json:"facts,omitempty"`
	Path   []string `json:"path,omitempty"`
	Known  string   `json:"known_finding,omitempty"`
}

// Ctx collects the obligations of one property run.
type Ctx struct {
	P        *Prog
	Property string
	Tier     string
	Obls     []*Obligation
	Notes    []string
	Analysed map[string]bool // functions looked at
	terms    map[*ssa.Function]*Terms
	facts    map[*ssa.Function]*FuncFacts
	mins     []minCount
}

type minCount struct {
	id   string
	what string
	got  int
	want int
}

func NewCtx(p *Prog, property, tier string) *Ctx {
	return &Ctx{P: p, Property: property, Tier: tier, Analysed: map[string]bool{}, terms: map[*ssa.Function]*Terms{}, facts: map[*ssa.Function]*FuncFacts{}}
}

// T returns the (cached) term numbering of fn.
func (c *Ctx) T(fn *ssa.Function) *Terms {
	if t, ok := c.terms[fn]; ok {
		return t
	}
	t := NewTerms(c.P, fn)
	// two passes when the first one finds infeasible edges (a re-tested condition): the values of
	// address-taken locals are then numbered again without the stores that only reach through them
	if dead := NewFuncFacts(t).DeadEdges(); len(dead) > 0 {
		t = NewTerms(c.P, fn)
		t.Dead = dead
	}
	c.terms[fn] = t
	c.Analysed[FuncName(fn)] = true
	return t
}

// TermFuncs lists the functions whose value numbering a rule has used so far, by name.
func (c *Ctx) TermFuncs() []*ssa.Function {
	var out []*ssa.Function
	for fn := range c.terms {
		out = append(out, fn)
	}
	sort.Slice(out, func(i, j int) bool { return FuncName(out[i]) < FuncName(out[j]) })
	return out
}

// F returns the (cached) guard facts of fn.
func (c *Ctx) F(fn *ssa.Function) *FuncFacts {
	if f, ok := c.facts[fn]; ok {
		return f
	}
	f := NewFuncFacts(c.T(fn))
	c.facts[fn] = f
	return f
}

var instrName = regexp.MustCompile(`@t\d+`)

// Stable removes SSA register names from a term so that it can be part of an
// obligation key (keys must survive unrelated edits of the function).
func Stable(s string) string { return instrName.ReplaceAllString(s, "") }

func (c *Ctx) add(st Status, id, key, rule string, fn *ssa.Function, at ssa.Instruction, detail string, facts FactSet) *Obligation {
	o := &Obligation{ID: id, Key: id + ":" + Stable(key), Rule: rule, Status: st, Detail: detail}
	if fn != nil {
		o.Func = FuncName(fn)
		c.Analysed[o.Func] = true
	}
	if at != nil {
		o.Site = c.P.InstrPos(at)
	} else if fn != nil {
		o.Site = c.P.Pos(fn.Pos())
	}
	if facts != nil {
		o.Facts = facts.Strings()
	}
	c.Obls = append(c.Obls, o)
	return o
}

// Ok records a discharged obligation.
func (c *Ctx) Ok(id, key, rule string, fn *ssa.Function, at ssa.Instruction, detail string, facts FactSet) {
	c.add(Discharged, id, key, rule, fn, at, detail, facts)
}

// Fail records a violated obligation.
func (c *Ctx) Fail(id, key, rule string, fn *ssa.Function, at ssa.Instruction, detail string, facts FactSet) {
	c.add(Violated, id, key, rule, fn, at, detail, facts)
}

// Undecided records an obligation the checker could not classify (counts as failure).
func (c *Ctx) Undecided(id, key, rule string, fn *ssa.Function, at ssa.Instruction, detail string) {
	c.add(Undecided, id, key, rule, fn, at, detail, nil)
}

// Check records ok or failure depending on cond.
func (c *Ctx) Check(cond bool, id, key, rule string, fn *ssa.Function, at ssa.Instruction, detail string, facts FactSet) bool {
	if cond {
		c.Ok(id, key, rule, fn, at, detail, facts)
	} else {
		c.Fail(id, key, rule, fn, at, detail, facts)
	}
	return cond
}

// Need resolves an anchor; an unresolved anchor is an undecided obligation.
func (c *Ctx) Need(fn *ssa.Function, id, name string) bool {
	if fn == nil || fn.Blocks == nil {
		c.Undecided(id, "anchor:"+name, "anchor function must resolve through go/types", nil, nil, "cannot resolve "+name+" (renamed/removed?)")
		return false
	}
	c.Analysed[FuncName(fn)] = true
	return true
}

// Min demands at least `want` instances of something, so a rule cannot pass vacuously.
func (c *Ctx) Min(id, what string, got, want int) {
	c.mins = append(c.mins, minCount{id, what, got, want})
	if got < want {
		c.Fail(id, "min:"+what, fmt.Sprintf("at least %d instances of %s must be found (rule must not pass vacuously)", want, what), nil, nil,
			fmt.Sprintf("found %d", got), nil)
	}
}

// ImportObligation re-reports an obligation evaluated by another property's rule
// under id `as` of this property (a clause both statements depend on).
func (c *Ctx) ImportObligation(o *Obligation, as, why string) {
	cp := *o
	cp.ID = as
	cp.Key = as + ":" + o.Key
	cp.Rule = o.Rule + " [shared with " + o.ID + ": " + why + "]"
	cp.Known = ""
	if cp.Func != "" {
		c.Analysed[cp.Func] = true
	}
	c.Obls = append(c.Obls, &cp)
}

// Note adds free text to the evidence.
func (c *Ctx) Note(format string, a ...any) { c.Notes = append(c.Notes, fmt.Sprintf(format, a...)) }

// ---------------------------------------------------------------------------
// known findings

// Finding is an entry of /verif/known_findings.json.
type Finding struct {
	Property string `json:"property"`
	Key      string `json:"key"`    // obligation key it matches (exact)
	Status   string `json:"status"` // "known" or "fixed"
	What     string `json:"what"`
	Input    string `json:"failing_input,omitempty"`
	Commit   string `json:"commit,omitempty"`
	Line     string `json:"line,omitempty"` // the "fixed: property=… <commit> <what>" record
}

type FindingsFile struct {
	Comment  string    `json:"comment"`
	Findings []Finding `json:"findings"`
}

func LoadFindings(path string) (*FindingsFile, error) {
	b, err := os.ReadFile(path)
	if err != nil && os.IsNotExist(err) {
		// a run that writes its evidence elsewhere (-verif <scratch dir>) still reads the committed list
		b, err = os.ReadFile("/verif/known_findings.json")
	}
	if err != nil {
		if os.IsNotExist(err) {
			return &FindingsFile{}, nil
		}
		return nil, err
	}
	var ff FindingsFile
	if err := json.Unmarshal(b, &ff); err != nil {
		return nil, fmt.Errorf("%s: %w", path, err)
	}
	return &ff, nil
}

// ---------------------------------------------------------------------------
// evidence

type evidence struct {
	PropertyID  string         `json:"property_id"`
	Tier        string         `json:"tier"`
	Seed        int            `json:"seed"`
	Level       string         `json:"level"`
	Coverage    map[string]any `json:"coverage"`
	Assumptions []string       `json:"assumptions"`
	WallS       float64        `json:"wall_s"`
	Violations  int            `json:"violations"`
}

// Result of Finish.
type Result struct {
	Violations int
	Known      int
	ExitCode   int
}

// Finish matches known findings, prints the report, writes evidence and replay
// files, and returns the exit code.
func (c *Ctx) Finish(verifDir string, start time.Time, seed int, explanation string, assumptions []string, extra map[string]any) Result {
	ff, err := LoadFindings(filepath.Join(verifDir, "known_findings.json"))
	if err != nil {
		fmt.Printf("ERROR reading known findings: %v\n", err)
		return Result{ExitCode: 2}
	}
	known := map[string]Finding{}
	for _, f := range ff.Findings {
		if f.Property == c.Property && f.Status == "known" {
			known[f.Key] = f
		}
	}
	sort.SliceStable(c.Obls, func(i, j int) bool { return c.Obls[i].ID < c.Obls[j].ID })

	replayDir := filepath.Join(verifDir, "evidence", "replay")
	os.MkdirAll(replayDir, 0o755)
	// remove stale replay files of this property
	if old, _ := filepath.Glob(filepath.Join(replayDir, c.Property+"-*.json")); old != nil {
		for _, f := range old {
			os.Remove(f)
		}
	}

	var res Result
	discharged := 0
	distinct := map[string]bool{}
	var samples []any
	fmt.Printf("== %s (%s tier): %d packages, %d files, %d functions in module; toolchain: %s\n",
		c.Property, c.Tier, len(c.P.Pkgs), c.P.NFiles, c.P.NFuncs, c.P.Toolchain)
	seenKnown := map[string]bool{}
	for _, o := range c.Obls {
		switch o.Status {
		case Discharged:
			discharged++
			if len(o.Facts) > 0 || o.Site != "" {
				distinct[o.Key] = true
			}
			fmt.Printf("  ok   %-7s %s  [%s %s]\n", o.ID, short(o.Rule, 110), o.Func, o.Site)
		default:
			if kf, ok := known[o.Key]; ok {
				o.Known = kf.What
				res.Known++
				if !seenKnown[o.Key] {
					seenKnown[o.Key] = true
					fmt.Printf("KNOWN-FINDING: property=%s %s %s at %s: %s (%s)\n", c.Property, o.Key, o.Func, o.Site, kf.What, o.Detail)
				}
				continue
			}
			res.Violations++
			path := filepath.Join(replayDir, fmt.Sprintf("%s-%d.json", c.Property, res.Violations))
			b, _ := json.MarshalIndent(map[string]any{
				"property": c.Property, "obligation": o, "note": "static finding: re-run `bin/hdrcheck -property " + c.Property + " -explain " + path + "` to re-evaluate this obligation on the current tree",
			}, "", " ")
			os.WriteFile(path, b, 0o644)
			fmt.Printf("  %s %-7s %s\n      at %s in %s\n      rule: %s\n      found: %s\n", strings.ToUpper(string(o.Status)), o.ID, o.Key, o.Site, o.Func, o.Rule, o.Detail)
			if len(o.Facts) > 0 {
				fmt.Printf("      facts on path: %s\n", strings.Join(o.Facts, " ∧ "))
			}
			fmt.Printf("VIOLATION property=%s replay=%s\n", c.Property, path)
		}
	}
	for _, m := range c.mins {
		fmt.Printf("  count %-7s %-50s found %d (minimum %d)\n", m.id, m.what, m.got, m.want)
	}
	for _, n := range c.Notes {
		fmt.Printf("  note: %s\n", n)
	}
	// samples: up to 12 obligations written out
	for i, o := range c.Obls {
		if i%maxInt(1, len(c.Obls)/12) == 0 && len(samples) < 14 {
			samples = append(samples, o)
		}
	}
	var fns []string
	for f := range c.Analysed {
		fns = append(fns, f)
	}
	sort.Strings(fns)
	cov := map[string]any{
		"explanation":         explanation,
		"obligations":         len(c.Obls),
		"discharged":          discharged,
		"known_findings":      res.Known,
		"evaluations":         len(c.Obls),
		"distinct_nontrivial": len(distinct),
		"rule":                "one evaluation per (rule, construct) obligation instance found in the current /repo sources; non-trivial = the obligation is anchored at a concrete site and was decided from guard facts / paths / call sites (not a count check)",
		"samples":             samples,
		"checker_cmd":         "bin/hdrcheck -property " + c.Property + " -tier " + c.Tier,
		"trusted_base":        []string{"go/types and go/ssa of golang.org/x/tools v0.29.0", "the Go toolchain that type-checks /repo (" + c.P.Toolchain + ")", "hdrcheck's own engines (term numbering, dominance facts, linear prover, CFG ordering)"},
		"packages":            len(c.P.Pkgs),
		"files":               c.P.NFiles,
		"module_functions":    c.P.NFuncs,
		"functions_analysed":  fns,
		"min_counts":          c.minsJSON(),
		"notes":               c.Notes,
		"exhaustive":          false,
	}
	for k, v := range extra {
		cov[k] = v
	}
	ev := evidence{PropertyID: c.Property, Tier: c.Tier, Seed: seed, Level: "other", Coverage: cov,
		Assumptions: assumptions, WallS: time.Since(start).Seconds(), Violations: res.Violations}
	b, _ := json.MarshalIndent(ev, "", " ")
	os.MkdirAll(filepath.Join(verifDir, "evidence"), 0o755)
	if err := os.WriteFile(filepath.Join(verifDir, "evidence", c.Property+".json"), b, 0o644); err != nil {
		fmt.Printf("ERROR writing evidence: %v\n", err)
		return Result{ExitCode: 2}
	}
	fmt.Printf("== %s: %d obligations, %d discharged, %d known findings, %d violations (%.1fs)\n",
		c.Property, len(c.Obls), discharged, res.Known, res.Violations, time.Since(start).Seconds())
	if res.Violations > 0 {
		res.ExitCode = 1
	}
	return res
}

func (c *Ctx) minsJSON() []map[string]any {
	var out []map[string]any
	for _, m := range c.mins {
		out = append(out, map[string]any{"id": m.id, "what": m.what, "found": m.got, "minimum": m.want})
	}
	return out
}

func short(s string, n int) string {
	r := []rune(s)
	if len(r) <= n {
		return s
	}
	return string(r[:n-1]) + "…"
}

func maxInt(a, b int) int {
	if a > b {
		return a
	}
	return b
}
