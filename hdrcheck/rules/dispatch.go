package rules

import (
	"fmt"

	"golang.org/x/tools/go/ssa"

	"hdrcheck/an"
)

// checkScoreDecay: a peer that cannot serve a range is pushed back to the queue with its score
// decreased, and the queue hands out the best-scored peer first. That a capable but slow peer is
// ever asked rests on the penalty being applied on EVERY call and being a fraction of the current
// score (so repeated failures take the score below any positive score): a floor or a guard in
// decreaseScore lets a few fast NOT_FOUND peers stay in front of it for ever.
func checkScoreDecay(c *an.Ctx, id string) {
	fn := c.P.Method("p2p", "peerStat", "decreaseScore")
	if !c.Need(fn, id, "p2p.(*peerStat).decreaseScore") {
		return
	}
	t := c.T(fn)
	fl := an.Flow{Fn: fn}
	isPenalty := func(in ssa.Instruction) bool {
		st, ok := in.(*ssa.Store)
		if !ok {
			return false
		}
		fa, isFA := st.Addr.(*ssa.FieldAddr)
		if !isFA || !isFieldOf(fa, nil, "peerScore") {
			return false
		}
		sub, isSub := st.Val.(*ssa.BinOp)
		if !isSub || sub.Op.String() != "-" {
			return false
		}
		old := t.Of(sub.X)
		if _, isC := sub.Y.(*ssa.Const); isC {
			return false
		}
		// old − (a positive fraction of old): the subtrahend is built from the same load by
		// multiplications and divisions with constants
		var frac func(v ssa.Value, depth int) bool
		frac = func(v ssa.Value, depth int) bool {
			if t.Of(v) == old {
				return true
			}
			b, isB := v.(*ssa.BinOp)
			if !isB || depth > 4 || (b.Op.String() != "*" && b.Op.String() != "/") {
				return false
			}
			_, yConst := b.Y.(*ssa.Const)
			_, xConst := b.X.(*ssa.Const)
			switch {
			case yConst:
				return frac(b.X, depth+1)
			case xConst && b.Op.String() == "*":
				return frac(b.Y, depth+1)
			}
			return false
		}
		return an.Stable(old) == "p0.peerScore" && frac(sub.Y, 0)
	}
	n := 0
	for _, b := range fn.Blocks {
		r, ok := b.Instrs[len(b.Instrs)-1].(*ssa.Return)
		if !ok || (b.Index != 0 && len(b.Preds) == 0) {
			continue // the recover block
		}
		n++
		c.Check(fl.MustPrecede(isPenalty, r), id, "penalty-always-applied", "decreaseScore takes a fraction of the current score off on every call (no floor, no guard): repeated failures bring a peer's score below any positive score, so a capable slower peer gets its turn", fn, r, "", nil)
	}
	c.Min(id, "exits of decreaseScore", n, 1)
}

// checkDispatcher is the dispatcher's half of "no request is dropped" (the worker's half is
// checkNoDroppedRequest): a request the dispatcher has taken off the session's request channel is
// handed to a worker goroutine (together with the peer popped for it) before the dispatcher takes the
// next one; the only other way on is to return (session over). A `continue` past the hand-over loses
// that chunk for good: the collected headers never reach the requested amount.
func checkDispatcher(c *an.Ctx, id string, s *sessionFns) {
	fn := s.handleOut
	t, ff := c.T(fn), c.F(fn)
	n := 0
	an.Instrs(fn, func(in ssa.Instruction) {
		sel, ok := in.(*ssa.Select)
		if !ok {
			return
		}
		idx := 2
		for k, st := range sel.States {
			if st.Send != nil {
				continue
			}
			myIdx := idx
			idx++
			if !isRecvField(t, st.Chan, "reqCh") {
				continue
			}
			var req ssa.Value
			if sel.Referrers() != nil {
				for _, r := range *sel.Referrers() {
					if ex, isEx := r.(*ssa.Extract); isEx && ex.Index == myIdx {
						req = ex
					}
				}
			}
			n++
			if req == nil {
				c.Fail(id, "dispatch-every-request", "a request taken off the request channel is handed to a worker before the next one is taken", fn, sel, "the received request is not even bound", nil)
				continue
			}
			taken := an.EQ(t.Of(sel)+"#0", fmt.Sprint(k))
			handsOver := func(x ssa.Instruction) bool {
				g, isGo := x.(*ssa.Go)
				if !isGo || an.StaticCallee(&g.Call) != s.doReq {
					return false
				}
				for _, a := range g.Call.Args {
					if a == req {
						return true
					}
				}
				return false
			}
			bad := ""
			seen := map[*ssa.BasicBlock]bool{}
			var walk func(b *ssa.BasicBlock)
			walk = func(b *ssa.BasicBlock) {
				if seen[b] || bad != "" {
					return
				}
				seen[b] = true
				for _, x := range b.Instrs {
					if handsOver(x) {
						return
					}
				}
				for _, sc := range b.Succs {
					if sc == sel.Block() {
						bad = fmt.Sprintf("block %d goes back for the next request without the hand-over", b.Index)
						return
					}
					walk(sc)
				}
			}
			for _, b := range fn.Blocks {
				// the blocks entered with "this case was taken" freshly decided
				if ff.At(b).Has(taken) && len(b.Preds) == 1 && !ff.At(b.Preds[0]).Has(taken) {
					walk(b)
				}
			}
			c.Check(bad == "", id, "dispatch-every-request", "a request taken off the request channel is handed to a worker goroutine (go doRequest(…, req, …)) before the dispatcher takes the next one; otherwise it returns", fn, sel, bad, nil)
		}
	})
	c.Min(id, "receives from the request channel in the dispatcher", n, 1)
}
