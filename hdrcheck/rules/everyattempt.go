package rules

import (
	"golang.org/x/tools/go/ssa"

	"hdrcheck/an"
)

// checkEveryAttemptReports (C13.d): "… and fail with an error when no trusted peer does". performRequest starts
// one goroutine per trusted peer and then waits for their results; the request timeout ends the peers'
// requests, it does not wake the collecting loop — that loop hears of a timed-out attempt only through the
// attempt's result. So every way out of such a goroutine has sent on the result channel: an attempt that
// returns silently (for instance "the request is over, nobody reads the results anymore") leaves the
// collector waiting for good when every peer hangs.
func checkEveryAttemptReports(c *an.Ctx, id string, perform *ssa.Function) {
	n := 0
	an.Instrs(perform, func(in ssa.Instruction) {
		g, ok := in.(*ssa.Go)
		if !ok {
			return
		}
		var fn *ssa.Function
		switch v := g.Call.Value.(type) {
		case *ssa.MakeClosure:
			fn, _ = v.Fn.(*ssa.Function)
		case *ssa.Function:
			fn = v
		}
		if fn == nil || fn.Blocks == nil {
			return
		}
		n++
		isSend := func(i ssa.Instruction) bool {
			if _, isS := i.(*ssa.Send); isS {
				return true
			}
			if sel, isSel := i.(*ssa.Select); isSel {
				for _, st := range sel.States {
					if st.Send != nil {
						return true
					}
				}
			}
			return false
		}
		okAll := true
		for _, b := range fn.Blocks {
			r, isRet := b.Instrs[len(b.Instrs)-1].(*ssa.Return)
			if !isRet || (b.Index != 0 && len(b.Preds) == 0) {
				continue
			}
			if !(an.Flow{Fn: fn}).MustPrecede(isSend, r) {
				okAll = false
			}
		}
		c.Check(okAll, id, "every-attempt-reports", "every goroutine performRequest starts for a trusted peer sends its result on every way out (the collecting loop learns of a timed-out attempt only from the attempt itself)", fn, g, "", nil)
	})
	c.Min(id, "per-peer goroutines of performRequest", n, 1)
}
