package selftest

// Variants that came out of the seeded-change campaign (DESIGN.md §10): each one is
// the essence of a change an independent bug seeder produced, kept here so that the
// obligation that catches it stays armed; plus benign rewrites of the same code.
func init() {
	const st = "store/store.go"
	const ra = "sync/ranges.go"
	const sy = "sync/syncer.go"
	add(
		// C06.d / C04.f: ensureInit heals a store reopened with one pointer absent
		Variant{Prop: "C06", Name: "seed-ensureinit-tail-skipped-when-head-set", File: st, Expect: "C06.d",
			Old: "\tif len(headers) == 0 {\n\t\treturn\n\t}\n\n\tif headPtr := s.contiguousHead.Load(); headPtr == nil {",
			New: "\tif len(headers) == 0 || s.contiguousHead.Load() != nil {\n\t\treturn\n\t}\n\n\tif headPtr := s.contiguousHead.Load(); headPtr == nil {"},
		Variant{Prop: "C04", Name: "seed-ensureinit-tail-skipped-when-head-set", File: st, Expect: "C04.f",
			Old: "\tif len(headers) == 0 {\n\t\treturn\n\t}\n\n\tif headPtr := s.contiguousHead.Load(); headPtr == nil {",
			New: "\tif len(headers) == 0 || s.contiguousHead.Load() != nil {\n\t\treturn\n\t}\n\n\tif headPtr := s.contiguousHead.Load(); headPtr == nil {"},
		Variant{Prop: "C06", Name: "seed-ensureinit-tail-takes-last", File: st, Expect: "C06.d",
			Old: "\t\ttail := headers[0]\n\t\ts.tailHeader.CompareAndSwap(tailPtr, &tail)", New: "\t\ttail := headers[len(headers)-1]\n\t\ts.tailHeader.CompareAndSwap(tailPtr, &tail)"},
		Variant{Prop: "C06", Name: "seed-ensureinit-head-takes-first", File: st, Expect: "C06.d",
			Old: "\t\thead := headers[len(headers)-1]\n\t\tif s.contiguousHead.CompareAndSwap(headPtr, &head) {", New: "\t\thead := headers[0]\n\t\tif s.contiguousHead.CompareAndSwap(headPtr, &head) {"},
		Variant{Prop: "C06", Name: "benign-ensureinit-tail-first", File: st,
			Old: "\tif headPtr := s.contiguousHead.Load(); headPtr == nil {\n\t\thead := headers[len(headers)-1]\n\t\tif s.contiguousHead.CompareAndSwap(headPtr, &head) {\n\t\t\ts.heightSub.Init(head.Height())\n\t\t\tlog.Debugw(\"initialized head\", \"height\", head.Height())\n\t\t}\n\t}\n\n\tif tailPtr := s.tailHeader.Load(); tailPtr == nil {\n\t\ttail := headers[0]\n\t\ts.tailHeader.CompareAndSwap(tailPtr, &tail)\n\t\tlog.Debugw(\"initialized tail\", \"height\", tail.Height())\n\t}",
			New: "\tif tailPtr := s.tailHeader.Load(); tailPtr == nil {\n\t\ttail := headers[0]\n\t\ts.tailHeader.CompareAndSwap(tailPtr, &tail)\n\t\tlog.Debugw(\"initialized tail\", \"height\", tail.Height())\n\t}\n\n\tif headPtr := s.contiguousHead.Load(); headPtr == nil {\n\t\thead := headers[len(headers)-1]\n\t\tif s.contiguousHead.CompareAndSwap(headPtr, &head) {\n\t\t\ts.heightSub.Init(head.Height())\n\t\t\tlog.Debugw(\"initialized head\", \"height\", head.Height())\n\t\t}\n\t}"},

		// C07.e / C03.g: pending ranges stay strictly increasing
		Variant{Prop: "C07", Name: "seed-same-height-head-opens-second-range", File: ra, Expect: "C07.e",
			Old: "\tif !head.IsZero() && head.Height() >= h.Height() {", New: "\tif !head.IsZero() && head.Height() > h.Height() {"},
		Variant{Prop: "C03", Name: "seed-same-height-head-opens-second-range", File: ra, Expect: "C03.g",
			Old: "\tif !head.IsZero() && head.Height() >= h.Height() {", New: "\tif !head.IsZero() && head.Height() > h.Height() {"},
		Variant{Prop: "C07", Name: "seed-past-header-check-dropped", File: ra, Expect: "C07.e",
			Old: "\tif !head.IsZero() && head.Height() >= h.Height() {", New: "\tif !head.IsZero() && head.Height() >= h.Height() && false {"},
		Variant{Prop: "C07", Name: "benign-past-header-check-commuted", File: ra,
			Old: "\tif !head.IsZero() && head.Height() >= h.Height() {", New: "\tif !head.IsZero() && h.Height() <= head.Height() {"},

		// C07.a: a trigger queued while a sync runs is served afterwards
		Variant{Prop: "C07", Name: "seed-queued-trigger-drained-after-sync", File: sy, Expect: "C07.a",
			Old: "\t\tcase <-s.triggerSync:\n\t\t\ts.sync(s.ctx)\n\t\tcase <-s.ctx.Done():", New: "\t\tcase <-s.triggerSync:\n\t\t\ts.sync(s.ctx)\n\t\t\tselect {\n\t\t\tcase <-s.triggerSync:\n\t\t\tdefault:\n\t\t\t}\n\t\tcase <-s.ctx.Done():"},

		// C08.c: the deletion batch is committed
		Variant{Prop: "C08", Name: "seed-batch-commit-skipped-on-dead-context", File: st, Expect: "C08.c",
			Old: "\treturn contextds.WithWrite(ctx, batch), func() error {\n\t\treturn batch.Commit(ctx)\n\t}",
			New: "\treturn contextds.WithWrite(ctx, batch), func() error {\n\t\tif err := ctx.Err(); err != nil {\n\t\t\treturn err\n\t\t}\n\t\treturn batch.Commit(ctx)\n\t}"},
		Variant{Prop: "C08", Name: "seed-batch-commit-error-swallowed", File: st, Expect: "C08.c",
			Old: "\treturn contextds.WithWrite(ctx, batch), func() error {\n\t\treturn batch.Commit(ctx)\n\t}",
			New: "\treturn contextds.WithWrite(ctx, batch), func() error {\n\t\tif err := batch.Commit(ctx); err != nil {\n\t\t\tlog.Errorw(\"commit\", \"err\", err)\n\t\t}\n\t\treturn nil\n\t}"},
		Variant{Prop: "C08", Name: "seed-sequential-commit-error-dropped", File: "store/store_delete.go", Expect: "C08.c",
			Old: "\t\tif derr := done(); derr != nil {\n\t\t\terr = errors.Join(err, fmt.Errorf(\"committing batch: %w\", derr))\n\t\t}",
			New: "\t\tif derr := done(); derr != nil {\n\t\t\tlog.Errorw(\"committing batch\")\n\t\t}"},
		Variant{Prop: "C08", Name: "seed-worker-commit-only-on-success", File: "store/store_delete.go", Expect: "C08.c",
			Old: "\t\tdefer func() {\n\t\t\tif err := done(); err != nil {\n\t\t\t\tlast.err = errors.Join(last.err, fmt.Errorf(\"committing delete batch: %w\", err))\n\t\t\t}\n\t\t}()",
			New: "\t\tdefer func() {\n\t\t\tif last.err != nil {\n\t\t\t\treturn\n\t\t\t}\n\t\t\tif err := done(); err != nil {\n\t\t\t\tlast.err = errors.Join(last.err, fmt.Errorf(\"committing delete batch: %w\", err))\n\t\t\t}\n\t\t}()"},
		// C07 (mutation survivors turned into obligations)
		Variant{Prop: "C07", Name: "add-drops-every-header-once-a-head-exists", File: ra, Expect: "C07.e",
			Old: "\tif !head.IsZero() && head.Height() >= h.Height() {", New: "\tif !head.IsZero() || head.Height() >= h.Height() {"},
		Variant{Prop: "C07", Name: "non-adjacent-header-extends-last-range", File: ra, Expect: "C07.e",
			Old: "\tif !head.IsZero() && h.Height() == head.Height()+1 {", New: "\tif !head.IsZero() && h.Height() >= head.Height()+1 {"},
		Variant{Prop: "C07", Name: "first-hands-out-empty-ranges", File: ra, Expect: "C07.e",
			Old: "\t\tif !out.Empty() {\n\t\t\treturn out, true\n\t\t}", New: "\t\tif out.Empty() {\n\t\t\treturn out, true\n\t\t}"},
		Variant{Prop: "C07", Name: "empty-inverted", File: ra, Expect: "C07.e",
			Old: "\treturn len(r.headers) == 0\n", New: "\treturn len(r.headers) != 0\n"},
		Variant{Prop: "C07", Name: "range-amount-excludes-end", File: ra, Expect: "C07.e",
			Old: "\tif r.start > end {\n\t\treturn 0\n\t}\n", New: "\tif r.start >= end {\n\t\treturn 0\n\t}\n"},
		Variant{Prop: "C07", Name: "range-amount-guard-negated", File: ra, Expect: "C07.e",
			Old: "\tif r.start+amnt >= end {", New: "\tif r.start+amnt < end {"},
		Variant{Prop: "C07", Name: "benign-range-amount-strict", File: ra,
			Old: "\tif r.start+amnt >= end {", New: "\tif r.start+amnt > end {"},
		Variant{Prop: "C07", Name: "head-not-pending-when-store-head-unreadable", File: "sync/syncer_head.go", Expect: "C07.a",
			Old: "\tif err == nil && storeHead.Height() >= netHead.Height() {", New: "\tif err != nil || storeHead.Height() >= netHead.Height() {"},
		Variant{Prop: "C07", Name: "head-at-store-height-plus-one-skipped", File: "sync/syncer_head.go", Expect: "C07.a",
			Old: "\tif err == nil && storeHead.Height() >= netHead.Height() {", New: "\tif err == nil && storeHead.Height()+1 >= netHead.Height() {"},
		Variant{Prop: "C07", Name: "state-lock-not-released-before-processing", File: sy, Expect: "C07.d",
			Old: "\ts.state.Start = time.Now()\n\ts.stateLk.Unlock()\n", New: "\ts.state.Start = time.Now()\n"},
		Variant{Prop: "C07", Name: "ranges-add-lock-dropped", File: ra, Expect: "C07.e",
			Old: "func (rs *ranges[H]) Add(h H) {\n\trs.lk.Lock()\n\tdefer rs.lk.Unlock()", New: "func (rs *ranges[H]) Add(h H) {\n\tdefer rs.lk.Unlock()"},
		Variant{Prop: "C07", Name: "gap-request-failure-ignored", File: sy, Expect: "C07.c",
			Old: "\t\t\tif err = s.requestHeaders(ctx, fromHead, to); err != nil {\n\t\t\t\treturn err\n\t\t\t}", New: "\t\t\tif err = s.requestHeaders(ctx, fromHead, to); err == nil {\n\t\t\t\treturn err\n\t\t\t}"},
		Variant{Prop: "C07", Name: "empty-cached-range-indexed", File: sy, Expect: "C07.c",
			Old: "\t\theaders := headersRange.Get(to)\n\t\tif len(headers) == 0 {\n\t\t\tbreak\n\t\t}", New: "\t\theaders := headersRange.Get(to)"},

		// C14
		Variant{Prop: "C14", Name: "seed-recovered-panic-assigned-to-local", File: "store/store_delete.go", Expect: "C14.a",
			Old:  "func(ctx context.Context, height uint64) (rerr error) {\n\t\tdefer func() {\n\t\t\terr := recover()\n\t\t\tif err != nil {\n\t\t\t\trerr = fmt.Errorf(",
			New:  "func(ctx context.Context, height uint64) error {\n\t\tvar rerr error\n\t\tdefer func() {\n\t\t\terr := recover()\n\t\t\tif err != nil {\n\t\t\t\trerr = fmt.Errorf(",
			More: []Edit{{File: "store/store_delete.go", Old: "\t\treturn fn(ctx, height)\n\t})", New: "\t\trerr = fn(ctx, height)\n\t\treturn rerr\n\t})"}}},
		Variant{Prop: "C14", Name: "seed-context-check-between-handlers-and-removal", File: "store/store_delete.go", Expect: "C14.b",
			Old: "\tif err := s.ds.Delete(ctx, hashKey(hash)); err != nil {", New: "\tif ctx.Err() != nil {\n\t\treturn context.Cause(ctx)\n\t}\n\tif err := s.ds.Delete(ctx, hashKey(hash)); err != nil {"},
		Variant{Prop: "C14", Name: "missing-header-classified-by-foreign-sentinel", File: "store/store_delete.go", Expect: "C14.b",
			Old: "\t\tif errors.Is(err, errHeaderMissing) {\n\t\t\tmissing++", New: "\t\tif errors.Is(err, datastore.ErrNotFound) {\n\t\t\tmissing++"},
		Variant{Prop: "C14", Name: "worker-classifies-by-foreign-sentinel", File: "store/store_delete.go", Expect: "C14.b",
			Old: "\t\t\tif errors.Is(last.err, errHeaderMissing) {", New: "\t\t\tif errors.Is(last.err, datastore.ErrNotFound) {"},
		Variant{Prop: "C14", Name: "ondelete-lock-never-released", File: "store/store_delete.go", Expect: "C14.a",
			Old: "\ts.onDeleteMu.Lock()\n\tdefer s.onDeleteMu.Unlock()\n\n\ts.onDelete = append(", New: "\ts.onDeleteMu.Lock()\n\n\ts.onDelete = append("},

		// C16
		Variant{Prop: "C16", Name: "seed-window-walk-direction-inverted", File: "sync/syncer_tail.go", Expect: "C16.c",
			Old: "\t\tif expectedTailTime.Compare(newTail.Time().UTC()) <= 0 {", New: "\t\tif !newTail.Time().UTC().After(expectedTailTime) {"},
		Variant{Prop: "C16", Name: "benign-window-walk-not-before", File: "sync/syncer_tail.go",
			Old: "\t\tif expectedTailTime.Compare(newTail.Time().UTC()) <= 0 {", New: "\t\tif !newTail.Time().Before(expectedTailTime) {"},
		Variant{Prop: "C16", Name: "seed-young-chain-guard-off-by-one", File: "sync/syncer_tail.go", Expect: "C16.c",
			Old: "\tif headersToRetain >= head.Height() {", New: "\tif headersToRetain > head.Height() {"},
		Variant{Prop: "C16", Name: "close-estimate-not-clamped-to-head", File: "sync/syncer_tail.go", Expect: "C16.c",
			Old: "\t\tif estimatedTailHeight > head.Height() {", New: "\t\tif estimatedTailHeight > head.Height() && false {"},
		Variant{Prop: "C16", Name: "benign-close-estimate-clamped-by-min", File: "sync/syncer_tail.go",
			Old: "\t\testimatedTailHeight = oldTail.Height() + headersToStore\n\t\tif estimatedTailHeight > head.Height() {", New: "\t\testimatedTailHeight = min(oldTail.Height()+headersToStore, head.Height())\n\t\tif estimatedTailHeight > head.Height() {"},

		// C15.f / C03.b: the bifurcation cannot be bypassed
		Variant{Prop: "C15", Name: "seed-known-header-from-bifurcation-swallowed", File: "sync/syncer_head.go", Expect: "C15.f",
			Old: "\t\terr = s.incomingNetworkHead(ctx, newHead)\n", New: "\t\terr = s.incomingNetworkHead(ctx, newHead)\n\t\tif errors.Is(err, header.ErrKnownHeader) {\n\t\t\terr = nil\n\t\t}\n"},

		// C17 seeds
		Variant{Prop: "C17", Name: "seed-head-advanced-only-for-adjacent-appends", File: st, Expect: "C17.e",
			Old: "\t\ts.advanceHead(ctx)\n\t\ts.recedeTail(ctx)", New: "\t\tif hp := s.contiguousHead.Load(); hp != nil && len(headers) > 0 && headers[0].Height() == (*hp).Height()+1 {\n\t\t\ts.advanceHead(ctx)\n\t\t}\n\t\ts.recedeTail(ctx)"},
		Variant{Prop: "C17", Name: "seed-settail-decides-on-callers-head-snapshot", File: st, Expect: "C17.b",
			Old:  "func (s *Store[H]) setTail(ctx context.Context, write datastore.Write, to uint64) error {",
			New:  "func (s *Store[H]) setTail(ctx context.Context, write datastore.Write, to uint64, head H) error {",
			More: []Edit{
				{File: st, Old: "\thead, _ := s.Head(ctx)\n\tif head.IsZero() || to > head.Height() {", New: "\tif head.IsZero() || to > head.Height() {"},
				{File: "store/store_delete.go", Old: "\t\t\t\tif terr := s.setTail(ctx, s.ds, actualTo); terr != nil {", New: "\t\t\t\tif terr := s.setTail(ctx, s.ds, actualTo, head); terr != nil {"},
				{File: "store/store_delete.go", Old: "\t\tif err := s.setTail(ctx, s.ds, actualTo); err != nil {", New: "\t\tif err := s.setTail(ctx, s.ds, actualTo, head); err != nil {"},
				{File: "store/store_recover.go", Old: "\tif err := store.setTail(ctx, store.ds, height); err != nil {", New: "\thead, _ := store.Head(ctx)\n\tif err := store.setTail(ctx, store.ds, height, head); err != nil {"},
			}},
		// C19 seeds
		Variant{Prop: "C19", Name: "seed-head-returns-candidate-instead-of-adopted", File: "sync/syncer_head.go", Expect: "C19.b",
			Old: "\t// so return whatever is the current highest head\n\treturn s.localHead(ctx)", New: "\treturn netHead, nil"},
		Variant{Prop: "C19", Name: "seed-expiry-of-new-head-tested-on-old-head", File: "sync/syncer_head.go", Expect: "C19.a",
			Old: "\tif expired, expiredFor := isExpired(newHead, s.Params.trustingPeriod); expired {", New: "\tif expired, expiredFor := isExpired(sbjHead, s.Params.trustingPeriod); expired {"},
		// C18 seeds
		Variant{Prop: "C18", Name: "seed-remainder-starts-one-height-low", File: "p2p/session.go", Expect: "C18.b",
			Old: "prepareRequests(from+1,", New: "prepareRequests(from,"},

		// error discipline and whole-chain wipe
		Variant{Prop: "C08", Name: "wipe-result-inverted", File: "store/store_delete.go", Expect: "C08.c",
			Old: "\t\t\tif err := s.wipe(ctx); err != nil {", New: "\t\t\tif err := s.wipe(ctx); err == nil {"},
		Variant{Prop: "C08", Name: "settail-ignores-missing-new-tail", File: st, Expect: "C08.c",
			Old: "\tnewTail, err := s.getByHeight(ctx, to)\n\tif err != nil {\n\t\treturn fmt.Errorf(\"getting tail: %w\", err)\n\t}", New: "\tnewTail, err := s.getByHeight(ctx, to)\n\tif err != nil {\n\t\tlog.Errorw(\"getting tail\", \"err\", err)\n\t}"},
		Variant{Prop: "C08", Name: "pointer-update-failure-swallowed", File: "store/store_delete.go", Expect: "C08.c",
			Old: "\t\tif err := s.setTail(ctx, s.ds, actualTo); err != nil {\n\t\t\treturn errors.Join(", New: "\t\tif err := s.setTail(ctx, s.ds, actualTo); err != nil && deleteErr != nil {\n\t\t\treturn errors.Join("},
		Variant{Prop: "C08", Name: "wipe-for-any-suffix", File: "store/store_delete.go", Expect: "C08.a",
			Old: "\tif updateTail && updateHead {\n\t\t// Only wipe", New: "\tif updateHead {\n\t\t// Only wipe"},
		Variant{Prop: "C08", Name: "wipe-although-header-at-to", File: "store/store_delete.go", Expect: "C08.a",
			Old: "\t\tif errors.Is(err, header.ErrNotFound) {\n\t\t\t// No header at 'to'", New: "\t\tif !errors.Is(err, header.ErrNotFound) {\n\t\t\t// No header at 'to'"},
		Variant{Prop: "C07", Name: "sync-store-append-failure-swallowed", File: "sync/sync_store.go", Expect: "C07.c",
			Old: "\tif err := s.Store.Append(ctx, headers...); err != nil {\n\t\treturn err\n\t}\n\n\treturn nil\n}", New: "\tif err := s.Store.Append(ctx, headers...); err == nil {\n\t\treturn err\n\t}\n\n\treturn nil\n}"},
		Variant{Prop: "C16", Name: "tail-append-failure-swallowed", File: "sync/syncer_tail.go", Expect: "C16.c",
			Old: "\tif err != nil {\n\t\treturn newTail, fmt.Errorf(\"appending tail header %d: %w\", newTail.Height(), err)\n\t}", New: "\tif err != nil {\n\t\tlog.Errorw(\"appending tail header\", \"err\", err)\n\t}"},
		Variant{Prop: "C06", Name: "flush-pointer-write-failure-swallowed", File: st, Expect: "C06.a",
			Old: "\tif err := writeHeaderHashTo(ctx, batch, tail, tailKey); err != nil {\n\t\treturn err\n\t}", New: "\tif err := writeHeaderHashTo(ctx, batch, tail, tailKey); err != nil {\n\t\tlog.Errorw(\"tail pointer\", \"err\", err)\n\t}"},

		// C08.c: the dispatcher/worker protocol of the parallel deletion
		Variant{Prop: "C08", Name: "stop-channel-closed-by-a-successful-worker", File: "store/store_delete.go", Expect: "C08.c",
			Old: "\t\t\tif last.err != nil {\n\t\t\t\tcloseErrChOnce.Do(", New: "\t\t\tif last.err == nil {\n\t\t\t\tcloseErrChOnce.Do("},
		Variant{Prop: "C08", Name: "worker-continues-after-a-failed-step", File: "store/store_delete.go", Expect: "C08.c",
			Old: "\t\t\t} else if last.err != nil {\n\t\t\t\tbreak\n\t\t\t}\n\t\t}\n\t}\n\n\tvar wg sync.WaitGroup", New: "\t\t\t}\n\t\t}\n\t}\n\n\tvar wg sync.WaitGroup"},
		Variant{Prop: "C08", Name: "results-evaluated-before-workers-finished", File: "store/store_delete.go", Expect: "C08.c",
			Old: "\t// await all workers to finish\n\twg.Wait()\n", New: "\t// await all workers to finish\n"},
		Variant{Prop: "C08", Name: "results-not-ordered-by-height", File: "store/store_delete.go", Expect: "C08.c",
			Old: "\tslices.SortFunc(results, func(a, b result) int {\n\t\treturn int(a.height - b.height) //nolint:gosec\n\t})\n", New: "\t_ = slices.Clone(results)\n"},
		Variant{Prop: "C08", Name: "failed-worker-result-ignored", File: "store/store_delete.go", Expect: "C08.c",
			Old: "\t\tif result.err != nil {\n\t\t\t// return the error immediately", New: "\t\tif result.err != nil && result.missing > 0 {\n\t\t\t// return the error immediately"},
		Variant{Prop: "C08", Name: "parallel-progress-is-the-minimum", File: "store/store_delete.go", Expect: "C08.c",
			Old: "\t\tif result.height > highest {", New: "\t\tif result.height < highest {"},
		Variant{Prop: "C08", Name: "commit-error-recorded-only-on-success", File: "store/store_delete.go", Expect: "C08.c",
			Old: "\t\t\tif err := done(); err != nil {\n\t\t\t\tlast.err = errors.Join(", New: "\t\t\tif err := done(); err == nil {\n\t\t\t\tlast.err = errors.Join("},
		Variant{Prop: "C08", Name: "benign-parallel-progress-by-max-builtin", File: "store/store_delete.go",
			Old: "\t\tif result.height > highest {\n\t\t\thighest = result.height\n\t\t}", New: "\t\thighest = max(highest, result.height)"},

		// C10: a stored range is served; bodies
		Variant{Prop: "C10", Name: "stored-range-refused", File: "p2p/server.go", Expect: "C10.b",
			Old: "\tif !serv.store.HasAt(ctx, to-1) {", New: "\tif serv.store.HasAt(ctx, to-1) {"},
		Variant{Prop: "C10", Name: "range-starting-at-the-head-refused", File: "p2p/server.go", Expect: "C10.b",
			Old: "\t\tif head.Height() < from {", New: "\t\tif head.Height() <= from {"},
		Variant{Prop: "C10", Name: "zero-header-marshalled-real-header-sent-empty", File: "p2p/server.go", Expect: "C10.f",
			Old: "\t\tif !h.IsZero() {\n\t\t\tbin, err = h.MarshalBinary()", New: "\t\tif h.IsZero() {\n\t\t\tbin, err = h.MarshalBinary()"},
		Variant{Prop: "C10", Name: "failed-marshalling-still-written", File: "p2p/server.go", Expect: "C10.f",
			Old: "\t\t\tif err != nil {\n\t\t\t\tlog.Warnw(\"server: marshaling header to proto\", \"height\", h.Height, \"err\", err)\n\t\t\t\tstream.Reset() //nolint:errcheck\n\t\t\t\treturn\n\t\t\t}",
			New: "\t\t\tif err != nil {\n\t\t\t\tlog.Warnw(\"server: marshaling header to proto\", \"height\", h.Height, \"err\", err)\n\t\t\t}"},

		Variant{Prop: "C08", Name: "benign-batch-commit-via-local", File: st,
			Old: "\treturn contextds.WithWrite(ctx, batch), func() error {\n\t\treturn batch.Commit(ctx)\n\t}",
			New: "\treturn contextds.WithWrite(ctx, batch), func() error {\n\t\terr := batch.Commit(ctx)\n\t\treturn err\n\t}"},
	)
}
