package rules

import (
	"strings"

	"golang.org/x/tools/go/ssa"

	"hdrcheck/an"
)

func init() {
	register(&Rule{
		ID: "C03",
		Explanation: "Decides where stored headers can come from and which guards they pass: (a) provenance of every syncStore.Append call in package sync: the sync-target setter's own argument, headers taken out of the pending ranges (written only by that setter), the getter's range result under err==nil ∧ non-empty ∧ first.Height()==from.Height()+1, or the tail header fetched from the store / the trusted getter; the underlying Store.Append is invoked only by syncStore.Append and by the forced tail write; " +
			"(b) every call of the sync-target setter is verified: s.verify(ctx, h)==nil for the gossip path (under incomingMu), Verify(subject, intermediate)==nil in bifurcation, or the answer of the single-flight Head(WithTrustedHead(subject)) whose error (or the error of re-processing it through the gossip path) is nil; " +
			"(c) syncStore.Append lets headers at or above the head through only after a loop over all of them that rejects h.Height() != previous.Height()+1 starting from the head; (d) the range request loop stores a getter result only after the non-empty and first-height checks; " +
			"(e) the gossip path holds incomingMu across verification and adoption; (f) the registered verifier returns the gossip path's error unchanged; (g) the pending ranges are written only by the setter.",
		NotDecided: []string{
			"interleavings of the gossip handler with the sync loop (the load/store window on syncStore.head)",
			"honesty of the getter beyond the checked contract, and the Store's own gap-freedom (C04)",
		},
		Technique: "who-may-call and argument provenance over the call graph, phi-refined dominance facts for the verified-setter obligation, all-elements loop rule with rolling variable, lock-held analysis",
		Trusted:   "go/types+go/ssa; C01/C02 for Verify, C09 for what the Exchange verifies under WithTrustedHead, C15 for bifurcation",
		Run:       runC03,
		Imports: []Import{
			{From: "C07.e", Match: "ranges-strictly-increasing", As: "C03.g", Why: "a duplicate pending range can never be applied and freezes the subjective head every incoming header is verified against"},
			{From: "C07.a", Match: "target-only-above-store", As: "C03.i", Why: "a pending range at or below the store head is never cleaned out, so the subjective head stops advancing and a stale header at a stored height is no longer refused as known"},
			{From: "C02.b", As: "C03.j", Why: "the Syncer stores what its getter hands over as a verified range: VerifyRange has to verify every element against its own predecessor (and against nothing else) for 'verified range' to mean a chain"},
			{From: "C02.e", As: "C03.k", Why: "every header of a range the Syncer stores counts as verified only because VerifyRange puts each element — not just the first — through Verify (chain id, time, the type's own checks) before it joins the verified prefix"},
			{From: "C01.a", As: "C03.h", Why: "the acceptance test of the syncer is header.Verify: a header at or below the subjective head must be refused as known before it can replace a stored one"},
		},
	})
}

func runC03(c *an.Ctx) {
	p := c.P
	g := p.CG()
	ssAppend := p.Method("sync", "syncStore", "Append")
	setLocal := p.Method("sync", "Syncer", "setLocalHead")
	incoming := p.Method("sync", "Syncer", "incomingNetworkHead")
	verifyFn := p.Method("sync", "Syncer", "verify")
	bif := p.Method("sync", "Syncer", "verifyBifurcating")
	netHead := p.Method("sync", "Syncer", "networkHead")
	reqHeaders := p.Method("sync", "Syncer", "requestHeaders")
	procHeaders := p.Method("sync", "Syncer", "processHeaders")
	renew := p.Method("sync", "Syncer", "renewTail")
	startFn := p.Method("sync", "Syncer", "Start")
	rangesAdd := p.Method("sync", "ranges", "Add")
	wrapper := p.Method("sync", "syncHead", "Head")
	hVerify := p.Func("", "Verify")
	withTrusted := p.Func("", "WithTrustedHead")
	ok := true
	for name, f := range map[string]*ssa.Function{"sync.(*syncStore).Append": ssAppend, "sync.(*Syncer).setLocalHead": setLocal, "sync.(*Syncer).incomingNetworkHead": incoming,
		"sync.(*Syncer).verify": verifyFn, "sync.(*Syncer).verifyBifurcating": bif, "sync.(*Syncer).networkHead": netHead, "sync.(*Syncer).requestHeaders": reqHeaders,
		"sync.(*Syncer).processHeaders": procHeaders, "sync.(*Syncer).renewTail": renew, "sync.(*Syncer).Start": startFn, "sync.(*ranges).Add": rangesAdd,
		"sync.(*syncHead).Head": wrapper, "header.Verify": hVerify, "header.WithTrustedHead": withTrusted} {
		ok = c.Need(f, "C03.a", name) && ok
	}
	if !ok {
		return
	}

	// --- C03.a provenance of every Append
	var sites []an.CallSite
	for _, cs := range g.Sites(ssAppend) {
		if cs.Method == nil { // static calls only; interface invokes are inventoried below
			sites = append(sites, cs)
		}
	}
	c.Min("C03.a", "call sites of syncStore.Append", len(sites), 4)
	for _, cs := range sites {
		fn := cs.Caller
		t, ff := c.T(fn), c.F(fn)
		call := cs.Instr.(*ssa.Call)
		arg := call.Call.Args[len(call.Call.Args)-1]
		els := an.VariadicArgs(arg)
		src := t.Of(arg)
		if len(els) == 1 {
			src = t.Of(els[0])
		}
		key := "append-source:" + an.FuncName(fn)
		rule := "every header handed to the store comes from a verified or trusted source"
		switch fn {
		case setLocal:
			c.Check(len(els) == 1 && src == "p2", "C03.a", key, rule, fn, call, "source: the setter's own argument (obligation moves to its callers, C03.b): "+src, nil)
		case procHeaders:
			okP := strings.Contains(src, "headerRange[H]).Get@") || strings.Contains(src, "headerRange).Get")
			var gc *ssa.Call
			an.Instrs(fn, func(in ssa.Instruction) {
				if c2, isCall := in.(*ssa.Call); isCall && t.Of(c2) == src {
					gc = c2
				}
			})
			if gc != nil {
				okP = okP && strings.Contains(t.Of(gc.Call.Args[0]), "ranges[H]).First@")
			} else {
				okP = false
			}
			c.Check(okP, "C03.a", key, rule, fn, call, "source: headers taken from the first pending range (written only by the setter, C03.g): "+src, nil)
		case reqHeaders:
			okR := false
			fs := ff.AtInstr(call)
			var gc *ssa.Call
			an.Instrs(fn, func(in ssa.Instruction) {
				if c2, isCall := in.(*ssa.Call); isCall && c2.Call.IsInvoke() && c2.Call.Method.Name() == "GetRangeByHeight" && t.Of(c2)+"#0" == src {
					gc = c2
				}
			})
			if gc != nil {
				from := t.Of(gc.Call.Args[1])
				okR = isRecvField(t, gc.Call.Value, "getter") && fs.Has(an.EQ(t.Of(gc)+"#1", "nil")) && fs.Has(an.NE("len("+src+")", "0")) &&
					fs.Has(an.EQ("Height("+src+"[0])", "(Height("+from+")+1)"))
			}
			c.Check(okR, "C03.d", key, "a getter result is stored only under err==nil ∧ len≠0 ∧ first.Height()==from.Height()+1 (the getter contract is checked, not assumed)", fn, call, "source: "+src, fs)
		case renew:
			okT := false
			if len(els) == 1 {
				okT = trustedFetch(t, ff, els[0], 0)
			}
			c.Check(okT, "C03.a", key, rule, fn, call, "source: tail header fetched from the local store or the trusted getter: "+src, nil)
		default:
			// a helper that appends its own parameter: the obligation moves to its call sites, which
			// must all be in the tail-renewal function and pass a trusted fetch
			okH := len(els) == 1 && passedTrustedByRenew(c, g, renew, fn, els[0])
			c.Check(okH, "C03.a", key, rule, fn, call, "source: "+src+" (a parameter is accepted when every caller is the tail renewal passing a header fetched from the store or the trusted getter)", nil)
		}
	}
	// underlying Store.Append (embedded interface) only in syncStore.Append and the forced tail write
	nUnder := 0
	for _, fn := range p.RepoFuncs() {
		if an.Enclosing(fn).Pkg != ssAppend.Pkg {
			continue
		}
		t := c.T(fn)
		an.Instrs(fn, func(in ssa.Instruction) {
			call, isCall := in.(*ssa.Call)
			if !isCall || !call.Call.IsInvoke() || call.Call.Method.Name() != "Append" {
				return
			}
			nUnder++
			switch fn {
			case ssAppend:
				c.Ok("C03.a", "underlying-append:syncStore.Append", "the underlying Store.Append is invoked only by syncStore.Append and by the forced tail write", fn, call, "", nil)
			case renew:
				els := an.VariadicArgs(call.Call.Args[len(call.Call.Args)-1])
				c.Check(len(els) == 1 && trustedFetch(t, c.F(fn), els[0], 0), "C03.a", "underlying-append:renewTail", "the forced (non-adjacent) write stores only the tail header fetched from the store or the trusted getter", fn, call, "", nil)
			default:
				els := an.VariadicArgs(call.Call.Args[len(call.Call.Args)-1])
				c.Check(len(els) == 1 && passedTrustedByRenew(c, g, renew, fn, els[0]), "C03.a", "underlying-append:"+an.FuncName(fn),
					"the underlying Store.Append is invoked only by syncStore.Append and by the forced tail write (possibly through a helper of the tail renewal that is handed the fetched header)", fn, call, "", nil)
			}
		})
	}
	c.Min("C03.a", "invocations of the underlying Store.Append", nUnder, 3)

	// --- C03.g pending ranges written only by the setter
	for _, caller := range g.Callers(rangesAdd) {
		c.Check(caller == setLocal, "C03.g", "ranges-add-caller:"+an.FuncName(caller), "headers enter the pending ranges only through the sync-target setter", caller, nil, "", nil)
	}
	{
		t := c.T(setLocal)
		for _, ac := range callsTo(setLocal, rangesAdd) {
			c.Check(t.Of(ac.Call.Args[1]) == "p2", "C03.g", "ranges-add-arg", "the setter adds exactly the header it was given", setLocal, ac, "", nil)
		}
	}
	checkPendingRangeAppendOnly(c, "C03.g")

	// --- C03.b every call of the setter is verified
	setSites := g.Sites(setLocal)
	c.Min("C03.b", "call sites of the sync-target setter", len(setSites), 3)
	for _, cs := range setSites {
		fn := cs.Caller
		t, ff := c.T(fn), c.F(fn)
		call := cs.Instr.(*ssa.Call)
		h := t.Of(call.Call.Args[2])
		fs := ff.AtRefined(call.Block())
		key := "setter-verified:" + an.FuncName(fn)
		rule := "a header becomes the sync target only after it was verified"
		switch fn {
		case incoming:
			okV := false
			for _, vc := range callsTo(fn, verifyFn) {
				if t.Of(vc.Call.Args[2]) == h && fs.Has(an.EQ(t.Of(vc), "nil")) {
					okV = true
				}
			}
			c.Check(okV && h == "p2", "C03.b", key, rule, fn, call, "witness: s.verify(ctx, head)==nil for the same header", fs)
		case bif:
			okV := false
			for _, vc := range callsTo(fn, hVerify) {
				if t.Of(vc.Call.Args[1]) == h && fs.Has(an.EQ(t.Of(vc), "nil")) {
					okV = true
				}
			}
			c.Check(okV, "C03.b", key, rule, fn, call, "witness: Verify(subject, intermediate)==nil for the same header (C15.c)", fs)
		case netHead:
			// h is the answer of the single-flight Head(WithTrustedHead(sbj)); the error variable is nil, and every
			// value that variable can hold is a verification witness for h
			var hc *ssa.Call
			for _, x := range callsTo(fn, wrapper) {
				if t.Of(x)+"#0" == h {
					hc = x
				}
			}
			okV := hc != nil
			detail := ""
			if okV {
				okOpt := false
				for _, o := range an.VariadicArgs(hc.Call.Args[len(hc.Call.Args)-1]) {
					v := an.Unwrap(o)
					if ct, isCT := v.(*ssa.ChangeType); isCT {
						v = ct.X
					}
					if oc, isCall := v.(*ssa.Call); isCall && an.StaticCallee(&oc.Call) == withTrusted {
						okOpt = true
					}
				}
				okV = okOpt
				ph, hasPhi := firstErrPhi(fn, hc)
				if hasPhi {
					okV = okV && fs.Has(an.EQ(t.Of(ph), "nil"))
					for _, pe := range ff.PhiOperands(ph) {
						v := t.Of(pe.Val)
						switch {
						case v == t.Of(hc)+"#1":
							detail += "Head#1; "
						case strings.Contains(v, "incomingNetworkHead@"):
							var ic *ssa.Call
							for _, x := range callsTo(fn, incoming) {
								if t.Of(x) == v {
									ic = x
								}
							}
							okV = okV && ic != nil && t.Of(ic.Call.Args[2]) == h
							detail += "incomingNetworkHead(answer); "
						default:
							okV = false
							detail += "unexpected " + v + "; "
						}
					}
				} else {
					okV = okV && fs.Has(an.EQ(t.Of(hc)+"#1", "nil"))
				}
			}
			c.Check(okV, "C03.b", key, rule, fn, call, "witness: error of Head(WithTrustedHead(subject)) is nil, every value of that error variable is a witness ("+detail+")", fs)
		default:
			c.Fail("C03.b", key, rule, fn, call, "unexpected caller of the sync-target setter", fs)
		}
	}

	// --- C03.c adjacency guard in syncStore.Append
	{
		t, ff := c.T(ssAppend), c.F(ssAppend)
		loop := loopOver(t, "p2")
		var headC *ssa.Call
		for _, hc := range callsTo(ssAppend, p.Method("sync", "syncStore", "Head")) {
			headC = hc
		}
		if (loop == nil || len(loop.Elems) == 0) && headC != nil && checkAdjacencyWalker(c, ssAppend, headC) {
			// the adjacency walk lives in a helper (checked there)
		} else if loop == nil || len(loop.Elems) == 0 || headC == nil {
			c.Undecided("C03.c", "adjacency-loop", "syncStore.Append walks all headers against the head", ssAppend, nil, "loop over the headers or the head lookup not found")
		} else {
			elem := t.Of(loop.Elems[0])
			headT := t.Of(headC) + "#0"
			// rolling variable: local (address published through the atomic pointer) assigned the head and then each element
			var roll *ssa.Alloc
			var adj *an.Fact
			for _, f := range condFacts(t) {
				if f.Op == "EQ" && (strings.HasPrefix(f.A, "(Height(load(") && f.B == "Height("+elem+")" || strings.HasPrefix(f.B, "(Height(load(") && f.A == "Height("+elem+")") {
					g2 := an.Fact{Atom: f.Atom, Pos: true}
					adj = &g2
				}
			}
			an.Instrs(ssAppend, func(in ssa.Instruction) {
				if st, isSt := in.(*ssa.Store); isSt {
					if al, isAl := st.Addr.(*ssa.Alloc); isAl && t.Of(st.Val) == elem {
						roll = al
					}
				}
			})
			okRoll := roll != nil && adj != nil
			if !okRoll {
				// the rolling header may also be an ordinary loop-carried variable (a phi): head on entry,
				// the accepted element on the way back
				if a2, ok2 := rollingPhi(t, ff, loop, headT); ok2 {
					adj, okRoll, roll = a2, true, nil
				}
			}
			if okRoll && roll != nil {
				for _, st := range an.AllocStores(roll) {
					v := t.Of(st.Val)
					switch v {
					case headT:
					case elem:
						okRoll = okRoll && ff.AtInstr(st).Has(*adj)
					default:
						okRoll = false
					}
				}
				okRoll = okRoll && strings.Contains(adj.A+adj.B, "load("+roll.Name()+")")
			}
			c.Check(okRoll, "C03.c", "rolling-adjacency", "each header must be at previous.Height()+1, where previous starts as the head and becomes each accepted header in turn", ssAppend, nil, "", nil)
			if adj != nil {
				pr := ff.Prune(adj.Neg())
				n := 0
				for _, r := range pr.Returns() {
					if pr.AtInstr(r).Has(adj.Neg()) {
						n++
						c.Check(strings.HasPrefix(t.ErrShape(errResult(r)), "&sync.errNonAdjacent{"), "C03.c", "non-adjacent-rejected", "a non-adjacent header is rejected with errNonAdjacent", ssAppend, r, t.ErrShape(errResult(r)), nil)
					}
				}
				c.Min("C03.c", "rejections of a non-adjacent header", n, 1)
			}
			atOrAbove := an.GE("Height(p2[0])", "Height("+headT+")")
			n := 0
			an.Instrs(ssAppend, func(in ssa.Instruction) {
				call, isCall := in.(*ssa.Call)
				if !isCall || !call.Call.IsInvoke() || call.Call.Method.Name() != "Append" {
					return
				}
				fs := ff.AtInstr(call)
				if fs.Has(an.B("errors.Is(" + t.Of(headC) + "#1,header.ErrEmptyStore)")) {
					return // initialisation of an empty store
				}
				n++
				pr := ff.Prune(atOrAbove)
				okG := !pr.Reachable(call.Block()) || pr.AtInstr(call).Has(loop.InLoop.Neg())
				c.Check(okG && fs.Has(an.EQ(t.Of(headC)+"#1", "nil")), "C03.c", "append-after-adjacency-loop", "headers at or above the head reach the underlying store only after the adjacency loop accepted all of them", ssAppend, call, "", pr.AtInstr(call))
			})
			c.Min("C03.c", "guarded underlying appends", n, 1)
			// the cached head the adjacency test starts from follows every accepted batch: a cache that
			// is not moved makes the next adjacent header look non-adjacent (and lets a stale one pass)
			isHeadStore := func(in ssa.Instruction) bool {
				call, ok := in.(*ssa.Call)
				return ok && strings.HasSuffix(an.StaticFullName(&call.Call), "atomic.Pointer[T]).Store") && len(call.Call.Args) > 0 && strings.HasSuffix(an.Stable(t.Of(call.Call.Args[0])), "p0.head")
			}
			nRet := 0
			for _, r := range ff.Returns() {
				tail := false
				if ec, isCall := t.Deref(errResult(r)).(*ssa.Call); isCall && ec.Call.IsInvoke() && ec.Call.Method.Name() == "Append" {
					tail = !ff.AtInstr(r).Has(an.NE(t.Of(ec), "nil")) // `return s.Store.Append(…)`, not the failure exit
				}
				if t.ErrShape(errResult(r)) == "nil" || tail {
					fs := ff.AtInstr(r)
					if fs.Has(an.EQ("len(p2)", "0")) {
						continue
					}
					pr := ff.Prune(atOrAbove)
					if !pr.Reachable(r.Block()) {
						continue
					}
					nRet++
					okS := (an.Flow{Fn: ssAppend, Skip: pr.Removed}).MustPrecede(isHeadStore, r)
					c.Check(okS, "C03.c", "head-cache-follows-append", "a batch at or above the head that is handed to the store also moves the cached head the next adjacency test starts from", ssAppend, r, "", nil)
				}
			}
			c.Min("C03.c", "accepting exits of syncStore.Append at or above the head", nRet, 1)
			// … and it moves only forward: it is written when an empty store is initialised, or with the
			// last header of a batch at or above it that went through the adjacency loop — never with a
			// batch below it (the backfill of a lower tail would drag the subjective head down and let a
			// stale header of a stored height pass as new)
			nStore := 0
			an.Instrs(ssAppend, func(in ssa.Instruction) {
				if !isHeadStore(in) {
					return
				}
				nStore++
				fs := ff.AtInstr(in)
				okF := fs.Has(atOrAbove) || fs.Has(an.B("errors.Is("+t.Of(headC)+"#1,header.ErrEmptyStore)"))
				c.Check(okF, "C03.c", "head-cache-only-forward", "the cached head is written only when the store was empty or with a batch at or above it", ssAppend, in, "", fs)
				// outside the initialisation of an empty store the cached head moves BEFORE the batch goes to
				// the Store: Head() (networkHead → setLocalHead, without incomingMu) appends concurrently with
				// the gossip path, and while a write of height K+1 is under way a second, different header of
				// height K+1 must already fail the adjacency test — one header per height
				if fs.Has(atOrAbove) {
					late := false
					for _, uc := range invokesOf(t, "Append", nil) {
						if (an.Flow{Fn: ssAppend}).CanReach(uc, in) {
							late = true
						}
					}
					c.Check(!late, "C03.c", "head-cache-before-store-append", "an accepted batch moves the cached head before it is handed to the Store (no window in which a second appender passes the adjacency test against the old head)", ssAppend, in, "", nil)
				}
			})
			c.Min("C03.c", "writes of the cached head in syncStore.Append", nStore, 2)
			checkArith(c, "C03.c", []*ssa.Function{ssAppend}, map[string]bool{"index": true, "slice": true, "usub": true}, nil, nil)
			checkAdjacencyExact(c, "C03.c", ssAppend)
			checkCacheMoveThenAppend(c, "C03.c")
			checkHeadCacheRestoredOnFailedAppend(c, "C03.c")
		}
	}

	// --- C03.e incomingMu across verify and adoption
	{
		t := c.T(incoming)
		lk, ul := mutexOp(t, "incomingMu", "Lock"), mutexOp(t, "incomingMu", "Unlock")
		for _, callee := range []*ssa.Function{verifyFn, setLocal} {
			cs := callsTo(incoming, callee)
			c.Min("C03.e", "calls of "+an.FuncName(callee)+" in incomingNetworkHead", len(cs), 1)
			for _, call := range cs {
				c.Check(an.LockHeld(incoming, lk, ul, call, nil), "C03.e", "under-incomingMu:"+an.FuncName(callee), "verification and adoption of a network head happen in one incomingMu critical section", incoming, call, "", nil)
			}
		}
		ff := c.F(incoming)
		for _, vc := range callsTo(incoming, verifyFn) {
			pr := ff.Prune(an.NE(t.Of(vc), "nil"))
			for _, r := range pr.Returns() {
				if pr.AtInstr(r).Has(an.NE(t.Of(vc), "nil")) {
					c.Check(t.ErrShape(errResult(r)) == "prop("+t.Of(vc)+")", "C03.f", "verify-error-returned", "a header that fails verification is refused with that error", incoming, r, "", nil)
				}
			}
			for _, sc := range callsTo(incoming, setLocal) {
				c.Check(!pr.Reachable(sc.Block()), "C03.f", "no-adoption-after-failure", "a header that fails verification never becomes the sync target", incoming, sc, "", nil)
			}
		}
	}

	// --- C03.f the registered verifier propagates the error
	{
		nV := 0
		for _, cl := range startFn.AnonFuncs {
			ics := callsTo(cl, incoming)
			if len(ics) == 0 {
				continue
			}
			nV++
			t, ff := c.T(cl), c.F(cl)
			ic := ics[0]
			c.Check(t.Of(ic.Call.Args[2]) == "p1", "C03.f", "verifier-passes-header", "the registered verifier processes exactly the header it was given", cl, ic, "", nil)
			pr := ff.Prune(an.NE(t.Of(ic), "nil"))
			for _, r := range pr.Returns() {
				if pr.AtInstr(r).Has(an.NE(t.Of(ic), "nil")) {
					c.Check(t.ErrShape(errResult(r)) == "prop("+t.Of(ic)+")", "C03.f", "verifier-returns-error", "the registered verifier returns the refusal unchanged (so the Subscriber rejects or ignores the message)", cl, r, "", nil)
				}
			}
		}
		c.Min("C03.f", "verifier closures registered by Start", nV, 1)
		// SetVerifier is called with that closure
		t := c.T(startFn)
		okReg := false
		an.Instrs(startFn, func(in ssa.Instruction) {
			if call, isCall := in.(*ssa.Call); isCall && call.Call.IsInvoke() && call.Call.Method.Name() == "SetVerifier" && isRecvField(t, call.Call.Value, "sub") {
				if _, isMC := call.Call.Args[0].(*ssa.MakeClosure); isMC {
					okReg = true
				}
			}
		})
		c.Check(okReg, "C03.f", "verifier-registered", "Start registers the verifier with the subscriber", startFn, nil, "", nil)
	}
}

// trustedFetch: v is (a phi of) first results of store.Get / getter.Get / GetByHeight calls.
func contradictory(fs an.FactSet) bool {
	for _, f := range fs {
		if fs.Has(f.Neg()) {
			return true
		}
	}
	return false
}

// rollingPhi finds, at the header of an index-walk loop, a loop-carried header whose value is start
// on entry and the current element on every way back, the way back being guarded by
// elem.Height() == rolling.Height()+1. It returns that adjacency fact.
func rollingPhi(t *an.Terms, ff *an.FuncFacts, loop *idxLoop, start string) (*an.Fact, bool) {
	if loop == nil || len(loop.Elems) == 0 {
		return nil, false
	}
	elem := t.Of(loop.Elems[0])
	for _, in := range loop.Header.Instrs {
		ph, isPhi := in.(*ssa.Phi)
		if !isPhi {
			break
		}
		if ph == loop.Phi || ph.Type() != loop.Elems[0].Type() {
			continue
		}
		rollH := "(Height(" + t.Of(ph) + ")+1)"
		var adj *an.Fact
		for _, f := range condFacts(t) {
			if f.Op == "EQ" && (f.A == rollH && f.B == "Height("+elem+")" || f.B == rollH && f.A == "Height("+elem+")") {
				g2 := an.Fact{Atom: f.Atom, Pos: true}
				adj = &g2
			}
		}
		if adj == nil {
			continue
		}
		ok := true
		for _, pe := range ff.PhiOperands(ph) {
			if ff.Dominates(loop.Header, pe.Pred) {
				ok = ok && t.Of(pe.Val) == elem && pe.Facts.Has(*adj)
			} else {
				ok = ok && t.Of(pe.Val) == start
			}
		}
		if ok {
			return adj, true
		}
	}
	return nil, false
}

// checkAdjacencyWalker handles the variant of syncStore.Append in which the adjacency walk was
// extracted into a helper W(head, headers) (newHead, error) of the same package: the same
// obligations are evaluated inside W, and Append must store only after W returned nil.
func checkAdjacencyWalker(c *an.Ctx, ssAppend *ssa.Function, headC *ssa.Call) bool {
	t, ff := c.T(ssAppend), c.F(ssAppend)
	headT := t.Of(headC) + "#0"
	var wc *ssa.Call
	var w *ssa.Function
	var wl *idxLoop
	hdIdx := -1
	an.Instrs(ssAppend, func(in ssa.Instruction) {
		call, isCall := in.(*ssa.Call)
		if !isCall || call.Call.IsInvoke() {
			return
		}
		cal := an.StaticCallee(&call.Call)
		if cal == nil || cal.Blocks == nil || cal.Pkg != ssAppend.Pkg {
			return
		}
		si, hi := -1, -1
		for i, a := range call.Call.Args {
			switch t.Of(a) {
			case "p2":
				si = i
			case headT:
				hi = i
			}
		}
		if si < 0 || hi < 0 {
			return
		}
		if l := loopOver(c.T(cal), "p"+itoa(si)); l != nil && len(l.Elems) > 0 {
			wc, w, wl, hdIdx = call, cal, l, hi
		}
	})
	if w == nil {
		return false
	}
	wt, wf := c.T(w), c.F(w)
	elem := wt.Of(wl.Elems[0])
	// rolling header: a phi at the loop header, the head parameter on entry, the accepted element on the way back
	var roll *ssa.Phi
	for _, in := range wl.Header.Instrs {
		ph, isPhi := in.(*ssa.Phi)
		if !isPhi {
			break
		}
		if ph != wl.Phi && ph.Type() == wl.Elems[0].Type() {
			roll = ph
		}
	}
	var adj *an.Fact
	if roll != nil {
		rollH := "(Height(" + wt.Of(roll) + ")+1)"
		for _, f := range condFacts(wt) {
			if f.Op == "EQ" && (f.A == rollH && f.B == "Height("+elem+")" || f.B == rollH && f.A == "Height("+elem+")") {
				g2 := an.Fact{Atom: f.Atom, Pos: true}
				adj = &g2
			}
		}
	}
	okRoll := roll != nil && adj != nil
	if okRoll {
		for _, pe := range wf.PhiOperands(roll) {
			if wf.Dominates(wl.Header, pe.Pred) {
				okRoll = okRoll && wt.Of(pe.Val) == elem && pe.Facts.Has(*adj)
			} else {
				okRoll = okRoll && wt.Of(pe.Val) == "p"+itoa(hdIdx)
			}
		}
	}
	c.Check(okRoll, "C03.c", "rolling-adjacency", "each header must be at previous.Height()+1, where previous starts as the head and becomes each accepted header in turn", w, nil, "walk extracted into "+an.FuncName(w), nil)
	if adj != nil {
		pr := wf.Prune(adj.Neg())
		n := 0
		for _, r := range pr.Returns() {
			if pr.AtInstr(r).Has(adj.Neg()) {
				n++
				c.Check(strings.HasPrefix(wt.ErrShape(errResult(r)), "&sync.errNonAdjacent{"), "C03.c", "non-adjacent-rejected", "a non-adjacent header is rejected with errNonAdjacent", w, r, wt.ErrShape(errResult(r)), nil)
			}
		}
		c.Min("C03.c", "rejections of a non-adjacent header", n, 1)
	}
	// the walker reports success only after the whole walk
	for _, r := range wf.Returns() {
		if wt.ErrShape(errResult(r)) == "nil" {
			c.Check(wf.AtInstr(r).Has(wl.InLoop.Neg()), "C03.c", "walk-accepts-only-at-loop-exit", "the adjacency walk returns a nil error only after it has visited every header", w, r, "", wf.AtInstr(r))
		}
	}
	// Append stores only after the walk accepted
	atOrAbove := an.GE("Height(p2[0])", "Height("+headT+")")
	wErr := t.Of(wc) + "#" + itoa(w.Signature.Results().Len()-1)
	n := 0
	an.Instrs(ssAppend, func(in ssa.Instruction) {
		call, isCall := in.(*ssa.Call)
		if !isCall || !call.Call.IsInvoke() || call.Call.Method.Name() != "Append" {
			return
		}
		fs := ff.AtInstr(call)
		if fs.Has(an.B("errors.Is(" + t.Of(headC) + "#1,header.ErrEmptyStore)")) {
			return
		}
		n++
		pr := ff.Prune(atOrAbove)
		okG := !pr.Reachable(call.Block()) || pr.AtInstr(call).Has(an.EQ(wErr, "nil"))
		c.Check(okG && fs.Has(an.EQ(t.Of(headC)+"#1", "nil")), "C03.c", "append-after-adjacency-loop", "headers at or above the head reach the underlying store only after the adjacency loop accepted all of them", ssAppend, call, "", pr.AtInstr(call))
	})
	c.Min("C03.c", "guarded underlying appends", n, 1)
	return true
}

// passedTrustedByRenew: v is a parameter of the helper fn, every call site of fn lies in the
// tail renewal (or in another such helper, one more level) and passes a trusted fetch there.
func passedTrustedByRenew(c *an.Ctx, g *an.CallGraph, renew, fn *ssa.Function, v ssa.Value) bool {
	return passedTrusted(c, g, renew, fn, v, 0)
}

func passedTrusted(c *an.Ctx, g *an.CallGraph, renew, fn *ssa.Function, v ssa.Value, depth int) bool {
	if depth > 2 {
		return false
	}
	if d := c.T(fn).Deref(v); d != nil {
		v = d
	}
	par, isPar := v.(*ssa.Parameter)
	if !isPar {
		return false
	}
	idx := -1
	for i, p := range fn.Params {
		if p == par {
			idx = i
		}
	}
	sites := g.Sites(fn)
	if idx < 0 || len(sites) == 0 {
		return false
	}
	for _, cs := range sites {
		if cs.Method != nil {
			return false
		}
		call, isCall := cs.Instr.(*ssa.Call)
		if !isCall || idx >= len(call.Call.Args) {
			return false
		}
		arg := call.Call.Args[idx]
		caller := cs.Caller
		switch {
		case caller == renew:
			if !trustedFetch(c.T(caller), c.F(caller), arg, 0) {
				return false
			}
		default:
			if !passedTrusted(c, g, renew, caller, arg, depth+1) {
				return false
			}
		}
	}
	return true
}

func trustedFetch(t *an.Terms, ff *an.FuncFacts, v ssa.Value, depth int) bool {
	if depth > 4 {
		return false
	}
	v = t.Deref(v)
	switch x := v.(type) {
	case *ssa.Extract:
		call, ok := x.Tuple.(*ssa.Call)
		if !ok || x.Index != 0 || !call.Call.IsInvoke() {
			return false
		}
		m := call.Call.Method.Name()
		recv := an.Stable(t.Of(call.Call.Value))
		return (m == "Get" || m == "GetByHeight") && (strings.HasSuffix(recv, ".getter") || strings.Contains(recv, ".store"))
	case *ssa.Phi:
		n := 0
		for _, pe := range ff.PhiOperands(x) {
			if contradictory(pe.Facts) {
				continue // infeasible edge (e.g. the fall-through of `switch { case c: …; case !c: … }`)
			}
			n++
			if !trustedFetch(t, ff, pe.Val, depth+1) {
				return false
			}
		}
		return n > 0
	case *ssa.UnOp:
		if al, ok := x.X.(*ssa.Alloc); ok {
			sts := an.AllocStores(al)
			n := 0
			for _, s := range sts {
				if su, isSU := s.Val.(*ssa.UnOp); isSU && su.X == ssa.Value(al) {
					continue
				}
				if p, isP := s.Val.(*ssa.Parameter); isP {
					_ = p
					continue // `return oldTail, err` style re-use of a parameter for error returns
				}
				n++
				if !trustedFetch(t, ff, s.Val, depth+1) {
					return false
				}
			}
			return n > 0
		}
	}
	return false
}
