package rules

import (
	"sort"
	"strings"

	"golang.org/x/tools/go/ssa"

	"hdrcheck/an"
)

// Lock balance: a forward may-analysis over the CFG of one function with, per
// mutex (keyed by the term of its address, e.g. "&p0.stateLk"), the set of states
// the mutex may be in: unlocked, write-locked, read-locked, locked-with-deferred-
// release. The rule reports
//   - a Lock/RLock where this function may already hold the write lock (self-deadlock:
//     sync mutexes are not re-entrant),
//   - an Unlock/RUnlock where the function may not hold the lock (fatal runtime error),
//   - a return with the lock possibly held and no deferred release (the next
//     operation on the structure blocks for good).
// A liveness clause ("the sync finishes", "the waiter is woken", "Head returns")
// cannot hold when one of these fires, whatever the schedule.
const (
	lkU = 1 << iota // unlocked
	lkL             // write-locked
	lkR             // read-locked
	lkD             // locked, release deferred
)

type lockOp struct {
	key string
	op  string // Lock, Unlock, RLock, RUnlock, TryLock
	def bool   // deferred
}

func lockOpOf(t *an.Terms, in ssa.Instruction) (lockOp, bool) {
	ci, ok := in.(ssa.CallInstruction)
	if !ok {
		return lockOp{}, false
	}
	if _, isGo := in.(*ssa.Go); isGo {
		return lockOp{}, false
	}
	cc := ci.Common()
	full := an.StaticFullName(cc)
	if !strings.HasPrefix(full, "(*sync.Mutex).") && !strings.HasPrefix(full, "(*sync.RWMutex).") {
		return lockOp{}, false
	}
	if len(cc.Args) == 0 {
		return lockOp{}, false
	}
	_, isDefer := in.(*ssa.Defer)
	return lockOp{key: an.Stable(t.Of(cc.Args[0])), op: full[strings.LastIndex(full, ".")+1:], def: isDefer}, true
}

// checkLockBalance analyses fns and returns the number of mutex operations covered.
func checkLockBalance(c *an.Ctx, id string, fns ...*ssa.Function) int {
	total := 0
	for _, fn := range fns {
		if fn == nil || fn.Blocks == nil {
			continue
		}
		t := c.T(fn)
		keys := map[string]bool{}
		skip := ""
		an.Instrs(fn, func(in ssa.Instruction) {
			if op, ok := lockOpOf(t, in); ok {
				keys[op.key] = true
				if op.op == "TryLock" {
					skip = "TryLock"
				}
			}
		})
		if len(keys) == 0 {
			continue
		}
		if skip != "" {
			// conditional acquisition: decided by the property that owns it (C16.e)
			continue
		}
		var ks []string
		for k := range keys {
			ks = append(ks, k)
		}
		sort.Strings(ks)
		for _, key := range ks {
			nOps := 0
			in := make([]int, len(fn.Blocks))
			out := make([]int, len(fn.Blocks))
			in[0] = lkU
			type viol struct {
				at  ssa.Instruction
				why string
			}
			var viols []viol
			transfer := func(b *ssa.BasicBlock, st int, report bool) int {
				for _, ins := range b.Instrs {
					if op, ok := lockOpOf(t, ins); ok && op.key == key {
						if report {
							nOps++
						}
						switch {
						case op.def && (op.op == "Unlock" || op.op == "RUnlock"):
							if report && st&(lkU|lkD) != 0 {
								viols = append(viols, viol{ins, "release deferred while the lock may not be held (or is already deferred)"})
							}
							st = lkD
						case op.def:
							// a deferred acquisition makes no sense in this code base; treat as undecidable
							if report {
								viols = append(viols, viol{ins, "deferred acquisition"})
							}
						case op.op == "Lock":
							if report && st&(lkL|lkR|lkD) != 0 {
								viols = append(viols, viol{ins, "Lock while this function may already hold the mutex (self-deadlock)"})
							}
							st = lkL
						case op.op == "RLock":
							if report && st&(lkL|lkD) != 0 {
								viols = append(viols, viol{ins, "RLock while this function may hold the write lock (self-deadlock)"})
							}
							st = lkR
						case op.op == "Unlock":
							if report && st != lkL {
								viols = append(viols, viol{ins, "Unlock while the write lock may not be held"})
							}
							st = lkU
						case op.op == "RUnlock":
							if report && st != lkR {
								viols = append(viols, viol{ins, "RUnlock while the read lock may not be held"})
							}
							st = lkU
						}
					}
					if r, isRet := ins.(*ssa.Return); isRet && report && st&(lkL|lkR) != 0 {
						viols = append(viols, viol{r, "return with the mutex possibly held and no deferred release"})
					}
				}
				return st
			}
			for changed := true; changed; {
				changed = false
				for _, b := range fn.Blocks {
					st := in[b.Index]
					if b.Index != 0 {
						st = 0
						for _, p := range b.Preds {
							st |= out[p.Index]
						}
					}
					if b == fn.Recover {
						continue
					}
					if st != in[b.Index] || out[b.Index] == 0 {
						in[b.Index] = st
						if st == 0 {
							continue
						}
						o := transfer(b, st, false)
						if o != out[b.Index] {
							out[b.Index] = o
							changed = true
						}
					}
				}
			}
			for _, b := range fn.Blocks {
				if in[b.Index] != 0 && b != fn.Recover {
					transfer(b, in[b.Index], true)
				}
			}
			total += nOps
			if len(viols) == 0 {
				c.Ok(id, "lock-balance:"+an.FuncName(fn)+":"+key, "every acquisition of the mutex is released on every path, never re-acquired while held, never released while free", fn, nil, "", nil)
				continue
			}
			for _, v := range viols {
				c.Fail(id, "lock-balance:"+an.FuncName(fn)+":"+key, "every acquisition of the mutex is released on every path, never re-acquired while held, never released while free", fn, v.at, v.why, nil)
			}
		}
	}
	return total
}

// lockSpec attaches the lock-balance rule to a clause of a property: the functions
// (by name prefix) whose mutex discipline that clause's liveness depends on.
type lockSpec struct {
	id       string
	prefixes []string
	min      int // mutex operations confirmed by hand on the pinned tree
	why      string
}

var lockTable = map[string][]lockSpec{
	"C03": {{"C03.e", []string{"sync.(*Syncer).incomingNetworkHead"}, 2, "incomingMu serialises the acceptance of network heads"}},
	"C04": {{"C04.a", []string{"store.(*batch)."}, 16, "the pending batch is read by every lookup"}},
	"C11": {{"C11.e", []string{"p2p.(*Subscriber).SetVerifier"}, 2, "verifierMu guards the one-time registration"}},
	"C12": {{"C12.c", []string{"store.(*heightSub)."}, 8, "heightSubsLk orders waiters against publications"}},
	"C14": {{"C14.a", []string{"store.(*Store).OnDelete", "store.(*Store).deleteSequential", "store.(*Store).deleteParallel"}, 6, "onDeleteMu guards the handler list"}},
	"C17": {{"C17.d", []string{"store.(*batch)."}, 16, "the pending batch is shared by the writer and all readers"}},
	"C18": {{"C18.d", []string{"p2p.(*peerQueue).", "p2p.(*peerStat).", "p2p.(*peerTracker)."}, 20, "the peer queue and the tracker are shared by all request goroutines"}},
	"C19": {{"C19.c", []string{"sync.(*syncHead).Head"}, 4, "headMu guards the single-flight state"}},
}

func runLockTable(prop string, c *an.Ctx) {
	for _, ls := range lockTable[prop] {
		n := checkLockBalance(c, ls.id, funcsNamed(c.P, ls.prefixes...)...)
		c.Min(ls.id, "mutex operations with balanced acquisition ("+ls.why+")", n, ls.min)
	}
}

// funcsNamed returns the repository functions (closures included) whose name starts with one of the prefixes.
func funcsNamed(p *an.Prog, prefixes ...string) []*ssa.Function {
	var out []*ssa.Function
	for _, fn := range p.RepoFuncs() {
		name := an.FuncName(fn)
		for _, pre := range prefixes {
			if strings.HasPrefix(name, pre) {
				out = append(out, fn)
				break
			}
		}
	}
	sort.Slice(out, func(i, j int) bool { return an.FuncName(out[i]) < an.FuncName(out[j]) })
	return out
}
