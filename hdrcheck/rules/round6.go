package rules

import (
	"go/types"
	"strings"

	"golang.org/x/tools/go/ssa"

	"hdrcheck/an"
)

// Clauses that came out of the sixth seeding round.

// checkDriversUnderDeletionDeadline (C08.d): deleteRangeRaw keeps 5% of the caller's deadline "to save
// progress": both deletion drivers run under the shortened context, so that when the time runs out
// setTail/setHead still have a live context to record how far the deletion got. A driver handed the
// caller's own context uses the whole deadline; the pointer update then fails on the expired context
// and the tail stays on a header that was just deleted.
func checkDriversUnderDeletionDeadline(c *an.Ctx, id string, raw *ssa.Function, drivers ...*ssa.Function) {
	t := c.T(raw)
	n := 0
	for _, d := range drivers {
		for _, call := range callsTo(raw, d) {
			n++
			// the context argument: the caller's context when it has no deadline, else the derived one —
			// a merge of the parameter and a context.WithDeadline… result, never the bare parameter
			arg := call.Call.Args[1]
			if dd := t.Deref(arg); dd != nil {
				arg = dd
			}
			ok := false
			var walk func(v ssa.Value, depth int) bool
			walk = func(v ssa.Value, depth int) bool {
				if depth > 4 {
					return false
				}
				switch x := v.(type) {
				case *ssa.Phi:
					derived := false
					for _, e := range x.Edges {
						if walk(e, depth+1) {
							derived = true
						}
					}
					return derived
				case *ssa.Extract:
					if cl, isCall := x.Tuple.(*ssa.Call); isCall && x.Index == 0 && strings.HasPrefix(an.StaticFullName(&cl.Call), "context.WithDeadline") {
						return true
					}
				case *ssa.UnOp:
					if al, isAl := x.X.(*ssa.Alloc); isAl {
						for _, s := range an.AllocStores(al) {
							if walk(s.Val, depth+1) {
								return true
							}
						}
					}
				}
				return false
			}
			ok = walk(arg, 0)
			c.Check(ok, id, "drivers-under-deletion-deadline:"+an.FuncName(d), "the deletion drivers run under the context that keeps part of the caller's deadline for saving progress (with the caller's own context the pointer update after a timeout runs on an expired context)", raw, call, "ctx "+an.Stable(t.Of(call.Call.Args[1])), nil)
		}
	}
	c.Min(id, "driver calls of deleteRangeRaw", n, 2)
}

// checkTailMovesAfterDeletion (C17.a): "a tail-side DeleteRange racing with appends at the head leaves a
// gap-free chain". The write loop's recedeTail walks the tail DOWN over whatever is stored below it: a
// tail moved up before the headers below it are gone is walked back down by the next append, the
// headers are then deleted and nobody repairs the tail. On the tail side setTail comes after the
// deletion (deleteRangeRaw) on every path.
func checkTailMovesAfterDeletion(c *an.Ctx, id string, deleteRange, raw, setTail *ssa.Function) {
	fl := an.Flow{Fn: deleteRange}
	n := 0
	for _, sc := range callsTo(deleteRange, setTail) {
		n++
		c.Check(fl.MustPrecede(an.IsCallTo(raw), sc), id, "tail-moves-after-deletion", "DeleteRange moves the tail only after the headers below the new tail were deleted (moved first, a concurrent append's recedeTail walks it back down over them)", deleteRange, sc, "", nil)
	}
	c.Min(id, "tail moves of DeleteRange", n, 1)
}

// checkWriteLoopContextDetached (C06.c): the write loop outlives the Start call: its context is derived
// from context.Background(), not from the context Start was given (a start-up timeout that is released
// after Start returns would freeze head and tail while the loop keeps writing headers).
func checkWriteLoopContextDetached(c *an.Ctx, id string) {
	start := c.P.Method("store", "Store", "Start")
	loop := c.P.Method("store", "Store", "flushLoop")
	if !c.Need(start, id, "store.(*Store).Start") || !c.Need(loop, id, "store.(*Store).flushLoop") {
		return
	}
	t := c.T(start)
	n := 0
	an.Instrs(start, func(in ssa.Instruction) {
		g, ok := in.(*ssa.Go)
		if !ok || an.StaticCallee(&g.Call) != loop || len(g.Call.Args) < 2 {
			return
		}
		n++
		okBg := false
		v := g.Call.Args[1]
		if d := t.Deref(v); d != nil {
			v = d
		}
		if ex, isEx := v.(*ssa.Extract); isEx && ex.Index == 0 {
			if cl, isCall := ex.Tuple.(*ssa.Call); isCall && strings.HasPrefix(an.StaticFullName(&cl.Call), "context.With") && len(cl.Call.Args) > 0 {
				if bg, isBg := cl.Call.Args[0].(*ssa.Call); isBg && an.StaticFullName(&bg.Call) == "context.Background" {
					okBg = true
				}
			}
		}
		c.Check(okBg, id, "write-loop-context-detached", "the write loop's context is derived from context.Background(), not from the context of the Start call (which may end while the Store is in use)", start, g, "ctx "+an.Stable(t.Of(g.Call.Args[1])), nil)
	})
	c.Min(id, "launches of the write loop", n, 1)
}

// checkCacheMoveThenAppend (C07.b / C03.c): once syncStore.Append has moved its cached head over a batch,
// the batch goes to the Store: there is no way out of the function in between. A return there (a context
// test, a validation) leaves the Syncer believing the headers are stored; they are never requested again
// and later heads are appended above the hole.
func checkCacheMoveThenAppend(c *an.Ctx, id string) {
	app := c.P.Method("sync", "syncStore", "Append")
	if !c.Need(app, id, "sync.(*syncStore).Append") {
		return
	}
	t := c.T(app)
	isUnder := func(in ssa.Instruction) bool {
		call, ok := in.(*ssa.Call)
		return ok && call.Call.IsInvoke() && call.Call.Method.Name() == "Append"
	}
	n := 0
	an.Instrs(app, func(in ssa.Instruction) {
		call, ok := in.(*ssa.Call)
		if !ok || !strings.HasSuffix(an.StaticFullName(&call.Call), "atomic.Pointer[T]).Store") || len(call.Call.Args) == 0 || !strings.HasSuffix(an.Stable(t.Of(call.Call.Args[0])), "p0.head") {
			return
		}
		// only the move in front of the append (the initialisation of an empty store stores afterwards)
		if !(an.Flow{Fn: app}).CanReach(call, firstMatching(app, isUnder, call)) {
			return
		}
		n++
		okF, at := (an.Flow{Fn: app}).MustFollow(call, isUnder, nil)
		c.Check(okF, id, "cache-move-then-append", "once the cached head has moved over a batch the batch is handed to the Store on every path (a return in between leaves the Syncer believing in headers that were never stored)", app, at, "", nil)
	})
	c.Min(id, "moves of the cached head in front of the append", n, 1)
}

// firstMatching returns an instruction matching pred that is reachable from `from` (or nil).
func firstMatching(fn *ssa.Function, pred an.InstrPred, from ssa.Instruction) ssa.Instruction {
	var hit ssa.Instruction
	an.Instrs(fn, func(in ssa.Instruction) {
		if hit == nil && pred(in) && (an.Flow{Fn: fn}).CanReach(from, in) {
			hit = in
		}
	})
	return hit
}

// checkDoneErrSameContext (C13.d): "… and fail with an error when no trusted peer does". In a collecting
// select the case that fires on c.Done() returns c.Err() of that very context: Err() of another context
// that is still alive is nil, the function returns (nil, nil) and its caller indexes an empty slice.
func checkDoneErrSameContext(c *an.Ctx, id string, fn *ssa.Function) {
	t, ff := c.T(fn), c.F(fn)
	n := 0
	an.Instrs(fn, func(in ssa.Instruction) {
		sel, ok := in.(*ssa.Select)
		if !ok {
			return
		}
		for i, st := range sel.States {
			if st.Send != nil {
				continue
			}
			dc, isCall := st.Chan.(*ssa.Call)
			if !isCall || !dc.Call.IsInvoke() || dc.Call.Method.Name() != "Done" {
				continue
			}
			ctxTerm := an.Stable(t.Of(dc.Call.Value))
			pr := ff.Prune(an.EQ(t.Of(sel)+"#0", itoa(i)))
			for _, r := range pr.Returns() {
				if !pr.AtRefined(r.Block()).Has(an.EQ(t.Of(sel)+"#0", itoa(i))) {
					continue
				}
				n++
				ev := errResult(r)
				if d := t.Deref(ev); d != nil {
					ev = d
				}
				okSame := false
				if ec, isEC := ev.(*ssa.Call); isEC && ec.Call.IsInvoke() && (ec.Call.Method.Name() == "Err") && an.Stable(t.Of(ec.Call.Value)) == ctxTerm {
					okSame = true
				}
				if ec, isEC := ev.(*ssa.Call); isEC && strings.HasSuffix(an.StaticFullName(&ec.Call), "context.Cause") && len(ec.Call.Args) == 1 && an.Stable(t.Of(ec.Call.Args[0])) == ctxTerm {
					okSame = true
				}
				if sh := t.ErrShape(errResult(r)); !okSame && sh != "nil" && !strings.HasPrefix(sh, "prop(") {
					okSame = true // a constructed error: certainly not nil
				}
				c.Check(okSame, id, "done-err-same-context", "the case that fires on a context's Done() returns that context's Err() (another, live context's Err() is nil: the request would report success with nothing)", fn, r, "fired on "+ctxTerm+", returns "+an.Stable(t.ErrShape(errResult(r))), nil)
			}
		}
	})
	c.Min(id, "context cases of the collecting select", n, 2)
}

// checkEveryAnswerTallied (C09.b): "returns the header reported by a quorum of the asked peers as soon as
// one exists". Every received header — verified or soft-failing — is counted for its hash: between the
// receipt of a non-zero header and the increment of its tally there is no way back to the loop head.
func checkEveryAnswerTallied(c *an.Ctx, id string, head *ssa.Function) {
	t, ff := c.T(head), c.F(head)
	// the tally: a map update whose value is (lookup of the same map)+1
	var tally []*ssa.MapUpdate
	an.Instrs(head, func(in ssa.Instruction) {
		mu, ok := in.(*ssa.MapUpdate)
		if !ok {
			return
		}
		if b, isB := mu.Value.(*ssa.BinOp); isB && b.Op.String() == "+" {
			if k, isK := b.Y.(*ssa.Const); isK && k.Value != nil && k.Value.ExactString() == "1" {
				tally = append(tally, mu)
			}
		}
	})
	if !c.Check(len(tally) >= 1, id, "every-answer-tallied", "every received header is counted for its hash before the next answer is taken", head, nil, "no per-hash counter found", nil) {
		return
	}
	// the soft-error bookkeeping: map updates with an error-typed value — from each, the tally must follow
	n := 0
	an.Instrs(head, func(in ssa.Instruction) {
		mu, ok := in.(*ssa.MapUpdate)
		if !ok || !isErrorTyped(mu.Value) {
			return
		}
		n++
		isTally := func(i ssa.Instruction) bool {
			for _, tm := range tally {
				if i == ssa.Instruction(tm) {
					return true
				}
			}
			return false
		}
		// along the paths that stay in the loop (no return), the tally follows before the loop head is
		// reached again: the update's block must not reach itself without passing the tally
		_ = isTally
		tallyBlocks := map[*ssa.BasicBlock]bool{}
		for _, tm := range tally {
			tallyBlocks[tm.Block()] = true
		}
		// walk forward from the record without crossing a tally: reaching a back edge (the next trip of
		// the loop) that way means this answer went uncounted
		okT := true
		seen := map[*ssa.BasicBlock]bool{}
		var visit func(b *ssa.BasicBlock)
		visit = func(b *ssa.BasicBlock) {
			if seen[b] || (tallyBlocks[b] && b != mu.Block()) {
				return
			}
			seen[b] = true
			if b == mu.Block() && tallyBlocks[b] {
				// tally in the same block: fine when it comes after the record
				for _, i2 := range b.Instrs {
					if i2 == ssa.Instruction(mu) {
						break
					}
				}
				after := false
				for _, i2 := range b.Instrs {
					if i2 == ssa.Instruction(mu) {
						after = true
					} else if after {
						for _, tm := range tally {
							if i2 == ssa.Instruction(tm) {
								return
							}
						}
					}
				}
			}
			for _, s := range b.Succs {
				if s.Dominates(b) {
					okT = false // a back edge, taken without having counted
					continue
				}
				visit(s)
			}
		}
		visit(mu.Block())
		c.Check(okT, id, "every-answer-tallied", "a soft-failing answer is counted for its hash like any other (a quorum of peers reporting the same soft-failing header is a quorum)", head, mu, "", ff.AtRefined(mu.Block()))
	})
	_ = t
	c.Min(id, "soft-failure records in the collecting loop", n, 1)
}

// checkDecoderCopiesBytes (C10.j): serde.Read hands the request buffer back to a pool right after
// Unmarshal: a bytes field of the decoded message that still points into the input buffer (a sub-slice
// instead of a copy) is overwritten by the next request read into that buffer — a hash request is then
// answered with another peer's header.
func checkDecoderCopiesBytes(c *an.Ctx, id string) {
	n := 0
	for _, fn := range c.P.RepoFuncs() {
		if fn.Blocks == nil || fn.Pkg == nil || !strings.HasSuffix(fn.Pkg.Pkg.Path(), "/p2p/pb") || fn.Name() != "Unmarshal" {
			continue
		}
		var buf *ssa.Parameter
		for _, p := range fn.Params {
			if sl, ok := p.Type().Underlying().(*types.Slice); ok {
				if b, isB := sl.Elem().Underlying().(*types.Basic); isB && b.Kind() == types.Uint8 {
					buf = p
				}
			}
		}
		if buf == nil {
			continue
		}
		an.Instrs(fn, func(in ssa.Instruction) {
			st, ok := in.(*ssa.Store)
			if !ok {
				return
			}
			if _, isFA := st.Addr.(*ssa.FieldAddr); !isFA {
				return
			}
			sl, isSl := st.Val.Type().Underlying().(*types.Slice)
			if !isSl {
				return
			}
			if b, isB := sl.Elem().Underlying().(*types.Basic); !isB || b.Kind() != types.Uint8 {
				return
			}
			n++
			aliases := false
			if s2, isSlice := st.Val.(*ssa.Slice); isSlice && s2.X == ssa.Value(buf) {
				aliases = true
			}
			c.Check(!aliases, id, "decoder-copies-bytes:"+an.FuncName(fn), "a bytes field of a decoded message is a copy, never a sub-slice of the input buffer (the buffer goes back to a pool and is overwritten by the next request)", fn, st, "", nil)
		})
	}
	c.Min(id, "bytes fields stored by the wire decoders", n, 1)
}

// checkInstrumentsInitialised: every instrument field (an interface-typed field) of a metrics struct that
// some method of the struct invokes is assigned by the constructor on every successful return. A
// copy-and-paste slip that assigns one field twice leaves another nil: the first request of that kind
// dereferences a nil interface in a goroutine nothing recovers.
func checkInstrumentsInitialised(c *an.Ctx, id, pkg, typ, ctor string) {
	named := c.P.NamedType(pkg, typ)
	cf := c.P.Func(pkg, ctor)
	if named == nil || !c.Need(cf, id, pkg+"."+ctor) {
		if named == nil {
			c.Undecided(id, "anchor:"+pkg+"."+typ, "the metrics type must resolve", nil, nil, "type not found")
		}
		return
	}
	st, ok := named.Underlying().(*types.Struct)
	if !ok {
		return
	}
	// fields invoked by the methods of the type
	used := map[string]bool{}
	for i := 0; i < named.NumMethods(); i++ {
		m := c.P.SSA.FuncValue(named.Method(i))
		if m == nil || m.Blocks == nil {
			continue
		}
		for _, fn := range append([]*ssa.Function{m}, m.AnonFuncs...) {
			an.Instrs(fn, func(in ssa.Instruction) {
				call, isCall := in.(*ssa.Call)
				if !isCall || !call.Call.IsInvoke() {
					return
				}
				if u, isU := call.Call.Value.(*ssa.UnOp); isU {
					if fa, isFA := u.X.(*ssa.FieldAddr); isFA {
						if s2, isSt := derefStruct(fa); isSt && s2 == st {
							used[st.Field(fa.Field).Name()] = true
						}
					}
				}
			})
		}
	}
	// fields stored by the constructor
	stored := map[string]bool{}
	for _, fn := range append([]*ssa.Function{cf}, cf.AnonFuncs...) {
		an.Instrs(fn, func(in ssa.Instruction) {
			s, isS := in.(*ssa.Store)
			if !isS {
				return
			}
			if fa, isFA := s.Addr.(*ssa.FieldAddr); isFA {
				if s2, isSt := derefStruct(fa); isSt && s2 == st {
					if k, isK := s.Val.(*ssa.Const); !isK || !k.IsNil() {
						stored[st.Field(fa.Field).Name()] = true
					}
				}
			}
		})
	}
	n := 0
	for f := range used {
		n++
		c.Check(stored[f], id, "instrument-initialised:"+typ+"."+f, "every instrument a metrics method uses is assigned by the constructor (a field left nil panics on the first request of its kind, outside every recover)", cf, nil, "field "+f, nil)
	}
	c.Min(id, "instrument fields used by "+typ, n, 1)
}
