package selftest

// Findings F20–F23 re-introduced (each must be reported by the clause that decides it).
func init() {
	const vf = "verify.go"
	const rg = "sync/ranges.go"
	const st = "store/store.go"
	add(
		Variant{Prop: "C01", Name: "f20-soft-flag-set-on-the-types-own-error", File: vf, Expect: "C01.d",
			Old: "\t\tsoft := *verErr\n\t\tsoft.SoftFailure = true\n\t\treturn &soft\n", New: "\t\tverErr.SoftFailure = true\n"},
		Variant{Prop: "C07", Name: "f21-append-keeps-the-start-of-an-emptied-range", File: rg, Expect: "C07.e",
			Old: "\tif len(r.headers) == 0 && len(h) != 0 {\n\t\t// the range may have been emptied by Remove since the caller looked at its head:\n\t\t// it starts anew with the first appended header\n\t\tr.start = h[0].Height()\n\t}\n", New: ""},
		Variant{Prop: "C06", Name: "f22-loop-context-cancelled-with-the-stop-signal", File: st, Expect: "C06.c",
			Old: "\tcase s.writes <- nil:\n\tcase <-ctx.Done():\n\t\treturn ctx.Err()\n\t}", New: "\tcase s.writes <- nil:\n\t\ts.cancel()\n\tcase <-ctx.Done():\n\t\treturn ctx.Err()\n\t}"},
		Variant{Prop: "C06", Name: "f23-first-batch-last-header-as-head", File: st, Expect: "C06.d",
			Old: "\t\thead := lowest\n", New: "\t\thead := headers[len(headers)-1]\n"},
		Variant{Prop: "C06", Name: "f23-first-batch-first-header-as-tail", File: st, Expect: "C06.d",
			Old: "\t\ttail := lowest\n", New: "\t\ttail := headers[0]\n"},
		Variant{Prop: "C06", Name: "lowest-scan-picks-the-highest", File: st, Expect: "C06.d",
			Old: "\t\tif h.Height() < lowest.Height() {\n", New: "\t\tif h.Height() > lowest.Height() {\n"},
		Variant{Prop: "C06", Name: "benign-lowest-scan-commuted", File: st,
			Old: "\t\tif h.Height() < lowest.Height() {\n", New: "\t\tif lowest.Height() > h.Height() {\n"},
	)
}
