package rules

import (
	"go/constant"
	"go/token"

	"golang.org/x/tools/go/ssa"

	"hdrcheck/an"
)

func init() {
	register(&Rule{
		ID: "C02",
		Explanation: "Decides over all paths of header.VerifyRange (generic body): (a) the empty-input guard dominates everything and returns *VerifyError{ErrEmptyRange}; " +
			"(b) one loop visits every element in order and calls Verify(rolling, elem) where rolling is trusted for the first element and the previous element afterwards; " +
			"(c) a Verify error returns (verified-so-far, that error); (d) the non-adjacency rejection is reached exactly under verifyErr==nil ∧ i>0 ∧ elem.Height()≠rolling.Height()+1 and the append is unreachable under it; " +
			"(e) `verified` starts as a fresh empty slice and is only ever extended by append(verified, elem) after both checks; (f) the only nil-error return is the loop exit returning `verified`.",
		NotDecided: []string{"that each element 'passed Verify' means what C01 says (rests on C01)"},
		Technique:  "loop-shape and dominance rules on SSA (index walk, rolling phi, prefix construction, exact adjacency guard, assumption pruning)",
		Trusted:    "go/types+go/ssa; purity of header observers; C01 for the meaning of Verify",
		Run:        runC02,
	})
}

// indexWalk recognises an index value k that enumerates 0,1,2,… : either
// k = φ+1 with φ = phi[-1, k] (range loops) or k = φ with φ = phi[0, φ+1].
func indexWalk(k ssa.Value) (phi *ssa.Phi, ok bool) {
	constIs := func(v ssa.Value, want int64) bool {
		c, ok := v.(*ssa.Const)
		if !ok || c.Value == nil {
			return false
		}
		i, ok2 := constant.Int64Val(c.Value)
		return ok2 && i == want
	}
	plusOne := func(v ssa.Value) (ssa.Value, bool) {
		b, ok := v.(*ssa.BinOp)
		if !ok || b.Op != token.ADD {
			return nil, false
		}
		if constIs(b.Y, 1) {
			return b.X, true
		}
		if constIs(b.X, 1) {
			return b.Y, true
		}
		return nil, false
	}
	// one edge carries the start value, every other edge (one per `continue`/loop end) the step
	shape := func(ph *ssa.Phi, isStart, isStep func(ssa.Value) bool) bool {
		starts, steps := 0, 0
		for _, e := range ph.Edges {
			switch {
			case isStep(e):
				steps++
			case isStart(e):
				starts++
			default:
				return false
			}
		}
		return starts == 1 && steps >= 1
	}
	if base, ok := plusOne(k); ok {
		if ph, ok := base.(*ssa.Phi); ok && len(ph.Edges) >= 2 {
			if shape(ph, func(v ssa.Value) bool { return constIs(v, -1) }, func(v ssa.Value) bool { return v == k }) {
				return ph, true
			}
		}
	}
	if ph, ok := k.(*ssa.Phi); ok && len(ph.Edges) >= 2 {
		isStep := func(v ssa.Value) bool {
			base, ok := plusOne(v)
			return ok && base == ssa.Value(ph)
		}
		if shape(ph, func(v ssa.Value) bool { return constIs(v, 0) }, isStep) {
			return ph, true
		}
	}
	return nil, false
}

func runC02(c *an.Ctx) {
	fn := c.P.Func("", "VerifyRange")
	verify := c.P.Func("", "Verify")
	if !c.Need(fn, "C02.a", "header.VerifyRange") || !c.Need(verify, "C02.b", "header.Verify") {
		return
	}
	t, ff := c.T(fn), c.F(fn)
	emptyF := an.EQ("len(p1)", "0")

	// --- C02.a
	pr := ff.Prune(emptyF)
	n := 0
	for _, r := range pr.Returns() {
		n++
		sh := t.ErrShape(errResult(r))
		c.Check(sh == "&header.VerifyError{Reason:S:header.ErrEmptyRange}" || sh == "&header.VerifyError{Reason:wrap(S:header.ErrEmptyRange)}",
			"C02.a", "empty-input-error", "an empty input returns a *VerifyError wrapping ErrEmptyRange", fn, r, "shape "+sh, pr.AtInstr(r))
	}
	c.Min("C02.a", "returns reachable for empty input", n, 1)
	// everything else is dominated by the non-empty fact
	var vcalls []*ssa.Call
	an.Instrs(fn, func(in ssa.Instruction) {
		if call, ok := in.(*ssa.Call); ok && an.StaticCallee(&call.Call) == verify {
			vcalls = append(vcalls, call)
		}
	})
	c.Min("C02.b", "Verify calls in VerifyRange", len(vcalls), 1)
	if len(vcalls) != 1 {
		c.Undecided("C02.b", "single-verify-call", "exactly one Verify call site is expected (one loop, rolling trusted header)", fn, nil, "found a different number of Verify calls")
		return
	}
	vc := vcalls[0]
	c.Check(ff.AtInstr(vc).Has(emptyF.Neg()), "C02.a", "guard-dominates", "the empty-input guard dominates the verification loop", fn, vc, "", ff.AtInstr(vc))

	// --- C02.b rolling trusted and element walk
	elem := vc.Call.Args[1]
	var idx ssa.Value
	if u, ok := elem.(*ssa.UnOp); ok && u.Op == token.MUL {
		if ia, ok := u.X.(*ssa.IndexAddr); ok && t.Of(ia.X) == "p1" {
			idx = ia.Index
		}
	}
	if idx == nil {
		c.Fail("C02.b", "elem", "the second argument of Verify is the current element range[i]", fn, vc, "argument is "+t.Of(elem), nil)
		return
	}
	iphi, ok := indexWalk(idx)
	if !c.Check(ok, "C02.b", "index-walk", "the loop index enumerates 0,1,2,… (every element is visited, in order)", fn, vc, "index "+t.Of(idx), nil) {
		return
	}
	header := iphi.Block()
	kTerm := t.Of(idx)
	inLoop := an.LT(kTerm, "len(p1)")
	c.Check(ff.AtInstr(vc).Has(inLoop), "C02.b", "index-bound", "the element access is guarded by i < len(range)", fn, vc, "", ff.AtInstr(vc))
	rolling, okp := vc.Call.Args[0].(*ssa.Phi)
	if !c.Check(okp && rolling.Block() == header, "C02.b", "rolling-phi", "the first argument of Verify is the loop-carried trusted header", fn, vc, "argument "+t.Of(vc.Call.Args[0]), nil) {
		return
	}
	okEdges := len(rolling.Edges) == 2
	if okEdges {
		entryOK, backOK := false, false
		for i, e := range rolling.Edges {
			pred := header.Preds[i]
			if ff.Dominates(header, pred) { // back edge (possibly a merge of several ways through the body, all carrying the element)
				backOK = samePhi(e) == elem
			} else {
				entryOK = t.Of(e) == "p0"
			}
		}
		okEdges = entryOK && backOK
	}
	c.Check(okEdges, "C02.b", "rolling-edges", "the rolling trusted header is `trusted` on entry and the element just verified on every later iteration", fn, rolling, "phi "+rolling.String(), nil)

	verr := t.Of(vc)
	rollH := "Height(" + t.Of(rolling) + ")"
	adj := an.EQ("("+rollH+"+1)", "Height("+t.Of(elem)+")")
	posI := an.LT("0", kTerm)
	posI2 := an.NE(kTerm, "0") // the same for an index that enumerates 0,1,2,…
	isPos := func(fs an.FactSet) bool { return fs.Has(posI) || fs.Has(posI2) }

	// verified phi
	var verified *ssa.Phi
	for _, in := range header.Instrs {
		if ph, ok := in.(*ssa.Phi); ok && ph != rolling && ph != iphi && ph.Type().String() == fn.Signature.Results().At(0).Type().String() {
			verified = ph
		}
	}
	if verified == nil {
		c.Undecided("C02.e", "verified-phi", "the accumulated result is a loop-carried slice", fn, nil, "no loop-carried slice found")
		return
	}
	vTerm := t.Of(verified)

	// --- C02.e prefix construction
	okInit, okBack := false, false
	var appendCalls []*ssa.Call
	// the value carried back may merge several ways through the body: each must be append(verified, elem)
	var backVals func(v ssa.Value, depth int) []ssa.Value
	backVals = func(v ssa.Value, depth int) []ssa.Value {
		if ph, ok := v.(*ssa.Phi); ok && ph.Block() != header && depth < 3 {
			var out []ssa.Value
			for _, e := range ph.Edges {
				out = append(out, backVals(e, depth+1)...)
			}
			return out
		}
		return []ssa.Value{v}
	}
	for i, e := range verified.Edges {
		pred := header.Preds[i]
		if ff.Dominates(header, pred) {
			okBack = true
			for _, bv := range backVals(e, 0) {
				okThis := false
				if call, ok := bv.(*ssa.Call); ok {
					if b, ok := call.Call.Value.(*ssa.Builtin); ok && b.Name() == "append" && call.Call.Args[0] == ssa.Value(verified) {
						args := an.VariadicArgs(call.Call.Args[1])
						if len(args) == 1 && args[0] == elem {
							okThis = true
							appendCalls = append(appendCalls, call)
						}
					}
				}
				okBack = okBack && okThis
			}
		} else if ms, ok := e.(*ssa.MakeSlice); ok {
			if cst, ok := ms.Len.(*ssa.Const); ok && cst.Value != nil && cst.Value.ExactString() == "0" {
				okInit = true
			}
		}
	}
	c.Check(okInit, "C02.e", "fresh-empty", "`verified` starts as a fresh slice of length 0", fn, verified, "", nil)
	c.Check(okBack, "C02.e", "append-elem", "`verified` is extended only by append(verified, elem) with the element just checked", fn, verified, "", nil)
	for _, appendCall := range appendCalls {
		fs := ff.AtInstr(appendCall)
		c.Check(fs.Has(an.EQ(verr, "nil")), "C02.e", "append-after-verify", "an element is appended only after Verify returned nil for it", fn, appendCall, "", fs)
		// under i>0 ∧ non-adjacent the append is unreachable
		pr2 := ff.Prune(posI, posI2, adj.Neg())
		c.Check(!pr2.Reachable(appendCall.Block()), "C02.d", "append-needs-adjacency", "a non-adjacent element at position i>0 is never appended", fn, appendCall,
			"reachability of the append under "+posI.String()+" ∧ "+adj.Neg().String(), nil)
		// and under a failed Verify
		pr3 := ff.Prune(an.NE(verr, "nil"))
		c.Check(!pr3.Reachable(appendCall.Block()), "C02.e", "append-needs-verify", "an element failing Verify is never appended", fn, appendCall, "", nil)
	}

	// --- classify every return inside the non-empty part
	nVerifyErr, nNonAdj, nNil := 0, 0, 0
	for _, r := range ff.Returns() {
		fs := ff.AtInstr(r)
		if !fs.Has(emptyF.Neg()) {
			continue // the empty-input return, handled above
		}
		sh := t.ErrShape(errResult(r))
		res0 := t.Of(r.Results[0])
		switch {
		case sh == "nil":
			nNil++
			c.Check(fs.Has(inLoop.Neg()) && res0 == vTerm, "C02.f", "nil-return-is-loop-exit",
				"the nil-error return happens only after the loop visited every element and returns `verified`", fn, r, "returns "+res0, fs)
		case sh == "prop("+verr+")":
			nVerifyErr++
			c.Check(fs.Has(an.NE(verr, "nil")) && res0 == vTerm, "C02.c", "verify-error-return",
				"a Verify error returns the verified prefix and that error unchanged", fn, r, "returns "+res0+", "+sh, fs)
		case sh == "&header.VerifyError{Reason:wrap(S:header.ErrNonAdjacentRange)}" || sh == "&header.VerifyError{Reason:S:header.ErrNonAdjacentRange}":
			nNonAdj++
			allowed := map[an.Fact]bool{emptyF.Neg(): true, inLoop: true, an.EQ(verr, "nil"): true, posI: true, posI2: true, adj.Neg(): true}
			extra := ""
			for _, f := range fs {
				if !allowed[f] {
					extra += " " + f.String()
				}
			}
			c.Check(isPos(fs) && fs.Has(adj.Neg()) && fs.Has(an.EQ(verr, "nil")) && extra == "" && res0 == vTerm, "C02.d", "non-adjacent-return",
				"the ErrNonAdjacentRange rejection is reached exactly under verifyErr==nil ∧ i>0 ∧ elem.Height()≠rolling.Height()+1 and returns the verified prefix", fn, r,
				"extra conjuncts:"+extra+"; returns "+res0, fs)
		default:
			c.Fail("C02.f", "unclassified-return", "every return of VerifyRange is one of: empty-input error, Verify error, non-adjacency error, loop exit", fn, r, "shape "+sh, fs)
		}
	}
	c.Min("C02.c", "returns propagating the Verify error", nVerifyErr, 1)
	c.Min("C02.d", "returns rejecting non-adjacency", nNonAdj, 1)
	c.Min("C02.f", "nil-error returns", nNil, 1)
	// for i == 0 the non-adjacency rejection must be unreachable (first element may be non-adjacent)
	pr4 := ff.Prune(posI.Neg(), posI2.Neg())
	for _, r := range pr4.Returns() {
		sh := t.ErrShape(errResult(r))
		if sh == "&header.VerifyError{Reason:wrap(S:header.ErrNonAdjacentRange)}" || sh == "&header.VerifyError{Reason:S:header.ErrNonAdjacentRange}" {
			c.Fail("C02.d", "first-element-exempt", "the first element may be non-adjacent to the trusted header", fn, r, "non-adjacency rejection reachable for i==0", nil)
		}
	}
}
