package selftest

// Finding F24 re-introduced, and the relaxed "exactly once" of the append step's pointer moves.
func init() {
	const st = "store/store.go"
	add(
		Variant{Prop: "C06", Name: "f24-no-advance-after-the-reinitialisation-before-a-flush", File: st, Expect: "C06.d",
			Old: "\t\ts.ensureInit(toFlush)\n\t\t// the pointers start at the lowest header: move them over what is contiguous\n\t\ts.advanceHead(ctx)\n\t\ts.recedeTail(ctx)\n", New: "\t\ts.ensureInit(toFlush)\n"},
		Variant{Prop: "C06", Name: "benign-reinitialisation-advance-without-the-tail-walk", File: st,
			Old: "\t\ts.ensureInit(toFlush)\n\t\t// the pointers start at the lowest header: move them over what is contiguous\n\t\ts.advanceHead(ctx)\n\t\ts.recedeTail(ctx)\n", New: "\t\ts.ensureInit(toFlush)\n\t\ts.advanceHead(ctx)\n"},
		Variant{Prop: "C17", Name: "append-step-advance-dropped-the-reinitialisation-one-kept", File: st, Expect: "C17.e",
			Old: "\t\t// datastore lookup for both Tail and Head.\n\t\ts.advanceHead(ctx)\n\t\ts.recedeTail(ctx)\n", New: "\t\t// datastore lookup for both Tail and Head.\n"},
		Variant{Prop: "C12", Name: "append-step-advance-dropped-the-reinitialisation-one-kept", File: st, Expect: "C12.d",
			Old: "\t\t// datastore lookup for both Tail and Head.\n\t\ts.advanceHead(ctx)\n\t\ts.recedeTail(ctx)\n", New: "\t\t// datastore lookup for both Tail and Head.\n"},
	)
}
