package sync

// Demonstration for finding F14 (property C16), recorded as a KNOWN finding (not repaired).
// Copy into /repo/sync and run: go test ./sync -run 'TestF14' -count=1
//
// F14: when the tail computed from the pruning window lies above everything the Store holds — a
//      node that was offline for longer than the pruning window, or SyncFromHeight/SyncFromHash
//      pointing above the store's head — renewTail fetches the new tail from the network and
//      force-appends it (non-adjacent), and moveTail then asks the Store to prune
//      [oldTail, newTail). Store.DeleteRange refuses a tail-side range that ends above head+1
//      ("delete range to 250 beyond current head+1(101)"), subjectiveTail fails, and with it Head()
//      and Start — on every attempt: the Syncer cannot be started again until the store is removed
//      by hand. The force-appended header stays behind above a gap.
//      First seen by a bug-seeding sub-agent probing the clean tree; rule C16.d
//      `prune-range-within-store` decides it.

import (
	"context"
	"testing"
	"time"

	"github.com/ipfs/go-datastore"
	dssync "github.com/ipfs/go-datastore/sync"
	"github.com/stretchr/testify/require"

	"github.com/celestiaorg/go-header/headertest"
	"github.com/celestiaorg/go-header/store"
)

func TestF14_RestartAfterBeingOfflineLongerThanThePruningWindow(t *testing.T) {
	ctx, cancel := context.WithTimeout(context.Background(), 5*time.Second)
	t.Cleanup(cancel)

	suite := headertest.NewTestSuite(t)
	remoteStore := headertest.NewStore[*headertest.DummyHeader](t, suite, 100)

	ds := dssync.MutexWrap(datastore.NewMapDatastore())
	localStore, err := store.NewStore[*headertest.DummyHeader](ds, store.WithWriteBatchSize(1))
	require.NoError(t, err)
	require.NoError(t, localStore.Start(ctx))

	syncer, err := NewSyncer[*headertest.DummyHeader](
		remoteStore, localStore, headertest.NewDummySubscriber(),
		WithBlockTime(headertest.HeaderTime),
		WithPruningWindow(50*headertest.HeaderTime),
	)
	require.NoError(t, err)
	require.NoError(t, syncer.Start(ctx))
	time.Sleep(10 * time.Millisecond)
	require.NoError(t, syncer.SyncWait(ctx))
	require.NoError(t, syncer.Stop(ctx))
	time.Sleep(10 * time.Millisecond)

	// the chain goes on for four pruning windows while the node is down
	for i := 0; i < 200; i++ {
		require.NoError(t, remoteStore.Append(ctx, suite.NextHeader()))
	}

	require.NoError(t, syncer.Start(ctx), "a node that was offline for longer than its pruning window starts again")
}
