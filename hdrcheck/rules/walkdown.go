package rules

import (
	"go/token"
	"strings"

	"golang.org/x/tools/go/ssa"

	"hdrcheck/an"
)

// checkWindowSearchWalksDown (C16.c): "as long as header times are spaced by at most the configured
// block time no header younger than the pruning window is deleted". The estimate taken from the head,
// head − window/blockTime, is an UPPER bound of the first header of the window under exactly that
// assumption (tighter spacing puts more headers into the window), and the estimate taken from the old
// tail is a lower bound. A refinement that only walks up therefore keeps an overshooting estimate and
// everything between the window's first header and the estimate is pruned (finding F17). The search
// also walks DOWN from where the upward walk ended: one height per step, only past a stored header
// that is not older than the window cut, reading only heights above the old tail and not above the
// store's height; and what findTailHeight returns after the search is the result of that walk.
func checkWindowSearchWalksDown(c *an.Ctx, id string, find *ssa.Function, up *ssa.Phi) {
	ft, ff := c.T(find), c.F(find)
	isStepDown := func(v ssa.Value, ph *ssa.Phi) bool {
		b, ok := v.(*ssa.BinOp)
		if !ok || b.Op != token.SUB || b.X != ssa.Value(ph) {
			return false
		}
		k, isC := b.Y.(*ssa.Const)
		return isC && k.Value != nil && k.Value.ExactString() == "1"
	}
	var down *ssa.Phi
	an.Instrs(find, func(in ssa.Instruction) {
		if ph, isPhi := in.(*ssa.Phi); isPhi {
			for _, e := range ph.Edges {
				if isStepDown(e, ph) {
					down = ph
				}
			}
		}
	})
	rule := "the window search refines its estimate downwards too: an estimate above the first header of the window (header times spaced tighter than the block time) is walked back, so that no header within the window is pruned"
	if !c.Check(down != nil, id, "window-search-walks-down", rule, find, up, "no loop that steps the height down by one", nil) {
		return
	}
	onStore := func(s string) bool { return s == "p0.store" || strings.HasPrefix(s, "p0.store.") }
	storeHeights := map[string]bool{}
	for _, hc := range invokesOf(ft, "Height", onStore) {
		storeHeights[ft.Of(hc)] = true
	}
	nStep, fromUp := 0, false
	for _, pe := range ff.PhiOperands(down) {
		if !isStepDown(pe.Val, down) {
			// where the downward walk starts: the value the upward walk ended with
			var leaves func(v ssa.Value, depth int)
			leaves = func(v ssa.Value, depth int) {
				if v == ssa.Value(up) {
					fromUp = true
					return
				}
				if ph, isPhi := v.(*ssa.Phi); isPhi && depth < 3 && ph != down {
					for _, e := range ph.Edges {
						leaves(e, depth+1)
					}
				}
			}
			leaves(pe.Val, 0)
			continue
		}
		nStep++
		okDir := false
		var read *ssa.Call
		for _, gc := range invokesOf(ft, "GetByHeight", onStore) {
			if len(gc.Call.Args) != 2 || !isStepDown(gc.Call.Args[1], down) || !pe.Facts.Has(an.EQ(ft.Of(gc)+"#1", "nil")) {
				continue
			}
			read = gc
			for _, f := range pe.Facts {
				// not (time of the header below < head.Time() − window)
				if f.Op == "LT" && !f.Pos && stripUTC(f.A) == "Time("+ft.Of(gc)+"#0)" && strings.Contains(f.B, "Time(p3)") && strings.Contains(f.B, "-p0.Params.PruningWindow") {
					okDir = true
				}
			}
		}
		c.Check(okDir, id, "walk-down-only-past-window-headers", "the tail estimate is stepped down only past a stored header whose time is not before head.Time() − PruningWindow (the first header older than the window stops the walk and is pruned)", find, down, "", pe.Facts)
		if read == nil {
			continue
		}
		fs := ff.AtInstr(read)
		okTop, okExact := false, false
		for _, f := range fs {
			if f.Op != "LT" {
				continue
			}
			// !(store.Height() < down)   or   down-1 < store.Height()
			if (!f.Pos && storeHeights[f.A] && f.B == ft.Of(down)) || (f.Pos && f.A == ft.Of(read.Call.Args[1]) && storeHeights[f.B]) {
				okTop = true
			}
			// !(store.Height() < down-1): the bound on the height that is read
			if !f.Pos && storeHeights[f.A] && f.B == ft.Of(read.Call.Args[1]) {
				okTop, okExact = true, true
			}
			// the same bound written on the estimate: !(store.Height()+1 < down)
			for sh := range storeHeights {
				if !f.Pos && f.A == "("+sh+"+1)" && f.B == ft.Of(down) {
					okTop, okExact = true, true
				}
			}
		}
		// … and not a tighter one (finding F36): the walk reads the header BELOW the estimate, so an estimate
		// right above the store's head (store head + 1, what the head-based estimate gives a node that is
		// a little behind) still has to be refined downwards; bounded by `estimate ≤ store.Height()` the walk
		// is skipped there and the stored headers inside the window are pruned
		c.Check(okExact, id, "walk-down-reaches-the-store-head", "the downward walk is bounded by the height it reads (estimate − 1 ≤ store.Height()), not by the estimate itself: an estimate right above the store's head is still walked down", find, read, "", fs)
		okBottom := ff.ProveGE(read.Block(), ft.Affine(read.Call.Args[1]), an.Var("Height(p2)", true), 1)
		c.Check(okTop && okBottom, id, "walk-down-reads-only-stored-heights", "the downward walk asks the store only for heights above the old tail and not above the store's own height (a read below the tail fails, a read above the height waits for a header nobody appends)", find, read, "", fs)
	}
	// the walk may go all the way down to the header right above the old tail (the old tail itself is
	// known to be older than the window): a lower guard stricter than `> oldTail.Height()+1` stops it one
	// header early and that header, inside the window, is pruned
	an.Instrs(find, func(in ssa.Instruction) {
		ifi, isIf := in.(*ssa.If)
		if !isIf {
			return
		}
		b, isBin := ifi.Cond.(*ssa.BinOp)
		if !isBin {
			return
		}
		var bound ssa.Value
		slack := int64(0)
		switch {
		case b.X == ssa.Value(down) && b.Op == token.GTR:
			bound = b.Y
		case b.X == ssa.Value(down) && b.Op == token.GEQ:
			bound, slack = b.Y, 1
		case b.Y == ssa.Value(down) && b.Op == token.LSS:
			bound = b.X
		case b.Y == ssa.Value(down) && b.Op == token.LEQ:
			bound, slack = b.X, 1
		default:
			return
		}
		// bound ≤ oldTail.Height()+1 (+1 more for a non-strict comparison)
		okLow := ff.ProveGE(ifi.Block(), an.Var("Height(p2)", true), ft.Affine(bound), -1-slack)
		c.Check(okLow, id, "walk-down-reaches-above-old-tail", "the downward walk is not stopped before the header right above the old tail (a stricter lower guard prunes a header inside the window)", find, ifi, "lower guard "+ft.Of(bound), ff.AtInstr(ifi))
	})
	c.Min(id, "downward steps of the window search", nStep, 1)
	c.Check(fromUp, id, "walk-down-starts-where-walk-up-ended", "the downward walk starts from the height the upward walk ended with", find, down, "", nil)
	// what is returned after the search is the downward walk's result
	n := 0
	for _, r := range ff.Returns() {
		if len(r.Results) == 0 || !(an.Flow{Fn: find}).CanReach(down, r) {
			continue
		}
		if ft.ErrShape(errResult(r)) != "nil" {
			continue
		}
		n++
		c.Check(r.Results[0] == ssa.Value(down), id, "search-result-returned", "findTailHeight returns the height its search settled on", find, r, "returns "+ft.Of(r.Results[0]), nil)
	}
	c.Min(id, "returns after the window search", n, 1)
}
