package selftest

func init() {
	const st = "store/store.go"
	const hs = "store/heightsub.go"
	add(
		Variant{Prop: "C12", Name: "no-second-lookup", File: st, Expect: "C12.a",
			Old: "\t// check if the requested header is not yet written on disk\n\n\treturn s.getByHeight(ctx, height)", New: "\treturn zero, header.ErrNotFound"},
		Variant{Prop: "C12", Name: "context-error-swallowed", File: st, Expect: "C12.a",
			Old: "\tif err != nil && !errors.Is(err, errElapsedHeight) {\n\t\treturn zero, fmt.Errorf(\"awaiting header %d with head %d: %w\", height, s.Height(), err)\n\t}", New: "\tif err != nil && !errors.Is(err, errElapsedHeight) {\n\t\tlog.Debugw(\"awaiting header\", \"err\", err)\n\t}"},
		Variant{Prop: "C12", Name: "wait-for-other-height", File: st, Expect: "C12.a",
			Old: "\terr := s.heightSub.wait(ctx, height, func() bool {", New: "\terr := s.heightSub.wait(ctx, height+1, func() bool {"},
		Variant{Prop: "C12", Name: "recheck-dropped", File: hs, Expect: "C12.b",
			Old: "\ths.heightSubsLk.Lock()\n\tif hs.Height() >= height {\n\t\t// This is a rare case", New: "\ths.heightSubsLk.Lock()\n\tif height == 0 {\n\t\t// This is a rare case"},
		Variant{Prop: "C12", Name: "recheck-outside-lock", File: hs, Expect: "C12.b",
			Old: "\ths.heightSubsLk.Lock()\n\tif hs.Height() >= height {\n\t\t// This is a rare case", New: "\tcur := hs.Height()\n\ths.heightSubsLk.Lock()\n\tif cur >= height {\n\t\t// This is a rare case"},
		Variant{Prop: "C12", Name: "unlock-between-check-and-register", File: hs, Expect: "C12.b",
			Old: "\tsac, ok := hs.heightSubs[height]\n\tif !ok {\n\t\tsac = &sub{", New: "\ths.heightSubsLk.Unlock()\n\ths.heightSubsLk.Lock()\n\tsac, ok := hs.heightSubs[height]\n\tif !ok {\n\t\tsac = &sub{"},
		Variant{Prop: "C12", Name: "select-while-locked", File: hs, Expect: "C12.b",
			Old: "\tsac.count++\n\ths.heightSubsLk.Unlock()\n\n\tif stored != nil && stored() {\n\t\t// no need to keep the request, the header is there\n\t\ths.heightSubsLk.Lock()\n", New: "\tsac.count++\n\tdefer hs.heightSubsLk.Unlock()\n\n\tif stored != nil && stored() {\n\t\t// no need to keep the request, the header is there\n",
			More: []Edit{{hs, "\t\ths.heightSubsLk.Lock()\n\t\tif curr, ok := hs.heightSubs[height]; ok && curr == sac {\n\t\t\ths.notify(height, false)\n\t\t}\n\t\ths.heightSubsLk.Unlock()\n\t\treturn ctx.Err()\n", "\t\tif curr, ok := hs.heightSubs[height]; ok && curr == sac {\n\t\t\ths.notify(height, false)\n\t\t}\n\t\treturn ctx.Err()\n"},
				{hs, "\t\t\ths.notify(height, false)\n\t\t}\n\t\ths.heightSubsLk.Unlock()\n\t\treturn errElapsedHeight\n", "\t\t\ths.notify(height, false)\n\t\t}\n\t\treturn errElapsedHeight\n"}}},
		Variant{Prop: "C12", Name: "context-case-removed", File: hs, Expect: "C12.b",
			Old: "\tcase <-ctx.Done():\n\t\t// no need to keep the request, if the op has canceled", New: "\tcase <-make(chan struct{}):\n\t\t// no need to keep the request, if the op has canceled"},
		Variant{Prop: "C12", Name: "notify-before-publish", File: hs, Expect: "C12.c",
			Old: "\t\tif !hs.height.CompareAndSwap(curr, height) {\n\t\t\tcontinue\n\t\t}\n\n\t\ths.heightSubsLk.Lock()\n\t\tdefer hs.heightSubsLk.Unlock()\n\n\t\tfor ; curr <= height; curr++ {\n\t\t\ths.notify(curr, true)\n\t\t}\n\t\treturn",
			New: "\t\ths.heightSubsLk.Lock()\n\t\tfor c := curr; c <= height; c++ {\n\t\t\ths.notify(c, true)\n\t\t}\n\t\ths.heightSubsLk.Unlock()\n\t\tif !hs.height.CompareAndSwap(curr, height) {\n\t\t\tcontinue\n\t\t}\n\t\treturn"},
		Variant{Prop: "C12", Name: "notify-excludes-new-height", File: hs, Expect: "C12.c",
			Old: "\t\tfor ; curr <= height; curr++ {", New: "\t\tfor ; curr < height; curr++ {"},
		Variant{Prop: "C12", Name: "height-can-be-lowered", File: hs, Expect: "C12.c",
			Old: "\t\tif curr >= height {\n\t\t\treturn\n\t\t}\n\t\tif !hs.height.CompareAndSwap(curr, height) {", New: "\t\tif curr == height {\n\t\t\treturn\n\t\t}\n\t\tif !hs.height.CompareAndSwap(curr, height) {"},
		Variant{Prop: "C12", Name: "release-without-delete", File: hs, Expect: "C12.c",
			Old: "\t\tclose(sac.signal)\n\t\tdelete(hs.heightSubs, height)", New: "\t\tclose(sac.signal)"},
		Variant{Prop: "C12", Name: "notify-without-lock", File: hs, Expect: "C12.c",
			Old: "func (hs *heightSub) Notify(heights ...uint64) {\n\ths.heightSubsLk.Lock()\n\tdefer hs.heightSubsLk.Unlock()\n", New: "func (hs *heightSub) Notify(heights ...uint64) {\n"},
		Variant{Prop: "C12", Name: "notify-before-append", File: st, Expect: "C12.d",
			Old: "\t\ts.pending.Append(headers...)\n\t\t// initialize the Store from the batch if needed; this publishes its height,\n\t\t// so it must come after the headers are accessible\n\t\ts.ensureInit(headers)\n\t\t// always inform heightSub about new headers seen.\n\t\ts.heightSub.Notify(getHeights(headers...)...)", New: "\t\ts.heightSub.Notify(getHeights(headers...)...)\n\t\ts.pending.Append(headers...)\n\t\ts.ensureInit(headers)"},
		Variant{Prop: "C12", Name: "notify-only-when-flushing", File: st, Expect: "C12.d",
			Old: "\t\t// always inform heightSub about new headers seen.\n\t\ts.heightSub.Notify(getHeights(headers...)...)", New: "\t\tif s.pending.Len() >= s.Params.WriteBatchSize {\n\t\t\ts.heightSub.Notify(getHeights(headers...)...)\n\t\t}"},
		// benign
		Variant{Prop: "C12", Name: "benign-recheck-commuted", File: hs,
			Old: "\ths.heightSubsLk.Lock()\n\tif hs.Height() >= height {\n\t\t// This is a rare case", New: "\ths.heightSubsLk.Lock()\n\tif height <= hs.Height() {\n\t\t// This is a rare case"},
		Variant{Prop: "C12", Name: "benign-is-commuted", File: st,
			Old: "\tif err != nil && !errors.Is(err, errElapsedHeight) {", New: "\tif !errors.Is(err, errElapsedHeight) && err != nil {"},
			// the retry loop of SetHeight with its exit carried by a flag (benign F2-6) and a broken twin
		Variant{Prop: "C12", Name: "benign-publish-retry-loop-exit-by-flag", File: hs,
			Old: "func (hs *heightSub) SetHeight(height uint64) {\n\tfor {\n\t\tcurr := hs.height.Load()\n\t\tif curr >= height {\n\t\t\treturn\n\t\t}\n\t\tif !hs.height.CompareAndSwap(curr, height) {\n\t\t\tcontinue\n\t\t}\n\n\t\ths.heightSubsLk.Lock()\n\t\tdefer hs.heightSubsLk.Unlock()\n\n\t\tfor ; curr <= height; curr++ {\n\t\t\ths.notify(curr, true)\n\t\t}\n\t\treturn\n\t}\n}", New: "func (hs *heightSub) SetHeight(height uint64) {\n\tvar curr uint64\n\tfor swapped := false; !swapped; {\n\t\tcurr = hs.height.Load()\n\t\tif curr >= height {\n\t\t\treturn\n\t\t}\n\t\tswapped = hs.height.CompareAndSwap(curr, height)\n\t}\n\n\ths.heightSubsLk.Lock()\n\tdefer hs.heightSubsLk.Unlock()\n\n\tfor ; curr <= height; curr++ {\n\t\ths.notify(curr, true)\n\t}\n}"},
		Variant{Prop: "C12", Name: "publish-retry-loop-left-after-a-lost-swap", File: hs, Expect: "C12.c",
			Old: "func (hs *heightSub) SetHeight(height uint64) {\n\tfor {\n\t\tcurr := hs.height.Load()\n\t\tif curr >= height {\n\t\t\treturn\n\t\t}\n\t\tif !hs.height.CompareAndSwap(curr, height) {\n\t\t\tcontinue\n\t\t}\n\n\t\ths.heightSubsLk.Lock()\n\t\tdefer hs.heightSubsLk.Unlock()\n\n\t\tfor ; curr <= height; curr++ {\n\t\t\ths.notify(curr, true)\n\t\t}\n\t\treturn\n\t}\n}", New: "func (hs *heightSub) SetHeight(height uint64) {\n\tvar curr uint64\n\tfor swapped := false; !swapped; {\n\t\tcurr = hs.height.Load()\n\t\tif curr >= height {\n\t\t\treturn\n\t\t}\n\t\ths.height.CompareAndSwap(curr, height)\n\t\tswapped = true\n\t}\n\n\ths.heightSubsLk.Lock()\n\tdefer hs.heightSubsLk.Unlock()\n\n\tfor ; curr <= height; curr++ {\n\t\ths.notify(curr, true)\n\t}\n}"},
	)
}
