package an

import (
	"go/token"
	"go/types"

	"golang.org/x/tools/go/ssa"
)

// Jump threading over a merge that is tested for nil right away. A helper that answers nil on one way out
// and a pointer it has written through on the other leaves, once spliced into its caller,
//
//	m:  p = phi [q1: nil, q2: x]          (x dereferenced before q2 ends, or freshly allocated)
//	    if p == nil goto s1 else s2
//
// Control that enters m from q1 goes on to s1 and control from q2 to s2, whatever the CFG says: the pair
// of edges (q1→m, m→s2) is not a path. threadedSucc reports the successor of m that control entering from
// q takes, or nil when that cannot be told.
func threadedSucc(q, m *ssa.BasicBlock) *ssa.BasicBlock {
	if len(m.Instrs) == 0 || len(m.Succs) != 2 {
		return nil
	}
	iff, ok := m.Instrs[len(m.Instrs)-1].(*ssa.If)
	if !ok {
		return nil
	}
	cmp, ok := iff.Cond.(*ssa.BinOp)
	if !ok || (cmp.Op != token.EQL && cmp.Op != token.NEQ) || cmp.Block() != m {
		return nil
	}
	var ph *ssa.Phi
	isNil := func(v ssa.Value) bool { c, isC := v.(*ssa.Const); return isC && c.Value == nil && isPointerLike(c) }
	switch {
	case isNil(cmp.Y):
		ph, _ = cmp.X.(*ssa.Phi)
	case isNil(cmp.X):
		ph, _ = cmp.Y.(*ssa.Phi)
	}
	if ph == nil || ph.Block() != m {
		return nil
	}
	idx := -1
	for i, p := range m.Preds {
		if p == q {
			if idx >= 0 {
				return nil // the same block twice among the predecessors: not told apart
			}
			idx = i
		}
	}
	if idx < 0 {
		return nil
	}
	e := ph.Edges[idx]
	var valueIsNil bool
	switch {
	case isNil(e):
		valueIsNil = true
	case neverNil(e) || derefdBeforeRaw(e, q):
		valueIsNil = false
	default:
		return nil
	}
	condTrue := valueIsNil == (cmp.Op == token.EQL)
	if condTrue {
		return m.Succs[0]
	}
	return m.Succs[1]
}

func isPointerLike(c *ssa.Const) bool {
	switch c.Type().Underlying().(type) {
	case *types.Pointer, *types.Interface, *types.Map, *types.Slice, *types.Chan, *types.Signature:
		return true
	}
	return false
}

// derefdBeforeRaw: a field or an element of the pointer v is addressed (which panics on nil) in a block
// that dominates the end of pred.
func derefdBeforeRaw(v ssa.Value, pred *ssa.BasicBlock) bool {
	refs := v.Referrers()
	if refs == nil {
		return false
	}
	for _, r := range *refs {
		switch x := r.(type) {
		case *ssa.FieldAddr:
			if x.X != v {
				continue
			}
		case *ssa.IndexAddr:
			if x.X != v {
				continue
			}
		default:
			continue
		}
		if b := r.Block(); b == pred || b.Dominates(pred) {
			return true
		}
	}
	return false
}

// throughThreadedMerge: m is a merge tested for nil right away and at least one of its predecessors is
// known to go on to a successor other than b. Then what holds on leaving m towards b is what holds on the
// ways into m that can go on to b (val), or the edge m→b is not taken at all (feasible == false).
func (fl Flow) throughThreadedMerge(m, b *ssa.BasicBlock, out, has []bool) (threaded, feasible bool, val bool) {
	if len(m.Preds) < 2 {
		return false, false, false
	}
	val = true
	n := 0
	for _, q := range m.Preds {
		if fl.Skip != nil && fl.Skip(q, m) {
			continue
		}
		if s := threadedSucc(q, m); s != nil && s != b {
			threaded = true
			continue // control entering from q leaves m elsewhere
		}
		n++
		val = val && out[q.Index]
	}
	if !threaded {
		return false, false, false
	}
	if n == 0 {
		return true, false, false
	}
	return true, true, val || has[m.Index]
}
