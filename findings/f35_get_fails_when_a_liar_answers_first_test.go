// Demonstration for finding F35 (property C13).
// Copy into /repo/p2p and run: go test ./p2p -run 'TestF35' -count=1
//
// F35: "Get(hash) returns a header whose Hash() equals the requested hash or an error … taken from the first
//
//	trusted peer that answers validly, and fail with an error when no trusted peer does". Exchange.Get compared
//	the hash only AFTER performRequest had picked the first error-free answer: a trusted peer that answers a
//	by-hash request with a valid header of the right chain but of another hash — and answers first — made Get
//	fail with "incorrect hash in header", although an honest trusted peer was answering validly. One fast
//	lying trusted peer defeated Get for every hash.
//	Noticed by an eighth-round seeder (C13). Rule C13.a `hash-bound-per-answer`; repaired by the /repo fix
//	commit a9d1344: the hash is compared where a single peer's answer is validated, so
//	a wrong-hash answer is a failed attempt and the next answer is taken.
package p2p

import (
	"context"
	"testing"
	"time"

	libhost "github.com/libp2p/go-libp2p/core/host"
	"github.com/libp2p/go-libp2p/core/network"
	"github.com/libp2p/go-libp2p/core/peer"
	"github.com/stretchr/testify/require"

	"github.com/celestiaorg/go-libp2p-messenger/serde"

	"github.com/celestiaorg/go-header/headertest"
	p2p_pb "github.com/celestiaorg/go-header/p2p/pb"
)

func f35Peer(t *testing.T, h libhost.Host, before func(), body []byte) {
	t.Helper()
	h.SetStreamHandler(protocolID(networkID), func(s network.Stream) {
		req := new(p2p_pb.HeaderRequest)
		if _, err := serde.Read(s, req); err != nil {
			s.Reset() //nolint:errcheck
			return
		}
		if before != nil {
			before()
		}
		resp := &p2p_pb.HeaderResponse{Body: body, StatusCode: p2p_pb.StatusCode_OK}
		if _, err := serde.Write(s, resp); err != nil {
			s.Reset() //nolint:errcheck
			return
		}
		s.Close() //nolint:errcheck
	})
}

func f35Client(
	t *testing.T,
	h libhost.Host,
	trusted ...peer.ID,
) *Exchange[*headertest.DummyHeader] {
	t.Helper()
	ex, err := NewExchange[*headertest.DummyHeader](h, trusted, nil,
		WithNetworkID[ClientParameters](networkID),
		WithChainID(networkID),
		WithRequestTimeout[ClientParameters](20*time.Second),
	)
	require.NoError(t, err)
	ex.ctx, ex.cancel = context.WithCancel(context.Background())
	t.Cleanup(ex.cancel)
	ex.trustedPeers = func() peer.IDSlice { return append(peer.IDSlice{}, trusted...) }
	return ex
}

// when a lying trusted peer (a valid header of the right chain, but not the requested one)
// answers before an honest one, Get fails with 'incorrect hash in header' although a trusted
// peer does answer validly. The header is not 'taken from the first trusted peer that answers
// validly': a single lying trusted peer that is fast defeats Get for every hash.
func TestF35_GetTakesTheHonestAnswerWhenALiarAnswersFirst(t *testing.T) {
	hosts := createMocknet(t, 3)
	hdrs := headertest.NewTestSuite(t).GenDummyHeaders(5)
	want, lie := hdrs[2], hdrs[3]
	wantBin, err := want.MarshalBinary()
	require.NoError(t, err)
	lieBin, err := lie.MarshalBinary()
	require.NoError(t, err)

	// the honest peer answers once Get has returned or after `slow`, whichever comes first
	// (a client that waits for a valid answer cannot return before the honest peer answered)
	const slow = 1500 * time.Millisecond
	release := make(chan struct{})

	f35Peer(t, hosts[1], nil, lieBin)
	f35Peer(t, hosts[2], func() {
		select {
		case <-release:
		case <-time.After(slow):
		}
	}, wantBin)

	ex := f35Client(t, hosts[0], hosts[1].ID(), hosts[2].ID())

	ctx, cancel := context.WithTimeout(context.Background(), 15*time.Second)
	t.Cleanup(cancel)

	got, err := ex.Get(ctx, want.Hash())
	close(release)
	require.NoError(t, err, "an honest trusted peer answers validly, its header has to be returned")
	require.Equal(t, want.Hash(), got.Hash())
}
