package sync

// Demonstration for finding F21 (property C07, also C03).
// Copy into /repo/sync and run: go test ./sync -run 'TestF21' -count=1
//
// F21: ranges.Add reads the head of the last pending range under ranges.lk and then appends to that range;
//      the sync loop's Remove takes only the range's own lock and leaves `start` alone when nothing remains.
//      A gossip head adjacent to a single-header range that the sync loop empties in between is appended to a
//      range whose start still names the removed header: rangeAmount counts one header too many and Get slices
//      beyond the range — "slice bounds out of range" in the sync loop's goroutine, the node is gone.
//      The test replays the three range operations in that order. Noticed by two sixth-round seeders (C03, C07).
//      Rule C07.e `append-restarts-emptied-range`; repaired by /repo e2fe9bc.
//      Fails (panics) on /repo c0286ea, passes from e2fe9bc on.

import (
	"testing"

	"github.com/stretchr/testify/require"

	"github.com/celestiaorg/go-header/headertest"
)

// O1: a range emptied by Remove keeps its old start; an Append that lands on it afterwards
// (ranges.Add reads the range head under ranges.lk, Remove only takes the range's own lock)
// leaves start one below the first header, and Get(to) computes one header too many.
func TestF21_RangeEmptiedThenAppended(t *testing.T) {
	suite := headertest.NewTestSuite(t)
	_ = suite.Head()               // 1
	hs := suite.GenDummyHeaders(3) // 2,3,4
	require.EqualValues(t, 2, hs[0].Height())

	r := newRange(hs[0]) // [2], start 2
	// ranges.Add(3) has read head()==2 and decided "adjacent" ... the sync loop stores 2 and:
	r.Remove(2)
	// ... and Add goes on:
	r.Append(hs[1]) // [3], start still 2

	var got []*headertest.DummyHeader
	require.NotPanics(t, func() { got = r.Get(3) })
	require.Len(t, got, 1)
}

