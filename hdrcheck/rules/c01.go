package rules

import (
	"fmt"
	"go/types"
	"regexp"
	"strings"

	"golang.org/x/tools/go/ssa"

	"hdrcheck/an"
)

func init() {
	register(&Rule{
		ID: "C01",
		Explanation: "Decides, over all paths of header.Verify and the mandatory-check function it calls (both loop-free, generic over the header type): " +
			"(a) the nil return is dominated by the negation of all six mandatory rejection conditions and by the type-level Verify returning nil; each condition, assumed alone, " +
			"leads only to returns wrapping its matching sentinel; (b) every header observer call is dominated by the non-zero check of that header; (c) a failed mandatory check is " +
			"returned as &VerifyError{Reason: err} with no SoftFailure store; (d) the only SoftFailure store is `true`, guarded exactly by typeErr!=nil ∧ non-adjacent, on the error value " +
			"obtained by errors.As or freshly wrapped; (e) every non-nil return is a *VerifyError and the sentinels / clockDrift have no writer outside package init.",
		NotDecided: []string{
			"what the header type's own Verify method computes (abstract invoke on the type parameter)",
			"the value read from the wall clock",
		},
		Technique: "guard-table dominance with assumption pruning + return-shape classification on SSA (all paths of two loop-free generic functions)",
		Trusted:   "go/types+go/ssa (x/tools v0.29.0); purity/immutability of header observers; time.Now treated as an opaque read",
		Run:       runC01,
	})
}

// mandatory rows of the property statement: atom (over p0=trusted, p1=untrusted) → sentinel
type c01row struct {
	name     string
	fact     func(t *an.Terms, fs an.FactSet) (an.Fact, bool) // find the atom among facts / conditions of fn
	sentinel string
}

var nowAdd = regexp.MustCompile(`^time\.Add\(call:time\.Now@t\d+,header\.clockDrift\)$`)

// condFacts lists the distinct branch conditions of fn (as facts for "true").
func condFacts(t *an.Terms) []an.Fact {
	var out []an.Fact
	seen := map[an.Fact]bool{}
	for _, b := range t.Fn.Blocks {
		if len(b.Instrs) == 0 {
			continue
		}
		if iff, ok := b.Instrs[len(b.Instrs)-1].(*ssa.If); ok {
			f := t.Cond(iff.Cond)
			if !seen[f] && !seen[f.Neg()] {
				seen[f] = true
				out = append(out, f)
			}
		}
	}
	return out
}

// c01atoms returns the six rejection atoms in canonical polarity (true = reject).
func c01atoms() []struct {
	name, sentinel string
	match          func(f an.Fact) (an.Fact, bool)
} {
	is := func(want an.Fact) func(f an.Fact) (an.Fact, bool) {
		return func(f an.Fact) (an.Fact, bool) {
			if f == want {
				return want, true
			}
			if f == want.Neg() {
				return want, true
			}
			return an.Fact{}, false
		}
	}
	return []struct {
		name, sentinel string
		match          func(f an.Fact) (an.Fact, bool)
	}{
		{"trusted is zero", "header.ErrZeroHeader", is(an.B("IsZero(p0)"))},
		{"untrusted is zero", "header.ErrZeroHeader", is(an.B("IsZero(p1)"))},
		{"chain ids differ", "header.ErrWrongChainID", is(an.NE("ChainID(p0)", "ChainID(p1)"))},
		{"untrusted height <= trusted height", "header.ErrKnownHeader", is(an.GE("Height(p0)", "Height(p1)"))},
		{"untrusted time before trusted time", "header.ErrUnorderedTime", is(an.LT("Time(p1)", "Time(p0)"))},
		{"untrusted time after now+clockDrift", "header.ErrFromFuture", func(f an.Fact) (an.Fact, bool) {
			if f.Op == "LT" && f.B == "Time(p1)" && nowAdd.MatchString(f.A) {
				return an.LT(f.A, f.B), true
			}
			return an.Fact{}, false
		}},
	}
}

// argsAreParams: the call passes the caller's (p0,p1) as its first two arguments, in order.
func argsAreParams(t *an.Terms, c *ssa.CallCommon) bool {
	return len(c.Args) >= 2 && t.Of(c.Args[0]) == "p0" && t.Of(c.Args[1]) == "p1"
}

func runC01(c *an.Ctx) {
	p := c.P
	verify := p.Func("", "Verify")
	if !c.Need(verify, "C01.a", "header.Verify") {
		return
	}
	t := c.T(verify)
	ff := c.F(verify)
	for _, b := range verify.Blocks {
		_ = b
	}

	// --- locate the mandatory-check callee M: a static repo callee taking (p0,p1) whose
	// error result, when non-nil, is returned wrapped. If none, Verify itself holds the guards.
	var mCall *ssa.Call
	var typeCall *ssa.Call
	an.Instrs(verify, func(in ssa.Instruction) {
		call, ok := in.(*ssa.Call)
		if !ok {
			return
		}
		if call.Call.IsInvoke() {
			if call.Call.Method.Name() == "Verify" && t.Of(call.Call.Value) == "p0" && len(call.Call.Args) == 1 && t.Of(call.Call.Args[0]) == "p1" {
				typeCall = call
			}
			return
		}
		cal := an.StaticCallee(&call.Call)
		if cal != nil && cal.Pkg == verify.Pkg && cal.Blocks != nil && an.IsErrorType(call.Type()) && argsAreParams(t, &call.Call) && mCall == nil {
			mCall = call
		}
	})
	guardFn := verify
	if mCall != nil {
		guardFn = an.StaticCallee(&mCall.Call)
	}
	if hasLoop(guardFn) || hasLoop(verify) {
		c.Undecided("C01.a", "loop-free", "Verify and its mandatory-check function must be loop-free for complete path classification", guardFn, nil, "loop found")
		return
	}

	// --- C01.c type-level check present with the right roles
	if !c.Check(typeCall != nil, "C01.c", "type-level-verify", "Verify calls the header type's own check as trusted.Verify(untrusted)", verify, typeCallInstr(typeCall),
		"invoke p0.Verify(p1) "+found(typeCall != nil), nil) {
		return
	}
	typeErr := t.Of(typeCall)
	mErr := ""
	if mCall != nil {
		mErr = t.Of(mCall)
	}

	// --- the guard chain: guardFn and the same-package helpers it hands (p0,p1) to and whose
	// error it returns as is (`return helper(trstd, untrstd)` / `if err := helper(…); err != nil { return err }`):
	// a maintainer may split the mandatory checks over several functions; the conditions are then
	// collected over the whole chain (the helpers see the same two headers in the same roles)
	chain := []*ssa.Function{guardFn}
	callIn := map[*ssa.Function]*ssa.Call{} // helper -> its call site in its caller
	callerOf := map[*ssa.Function]*ssa.Function{}
	for i := 0; i < len(chain) && len(chain) < 6; i++ {
		f := chain[i]
		tf := c.T(f)
		an.Instrs(f, func(in ssa.Instruction) {
			call, isCall := in.(*ssa.Call)
			if !isCall || call.Call.IsInvoke() {
				return
			}
			cal := an.StaticCallee(&call.Call)
			if cal == nil || cal.Pkg != verify.Pkg || cal.Blocks == nil || !an.IsErrorType(call.Type()) || !argsAreParams(tf, &call.Call) || hasLoop(cal) {
				return
			}
			for _, have := range chain {
				if have == cal {
					return
				}
			}
			chain = append(chain, cal)
			callIn[cal], callerOf[cal] = call, f
		})
	}
	atoms := c01atoms()
	resolved := make([]an.Fact, len(atoms))
	haveAtom := make([]bool, len(atoms))
	atomFn := make([]*ssa.Function, len(atoms))
	for _, f := range chain {
		for _, cf := range condFacts(c.T(f)) {
			for i, a := range atoms {
				if fct, ok := a.match(cf); ok && !haveAtom[i] {
					resolved[i], haveAtom[i], atomFn[i] = fct, true, f
				}
			}
		}
	}
	// nilFactsOf(f): facts common to every way f returns nil, including what the helpers it
	// delegates to guarantee on their own nil returns
	var nilFactsOf func(f *ssa.Function, depth int) (an.FactSet, int)
	nilFactsOf = func(f *ssa.Function, depth int) (an.FactSet, int) {
		tf, ffx := c.T(f), c.F(f)
		var acc an.FactSet
		first := true
		n := 0
		for _, r := range ffx.Returns() {
			fs := append(an.FactSet{}, ffx.AtRefined(r.Block())...)
			sh := tf.ErrShape(errResult(r))
			delegated := false
			for _, h := range chain {
				hc := callIn[h]
				if hc == nil || callerOf[h] != f || depth > 4 {
					continue
				}
				if sh == "prop("+tf.Of(hc)+")" && !fs.Has(an.NE(tf.Of(hc), "nil")) {
					// return helper(...): nil exactly when the helper returns nil
					hf, hn := nilFactsOf(h, depth+1)
					if hn > 0 {
						fs = append(fs, hf...)
						delegated = true
					}
				} else if fs.Has(an.EQ(tf.Of(hc), "nil")) {
					hf, _ := nilFactsOf(h, depth+1)
					fs = append(fs, hf...)
				}
			}
			if sh != "nil" && !delegated {
				continue
			}
			n++
			if first {
				acc, first = fs, false
				continue
			}
			var inter an.FactSet
			for _, x := range acc {
				if fs.Has(x) {
					inter = append(inter, x)
				}
			}
			acc = inter
		}
		return acc, n
	}
	nilFacts, nNil := nilFactsOf(guardFn, 0)
	c.Min("C01.a", "nil returns of the mandatory-check function", nNil, 1)
	for i, a := range atoms {
		key := "nil-requires-not:" + a.name
		rule := "Verify returns nil only when NOT (" + a.name + ")"
		if !haveAtom[i] {
			c.Fail("C01.a", key, rule, guardFn, nil, "no branch in "+an.FuncName(guardFn)+" (or the helpers it delegates to) tests this condition (guard missing, weakened or re-targeted)", nilFacts)
			continue
		}
		c.Check(nilFacts.Has(resolved[i].Neg()), "C01.a", key, rule, atomFn[i], nil,
			"required dominating fact "+resolved[i].Neg().String(), nilFacts)
	}

	// --- each condition alone leads only to its sentinel (evaluated in the function of the chain that tests it;
	// the other conditions tested in that function are assumed false)
	for i, a := range atoms {
		if !haveAtom[i] {
			continue
		}
		f := atomFn[i]
		var assume []an.Fact
		for j := range atoms {
			if !haveAtom[j] || atomFn[j] != f {
				continue
			}
			if j == i {
				assume = append(assume, resolved[j])
			} else {
				assume = append(assume, resolved[j].Neg())
			}
		}
		tf := c.T(f)
		pr := c.F(f).Prune(assume...)
		n := 0
		for _, r := range pr.Returns() {
			n++
			sh := unwrapVerifyErr(tf.ErrShape(errResult(r)))
			ok := sh == "S:"+a.sentinel || sh == "wrap(S:"+a.sentinel+")"
			c.Check(ok, "C01.a", "row:"+a.name+"→"+a.sentinel,
				"when only ("+a.name+") holds, the rejection wraps "+a.sentinel, f, r,
				"return shape "+sh, pr.AtInstr(r))
		}
		if n == 0 {
			c.Fail("C01.a", "row:"+a.name+"→"+a.sentinel, "when only ("+a.name+") holds, the rejection wraps "+a.sentinel, f, nil, "no reachable return", nil)
		}
	}
	c.Min("C01.a", "mandatory guard conditions resolved", countTrue(haveAtom), 6)
	// a helper of the chain is reached only through its call site: what holds there holds in the helper
	entryFacts := func(f *ssa.Function) an.FactSet {
		var out an.FactSet
		for g := f; callIn[g] != nil; g = callerOf[g] {
			out = append(out, c.F(callerOf[g]).AtRefined(callIn[g].Block())...)
		}
		return out
	}

	// --- C01.b zero before use (the guard chain and Verify)
	nObs := 0
	for _, fn := range uniqFns(append(append([]*ssa.Function{}, chain...), verify)...) {
		tt, fff := c.T(fn), c.F(fn)
		entry := entryFacts(fn)
		an.Instrs(fn, func(in ssa.Instruction) {
			call, ok := in.(*ssa.Call)
			if !ok || !call.Call.IsInvoke() || call.Call.Method.Name() == "IsZero" {
				return
			}
			recv := tt.Of(call.Call.Value)
			if recv != "p0" && recv != "p1" {
				return
			}
			nObs++
			fs := append(append(an.FactSet{}, fff.AtInstr(call)...), entry...)
			if fn == verify && mErr != "" && fs.Has(an.EQ(mErr, "nil")) {
				fs = append(fs, nilFacts...)
			}
			need := []an.Fact{an.NotB("IsZero(" + recv + ")")}
			// a method call with the other header as argument needs that one non-zero too
			for _, a := range call.Call.Args {
				if at := tt.Of(a); at == "p0" || at == "p1" {
					need = append(need, an.NotB("IsZero("+at+")"))
				}
			}
			ok2 := true
			for _, nf := range need {
				ok2 = ok2 && fs.Has(nf)
			}
			c.Check(ok2, "C01.b", fmt.Sprintf("zero-before-use:%s:%s.%s", an.FuncName(fn), recv, call.Call.Method.Name()),
				"a header method other than IsZero is called only after that header was found non-zero", fn, call,
				fmt.Sprintf("call %s.%s()", recv, call.Call.Method.Name()), fs)
		})
	}
	c.Min("C01.b", "header observer calls", nObs, 8)

	// --- C01.c wrapper shape
	if mCall != nil {
		found1 := false
		for _, r := range ff.Returns() {
			fs := ff.AtInstr(r)
			if !fs.Has(an.NE(mErr, "nil")) {
				continue
			}
			found1 = true
			sh := t.ErrShape(errResult(r))
			want := "&header.VerifyError{Reason:prop(" + mErr + ")}"
			c.Check(sh == want, "C01.c", "mandatory-wrap", "a failed mandatory check is returned as &VerifyError{Reason: thatErr} and never marked SoftFailure",
				verify, r, "return shape "+sh+", want "+want, fs)
		}
		c.Check(found1, "C01.c", "mandatory-return", "Verify returns when the mandatory check failed", verify, mCall, "return under "+an.NE(mErr, "nil").String()+" "+found(found1), nil)
	}
	nNilV := 0
	for _, r := range ff.Returns() {
		if t.ErrShape(errResult(r)) != "nil" {
			continue
		}
		nNilV++
		fs := ff.AtInstr(r)
		ok := fs.Has(an.EQ(typeErr, "nil"))
		if mCall != nil {
			ok = ok && fs.Has(an.EQ(mErr, "nil"))
		}
		c.Check(ok, "C01.c", "nil-needs-both", "Verify returns nil only if the mandatory checks and the type-level check both returned nil", verify, r, "", fs)
	}
	c.Min("C01.c", "nil returns of Verify", nNilV, 1)

	// --- C01.d soft classification
	verr := p.NamedType("", "VerifyError")
	var softStores []*ssa.Store
	for _, fn := range uniqFns(verify, guardFn) {
		an.Instrs(fn, func(in ssa.Instruction) {
			st, ok := in.(*ssa.Store)
			if !ok {
				return
			}
			if fa, ok := st.Addr.(*ssa.FieldAddr); ok && isFieldOf(fa, verr, "SoftFailure") {
				softStores = append(softStores, st)
			}
		})
	}
	c.Min("C01.d", "stores to VerifyError.SoftFailure in Verify", len(softStores), 1)
	adj := an.EQ("Height(p1)", "(Height(p0)+1)")
	var asAlloc *ssa.Alloc
	an.Instrs(verify, func(in ssa.Instruction) {
		if call, ok := in.(*ssa.Call); ok && an.StaticFullName(&call.Call) == "errors.As" && t.Of(call.Call.Args[0]) == typeErr {
			asAlloc = an.AsTarget(call)
		}
	})
	softCopies := map[*ssa.Alloc]bool{}
	for _, st := range softStores {
		fn := st.Parent()
		tt, fff := c.T(fn), c.F(fn)
		fs := fff.AtInstr(st)
		val := tt.Of(st.Val)
		c.Check(val == "const(true)", "C01.d", "soft-store-true", "SoftFailure is only ever set to true (a type-reported soft failure survives adjacency)", fn, st, "stored "+val, fs)
		allowed := map[an.Fact]bool{an.NE(typeErr, "nil"): true, adj.Neg(): true}
		if mErr != "" {
			allowed[an.EQ(mErr, "nil")] = true
		}
		okAll := fs.Has(an.NE(typeErr, "nil")) && fs.Has(adj.Neg())
		extra := []string{}
		for _, f := range fs {
			if !allowed[f] {
				extra = append(extra, f.String())
			}
		}
		c.Check(okAll && len(extra) == 0, "C01.d", "soft-guard-exact",
			"SoftFailure is set exactly when the type-level check failed and the headers are not adjacent (no weaker, no stronger guard)", fn, st,
			"extra conjuncts: ["+strings.Join(extra, ", ")+"]", fs)
		// the struct written is the error that is returned: *asAlloc
		// the struct written is a COPY of the error the type returned (or of the fresh wrapper): the
		// error object belongs to the Header implementation, which may hand the same value out again —
		// marked soft in place it stays soft, and the next adjacent (final) failure is reported soft
		// as well (finding F20)
		base := st.Addr.(*ssa.FieldAddr).X
		okBase := false
		if al, ok := base.(*ssa.Alloc); ok && asAlloc != nil {
			for _, init := range an.AllocStores(al) {
				if d, isD := init.Val.(*ssa.UnOp); isD {
					if u, isU := d.X.(*ssa.UnOp); isU && u.X == ssa.Value(asAlloc) {
						okBase = true
						softCopies[al] = true
					}
				}
			}
		}
		c.Check(okBase, "C01.d", "soft-target", "the SoftFailure flag is set on a copy of the *VerifyError in hand (errors.As target or fresh wrapper), never on the error object itself", fn, st, "base "+tt.Of(base), nil)
	}
	if asAlloc != nil {
		// stores to the As target: only &VerifyError{Reason: typeErr} under ¬As
		for _, s := range an.AllocStores(asAlloc) {
			sh := t.ErrShape(s.Val)
			fs := ff.AtInstr(s)
			want := "&header.VerifyError{Reason:prop(" + typeErr + ")}"
			c.Check(sh == want && fs.Has(an.NotB("As("+typeErr+",*header.VerifyError)")), "C01.d", "fresh-wrapper",
				"a type-level error that is not a *VerifyError is wrapped as &VerifyError{Reason: typeErr}", verify, s, "stored "+sh, fs)
		}
		// final non-nil return returns the load of the As target
		nRet := 0
		for _, r := range ff.Returns() {
			fs := ff.AtInstr(r)
			if !fs.Has(an.NE(typeErr, "nil")) {
				continue
			}
			nRet++
			v := an.Unwrap(errResult(r))
			u, ok := v.(*ssa.UnOp)
			okRet := ok && u.X == ssa.Value(asAlloc) && fs.Has(adj)
			if al, isAl := v.(*ssa.Alloc); isAl && softCopies[al] && fs.Has(adj.Neg()) {
				okRet = true // the soft-marked copy, for a non-adjacent header
			}
			c.Check(okRet, "C01.d", "typeerr-return", "after a failed type-level check the *VerifyError in hand is returned for an adjacent header and its soft-marked copy for a non-adjacent one", verify, r, "returns "+t.Of(v), fs)
		}
		c.Min("C01.d", "returns after failed type-level check", nRet, 1)
	} else {
		c.Fail("C01.d", "errors.As", "the type-level error is inspected with errors.As(err, **VerifyError) so that a soft failure reported by the type survives", verify, nil, "no errors.As on the type-level error", nil)
	}

	// --- C01.e result type and immutability of sentinels
	for _, r := range ff.Returns() {
		v := an.Unwrap(errResult(r))
		if cst, ok := v.(*ssa.Const); ok && cst.Value == nil {
			continue
		}
		pt, ok := v.Type().(*types.Pointer)
		okT := ok && pt.Elem() == types.Type(verr)
		c.Check(okT, "C01.e", "result-type", "every non-nil result of Verify is a *VerifyError", verify, r, "type "+v.Type().String(), nil)
	}
	checkNoWriters(c, "C01.e", []string{"ErrZeroHeader", "ErrWrongChainID", "ErrKnownHeader", "ErrUnorderedTime", "ErrFromFuture", "clockDrift"}, "")
}

func typeCallInstr(c *ssa.Call) ssa.Instruction {
	if c == nil {
		return nil
	}
	return c
}

func found(b bool) string {
	if b {
		return "found"
	}
	return "NOT found"
}

func countTrue(bs []bool) int {
	n := 0
	for _, b := range bs {
		if b {
			n++
		}
	}
	return n
}

func uniqFns(fs ...*ssa.Function) []*ssa.Function {
	var out []*ssa.Function
	seen := map[*ssa.Function]bool{}
	for _, f := range fs {
		if f != nil && !seen[f] {
			seen[f] = true
			out = append(out, f)
		}
	}
	return out
}

// errResult returns the last result of a return (the error by convention).
func errResult(r *ssa.Return) ssa.Value {
	if len(r.Results) == 0 {
		return nil
	}
	return r.Results[len(r.Results)-1]
}

func unwrapVerifyErr(sh string) string {
	const pre = "&header.VerifyError{Reason:"
	if strings.HasPrefix(sh, pre) && strings.HasSuffix(sh, "}") {
		return sh[len(pre) : len(sh)-1]
	}
	return sh
}

func hasLoop(fn *ssa.Function) bool {
	// a back edge exists iff some successor has a smaller-or-equal DFS discovery and is on the stack
	state := map[*ssa.BasicBlock]int{}
	var dfs func(b *ssa.BasicBlock) bool
	dfs = func(b *ssa.BasicBlock) bool {
		state[b] = 1
		for _, s := range b.Succs {
			if state[s] == 1 {
				return true
			}
			if state[s] == 0 && dfs(s) {
				return true
			}
		}
		state[b] = 2
		return false
	}
	if len(fn.Blocks) == 0 {
		return false
	}
	return dfs(fn.Blocks[0])
}

func isFieldOf(fa *ssa.FieldAddr, named *types.Named, field string) bool {
	pt, ok := fa.X.Type().Underlying().(*types.Pointer)
	if !ok {
		return false
	}
	st, ok := pt.Elem().Underlying().(*types.Struct)
	if !ok || st.Field(fa.Field).Name() != field {
		return false
	}
	if named == nil {
		return true
	}
	n, ok := pt.Elem().(*types.Named)
	if !ok {
		return false
	}
	return n.Origin() == named.Origin()
}

// checkNoWriters: package-level variables of the root package (short "") named
// in vars are stored to only from the package initialiser.
func checkNoWriters(c *an.Ctx, id string, vars []string, short string) {
	for _, name := range vars {
		g := c.P.Global(short, name)
		if g == nil {
			c.Undecided(id, "global:"+name, "anchor variable must resolve", nil, nil, "cannot resolve variable "+name)
			continue
		}
		bad := 0
		for _, fn := range c.P.RepoFuncs() {
			an.Instrs(fn, func(in ssa.Instruction) {
				st, ok := in.(*ssa.Store)
				if !ok || st.Addr != ssa.Value(g) {
					return
				}
				if fn.Name() == "init" && fn.Parent() == nil {
					return
				}
				bad++
				c.Fail(id, "writer:"+name+":"+an.FuncName(fn), "package variable "+name+" is written only by the package initialiser", fn, st, "store outside init", nil)
			})
		}
		if bad == 0 {
			c.Ok(id, "no-writer:"+name, "package variable "+name+" is written only by the package initialiser", nil, nil, "0 writers in non-test code", nil)
		}
	}
}
