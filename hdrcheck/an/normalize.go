package an

import (
	"bytes"
	_ "embed"
	"fmt"
	"go/ast"
	"go/parser"
	"go/scanner"
	"go/token"
	"go/types"
	"regexp"
	"sort"
	"strings"

	"golang.org/x/tools/go/packages"
)

// Normalisation by inlining.
//
// The rules of this checker were confirmed, instance by instance, against the
// function inventory of one tree (inventory.txt). The refactoring that most often
// defeats an anchored static rule without changing behaviour is "extract a step
// into a new helper function". To stay silent on such trees the loader inlines, at
// source level and before type-checking for the analysis, every call to a function
// of the module that is NOT in the inventory — i.e. to a helper introduced after
// the rules were confirmed — back into its callers, and blanks the helper when no
// reference to it is left. Inlining preserves semantics, so the analysed program is
// equivalent to the given one; it merely has the shape the rules know. Where a call
// cannot be inlined by the simple schemes below (recover/labels/goto in the callee,
// conditional defers, recursion, variadics, shadowed names, an unsupported
// statement context) it is left alone and the rules see the tree as it is; when the
// inlined sources do not type-check the whole normalisation is dropped.
//
// Schemes, for `func f(p, q T) (R0, error) { body }`:
//
//	tail call      return f(a, b)
//	    { a0, a1 := a, b; { p, q := a0, a1; body } }            (the callee's returns become the caller's)
//	error check    x, err := f(a, b); if err != nil { RB }      (also as `if x, err := f(a, b); err != nil { RB }`)
//	    var x R0; var err error
//	    { a0, a1 := a, b; { p, q := a0, a1
//	        L: for { body with `return u, e` → { x, err = u, e; if err != nil { RB }; break L }
//	                               (`return u, nil` → { x, err = u, nil; break L }); break L } } }
//	    — every failing return of the helper reaches the caller's error handling on its own path, as it
//	    did before the step was extracted
//	general        x, y := f(a, b) / f(a, b) / if x := f(a); cond {…}
//	    var r0 R0; var r1 R1; { …; L: for { body with `return u, v` → { r0, r1 = u, v; break L }; break L } }; x, y := r0, r1
//
// Unconditional top-level `defer X.Unlock()`-style statements (no arguments) of the helper are run,
// last-in-first-out, after the results of a return are evaluated and before control leaves the
// inlined body — what the defer does on every non-panicking execution. Everything is emitted on ONE
// source line (padded with newlines to the height of the original statements), so every other line
// of the file keeps its number. Arguments are evaluated once, in order, in the caller's scope; the
// callee's parameter names are bound in an inner scope; results travel through uniquely named
// temporaries or the caller's own variables.

//go:embed inventory.txt
var inventoryText string

// Inventory is the set of declared functions the rules were confirmed against.
func Inventory() map[string]bool {
	m := map[string]bool{}
	for _, l := range strings.Split(inventoryText, "\n") {
		l = strings.TrimSpace(l)
		if l != "" && !strings.HasPrefix(l, "#") {
			if i := strings.IndexByte(l, '\t'); i >= 0 {
				l = l[:i]
			}
			m[l] = true
		}
	}
	return m
}

// DeclName names a function declaration: "pkgpath.Name" or "pkgpath.(Recv).Name".
func DeclName(pkgPath string, fd *ast.FuncDecl) string {
	if fd.Recv != nil && len(fd.Recv.List) == 1 {
		if id, ok := stripIndex(unstar(fd.Recv.List[0].Type)).(*ast.Ident); ok {
			return pkgPath + ".(" + id.Name + ")." + fd.Name.Name
		}
	}
	return pkgPath + "." + fd.Name.Name
}

func unstar(e ast.Expr) ast.Expr {
	for {
		switch x := e.(type) {
		case *ast.StarExpr:
			e = x.X
		case *ast.ParenExpr:
			e = x.X
		default:
			return e
		}
	}
}

// DeclNames lists the function declarations of the loaded module with their signatures
// ("name<TAB>signature", HDRCHECK_INVENTORY=1).
func (p *Prog) DeclNames() []string {
	var out []string
	for _, pk := range p.Pkgs {
		for _, f := range pk.Syntax {
			for _, d := range f.Decls {
				if fd, ok := d.(*ast.FuncDecl); ok {
					out = append(out, DeclName(pk.PkgPath, fd)+"\t"+sigString(pk, fd))
				}
			}
		}
	}
	// struct fields of the module's named types: "pkg.{Type}.field<TAB>type"
	for _, fo := range p.fieldObjs() {
		out = append(out, fo.name+"\t"+fo.typ)
	}
	// named types: "pkg.<Type><TAB>shape"
	for _, to := range p.typeObjs() {
		out = append(out, to.name+"\t"+strings.Join(to.shape, " ; "))
	}
	sort.Strings(out)
	return out
}

type typeObj struct {
	name  string // pkg.<Type>
	shape []string
	obj   *types.TypeName
}

// typeObjs lists the module's named types with their shape: the fields and the declared methods
// with their types, the type's own name replaced by "$", so that a renamed type keeps its shape.
func (p *Prog) typeObjs() []typeObj {
	var out []typeObj
	q := func(pk *types.Package) string { return pk.Path() }
	for _, pk := range p.Pkgs {
		if strings.HasSuffix(pk.PkgPath, "/pb") {
			continue
		}
		sc := pk.Types.Scope()
		for _, n := range sc.Names() {
			tn, ok := sc.Lookup(n).(*types.TypeName)
			if !ok || tn.IsAlias() {
				continue
			}
			named, ok := tn.Type().(*types.Named)
			if !ok {
				continue
			}
			self := regexp.MustCompile(regexp.QuoteMeta(pk.PkgPath+"."+tn.Name()) + `\b`)
			var shape []string
			if st, ok := named.Underlying().(*types.Struct); ok {
				for i := 0; i < st.NumFields(); i++ {
					f := st.Field(i)
					shape = append(shape, "f:"+f.Name()+":"+self.ReplaceAllString(types.TypeString(f.Type(), q), "$"))
				}
			} else {
				shape = append(shape, "u:"+self.ReplaceAllString(types.TypeString(named.Underlying(), q), "$"))
			}
			for i := 0; i < named.NumMethods(); i++ {
				m := named.Method(i)
				sig := m.Type().(*types.Signature)
				s := ""
				for _, tup := range []*types.Tuple{sig.Params(), sig.Results()} {
					s += "("
					for k := 0; k < tup.Len(); k++ {
						s += types.TypeString(tup.At(k).Type(), q) + ","
					}
					s += ")"
				}
				shape = append(shape, "m:"+m.Name()+":"+self.ReplaceAllString(strings.Join(strings.Fields(s), " "), "$"))
			}
			sort.Strings(shape)
			out = append(out, typeObj{pk.PkgPath + ".<" + tn.Name() + ">", shape, tn})
		}
	}
	return out
}

type fieldObj struct {
	name string // pkg.{Type}.field
	typ  string
	obj  *types.Var
}

func (p *Prog) fieldObjs() []fieldObj {
	var out []fieldObj
	q := func(pk *types.Package) string { return pk.Path() }
	for _, pk := range p.Pkgs {
		if strings.HasSuffix(pk.PkgPath, "/pb") {
			continue
		}
		sc := pk.Types.Scope()
		for _, n := range sc.Names() {
			tn, ok := sc.Lookup(n).(*types.TypeName)
			if !ok {
				continue
			}
			st, ok := tn.Type().Underlying().(*types.Struct)
			if !ok {
				continue
			}
			for i := 0; i < st.NumFields(); i++ {
				f := st.Field(i)
				if f.Embedded() {
					continue
				}
				out = append(out, fieldObj{pk.PkgPath + ".{" + tn.Name() + "}." + f.Name(), types.TypeString(f.Type(), q), f})
			}
		}
	}
	return out
}

// sigString renders the signature of a declaration without parameter names (types only), so that
// a renamed function can be recognised by it.
func sigString(pk *packages.Package, fd *ast.FuncDecl) string {
	obj, _ := pk.TypesInfo.Defs[fd.Name].(*types.Func)
	if obj == nil {
		return "?"
	}
	sig := obj.Type().(*types.Signature)
	q := func(p *types.Package) string { return p.Path() }
	var ps, rs []string
	for i := 0; i < sig.Params().Len(); i++ {
		ps = append(ps, types.TypeString(sig.Params().At(i).Type(), q))
	}
	for i := 0; i < sig.Results().Len(); i++ {
		rs = append(rs, types.TypeString(sig.Results().At(i).Type(), q))
	}
	v := ""
	if sig.Variadic() {
		v = "..."
	}
	s := "func(" + strings.Join(ps, ", ") + v + ") (" + strings.Join(rs, ", ") + ")"
	// type-parameter names are not part of the identity
	return strings.Join(strings.Fields(s), " ")
}

// InventorySigs maps an inventory name to its signature (empty for an inventory without signatures).
func InventorySigs() map[string]string {
	m := map[string]string{}
	for _, l := range strings.Split(inventoryText, "\n") {
		l = strings.TrimSpace(l)
		if l == "" || strings.HasPrefix(l, "#") {
			continue
		}
		if i := strings.IndexByte(l, '\t'); i >= 0 {
			m[l[:i]] = l[i+1:]
		}
	}
	return m
}

// RenameOverlay recognises renamed functions: a function of the inventory that is no longer
// declared and a declared function that is not in the inventory, same package and receiver type,
// same signature, and the pairing is unique both ways. Such a function is given its inventory name
// back (declaration and every reference), so that the rules find their anchor; nothing else changes.
func RenameOverlay(p *Prog, read func(path string) ([]byte, error)) (map[string][]byte, []string) {
	sigs := InventorySigs()
	if len(sigs) == 0 {
		return nil, nil
	}
	declared := map[string]bool{}
	type cand struct {
		pk   *packages.Package
		fd   *ast.FuncDecl
		name string
		sig  string
	}
	var fresh []cand
	for _, pk := range p.Pkgs {
		for _, f := range pk.Syntax {
			for _, d := range f.Decls {
				fd, ok := d.(*ast.FuncDecl)
				if !ok {
					continue
				}
				n := DeclName(pk.PkgPath, fd)
				declared[n] = true
				if _, known := sigs[n]; !known {
					fresh = append(fresh, cand{pk, fd, n, sigString(pk, fd)})
				}
			}
		}
	}
	prefixOf := func(n string) string { return n[:strings.LastIndex(n, ".")+1] } // "pkg." or "pkg.(T)."
	type edit struct {
		start, end int
		text       string
	}
	edits := map[string][]edit{}
	var notes []string
	finish := func() (map[string][]byte, []string) {
		if len(edits) == 0 {
			return nil, nil
		}
		out := map[string][]byte{}
		for path, es := range edits {
			src, err := read(path)
			if err != nil {
				continue
			}
			sort.Slice(es, func(i, j int) bool { return es[i].start < es[j].start })
			var buf bytes.Buffer
			last := 0
			for _, e := range es {
				if e.start < last {
					continue
				}
				buf.Write(src[last:e.start])
				buf.WriteString(e.text)
				last = e.end
			}
			buf.Write(src[last:])
			out[path] = buf.Bytes()
		}
		return out, notes
	}
	// renamed types first (on their own: the functions and fields are matched on the next call,
	// when the methods are back under the receiver name of the inventory)
	{
		tys := p.typeObjs()
		tdecl := map[string]*typeObj{}
		for i := range tys {
			tdecl[tys[i].name] = &tys[i]
		}
		score := func(a, b []string) float64 {
			in := map[string]bool{}
			for _, x := range a {
				in[x] = true
			}
			both := 0
			for _, x := range b {
				if in[x] {
					both++
				}
			}
			union := len(a) + len(b) - both
			if union == 0 {
				return 0
			}
			return float64(both) / float64(union)
		}
		pkgOf := func(n string) string { return n[:strings.LastIndex(n, ".<")] }
		type pair struct {
			old  string
			cand *typeObj
		}
		var pairs []pair
		for old, oshape := range sigs {
			if !strings.Contains(old, ".<") || tdecl[old] != nil {
				continue
			}
			os := strings.Split(oshape, " ; ")
			var match *typeObj
			n := 0
			for i := range tys {
				if _, known := sigs[tys[i].name]; known || pkgOf(tys[i].name) != pkgOf(old) {
					continue
				}
				if score(os, tys[i].shape) >= 0.6 {
					match = &tys[i]
					n++
				}
			}
			if n == 1 {
				pairs = append(pairs, pair{old, match})
			}
		}
		for _, pr := range pairs {
			dup := 0
			for _, p2 := range pairs {
				if p2.cand == pr.cand {
					dup++
				}
			}
			if dup != 1 {
				continue
			}
			oldShort := strings.TrimSuffix(pr.old[strings.LastIndex(pr.old, ".<")+2:], ">")
			for _, pk := range p.Pkgs {
				record := func(id *ast.Ident) {
					tf := p.Fset.File(id.Pos())
					edits[tf.Name()] = append(edits[tf.Name()], edit{tf.Offset(id.Pos()), tf.Offset(id.End()), oldShort})
				}
				for id, o := range pk.TypesInfo.Defs {
					if o == types.Object(pr.cand.obj) {
						record(id)
					}
				}
				for id, o := range pk.TypesInfo.Uses {
					if o == types.Object(pr.cand.obj) {
						record(id)
					}
				}
			}
			notes = append(notes, fmt.Sprintf("type %s has the shape and place of the missing %s: analysed under that name", pr.cand.name, pr.old))
		}
		if len(edits) > 0 {
			return finish()
		}
	}
	for old, osig := range sigs {
		if declared[old] || strings.Contains(old, ".<") || strings.Contains(old, ".{") {
			continue
		}
		var match *cand
		n := 0
		for i := range fresh {
			if prefixOf(fresh[i].name) == prefixOf(old) && fresh[i].sig == osig {
				match = &fresh[i]
				n++
			}
		}
		if n != 1 {
			continue
		}
		// unique the other way round as well
		m := 0
		for o2, s2 := range sigs {
			if !declared[o2] && prefixOf(o2) == prefixOf(old) && s2 == osig {
				m++
			}
		}
		if m != 1 {
			continue
		}
		obj, _ := match.pk.TypesInfo.Defs[match.fd.Name].(*types.Func)
		if obj == nil {
			continue
		}
		oldShort := old[strings.LastIndex(old, ".")+1:]
		for _, pk := range p.Pkgs {
			record := func(id *ast.Ident) {
				tf := p.Fset.File(id.Pos())
				edits[tf.Name()] = append(edits[tf.Name()], edit{tf.Offset(id.Pos()), tf.Offset(id.End()), oldShort})
			}
			for id, o := range pk.TypesInfo.Defs {
				if o == types.Object(obj) {
					record(id)
				}
			}
			for id, o := range pk.TypesInfo.Uses {
				if f, ok := o.(*types.Func); ok && f.Origin() == obj {
					record(id)
				}
			}
		}
		notes = append(notes, fmt.Sprintf("function %s has the signature and place of the missing %s: analysed under that name", match.name, old))
	}
	// struct fields, the same way: a missing field and a new one of the same type in the same struct
	fields := p.fieldObjs()
	fdeclared := map[string]bool{}
	for _, fo := range fields {
		fdeclared[fo.name] = true
	}
	for old, otyp := range sigs {
		if !strings.Contains(old, ".{") || fdeclared[old] {
			continue
		}
		var match *fieldObj
		n := 0
		for i := range fields {
			if _, known := sigs[fields[i].name]; known {
				continue
			}
			if prefixOf(fields[i].name) == prefixOf(old) && fields[i].typ == otyp {
				match = &fields[i]
				n++
			}
		}
		m := 0
		for o2, t2 := range sigs {
			if strings.Contains(o2, ".{") && !fdeclared[o2] && prefixOf(o2) == prefixOf(old) && t2 == otyp {
				m++
			}
		}
		if n != 1 || m != 1 {
			continue
		}
		oldShort := old[strings.LastIndex(old, ".")+1:]
		for _, pk := range p.Pkgs {
			record := func(id *ast.Ident) {
				tf := p.Fset.File(id.Pos())
				edits[tf.Name()] = append(edits[tf.Name()], edit{tf.Offset(id.Pos()), tf.Offset(id.End()), oldShort})
			}
			for id, o := range pk.TypesInfo.Defs {
				if v, ok := o.(*types.Var); ok && v.IsField() && v.Origin() == match.obj {
					record(id)
				}
			}
			for id, o := range pk.TypesInfo.Uses {
				if v, ok := o.(*types.Var); ok && v.IsField() && v.Origin() == match.obj {
					record(id)
				}
			}
		}
		notes = append(notes, fmt.Sprintf("field %s has the type and place of the missing %s: analysed under that name", match.name, old))
	}
	return finish()
}

type inlCallee struct {
	pk   *packages.Package
	file *ast.File
	decl *ast.FuncDecl
	obj  *types.Func
	src  []byte
	uses int // references to the function in the module
	done int // call sites inlined
}

// inlSite is one statement (or statement pair) to be replaced.
type inlSite struct {
	kind   string // "expr", "assign", "tail", "ifinit", "thread"
	call   *ast.CallExpr
	assign *ast.AssignStmt // for assign / ifinit / thread
	ifs    *ast.IfStmt     // for ifinit / thread / condthread
	neg    bool            // condthread: the condition is !call; thread with okv: the condition is !ok
	okv    bool            // thread: the caller tests the last result as a boolean (`if ok`), not `err != nil`
	start  token.Pos
	end    token.Pos
}

// NormalizeOverlay returns replacement sources (path → content) in which calls to functions outside
// the inventory are inlined, and a description of what was done. read gives the current content
// of a file (overlay or disk).
func NormalizeOverlay(p *Prog, known map[string]bool, read func(path string) ([]byte, error)) (map[string][]byte, []string) {
	callees := map[*types.Func]*inlCallee{}
	srcOf := map[string][]byte{}
	getSrc := func(path string) []byte {
		if b, ok := srcOf[path]; ok {
			return b
		}
		b, err := read(path)
		if err != nil {
			b = nil
		}
		srcOf[path] = b
		return b
	}
	for _, pk := range p.Pkgs {
		for _, f := range pk.Syntax {
			path := p.Fset.File(f.Pos()).Name()
			if strings.HasSuffix(path, ".pb.go") {
				continue
			}
			for _, d := range f.Decls {
				fd, ok := d.(*ast.FuncDecl)
				if !ok || fd.Body == nil || known[DeclName(pk.PkgPath, fd)] {
					continue
				}
				obj, _ := pk.TypesInfo.Defs[fd.Name].(*types.Func)
				if obj == nil {
					continue
				}
				callees[obj] = &inlCallee{pk: pk, file: f, decl: fd, obj: obj, src: getSrc(path)}
			}
		}
	}
	if len(callees) == 0 {
		return nil, nil
	}
	for _, pk := range p.Pkgs {
		for id, obj := range pk.TypesInfo.Uses {
			_ = id
			if f, ok := obj.(*types.Func); ok {
				if ce := callees[f.Origin()]; ce != nil {
					ce.uses++
				}
			}
		}
	}
	var notes []string
	type repl struct {
		start, end int
		text       string
	}
	repls := map[string][]repl{}
	imports := map[string][]string{}
	files := map[string]*ast.File{}
	counter := 0
	for _, pk := range p.Pkgs {
		for _, f := range pk.Syntax {
			tf := p.Fset.File(f.Pos())
			path := tf.Name()
			src := getSrc(path)
			if src == nil {
				continue
			}
			files[path] = f
			handle := func(site *inlSite, encl *ast.FuncDecl) bool {
				fobj := calleeObj(pk.TypesInfo, site.call)
				ce := callees[fobj]
				if ce == nil || ce.decl == encl {
					return false
				}
				counter++
				text, imps, why := inlineAt(p, pk, f, src, site, ce, counter)
				if text == "" && site.kind == "thread" {
					// fall back to the general scheme (the caller's error check stays where it is)
					if site.ifs.Init != nil {
						site.kind = "ifinit"
					} else {
						site.kind, site.end = "assign", site.assign.End()
					}
					text, imps, why = inlineAt(p, pk, f, src, site, ce, counter)
				}
				if text == "" {
					notes = append(notes, fmt.Sprintf("call to new function %s at %s left as is: %s", ce.obj.Name(), p.Pos(site.call.Pos()), why))
					return false
				}
				start, end := tf.Offset(site.start), tf.Offset(site.end)
				pad := strings.Count(string(src[start:end]), "\n")
				repls[path] = append(repls[path], repl{start, end, text + strings.Repeat("\n", pad)})
				imports[path] = append(imports[path], imps...)
				ce.done++
				// the copy of the body carries the body's own references to other new functions
				ast.Inspect(ce.decl.Body, func(n ast.Node) bool {
					if id, ok := n.(*ast.Ident); ok {
						if f2, ok := ce.pk.TypesInfo.Uses[id].(*types.Func); ok {
							if c2 := callees[f2.Origin()]; c2 != nil {
								c2.uses++
							}
						}
					}
					return true
				})
				notes = append(notes, fmt.Sprintf("inlined call to new function %s at %s (%s)", ce.obj.Name(), p.Pos(site.call.Pos()), site.kind))
				return true
			}
			visitList := func(list []ast.Stmt, encl *ast.FuncDecl) {
				for i := 0; i < len(list); i++ {
					var next ast.Stmt
					if i+1 < len(list) {
						next = list[i+1]
					}
					site := inlinableStmt(list[i], next)
					if site == nil {
						continue
					}
					if handle(site, encl) && site.end == safeEnd(next) && next != nil {
						i++ // the error check that follows was consumed
					}
				}
			}
			for _, d := range f.Decls {
				fd, ok := d.(*ast.FuncDecl)
				if !ok || fd.Body == nil {
					continue
				}
				ast.Inspect(fd.Body, func(n ast.Node) bool {
					switch x := n.(type) {
					case *ast.BlockStmt:
						visitList(x.List, fd)
					case *ast.CaseClause:
						visitList(x.Body, fd)
					case *ast.CommClause:
						visitList(x.Body, fd)
					}
					return true
				})
			}
		}
	}
	// helpers without any reference left are blanked (their lines stay, empty)
	for _, ce := range callees {
		if ce.uses > 0 && ce.done == ce.uses {
			tf := p.Fset.File(ce.file.Pos())
			path := tf.Name()
			start := tf.Offset(ce.decl.Pos())
			if ce.decl.Doc != nil {
				start = tf.Offset(ce.decl.Doc.Pos())
			}
			end := tf.Offset(ce.decl.End())
			repls[path] = append(repls[path], repl{start, end, strings.Repeat("\n", strings.Count(string(ce.src[start:end]), "\n"))})
			files[path] = ce.file
			notes = append(notes, fmt.Sprintf("new function %s: every call inlined, declaration dropped from the analysed program", ce.obj.Name()))
		}
	}
	out := map[string][]byte{}
	for path, rs := range repls {
		src := getSrc(path)
		f := files[path]
		tf := p.Fset.File(f.Pos())
		// nested selections (a statement inside an inlined one): keep the outermost
		sort.Slice(rs, func(i, j int) bool { return rs[i].start < rs[j].start })
		var keep []repl
		for _, r := range rs {
			if len(keep) > 0 && r.start < keep[len(keep)-1].end {
				continue
			}
			keep = append(keep, r)
		}
		var buf bytes.Buffer
		last := 0
		for _, r := range keep {
			buf.Write(src[last:r.start])
			buf.WriteString(r.text)
			last = r.end
		}
		buf.Write(src[last:])
		res := buf.Bytes()
		if len(imports[path]) > 0 {
			// on the line of the package clause, so that no line moves
			pkgEnd := tf.Offset(f.Name.End())
			var ib strings.Builder
			seen := map[string]bool{}
			for _, im := range imports[path] {
				if !seen[im] {
					seen[im] = true
					ib.WriteString("; import " + im)
				}
			}
			res = append(append(append([]byte{}, res[:pkgEnd]...), []byte(ib.String())...), res[pkgEnd:]...)
		}
		out[path] = blankUnusedImports(p, f, res)
	}
	return out, notes
}

// blankUnusedImports: dropping an inlined helper can leave an import of its file without a use.
// Such an import is turned into a blank import (`_ "path"`) in the rewritten source, so that the
// in-memory program still type-checks; nothing else about the file changes.
func blankUnusedImports(p *Prog, f *ast.File, src []byte) []byte {
	var info *types.Info
	for _, pk := range p.Pkgs {
		for _, pf := range pk.Syntax {
			if pf == f {
				info = pk.TypesInfo
			}
		}
	}
	if info == nil {
		return src
	}
	nf, err := parser.ParseFile(token.NewFileSet(), "", src, parser.SkipObjectResolution)
	if err != nil {
		return src
	}
	used := map[string]bool{}
	ast.Inspect(nf, func(n ast.Node) bool {
		if sel, ok := n.(*ast.SelectorExpr); ok {
			if id, ok := sel.X.(*ast.Ident); ok {
				used[id.Name] = true
			}
		}
		return true
	})
	for _, spec := range f.Imports {
		name := ""
		if spec.Name != nil {
			name = spec.Name.Name
		} else if pn, ok := info.Implicits[spec].(*types.PkgName); ok {
			name = pn.Name()
		}
		if name == "" || name == "_" || name == "." || used[name] {
			continue
		}
		old := spec.Path.Value
		if spec.Name != nil {
			old = spec.Name.Name + " " + spec.Path.Value
		}
		// the import block precedes every rewritten statement: the first occurrence is the spec
		if i := bytes.Index(src, []byte(old)); i >= 0 {
			src = append(append(append([]byte{}, src[:i]...), []byte("_ "+spec.Path.Value)...), src[i+len(old):]...)
		}
	}
	return src
}

func safeEnd(s ast.Stmt) token.Pos {
	if s == nil {
		return token.NoPos
	}
	return s.End()
}

// errCheck recognises `if V != nil { … }` (no init, no else) for the identifier name.
func errCheck(s ast.Stmt, name string) *ast.IfStmt {
	ifs, ok := s.(*ast.IfStmt)
	if !ok || ifs.Init != nil || ifs.Else != nil {
		return nil
	}
	if !isNotNil(ifs.Cond, name) {
		return nil
	}
	return ifs
}

// boolTest recognises `name` and `!name` as a condition.
func boolTest(cond ast.Expr, name string) (neg, ok bool) {
	if u, isU := cond.(*ast.UnaryExpr); isU && u.Op == token.NOT {
		cond, neg = u.X, true
	}
	id, isID := cond.(*ast.Ident)
	return neg, isID && id.Name == name
}

// okCheck: `if ok { … }` / `if !ok { … }` without init and else, on the given variable.
func okCheck(s ast.Stmt, name string) (*ast.IfStmt, bool) {
	ifs, ok := s.(*ast.IfStmt)
	if !ok || ifs.Init != nil || ifs.Else != nil {
		return nil, false
	}
	neg, isTest := boolTest(ifs.Cond, name)
	if !isTest {
		return nil, false
	}
	return ifs, neg
}

func isNotNil(cond ast.Expr, name string) bool {
	be, ok := cond.(*ast.BinaryExpr)
	if !ok || be.Op != token.NEQ {
		return false
	}
	x, okx := be.X.(*ast.Ident)
	y, oky := be.Y.(*ast.Ident)
	return okx && oky && x.Name == name && y.Name == "nil"
}

func lastIdent(as *ast.AssignStmt) string {
	if len(as.Lhs) == 0 {
		return ""
	}
	if id, ok := as.Lhs[len(as.Lhs)-1].(*ast.Ident); ok && id.Name != "_" {
		return id.Name
	}
	return ""
}

// inlinableStmt recognises the statement contexts handled.
func inlinableStmt(st, next ast.Stmt) *inlSite {
	asCall := func(e ast.Expr) *ast.CallExpr {
		c, _ := e.(*ast.CallExpr)
		return c
	}
	switch x := st.(type) {
	case *ast.ExprStmt:
		if c := asCall(x.X); c != nil {
			return &inlSite{kind: "expr", call: c, start: st.Pos(), end: st.End()}
		}
	case *ast.AssignStmt:
		if len(x.Rhs) == 1 && (x.Tok == token.DEFINE || x.Tok == token.ASSIGN) {
			if c := asCall(x.Rhs[0]); c != nil {
				if ev := lastIdent(x); ev != "" && next != nil {
					if ifs := errCheck(next, ev); ifs != nil {
						return &inlSite{kind: "thread", call: c, assign: x, ifs: ifs, start: st.Pos(), end: next.End()}
					}
					if ifs, neg := okCheck(next, ev); ifs != nil {
						return &inlSite{kind: "thread", call: c, assign: x, ifs: ifs, okv: true, neg: neg, start: st.Pos(), end: next.End()}
					}
				}
				return &inlSite{kind: "assign", call: c, assign: x, start: st.Pos(), end: st.End()}
			}
		}
	case *ast.ReturnStmt:
		if len(x.Results) == 1 {
			if c := asCall(x.Results[0]); c != nil {
				return &inlSite{kind: "tail", call: c, start: st.Pos(), end: st.End()}
			}
		}
	case *ast.DeferStmt:
		return &inlSite{kind: "defer", call: x.Call, start: st.Pos(), end: st.End()}
	case *ast.GoStmt:
		return &inlSite{kind: "go", call: x.Call, start: st.Pos(), end: st.End()}
	case *ast.IfStmt:
		if x.Init == nil && x.Else == nil {
			cond := x.Cond
			neg := false
			if u, ok := cond.(*ast.UnaryExpr); ok && u.Op == token.NOT {
				cond, neg = u.X, true
			}
			if c := asCall(cond); c != nil {
				return &inlSite{kind: "condthread", call: c, ifs: x, neg: neg, start: st.Pos(), end: st.End()}
			}
		}
		if as, ok := x.Init.(*ast.AssignStmt); ok && len(as.Rhs) == 1 && (as.Tok == token.DEFINE || as.Tok == token.ASSIGN) {
			if c := asCall(as.Rhs[0]); c != nil {
				if ev := lastIdent(as); ev != "" && x.Else == nil && isNotNil(x.Cond, ev) {
					return &inlSite{kind: "thread", call: c, assign: as, ifs: x, start: st.Pos(), end: st.End()}
				}
				if ev := lastIdent(as); ev != "" && x.Else == nil {
					if neg, isTest := boolTest(x.Cond, ev); isTest {
						return &inlSite{kind: "thread", call: c, assign: as, ifs: x, okv: true, neg: neg, start: st.Pos(), end: st.End()}
					}
				}
				return &inlSite{kind: "ifinit", call: c, assign: as, ifs: x, start: st.Pos(), end: st.End()}
			}
		}
	}
	return nil
}

func calleeObj(info *types.Info, call *ast.CallExpr) *types.Func {
	var id *ast.Ident
	switch x := stripIndex(call.Fun).(type) {
	case *ast.Ident:
		id = x
	case *ast.SelectorExpr:
		id = x.Sel
	}
	if id == nil {
		return nil
	}
	f, _ := info.Uses[id].(*types.Func)
	if f != nil {
		f = f.Origin()
	}
	return f
}

// inlineAt builds the one-line replacement for a site; "" and a reason when it cannot.
func inlineAt(p *Prog, pk *packages.Package, file *ast.File, src []byte, site *inlSite, ce *inlCallee, n int) (string, []string, string) {
	info := pk.TypesInfo
	call := site.call
	tf := p.Fset.File(file.Pos())
	text := func(a, b token.Pos) string { return string(src[tf.Offset(a):tf.Offset(b)]) }
	ctf := p.Fset.File(ce.file.Pos())
	ctext := func(a, b token.Pos) string { return string(ce.src[ctf.Offset(a):ctf.Offset(b)]) }
	fd := ce.decl
	sig := ce.obj.Type().(*types.Signature)
	if call.Ellipsis != token.NoPos && !sig.Variadic() {
		return "", nil, "variadic"
	}
	if ce.pk != pk {
		return "", nil, "callee in another package"
	}
	suf := fmt.Sprintf("__i%d", n)
	// every variable the callee declares (receiver, parameters, named results, locals) is renamed
	// with a unique suffix: nothing of the caller that is spliced into the inlined body (its error
	// handling, its assignment targets) can then be captured by a name of the callee, and vice versa
	cinfo0 := ce.pk.TypesInfo
	isLocal := func(o types.Object) bool {
		if o == nil || o.Pos() < fd.Pos() || o.Pos() >= fd.End() {
			return false
		}
		_, isVar := o.(*types.Var)
		return isVar && !o.(*types.Var).IsField()
	}
	type edit struct {
		start, end int
		text       string
	}
	var renames []edit
	ast.Inspect(fd, func(nd ast.Node) bool {
		switch x := nd.(type) {
		case *ast.Ident:
			if x.Name == "_" {
				return true
			}
			if isLocal(cinfo0.Defs[x]) || isLocal(cinfo0.Uses[x]) {
				renames = append(renames, edit{ctf.Offset(x.Pos()), ctf.Offset(x.End()), x.Name + suf})
			}
		case *ast.TypeSwitchStmt:
			// the symbolic variable of a type switch has no object of its own
			if as, ok := x.Assign.(*ast.AssignStmt); ok && len(as.Lhs) == 1 {
				if id, ok := as.Lhs[0].(*ast.Ident); ok && id.Name != "_" {
					renames = append(renames, edit{ctf.Offset(id.Pos()), ctf.Offset(id.End()), id.Name + suf})
				}
			}
		}
		return true
	})
	sort.Slice(renames, func(i, j int) bool { return renames[i].start < renames[j].start })
	// rtext: callee source between two positions with the renames applied
	rtext := func(a, b token.Pos) string {
		lo, hi := ctf.Offset(a), ctf.Offset(b)
		var sb strings.Builder
		last := lo
		for _, e := range renames {
			if e.start < lo || e.end > hi || e.start < last {
				continue
			}
			sb.Write(ce.src[last:e.start])
			sb.WriteString(e.text)
			last = e.end
		}
		sb.Write(ce.src[last:hi])
		return sb.String()
	}
	// callee body restrictions; unconditional top-level defers of argument-less calls are emulated
	bad := ""
	type deferred struct {
		idx  int // index in the top-level statement list
		call string
	}
	var defers []deferred
	topIdx := map[ast.Stmt]int{}
	for i, s := range fd.Body.List {
		topIdx[s] = i
		if ds, ok := s.(*ast.DeferStmt); ok {
			if len(ds.Call.Args) != 0 {
				bad = "defer with arguments in the callee"
			}
			if _, isLit := ds.Call.Fun.(*ast.FuncLit); isLit {
				bad = "deferred closure in the callee"
			}
			defers = append(defers, deferred{i, rtext(ds.Call.Pos(), ds.Call.End())})
		}
	}
	ast.Inspect(fd.Body, func(nd ast.Node) bool {
		switch x := nd.(type) {
		case *ast.DeferStmt:
			if _, top := topIdx[x]; !top {
				bad = "conditional defer in the callee"
			}
		case *ast.LabeledStmt:
			bad = "label in the callee"
		case *ast.BranchStmt:
			if x.Tok == token.GOTO {
				bad = "goto in the callee"
			}
		case *ast.CallExpr:
			if id, ok := x.Fun.(*ast.Ident); ok && id.Name == "recover" && site.kind != "defer" {
				// (as a deferred call the callee becomes the body of the deferred closure, which still
				// calls recover directly)
				bad = "recover in the callee"
			}
			if calleeObj(ce.pk.TypesInfo, x) == ce.obj {
				bad = "recursive callee"
			}
		case *ast.BasicLit:
			if x.Kind == token.STRING && strings.Contains(x.Value, "\n") {
				bad = "multi-line string literal in the callee"
			}
		}
		return bad == ""
	})
	if (site.kind == "defer" || site.kind == "go") && strings.Contains(bad, "defer") {
		bad = "" // the body becomes a function literal: any defer in it keeps its meaning
	}
	if bad != "" {
		return "", nil, bad
	}
	// type parameters: same names must be in scope at the call site and be the instantiation
	if tps := sig.TypeParams(); tps != nil && tps.Len() > 0 {
		var id *ast.Ident
		switch x := stripIndex(call.Fun).(type) {
		case *ast.Ident:
			id = x
		case *ast.SelectorExpr:
			id = x.Sel
		}
		inst, ok := info.Instances[id]
		if !ok || inst.TypeArgs.Len() != tps.Len() {
			return "", nil, "generic instantiation not resolved"
		}
		for i := 0; i < tps.Len(); i++ {
			tp, isTP := inst.TypeArgs.At(i).(*types.TypeParam)
			if !isTP || tp.Obj().Name() != tps.At(i).Obj().Name() {
				return "", nil, "instantiated with other types than the caller's own type parameters of the same names"
			}
		}
	}
	if rtps := sig.RecvTypeParams(); rtps != nil && rtps.Len() > 0 {
		sel, ok := stripIndex(call.Fun).(*ast.SelectorExpr)
		if !ok {
			return "", nil, "method value of a generic type"
		}
		rt := info.TypeOf(sel.X)
		if pt, isP := rt.(*types.Pointer); isP {
			rt = pt.Elem()
		}
		named, isN := rt.(*types.Named)
		if !isN || named.TypeArgs().Len() != rtps.Len() {
			return "", nil, "receiver type arguments not resolved"
		}
		for i := 0; i < rtps.Len(); i++ {
			tp, isTP := named.TypeArgs().At(i).(*types.TypeParam)
			if !isTP || tp.Obj().Name() != rtps.At(i).Obj().Name() {
				return "", nil, "receiver instantiated with other types than same-named type parameters"
			}
		}
	}
	// names: every package-level / imported identifier the callee uses must mean the same at the call site
	callScope := pk.Types.Scope().Innermost(call.Pos())
	var imps []string
	okNames := ""
	cinfo := ce.pk.TypesInfo
	ast.Inspect(fd, func(nd ast.Node) bool {
		id, ok := nd.(*ast.Ident)
		if !ok || okNames != "" {
			return okNames == ""
		}
		obj := cinfo.Uses[id]
		if obj == nil {
			return true
		}
		switch o := obj.(type) {
		case *types.PkgName:
			_, here := callScope.LookupParent(id.Name, call.Pos())
			if hp, isPN := here.(*types.PkgName); isPN && hp.Imported().Path() == o.Imported().Path() {
				return true
			}
			if here != nil {
				okNames = "name " + id.Name + " means something else at the call site"
				return false
			}
			imps = append(imps, id.Name+" \""+o.Imported().Path()+"\"")
		default:
			if obj.Parent() == ce.pk.Types.Scope() || obj.Parent() == types.Universe {
				if _, here := callScope.LookupParent(id.Name, call.Pos()); here != obj {
					okNames = "name " + id.Name + " is shadowed at the call site"
				}
			}
		}
		return true
	})
	if okNames != "" {
		return "", nil, okNames
	}

	label := "L" + suf
	res := sig.Results()
	// result types as written in the callee
	var rtypes, rnamed []string
	if fd.Type.Results != nil {
		for _, fld := range fd.Type.Results.List {
			tstr := ctext(fld.Type.Pos(), fld.Type.End())
			cnt := len(fld.Names)
			if cnt == 0 {
				cnt = 1
			}
			for k := 0; k < cnt; k++ {
				rtypes = append(rtypes, tstr)
				if len(fld.Names) > 0 {
					nm := fld.Names[k].Name
					if nm != "_" {
						nm += suf
					}
					rnamed = append(rnamed, nm)
				}
			}
		}
	}
	if len(rtypes) != res.Len() {
		return "", nil, "results not resolved"
	}
	// where the results go
	var dst []string     // assignment targets for a return of the callee
	var predecl []string // declarations in front of the block
	var after string     // statement after the block
	tok := ""
	switch site.kind {
	case "tail", "defer", "go":
		// results flow through the callee's own return statements (or are discarded)
	case "condthread":
		if res.Len() != 1 {
			return "", nil, "condition arity"
		}
		if b, ok := res.At(0).Type().Underlying().(*types.Basic); !ok || b.Kind() != types.Bool {
			return "", nil, "condition is not a boolean"
		}
	case "thread", "assign", "ifinit":
		as := site.assign
		if len(as.Lhs) != res.Len() {
			return "", nil, "assignment arity"
		}
		tok = as.Tok.String()
		if site.kind == "thread" && site.okv {
			if b, ok := res.At(res.Len() - 1).Type().Underlying().(*types.Basic); !ok || b.Kind() != types.Bool {
				return "", nil, "tested result is not a boolean"
			}
		}
		if site.kind == "thread" {
			for i, l := range as.Lhs {
				id, isID := l.(*ast.Ident)
				switch {
				case isID && id.Name == "_":
					dst = append(dst, "_")
				case isID && as.Tok == token.DEFINE && info.Defs[id] != nil:
					predecl = append(predecl, "var "+id.Name+" "+rtypes[i], "_ = "+id.Name)
					dst = append(dst, id.Name)
				default:
					dst = append(dst, text(l.Pos(), l.End()))
				}
			}
			break
		}
		fallthrough
	default:
		for i := range rtypes {
			rn := fmt.Sprintf("r%d%s", i, suf)
			predecl = append(predecl, "var "+rn+" "+rtypes[i])
			dst = append(dst, rn)
		}
		switch site.kind {
		case "expr":
			if len(dst) > 0 {
				after = strings.Repeat("_, ", len(dst)-1) + "_ = " + strings.Join(dst, ", ")
			}
		case "assign", "ifinit":
			as := site.assign
			after = text(as.Lhs[0].Pos(), as.Lhs[len(as.Lhs)-1].End()) + " " + tok + " " + strings.Join(dst, ", ")
		}
	}
	// arguments and receiver
	var argNames, argExprs, parNames []string
	if fd.Recv != nil && len(fd.Recv.List) == 1 {
		sel, ok := stripIndex(call.Fun).(*ast.SelectorExpr)
		if !ok {
			return "", nil, "method not called through a selector"
		}
		s := info.Selections[sel]
		if s == nil || s.Kind() != types.MethodVal || len(s.Index()) != 1 {
			return "", nil, "promoted or indirect method"
		}
		rx := text(sel.X.Pos(), sel.X.End())
		_, recvPtr := sig.Recv().Type().(*types.Pointer)
		_, exprPtr := info.TypeOf(sel.X).(*types.Pointer)
		switch {
		case recvPtr && !exprPtr:
			rx = "&(" + rx + ")"
		case !recvPtr && exprPtr:
			rx = "*(" + rx + ")"
		}
		rn := "_"
		if len(fd.Recv.List[0].Names) == 1 && fd.Recv.List[0].Names[0].Name != "_" {
			rn = fd.Recv.List[0].Names[0].Name + suf
		}
		argNames = append(argNames, "a_r"+suf)
		argExprs = append(argExprs, rx)
		parNames = append(parNames, rn)
	}
	pi := 0
	for _, fld := range fd.Type.Params.List {
		cnt := len(fld.Names)
		if cnt == 0 {
			cnt = 1
		}
		for k := 0; k < cnt; k++ {
			pn := "_"
			if len(fld.Names) > 0 && fld.Names[k].Name != "_" {
				pn = fld.Names[k].Name + suf
			}
			if el, isVar := fld.Type.(*ast.Ellipsis); isVar {
				// the variadic parameter: the slice handed over with `xs...`, or one made of the
				// remaining arguments (nil when there are none)
				sl := "[]" + ctext(el.Elt.Pos(), el.Elt.End())
				var ax string
				switch {
				case call.Ellipsis != token.NoPos:
					if pi != len(call.Args)-1 {
						return "", nil, "argument count"
					}
					ax = "(" + sl + ")(" + text(call.Args[pi].Pos(), call.Args[pi].End()) + ")"
				case pi >= len(call.Args):
					ax = "(" + sl + ")(nil)"
				default:
					var parts []string
					for _, a := range call.Args[pi:] {
						parts = append(parts, text(a.Pos(), a.End()))
					}
					ax = sl + "{" + strings.Join(parts, ", ") + "}"
				}
				argNames = append(argNames, fmt.Sprintf("a%d%s", pi, suf))
				argExprs = append(argExprs, ax)
				parNames = append(parNames, pn)
				pi = len(call.Args)
				continue
			}
			if pi >= len(call.Args) {
				return "", nil, "argument count"
			}
			ax := "(" + ctext(fld.Type.Pos(), fld.Type.End()) + ")(" + text(call.Args[pi].Pos(), call.Args[pi].End()) + ")"
			argNames = append(argNames, fmt.Sprintf("a%d%s", pi, suf))
			argExprs = append(argExprs, ax)
			parNames = append(parNames, pn)
			pi++
		}
	}
	if pi != len(call.Args) {
		return "", nil, "argument count"
	}
	// the error check of the caller, for the threaded scheme
	errVar, rb := "", ""
	if site.kind == "thread" || site.kind == "condthread" {
		if site.kind == "thread" {
			errVar = lastIdent(site.assign)
		}
		rb = text(site.ifs.Body.Pos(), site.ifs.Body.End())
		// the handling block is placed inside a helper loop: an unlabeled break/continue in it would
		// bind differently
		branch := false
		ast.Inspect(site.ifs.Body, func(nd ast.Node) bool {
			switch nd.(type) {
			case *ast.FuncLit:
				return false
			case *ast.BranchStmt:
				branch = true
			}
			return true
		})
		if branch {
			return "", nil, "break/continue/goto in the caller's error handling"
		}
	}
	// the deferred calls that a return inside top-level statement ti has to run, last first
	runDefers := func(ti int) string {
		if site.kind == "defer" || site.kind == "go" {
			return ""
		}
		var ds []string
		for i := len(defers) - 1; i >= 0; i-- {
			if defers[i].idx < ti {
				ds = append(ds, defers[i].call)
			}
		}
		if len(ds) == 0 {
			return ""
		}
		return strings.Join(ds, "; ") + "; "
	}
	// body with rewritten returns
	type rr struct {
		start, end int
		text       string
	}
	var rrs []rr
	curTop := 0
	var collect func(nd ast.Node) bool
	collect = func(nd ast.Node) bool {
		switch x := nd.(type) {
		case *ast.FuncLit:
			return false
		case *ast.DeferStmt:
			if site.kind == "defer" || site.kind == "go" {
				return true // the body becomes a function literal: its defers stay real defers
			}
			rrs = append(rrs, rr{ctf.Offset(x.Pos()), ctf.Offset(x.End()), "{}"})
			return false
		case *ast.ReturnStmt:
			vals := ""
			switch {
			case len(x.Results) > 0:
				vals = rtext(x.Results[0].Pos(), x.Results[len(x.Results)-1].End())
			case len(rnamed) == len(rtypes) && len(rnamed) > 0:
				vals = strings.Join(rnamed, ", ")
			}
			dfr := runDefers(curTop)
			t := ""
			switch {
			case (site.kind == "defer" || site.kind == "go") && res.Len() == 0:
				t = "{ " + dfr + "return }"
			case site.kind == "defer" || site.kind == "go":
				t = "{ " + strings.Repeat("_, ", res.Len()-1) + "_ = " + vals + "; " + dfr + "return }"
			case site.kind == "tail" && dfr == "":
				t = "return " + vals
			case site.kind == "tail" && res.Len() == 0:
				t = "{ " + dfr + "return }"
			case site.kind == "tail":
				var tmp, decl []string
				for i := range rtypes {
					tn := fmt.Sprintf("t%d%s", i, suf)
					tmp = append(tmp, tn)
					decl = append(decl, "var "+tn+" "+rtypes[i])
				}
				t = "{ " + strings.Join(decl, "; ") + "; " + strings.Join(tmp, ", ") + " = " + vals + "; " + dfr + "return " + strings.Join(tmp, ", ") + " }"
			case site.kind == "condthread":
				// the caller's `if [!]f(…) RB`: a constant result decides it here, otherwise it is tested here
				v := strings.TrimSpace(vals)
				switch {
				case (v == "true" && !site.neg) || (v == "false" && site.neg):
					t = "{ " + dfr + rb + "; break " + label + " }"
				case v == "true" || v == "false":
					t = "{ " + dfr + "break " + label + " }"
				default:
					cv := "c" + suf
					t = "{ " + cv + " := " + v + "; " + dfr + "if " + map[bool]string{true: "!", false: ""}[site.neg] + cv + " " + rb + "; break " + label + " }"
				}
			case res.Len() == 0:
				t = "{ " + dfr + "break " + label + " }"
			case site.kind == "thread" && site.okv:
				// the caller's `if [!]ok RB` on the helper's last (boolean) result: a literal decides it here
				chk := "if " + map[bool]string{true: "!", false: ""}[site.neg] + errVar + " " + rb + "; "
				if len(x.Results) == res.Len() {
					if id, ok := x.Results[len(x.Results)-1].(*ast.Ident); ok && (id.Name == "true" || id.Name == "false") && cinfo.Uses[id] == types.Universe.Lookup(id.Name) {
						if (id.Name == "true") != site.neg {
							chk = rb + "; "
						} else {
							chk = ""
						}
					}
				}
				t = "{ " + strings.Join(dst, ", ") + " = " + vals + "; " + dfr + chk + "break " + label + " }"
			case site.kind == "thread":
				chk := "if " + errVar + " != nil " + rb + "; "
				if len(x.Results) == res.Len() {
					last := x.Results[len(x.Results)-1]
					if id, ok := last.(*ast.Ident); ok && id.Name == "nil" && cinfo.Uses[id] == types.Universe.Lookup("nil") {
						chk = "" // a success return: the caller's check is known to be false
					} else if definitelyNonNil(ce.pk, last) || localCtorVar(ce.pk, fd, last) {
						chk = rb + "; " // a failure return with a constructed error: the check is known to be true
					}
				}
				t = "{ " + strings.Join(dst, ", ") + " = " + vals + "; " + dfr + chk + "break " + label + " }"
			default:
				t = "{ " + strings.Join(dst, ", ") + " = " + vals + "; " + dfr + "break " + label + " }"
			}
			rrs = append(rrs, rr{ctf.Offset(x.Pos()), ctf.Offset(x.End()), t})
			return false
		}
		return true
	}
	for i, s := range fd.Body.List {
		curTop = i
		ast.Inspect(s, collect)
	}
	sort.Slice(rrs, func(i, j int) bool { return rrs[i].start < rrs[j].start })
	b0, b1 := ctf.Offset(fd.Body.Lbrace)+1, ctf.Offset(fd.Body.Rbrace)
	// splice: the rewritten returns/defers, and the renames that lie outside them
	var all []edit
	for _, r := range rrs {
		all = append(all, edit{r.start, r.end, r.text})
	}
	for _, e := range renames {
		inside := false
		for _, r := range rrs {
			if e.start >= r.start && e.end <= r.end {
				inside = true
			}
		}
		if !inside && e.start >= b0 && e.end <= b1 {
			all = append(all, e)
		}
	}
	sort.Slice(all, func(i, j int) bool { return all[i].start < all[j].start })
	var body strings.Builder
	last := b0
	for _, r := range all {
		if r.start < last {
			continue
		}
		body.Write(ce.src[last:r.start])
		body.WriteString(r.text)
		last = r.end
	}
	body.Write(ce.src[last:b1])
	endDefers := runDefers(len(fd.Body.List))

	var sb strings.Builder
	if site.kind == "ifinit" || (site.kind == "thread" && site.ifs.Init != nil) {
		sb.WriteString("{\n") // the variables of the init statement live in the if only
	}
	for _, d := range predecl {
		sb.WriteString(d + "\n")
	}
	sb.WriteString("{\n")
	if len(argNames) > 0 {
		// (for defer/go too: the operands are evaluated when the statement executes)
		sb.WriteString(strings.Join(argNames, ", ") + " := " + strings.Join(argExprs, ", ") + "\n")
	}
	if site.kind == "defer" || site.kind == "go" {
		sb.WriteString(site.kind + " func() ")
	}
	sb.WriteString("{\n")
	var binds, bindVals, uses []string
	for i, pn := range parNames {
		if pn == "_" {
			uses = append(uses, argNames[i])
			continue
		}
		binds = append(binds, pn)
		bindVals = append(bindVals, argNames[i])
		uses = append(uses, pn)
	}
	if len(binds) > 0 {
		sb.WriteString(strings.Join(binds, ", ") + " := " + strings.Join(bindVals, ", ") + "\n")
	}
	if len(uses) > 0 {
		sb.WriteString(strings.Repeat("_, ", len(uses)-1) + "_ = " + strings.Join(uses, ", ") + "\n")
	}
	if len(rnamed) == len(rtypes) {
		for i, nm := range rnamed {
			if nm != "_" {
				sb.WriteString("var " + nm + " " + rtypes[i] + "\n_ = " + nm + "\n")
			}
		}
	}
	if site.kind == "defer" || site.kind == "go" {
		sb.WriteString(body.String() + "\n" + endDefers + "}()\n}\n")
	} else if site.kind == "tail" {
		sb.WriteString(body.String() + "\n")
		if res.Len() == 0 {
			sb.WriteString(endDefers + "return\n")
		}
		sb.WriteString("}\n}\n")
	} else {
		sb.WriteString(label + ": for {\n" + body.String() + "\n" + endDefers + "break " + label + "\n}\n}\n}\n")
	}
	if after != "" {
		sb.WriteString(after + "\n")
	}
	switch site.kind {
	case "ifinit":
		ifs := site.ifs
		if tok == ":=" {
			var us []string
			for _, l := range site.assign.Lhs {
				if id, ok := l.(*ast.Ident); ok && id.Name != "_" {
					us = append(us, id.Name)
				}
			}
			if len(us) > 0 {
				sb.WriteString(strings.Repeat("_, ", len(us)-1) + "_ = " + strings.Join(us, ", ") + "\n")
			}
		}
		sb.WriteString("if " + text(ifs.Cond.Pos(), ifs.End()) + "\n}\n")
	case "thread":
		if site.ifs.Init != nil {
			sb.WriteString("}\n")
		}
	}
	one, err := oneLine(sb.String())
	if err != nil {
		return "", nil, "cannot serialise: " + err.Error()
	}
	return one, imps, ""
}

// localCtorVar: e names a local variable of fd that is defined once, by `v := errors.New(…)` /
// `fmt.Errorf(…)` / `&T{…}`, and never assigned again.
func localCtorVar(pk *packages.Package, fd *ast.FuncDecl, e ast.Expr) bool {
	id, ok := e.(*ast.Ident)
	if !ok {
		return false
	}
	obj, _ := pk.TypesInfo.Uses[id].(*types.Var)
	if obj == nil || obj.Pos() < fd.Pos() || obj.Pos() >= fd.End() {
		return false
	}
	defs, ctor := 0, false
	ast.Inspect(fd.Body, func(nd ast.Node) bool {
		switch x := nd.(type) {
		case *ast.AssignStmt:
			for i, l := range x.Lhs {
				lid, isID := l.(*ast.Ident)
				if !isID {
					continue
				}
				if pk.TypesInfo.Defs[lid] == types.Object(obj) || pk.TypesInfo.Uses[lid] == types.Object(obj) {
					defs++
					if len(x.Rhs) == len(x.Lhs) && definitelyNonNil(pk, x.Rhs[i]) {
						ctor = true
					}
				}
			}
		case *ast.UnaryExpr:
			if x.Op == token.AND {
				if aid, isID := x.X.(*ast.Ident); isID && pk.TypesInfo.Uses[aid] == types.Object(obj) {
					defs += 2 // address taken: may be written elsewhere
				}
			}
		case *ast.ValueSpec:
			for _, nm := range x.Names {
				if pk.TypesInfo.Defs[nm] == types.Object(obj) {
					defs++
				}
			}
		}
		return true
	})
	return defs == 1 && ctor
}

// definitelyNonNil: the error expression is a freshly constructed error, an address of a composite
// literal, or a package-level sentinel initialised with errors.New / fmt.Errorf.
func definitelyNonNil(pk *packages.Package, e ast.Expr) bool {
	isCtor := func(x ast.Expr) bool {
		call, ok := x.(*ast.CallExpr)
		if !ok {
			return false
		}
		sel, ok := call.Fun.(*ast.SelectorExpr)
		if !ok {
			return false
		}
		id, ok := sel.X.(*ast.Ident)
		if !ok {
			return false
		}
		pn, ok := pk.TypesInfo.Uses[id].(*types.PkgName)
		if !ok {
			return false
		}
		p, n := pn.Imported().Path(), sel.Sel.Name
		if p == "errors" && n == "Join" && call.Ellipsis == token.NoPos {
			// errors.Join is nil only when every argument is
			for _, a := range call.Args {
				if definitelyNonNil(pk, a) {
					return true
				}
			}
			return false
		}
		return (p == "errors" && n == "New") || (p == "fmt" && n == "Errorf")
	}
	switch x := e.(type) {
	case *ast.ParenExpr:
		return definitelyNonNil(pk, x.X)
	case *ast.UnaryExpr:
		if x.Op == token.AND {
			_, isLit := x.X.(*ast.CompositeLit)
			return isLit
		}
	case *ast.CallExpr:
		return isCtor(x)
	case *ast.Ident:
		v, ok := pk.TypesInfo.Uses[x].(*types.Var)
		if !ok || v.Parent() != pk.Types.Scope() {
			return false
		}
		for _, f := range pk.Syntax {
			for _, d := range f.Decls {
				gd, ok := d.(*ast.GenDecl)
				if !ok || gd.Tok != token.VAR {
					continue
				}
				for _, sp := range gd.Specs {
					vs := sp.(*ast.ValueSpec)
					for i, nm := range vs.Names {
						if pk.TypesInfo.Defs[nm] == types.Object(v) && i < len(vs.Values) {
							return isCtor(vs.Values[i])
						}
					}
				}
			}
		}
	}
	return false
}

func stripIndex(e ast.Expr) ast.Expr {
	for {
		switch x := e.(type) {
		case *ast.ParenExpr:
			e = x.X
		case *ast.IndexExpr:
			e = x.X
		case *ast.IndexListExpr:
			e = x.X
		default:
			return e
		}
	}
}

// oneLine re-emits Go statements on a single line (explicit semicolons, comments dropped).
func oneLine(src string) (string, error) {
	fset := token.NewFileSet()
	f := fset.AddFile("", fset.Base(), len(src))
	var s scanner.Scanner
	var errs []string
	s.Init(f, []byte(src), func(_ token.Position, msg string) { errs = append(errs, msg) }, 0)
	var out strings.Builder
	prevSemi := true
	for {
		_, tok, lit := s.Scan()
		if tok == token.EOF {
			break
		}
		switch {
		case tok == token.SEMICOLON:
			// an explicit semicolon is kept (for-clauses); an automatically inserted one is
			// dropped where it would be empty
			if lit == ";" || !prevSemi {
				out.WriteString("; ")
			}
			prevSemi = true
			continue
		case lit != "":
			if strings.Contains(lit, "\n") {
				return "", fmt.Errorf("multi-line literal")
			}
			out.WriteString(lit)
		default:
			out.WriteString(tok.String())
		}
		prevSemi = tok == token.LBRACE
		out.WriteString(" ")
	}
	if len(errs) > 0 {
		return "", fmt.Errorf("%s", errs[0])
	}
	return strings.TrimSpace(out.String()), nil
}
