package rules

import (
	"go/types"
	"strings"

	"golang.org/x/tools/go/ssa"

	"hdrcheck/an"
)

// stripUTC removes time.UTC(…) wrappers from a term: UTC() does not change the instant, so
// comparisons of times are the same with or without it.
func stripUTC(s string) string {
	const w = "time.UTC("
	for {
		i := strings.Index(s, w)
		if i < 0 {
			return s
		}
		depth, j := 1, i+len(w)
		for ; j < len(s) && depth > 0; j++ {
			switch s[j] {
			case '(':
				depth++
			case ')':
				depth--
			}
		}
		if depth != 0 {
			return s
		}
		s = s[:i] + s[i+len(w):j-1] + s[j:]
	}
}

// unsignedFacts: every conversion to an unsigned integer type inside the expression v
// yields a value ≥ 0 (whatever the sign of the operand was).
func unsignedFacts(t *an.Terms, v ssa.Value, depth int) an.FactSet {
	var out an.FactSet
	if depth <= 0 || v == nil {
		return out
	}
	switch x := v.(type) {
	case *ssa.Convert:
		if b, ok := x.Type().Underlying().(*types.Basic); ok && b.Info()&types.IsUnsigned != 0 {
			out = append(out, an.GE(t.Of(x), "0"))
		}
		out = append(out, unsignedFacts(t, x.X, depth-1)...)
	case *ssa.BinOp:
		out = append(out, unsignedFacts(t, x.X, depth-1)...)
		out = append(out, unsignedFacts(t, x.Y, depth-1)...)
	}
	return out
}

// isCallResult: v is component idx of the result tuple of a static call to fn.
func isCallResult(t *an.Terms, v ssa.Value, fn *ssa.Function, idx int) bool {
	if v == nil || fn == nil {
		return false
	}
	if d := t.Deref(v); d != nil {
		v = d
	}
	ex, isEx := v.(*ssa.Extract)
	if !isEx || ex.Index != idx {
		return false
	}
	call, isCall := ex.Tuple.(*ssa.Call)
	return isCall && an.StaticCallee(&call.Call) == fn
}

// boundAlloc returns the local variable (Alloc) of `outer` that the closure `inner`
// captures as free variable fv, looking at the MakeClosure sites of inner in outer.
func boundAlloc(outer, inner *ssa.Function, fv *ssa.FreeVar) *ssa.Alloc {
	idx := -1
	for i, f := range inner.FreeVars {
		if f == fv {
			idx = i
		}
	}
	if idx < 0 {
		return nil
	}
	var out *ssa.Alloc
	for _, b := range outer.Blocks {
		for _, in := range b.Instrs {
			var mc *ssa.MakeClosure
			switch x := in.(type) {
			case *ssa.MakeClosure:
				mc = x
			case *ssa.Defer:
				mc, _ = x.Call.Value.(*ssa.MakeClosure)
			case *ssa.Go:
				mc, _ = x.Call.Value.(*ssa.MakeClosure)
			}
			if mc == nil || mc.Fn != ssa.Value(inner) || idx >= len(mc.Bindings) {
				continue
			}
			if al, isAl := mc.Bindings[idx].(*ssa.Alloc); isAl {
				out = al
			}
		}
	}
	return out
}
