package store

// Demonstration for finding F26 (property C08), second part: the cases a first version of the repair got wrong.
// Copy into /repo/store (next to f26_failed_deletion_commit_moves_tail_test.go or alone) and run:
//   go test ./store -run 'TestF26b' -count=1
//
// A first version of the repair reported "no progress" (the start of the range) whenever the commit of the
// deletion batch failed. That is right for headers on disk, whose removal waits in the batch, and wrong for
//   - headers that only sit in the pending batch: deleteSingle removes those at once, so with the pointers
//     left where they were Head (or Tail) named a header that was gone (first two tests), and
//   - the parallel driver, where the other workers' batches do commit: the start of the range was deleted by
//     another worker and the tail dangled (third test).
// A seventh-round seeder (C08) showed all three on the tree with that first version. The repair as committed
// puts the headers that were only pending back when the commit fails, and a worker reports the failure at the
// lowest height it was given (everything below it was another worker's). All three pass with it; the first
// two also passed before any repair (the loop's progress was right for pending-only headers), the third did not.

import (
	"context"
	"errors"
	"strings"
	"sync"
	"sync/atomic"
	"testing"
	"time"

	"github.com/ipfs/go-datastore"
	contextds "github.com/ipfs/go-datastore/context"
	dssync "github.com/ipfs/go-datastore/sync"
	"github.com/stretchr/testify/require"

	"github.com/celestiaorg/go-header/headertest"
)

var errObsCommit = errors.New("obs: commit refused")

// f26bDS hands out batches which record the keys they delete; refuse decides at Commit whether the batch fails.
type f26bDS struct {
	datastore.Batching
	refuse func(deleted []string) bool
}

func (d *f26bDS) Batch(ctx context.Context) (datastore.Batch, error) {
	b, err := d.Batching.Batch(ctx)
	if err != nil {
		return nil, err
	}
	return &f26bBatch{Batch: b, ds: d}, nil
}

type f26bBatch struct {
	datastore.Batch
	ds      *f26bDS
	lk      sync.Mutex
	deleted []string
}

func (b *f26bBatch) Delete(ctx context.Context, key datastore.Key) error {
	b.lk.Lock()
	b.deleted = append(b.deleted, key.String())
	b.lk.Unlock()
	return b.Batch.Delete(ctx, key)
}

func (b *f26bBatch) Commit(ctx context.Context) error {
	b.lk.Lock()
	deleted := b.deleted
	b.lk.Unlock()
	if b.ds.refuse != nil && b.ds.refuse(deleted) {
		return errObsCommit
	}
	return b.Batch.Commit(ctx)
}

// Observation 1: head-side deletion of headers that are still pending, the commit of the deletion batch fails.
// No progress is reported and the head stays - but its header was dropped from the pending batch and was never
// written: Head resolves to a header that is not stored.
func TestF26b_HeadSidePendingFailedCommit(t *testing.T) {
	ctx, cancel := context.WithTimeout(context.Background(), 20*time.Second)
	t.Cleanup(cancel)

	var fail atomic.Bool
	inner := &f26bDS{
		Batching: dssync.MutexWrap(datastore.NewMapDatastore()),
		refuse:   func([]string) bool { return fail.Load() },
	}
	ds := contextds.WrapDatastore(inner).(datastore.Batching)

	suite := headertest.NewTestSuite(t)
	// nothing is flushed: ten headers stay below the batch size
	store := NewTestStore(t, ctx, ds, suite.Head(), WithWriteBatchSize(100))
	require.NoError(t, store.Append(ctx, suite.GenDummyHeaders(9)...))
	require.NoError(t, store.Sync(ctx))

	fail.Store(true)
	err := store.DeleteRange(ctx, 6, 11)
	fail.Store(false)
	require.ErrorIs(t, err, errObsCommit)

	head, err := store.Head(ctx)
	require.NoError(t, err)
	tail, err := store.Tail(ctx)
	require.NoError(t, err)
	t.Logf("after the failed deletion: tail %d head %d", tail.Height(), head.Height())
	require.LessOrEqual(t, tail.Height(), head.Height())
	_, err = store.Get(ctx, head.Hash())
	require.NoError(t, err, "Head (%d) must resolve to a stored header", head.Height())
}

// Observation 2: the same on the tail side, the tail header itself being pending only.
func TestF26b_TailSidePendingFailedCommit(t *testing.T) {
	ctx, cancel := context.WithTimeout(context.Background(), 20*time.Second)
	t.Cleanup(cancel)

	var fail atomic.Bool
	inner := &f26bDS{
		Batching: dssync.MutexWrap(datastore.NewMapDatastore()),
		refuse:   func([]string) bool { return fail.Load() },
	}
	ds := contextds.WrapDatastore(inner).(datastore.Batching)

	suite := headertest.NewTestSuite(t)
	store := NewTestStore(t, ctx, ds, suite.Head(), WithWriteBatchSize(100))
	require.NoError(t, store.Append(ctx, suite.GenDummyHeaders(9)...))
	require.NoError(t, store.Sync(ctx))

	fail.Store(true)
	err := store.DeleteRange(ctx, 1, 5)
	fail.Store(false)
	require.ErrorIs(t, err, errObsCommit)

	tail, err := store.Tail(ctx)
	require.NoError(t, err)
	t.Logf("after the failed deletion: tail %d", tail.Height())
	_, err = store.Get(ctx, tail.Hash())
	require.NoError(t, err, "Tail (%d) must resolve to a stored header", tail.Height())
}

// Observation 3: parallel deletion, all flushed; the batch of one worker which did not delete the tail header
// fails to commit, the batches of the others go through. No progress is reported, the tail stays at 'from',
// whose header was deleted by another worker.
func TestF26b_ParallelOneFailedCommit(t *testing.T) {
	ctx, cancel := context.WithTimeout(context.Background(), 20*time.Second)
	t.Cleanup(cancel)

	defer func(old uint64) { deleteRangeParallelThreshold = old }(deleteRangeParallelThreshold)
	deleteRangeParallelThreshold = 8

	var (
		armed  atomic.Bool
		failed atomic.Bool
	)
	inner := &f26bDS{Batching: dssync.MutexWrap(datastore.NewMapDatastore())}
	inner.refuse = func(deleted []string) bool {
		if !armed.Load() || len(deleted) == 0 {
			return false
		}
		for _, k := range deleted {
			if strings.HasSuffix(k, "/1") { // the height key of the tail
				return false
			}
		}
		// only one batch fails
		return failed.CompareAndSwap(false, true)
	}
	ds := contextds.WrapDatastore(inner).(datastore.Batching)

	suite := headertest.NewTestSuite(t)
	store := NewTestStore(t, ctx, ds, suite.Head(), WithWriteBatchSize(4))
	require.NoError(t, store.Append(ctx, suite.GenDummyHeaders(63)...))
	require.NoError(t, store.Sync(ctx))
	// flush everything: a restart writes the rest of the pending batch
	require.Eventually(t, func() bool { return store.pending.Len() == 0 }, 5*time.Second, 10*time.Millisecond)

	armed.Store(true)
	err := store.DeleteRange(ctx, 1, 50)
	armed.Store(false)
	require.ErrorIs(t, err, errObsCommit)

	tail, err := store.Tail(ctx)
	require.NoError(t, err)
	t.Logf("after the failed deletion: tail %d", tail.Height())
	_, err = store.Get(ctx, tail.Hash())
	require.NoError(t, err, "Tail (%d) must resolve to a stored header", tail.Height())
}
