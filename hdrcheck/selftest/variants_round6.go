package selftest

// The essence of the sixth-round seeded changes that needed a clause of their own.
func init() {
	const ex = "p2p/exchange.go"
	const sd = "store/store_delete.go"
	const st = "store/store.go"
	const hs = "store/heightsub.go"
	const pb = "p2p/pb/header_request.pb.go"
	const ss = "sync/sync_store.go"
	const sm = "p2p/server_metrics.go"
	const em = "p2p/exchange_metrics.go"
	add(
		Variant{Prop: "C06", Name: "seed-write-loop-runs-under-the-start-context", File: st, Expect: "C06.c",
			Old: "\tctx, cancel := context.WithCancel(context.Background())\n\ts.cancel = cancel\n\tgo s.flushLoop(ctx)\n", New: "\tctx, cancel := context.WithCancel(ctx)\n\ts.cancel = cancel\n\tgo s.flushLoop(ctx)\n"},
		Variant{Prop: "C07", Name: "seed-context-test-between-cache-move-and-append", File: ss, Expect: "C07.b",
			Old: "\tif err := s.Store.Append(ctx, headers...); err != nil {\n\t\t// nothing was handed", New: "\tif err := ctx.Err(); err != nil {\n\t\treturn err\n\t}\n\tif err := s.Store.Append(ctx, headers...); err != nil {\n\t\t// nothing was handed"},
		Variant{Prop: "C03", Name: "seed-context-test-between-cache-move-and-append", File: ss, Expect: "C03.c",
			Old: "\tif err := s.Store.Append(ctx, headers...); err != nil {\n\t\t// nothing was handed", New: "\tif err := ctx.Err(); err != nil {\n\t\treturn err\n\t}\n\tif err := s.Store.Append(ctx, headers...); err != nil {\n\t\t// nothing was handed"},
		Variant{Prop: "C08", Name: "seed-sequential-deletion-under-the-callers-context", File: sd, Expect: "C08.d",
			Old: "\t\theight, missing, err = s.deleteSequential(deleteCtx, from, to)", New: "\t\theight, missing, err = s.deleteSequential(ctx, from, to)"},
		Variant{Prop: "C17", Name: "seed-tail-moved-before-the-deletion", File: sd, Expect: "C17.a",
			Old: "\t// Delete the headers without automatic tail updates\n\tactualTo, _, deleteErr := s.deleteRangeRaw(ctx, from, to)\n", New: "\tif updateTail {\n\t\tif err := s.setTail(ctx, s.ds, to); err != nil {\n\t\t\treturn err\n\t\t}\n\t}\n\t// Delete the headers without automatic tail updates\n\tactualTo, _, deleteErr := s.deleteRangeRaw(ctx, from, to)\n"},
		Variant{Prop: "C09", Name: "seed-soft-failing-answers-not-tallied", File: ex, Expect: "C09.b",
			Old: "\t\t\t\t\tsoftErrs[hash] = res.softErr\n\t\t\t\t}\n", New: "\t\t\t\t\tsoftErrs[hash] = res.softErr\n\t\t\t\t\tcontinue\n\t\t\t\t}\n"},
		Variant{Prop: "C13", Name: "seed-timeout-case-returns-the-callers-context-error", File: ex, Expect: "C13.d",
			Old: "\t\tcase <-ctx.Done():\n\t\t\treturn nil, ctx.Err()\n\t\tcase <-ex.ctx.Done():", New: "\t\tcase <-reqCtx.Done():\n\t\t\treturn nil, ctx.Err()\n\t\tcase <-ex.ctx.Done():"},
		Variant{Prop: "C13", Name: "benign-timeout-case-on-the-request-context", File: ex,
			Old: "\t\tcase <-ctx.Done():\n\t\t\treturn nil, ctx.Err()\n\t\tcase <-ex.ctx.Done():", New: "\t\tcase <-reqCtx.Done():\n\t\t\treturn nil, reqCtx.Err()\n\t\tcase <-ex.ctx.Done():"},
		Variant{Prop: "C10", Name: "seed-decoded-hash-aliases-the-input-buffer", File: pb, Expect: "C10.j",
			Old: "\t\t\tv := make([]byte, postIndex-iNdEx)\n\t\t\tcopy(v, dAtA[iNdEx:postIndex])\n\t\t\tm.Data = &HeaderRequest_Hash{v}\n", New: "\t\t\tm.Data = &HeaderRequest_Hash{dAtA[iNdEx:postIndex]}\n"},
		Variant{Prop: "C10", Name: "seed-server-metric-instrument-left-nil", File: sm, Expect: "C10.k",
			Old: "\tm.getServeTimeInst, err = meter.Float64Histogram(\n\t\t\"hdr_p2p_exch_srvr_get_serve_time_hist\",", New: "\tm.rangeServeTimeInst, err = meter.Float64Histogram(\n\t\t\"hdr_p2p_exch_srvr_get_serve_time_hist\","},
		Variant{Prop: "C12", Name: "seed-notify-skips-the-lock-when-nobody-is-counted", File: hs, Expect: "C12.c",
			Old: "func (hs *heightSub) Notify(heights ...uint64) {\n\ths.heightSubsLk.Lock()", New: "func (hs *heightSub) Notify(heights ...uint64) {\n\tif hs.Height() == 0 {\n\t\treturn\n\t}\n\ths.heightSubsLk.Lock()"},
		Variant{Prop: "C12", Name: "benign-notify-returns-early-without-heights", File: hs,
			Old: "func (hs *heightSub) Notify(heights ...uint64) {\n\ths.heightSubsLk.Lock()", New: "func (hs *heightSub) Notify(heights ...uint64) {\n\tif len(heights) == 0 {\n\t\treturn\n\t}\n\ths.heightSubsLk.Lock()"},
		Variant{Prop: "C14", Name: "seed-unflushed-header-popped-before-its-handlers-run", File: sd, Expect: "C14.b",
			Old: "\t\tif h := s.pending.GetByHeight(height); !h.IsZero() {\n\t\t\thash, err = h.Hash(), nil", New: "\t\tif h := s.pending.GetByHeight(height); !h.IsZero() {\n\t\t\ts.pending.DeleteRange(height, height+1)\n\t\t\thash, err = h.Hash(), nil"},
		Variant{Prop: "C05", Name: "seed-response-size-per-header-divides-by-a-peers-count", File: em, Expect: "C05.d",
			Old: "func (m *exchangeMetrics) response(\n\tctx context.Context,\n\tsize int,\n\tduration time.Duration,\n\terr error,\n) {\n\tm.observe(ctx, func(ctx context.Context) {\n\t\tm.responseSizeInst.Record(ctx,\n\t\t\tint64(size),", New: "func (m *exchangeMetrics) response(\n\tctx context.Context,\n\tsize int,\n\tduration time.Duration,\n\terr error,\n) {\n\tn := m.responseCount\n\tm.observe(ctx, func(ctx context.Context) {\n\t\tm.responseSizeInst.Record(ctx,\n\t\t\tint64(size/n),",
			More: []Edit{{File: em, Old: "type exchangeMetrics struct {\n", New: "type exchangeMetrics struct {\n\tresponseCount int\n"}}},
	)
}
