package p2p

// Demonstrations for findings F3 and F4 (property C05).
// Copy into /repo/p2p and run: go test ./p2p -run 'TestF3|TestF4' -count=1
//
// F3: Exchange.GetRangeByHeight with to <= from.Height()+1 hangs until the
//     context ends (to == from+1) or panics with "makeslice: cap out of range".
// F4: a peer that answers a sub-request with a verifiable but SHIFTED range is
//     accepted: the result does not start at from.Height()+1.

import (
	"context"
	"testing"
	"time"

	"github.com/libp2p/go-libp2p/core/network"
	"github.com/stretchr/testify/require"

	"github.com/celestiaorg/go-libp2p-messenger/serde"

	p2p_pb "github.com/celestiaorg/go-header/p2p/pb"
)

func TestF3_DegenerateRangeIsAnError(t *testing.T) {
	hosts := createMocknet(t, 2)
	exchg, store := createP2PExAndServer(t, hosts[0], hosts[1])

	ctx, cancel := context.WithTimeout(context.Background(), 3*time.Second)
	t.Cleanup(cancel)

	start := time.Now()
	_, err := exchg.GetRangeByHeight(ctx, store.Headers[3], 4) // empty range (3:4)
	require.Error(t, err)
	require.Less(t, time.Since(start), time.Second, "degenerate request blocked until the context ended")

	require.NotPanics(t, func() {
		_, err = exchg.GetRangeByHeight(ctx, store.Headers[3], 2) // inverted range
	})
	require.Error(t, err)
}

func TestF4_ShiftedRangeIsNotAccepted(t *testing.T) {
	hosts := createMocknet(t, 2)
	exchg, store := createP2PExAndServer(t, hosts[0], hosts[1])

	// replace the honest server by one that answers every range request with a
	// range shifted by one height (valid, adjacent headers of the same chain)
	hosts[1].SetStreamHandler(protocolID(networkID), func(stream network.Stream) {
		req := new(p2p_pb.HeaderRequest)
		if _, err := serde.Read(stream, req); err != nil {
			stream.Reset() //nolint:errcheck
			return
		}
		for i := uint64(0); i < req.Amount; i++ {
			h := store.Headers[req.GetOrigin()+1+i]
			bin, _ := h.MarshalBinary()
			serde.Write(stream, &p2p_pb.HeaderResponse{Body: bin, StatusCode: p2p_pb.StatusCode_OK}) //nolint:errcheck
		}
		stream.Close() //nolint:errcheck
	})

	ctx, cancel := context.WithTimeout(context.Background(), time.Second)
	t.Cleanup(cancel)

	from := store.Headers[1]
	got, err := exchg.GetRangeByHeight(ctx, from, 4) // expects heights 2,3
	if err == nil {
		require.NotEmpty(t, got)
		for i, h := range got {
			require.EqualValues(t, from.Height()+1+uint64(i), h.Height(),
				"GetRangeByHeight returned a range that does not start at from.Height()+1")
		}
	}
}
