package selftest

func init() {
	const sd = "store/store_delete.go"
	add(
		Variant{Prop: "C08", Name: "wipe-without-deleting", File: sd, Expect: "C08.c",
			Old: "\t\t\tactualTo, _, err := s.deleteRangeRaw(ctx, from, to)\n\t\t\tif err != nil {\n\t\t\t\t// reflect the progress made", New: "\t\t\tactualTo, err := to, error(nil)\n\t\t\tif err != nil {\n\t\t\t\t// reflect the progress made"},
		Variant{Prop: "C08", Name: "pending-fallback-removed", File: sd, Expect: "C08.b",
			Old: "\t\tif h := s.pending.GetByHeight(height); !h.IsZero() {\n\t\t\thash, err = h.Hash(), nil\n\t\t} else {", New: "\t\t{"},
		Variant{Prop: "C08", Name: "height-index-key-kept", File: sd, Expect: "C08.b",
			Old: "\tif err := s.ds.Delete(ctx, heightKey(height)); err != nil {\n\t\treturn fmt.Errorf(\"delete height key (%d): %w\", height, err)\n\t}\n", New: ""},
		Variant{Prop: "C08", Name: "pending-not-purged", File: sd, Expect: "C08.b",
			Old: "\ts.pending.DeleteRange(height, height+1)\n\treturn nil", New: "\treturn nil"},
		Variant{Prop: "C08", Name: "pending-purged-wrong-height", File: sd, Expect: "C08.b",
			Old: "\ts.pending.DeleteRange(height, height+1)\n\treturn nil", New: "\ts.pending.DeleteRange(height+1, height+2)\n\treturn nil"},
		Variant{Prop: "C08", Name: "cache-not-evicted", File: sd, Expect: "C08.b",
			Old: "\ts.cache.Remove(hash.String())\n", New: ""},
		Variant{Prop: "C08", Name: "delete-error-ignored", File: sd, Expect: "C08.b",
			Old: "\tif err := s.ds.Delete(ctx, hashKey(hash)); err != nil {\n\t\treturn fmt.Errorf(\"delete hash key (%X): %w\", hash, err)\n\t}", New: "\tif err := s.ds.Delete(ctx, hashKey(hash)); err != nil {\n\t\tlog.Errorw(\"delete hash key\", \"err\", err)\n\t}"},
		Variant{Prop: "C08", Name: "middle-range-accepted", File: sd, Expect: "C08.a",
			Old: "\tdefault:\n\t\t// disallow deletions that are neither move the tail nor head as this is", New: "\tcase from == to+1:\n\t\t// disallow deletions that are neither move the tail nor head as this is"},
		Variant{Prop: "C08", Name: "prefix-beyond-head-accepted", File: sd, Expect: "C08.a",
			Old: "\t\tif to > head.Height()+1 {\n\t\t\treturn fmt.Errorf(\n\t\t\t\t\"header/store: delete range to %d beyond current head+1(%d)\",", New: "\t\tif to > head.Height()+2 {\n\t\t\treturn fmt.Errorf(\n\t\t\t\t\"header/store: delete range to %d beyond current head+1(%d)\","},
		Variant{Prop: "C08", Name: "suffix-below-tail-accepted", File: sd, Expect: "C08.a",
			Old: "\t\tif from < tail.Height() {\n\t\t\treturn fmt.Errorf(\n\t\t\t\t\"header/store: delete range from %d below current tail(%d)\",", New: "\t\tif from+1 < tail.Height() {\n\t\t\treturn fmt.Errorf(\n\t\t\t\t\"header/store: delete range from %d below current tail(%d)\","},
		Variant{Prop: "C08", Name: "no-sync-before-delete", File: sd, Expect: "C08.e",
			Old: "\terr := s.Sync(ctx)\n\tif err != nil {\n\t\treturn err\n\t}\n\n\t// load current head and tail", New: "\tvar err error\n\n\t// load current head and tail"},
		Variant{Prop: "C08", Name: "tail-not-updated-on-error", File: sd, Expect: "C08.d",
			Old: "\tif updateTail {\n\t\t// For tail-side deletion, update tail to actual progress", New: "\tif updateTail && deleteErr == nil {\n\t\t// For tail-side deletion, update tail to actual progress"},
		Variant{Prop: "C08", Name: "tail-set-to-requested-to", File: sd, Expect: "C08.d",
			Old: "\t\tif err := s.setTail(ctx, s.ds, actualTo); err != nil {\n\t\t\treturn errors.Join(\n\t\t\t\tdeleteErr,", New: "\t\tif err := s.setTail(ctx, s.ds, to); err != nil {\n\t\t\treturn errors.Join(\n\t\t\t\tdeleteErr,"},
		Variant{Prop: "C08", Name: "head-set-to-from", File: sd, Expect: "C08.d",
			Old: "\t\t\tnewHeadHeight := from - 1", New: "\t\t\tnewHeadHeight := from"},
		Variant{Prop: "C08", Name: "delete-error-swallowed", File: sd, Expect: "C08.c",
			Old: "\tif deleteErr != nil {\n\t\treturn fmt.Errorf(\n\t\t\t\"header/store: delete range [%d:%d) (actual: %d): %w\",\n\t\t\tfrom,\n\t\t\tto,\n\t\t\tactualTo,\n\t\t\tdeleteErr,\n\t\t)\n\t}\n\n\treturn nil\n}", New: "\tif deleteErr != nil {\n\t\tlog.Errorw(\"delete range\", \"from\", from, \"to\", to, \"actual\", actualTo, \"err\", deleteErr)\n\t}\n\n\treturn nil\n}"},
		Variant{Prop: "C08", Name: "sequential-skips-last", File: sd, Expect: "C08.c",
			Old: "\tfor height := from; height < to; height++ {\n\t\tif h := s.pending", New: "\tfor height := from; height+1 < to; height++ {\n\t\tif h := s.pending"},
		// benign
		Variant{Prop: "C08", Name: "benign-range-guard-commuted", File: sd,
			Old: "\tif from >= to {\n\t\treturn fmt.Errorf(\n\t\t\t\"header/store: invalid range [%d:%d) - from must be less than to\",", New: "\tif to <= from {\n\t\treturn fmt.Errorf(\n\t\t\t\"header/store: invalid range [%d:%d) - from must be less than to\","},
		Variant{Prop: "C08", Name: "benign-update-flags-commuted", File: sd,
			Old: "\tupdateTail := from == tail.Height()\n\tupdateHead := to == head.Height()+1", New: "\tupdateTail := tail.Height() == from\n\tupdateHead := 1+head.Height() == to"},
	)
}
