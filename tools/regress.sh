#!/bin/bash
# regress.sh — replays the two corpora against the current checker (applies each patch to /repo,
# runs every check, undoes the patch straight afterwards):
#   /verif/seeded/<id>/patch.diff   must be reported under its own property (meta.json "property")
#   /verif/benign/<id>.diff         behaviour-preserving refactorings: no check may report anything
# Prints one line per patch and a summary; exit 1 if a seeded change is missed, a benign one is reported,
# or a patch no longer applies (the corpus never shrinks silently).
set -u
cd /verif
[ -z "$(git -C /repo status --porcelain)" ] || { echo "/repo not clean"; exit 2; }
bad=0; ns=0; nb=0; stale=0
run() { /verif/bin/hdrcheck -property all -verif /tmp/regress_verif 2>&1 | grep -E "^ *(VIOLATED|UNDECIDED)|LOAD ERROR" | awk '{print $2}' | sort -u | tr '\n' ' '; }
for d in seeded/*/; do
  id=$(basename $d); prop=$(python3 -c "import json;print(json.load(open('$d/meta.json'))['property'])")
  if ! git -C /repo apply "/verif/$d/patch.diff" 2>/dev/null; then echo "SEEDED $id: patch does not apply (stale: rebase it onto /repo HEAD)"; stale=$((stale+1)); bad=1; continue; fi
  got=$(run); git -C /repo checkout -- .
  ns=$((ns+1))
  case " $got" in *" $prop."*) echo "SEEDED $id: reported [$got]";; *) echo "SEEDED $id: MISSED under $prop [$got]"; bad=1;; esac
done
for f in benign/*.diff; do
  [ -f "$f" ] || continue
  id=$(basename $f .diff)
  if ! git -C /repo apply "/verif/$f" 2>/dev/null; then echo "BENIGN $id: patch does not apply (stale: rebase it onto /repo HEAD)"; stale=$((stale+1)); bad=1; continue; fi
  got=$(run); git -C /repo checkout -- .
  nb=$((nb+1))
  if [ -n "$got" ]; then echo "BENIGN $id: FALSE ALARM [$got]"; bad=1; else echo "BENIGN $id: silent"; fi
done
[ -z "$(git -C /repo status --porcelain)" ] || { echo "/repo NOT RESTORED"; exit 2; }
echo "regress: $ns seeded, $nb benign, $stale stale, $( [ $bad = 0 ] && echo all as expected || echo FAILURES )"
exit $bad
