package rules

import (
	"golang.org/x/tools/go/ssa"

	"hdrcheck/an"
)

// checkPendingAppendOutsideLoopOnlyRestores (C17.a): the write loop is the one writer of the pending batch.
// The single exception (finding F26) is a deletion driver putting back what it removed itself when its
// write batch did not commit: every call of batch.Append in package store that is not made by the write
// loop (flushLoop and its closures) sits in a closure that calls a batch cleanup obtained from
// withWriteBatch and stands under the fact that this call returned an error.
func checkPendingAppendOutsideLoopOnlyRestores(c *an.Ctx, flushLoop *ssa.Function) {
	p := c.P
	app := p.Method("store", "batch", "Append")
	if app == nil {
		return
	}
	inLoop := map[*ssa.Function]bool{flushLoop: true}
	for _, f := range flushLoop.AnonFuncs {
		inLoop[f] = true
	}
	n := 0
	for _, fn := range p.RepoFuncs() {
		if fn.Pkg == nil || fn.Pkg.Pkg.Name() != "store" || fn.Blocks == nil || inLoop[fn] || inLoop[an.Enclosing(fn)] {
			continue
		}
		if fn == app {
			continue
		}
		for _, call := range callsTo(fn, app) {
			n++
			t, ff := c.T(fn), c.F(fn)
			ok := false
			an.Instrs(fn, func(in ssa.Instruction) {
				dc, isCall := in.(*ssa.Call)
				if !isCall || dc.Call.IsInvoke() || an.StaticCallee(&dc.Call) != nil || !an.IsErrorType(dc.Type()) {
					return
				}
				// a call of a func() error value: the batch cleanup
				if ff.AtInstr(call).Has(an.NE(t.Of(dc), "nil")) {
					ok = true
				}
			})
			c.Check(ok, "C17.a", "pending-append-outside-loop-only-restores", "outside the write loop the pending batch is appended to only by a deletion putting back what it removed, under the failure of its batch commit", fn, call, "", ff.AtInstr(call))
		}
	}
	c.Min("C17.a", "appends to the pending batch outside the write loop (restores)", n, 1)
}
