package selftest

func init() {
	const f = "sync/syncer_tail.go"
	add(
		Variant{Prop: "C16", Name: "estimate-blocktime-guard-removed", File: f, Expect: "C16.a",
			Old: "func (s *Syncer[H]) estimateTailHeight(head H) uint64 {\n\tif s.Params.blockTime <= 0 {", New: "func (s *Syncer[H]) estimateTailHeight(head H) uint64 {\n\tif s.Params.blockTime < 0 {"},
		Variant{Prop: "C16", Name: "find-blocktime-guard-removed", File: f, Expect: "C16.a",
			Old: "\tcase s.Params.blockTime <= 0:", New: "\tcase s.Params.blockTime < 0:"},
		Variant{Prop: "C16", Name: "window-subtraction-unguarded", File: f, Expect: "C16.b",
			Old: "\t\tif headersToStore >= head.Height() {\n\t\t\t// by estimation", New: "\t\tif headersToStore >= head.Height()+headersToStore {\n\t\t\t// by estimation"},
		Variant{Prop: "C16", Name: "estimate-guard-off-by-one", File: f, Expect: "C16.c",
			Old: "\tif headersToRetain >= head.Height() {", New: "\tif headersToRetain > head.Height() {"},
		Variant{Prop: "C16", Name: "estimate-guard-inverted", File: f, Expect: "C16.b",
			Old: "\tif headersToRetain >= head.Height() {", New: "\tif headersToRetain <= head.Height() {"},
		Variant{Prop: "C16", Name: "prune-range-swapped", File: f, Expect: "C16.d",
			Old: "err := s.store.DeleteRange(ctx, from.Height(), to.Height())", New: "err := s.store.DeleteRange(ctx, to.Height(), from.Height())"},
		Variant{Prop: "C16", Name: "prune-on-equal-heights", File: f, Expect: "C16.d",
			Old: "\tcase from.Height() < to.Height():", New: "\tcase from.Height() <= to.Height():"},
		Variant{Prop: "C16", Name: "zero-old-tail-moved", File: f, Expect: "C16.d",
			Old: "\tif from.IsZero() {\n\t\t// no need to move the tail if it was not set previously\n\t\treturn nil\n\t}\n", New: ""},
		Variant{Prop: "C16", Name: "tail-lock-dropped", File: f, Expect: "C16.e",
			Old: "\tif !s.tailMu.TryLock() {", New: "\tif s.tailMu.TryLock() {"},
		Variant{Prop: "C16", Name: "sync-from-height-zero-used", File: f, Expect: "C16.c",
			Old: "\tif height > 0 {\n\t\treturn height, nil\n\t}", New: "\tif height >= 0 {\n\t\treturn height, nil\n\t}"},
		Variant{Prop: "C16", Name: "move-called-outside-lock", File: "sync/syncer_head.go", Expect: "C16.e",
			Old: "\t// attempt to set the (potentially) new network head", New: "\t_ = s.moveTail(ctx, netHead, netHead)\n\t// attempt to set the (potentially) new network head"},
		// benign
		Variant{Prop: "C16", Name: "benign-guard-commuted", File: f,
			Old: "\tif headersToRetain >= head.Height() {", New: "\tif head.Height() <= headersToRetain {"},
		Variant{Prop: "C16", Name: "benign-blocktime-local", File: f,
			Old: "\tif s.Params.blockTime <= 0 {\n\t\t// block time is unknown (it is optional), so the amount", New: "\tif !(s.Params.blockTime > 0) {\n\t\t// block time is unknown (it is optional), so the amount"},
		Variant{Prop: "C16", Name: "benign-if-else-move", File: f,
			Old: "\tcase from.Height() > to.Height():", New: "\tcase to.Height() < from.Height():"},
	)
}
