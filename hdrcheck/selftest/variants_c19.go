package selftest

func init() {
	const sh = "sync/syncer_head.go"
	const wr = "sync/sync_head.go"
	add(
		Variant{Prop: "C19", Name: "expired-answer-adopted", File: sh, Expect: "C19.a",
			Old: "\tif expired, expiredFor := isExpired(newHead, s.Params.trustingPeriod); expired {", New: "\tif expired, expiredFor := isExpired(newHead, s.Params.trustingPeriod); expired && newHead.Height() == 0 {"},
		Variant{Prop: "C19", Name: "always-reinitialise", File: sh, Expect: "C19.a",
			Old: "\tdefault:\n\t\treturn sbjHead, false, nil\n\t}\n\n\ts.metrics.subjectiveInitialization(ctx)", New: "\tdefault:\n\t\tif sbjHead.Height()%2 == 0 {\n\t\t\treturn sbjHead, false, nil\n\t\t}\n\t}\n\n\ts.metrics.subjectiveInitialization(ctx)"},
		Variant{Prop: "C19", Name: "expired-answer-no-error", File: sh, Expect: "C19.a",
			Old: "\t\ts.metrics.trustedPeersOutOufSync(ctx)\n\t\treturn newHead, false, err\n\t}\n\n\tlog.Infow(\"subjective initialization finished\"", New: "\t\ts.metrics.trustedPeersOutOufSync(ctx)\n\t\treturn newHead, false, nil\n\t}\n\n\tlog.Infow(\"subjective initialization finished\""},
		Variant{Prop: "C19", Name: "request-although-recent", File: sh, Expect: "C19.b",
			Old: "\tif recent || initialized {\n\t\treturn sbjHead, initialized, nil\n\t}", New: "\tif initialized {\n\t\treturn sbjHead, initialized, nil\n\t}\n\t_ = recent"},
		Variant{Prop: "C19", Name: "request-without-trusted-head", File: sh, Expect: "C19.b",
			Old: "\tnewHead, err := s.head.Head(ctx, header.WithTrustedHead[H](sbjHead))", New: "\tnewHead, err := s.head.Head(ctx)"},
		Variant{Prop: "C19", Name: "downgrade-allowed", File: sh, Expect: "C19.b",
			Old: "\tif newHead.Height() <= sbjHead.Height() {\n\t\t// nothing new, just return what we have already", New: "\tif newHead.Height() == sbjHead.Height() {\n\t\t// nothing new, just return what we have already"},
		Variant{Prop: "C19", Name: "failed-request-returns-error", File: sh, Expect: "C19.b",
			Old: "\t\t\tsbjHead.Height(),\n\t\t)\n\n\t\treturn sbjHead, false, nil\n\t}", New: "\t\t\tsbjHead.Height(),\n\t\t)\n\n\t\treturn sbjHead, false, err\n\t}"},
		Variant{Prop: "C19", Name: "direct-getter-head", File: sh, Expect: "C19.c",
			Old: "\tnewHead, err := s.head.Head(ctx)\n\tif err != nil {\n\t\treturn newHead, false, fmt.Errorf(\"exchange head: %w\", err)", New: "\tnewHead, err := s.getter.Head(ctx)\n\tif err != nil {\n\t\treturn newHead, false, fmt.Errorf(\"exchange head: %w\", err)"},
		Variant{Prop: "C19", Name: "election-split-in-two-sections", File: wr, Expect: "C19.c",
			Old: "\tdoneCh := sh.headCh\n\tacquired := doneCh == nil\n\tif acquired {", New: "\tdoneCh := sh.headCh\n\tsh.headMu.Unlock()\n\tsh.headMu.Lock()\n\tacquired := doneCh == nil\n\tif acquired {"},
		Variant{Prop: "C19", Name: "close-before-publishing", File: wr, Expect: "C19.c",
			Old: "\t\tsh.headMu.Lock()\n\t\tsh.resHead, sh.resErr = head, err\n\t\tsh.headCh = nil\n\t\tsh.headMu.Unlock()\n\n\t\tclose(doneCh)", New: "\t\tclose(doneCh)\n\n\t\tsh.headMu.Lock()\n\t\tsh.resHead, sh.resErr = head, err\n\t\tsh.headCh = nil\n\t\tsh.headMu.Unlock()"},
		Variant{Prop: "C19", Name: "followers-also-request", File: wr, Expect: "C19.c",
			Old: "\tif acquired {\n\t\thead, err := sh.head.Head(ctx, opts...)", New: "\tif acquired || len(opts) == 0 {\n\t\thead, err := sh.head.Head(ctx, opts...)"},
		Variant{Prop: "C19", Name: "zero-header-expired", File: sh, Expect: "C19.d",
			Old: "\tif header.IsZero() {\n\t\treturn false, 0\n\t}\n\n\texpirationTime", New: "\tif header.IsZero() {\n\t\treturn true, 0\n\t}\n\n\texpirationTime"},
		Variant{Prop: "C19", Name: "expiry-direction-flipped", File: sh, Expect: "C19.d",
			Old: "\treturn diff > 0, diff\n}", New: "\treturn diff < 0, diff\n}"},
		Variant{Prop: "C19", Name: "recency-direction-flipped", File: sh, Expect: "C19.d",
			Old: "\treturn diff <= 0, diff\n}", New: "\treturn diff >= 0, diff\n}"},
		// benign
		Variant{Prop: "C19", Name: "benign-no-downgrade-commuted", File: sh,
			Old: "\tif newHead.Height() <= sbjHead.Height() {\n\t\t// nothing new, just return what we have already", New: "\tif sbjHead.Height() >= newHead.Height() {\n\t\t// nothing new, just return what we have already"},
		Variant{Prop: "C19", Name: "benign-expiry-commuted", File: sh,
			Old: "\treturn diff > 0, diff\n}", New: "\treturn 0 < diff, diff\n}"},
	)
}
