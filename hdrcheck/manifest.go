package main

import (
	"bufio"
	"encoding/json"
	"fmt"
	"os"
	"path/filepath"
	"strings"

	"hdrcheck/rules"
)

// notClaimed gives the reason for every property that has no rule (kept empty
// when all properties have at least one structural clause that is decided).
var notClaimed = map[string]string{}

const notYet = "static check for this property is not built yet (planned obligations: DESIGN.md section 5)"

// writeManifest regenerates MANIFEST.json from the rule registry, so that the
// claimed checks, their technique and their level text have a single source.
func writeManifest(verif string) error {
	f, err := os.Open(filepath.Join(verif, "properties.jsonl"))
	if err != nil {
		return err
	}
	defer f.Close()
	var ids []string
	sc := bufio.NewScanner(f)
	sc.Buffer(make([]byte, 1<<20), 1<<22)
	for sc.Scan() {
		var p struct {
			ID string `json:"id"`
		}
		if json.Unmarshal(sc.Bytes(), &p) == nil && p.ID != "" {
			ids = append(ids, p.ID)
		}
	}
	type lvl struct {
		Category  string `json:"category"`
		Text      string `json:"text"`
		DesignRef string `json:"design_ref"`
	}
	type check struct {
		PropertyID string `json:"property_id"`
		Quick      string `json:"quick_cmd"`
		Thorough   string `json:"thorough_cmd"`
		Evidence   string `json:"evidence_file"`
		Replay     string `json:"replay_cmd_template"`
		Engine     string `json:"engine"`
		Level      lvl    `json:"level_claimed"`
		Note       string `json:"level_note"`
		Technique  string `json:"technique"`
	}
	type na struct {
		PropertyID string `json:"property_id"`
		Reason     string `json:"reason"`
	}
	var checks []check
	nas := []na{}
	var claimed []string
	for _, id := range ids {
		r := rules.Get(id)
		if r == nil {
			reason := notClaimed[id]
			if reason == "" {
				reason = notYet
			}
			nas = append(nas, na{id, reason})
			continue
		}
		claimed = append(claimed, id)
		text := r.Explanation
		if len(r.NotDecided) > 0 {
			text += " NOT decided (runtime quantities out of reach of a sound static argument): " + strings.Join(r.NotDecided, "; ") + "."
		}
		trusted := r.Trusted
		if trusted == "" {
			trusted = "go/types + go/ssa of golang.org/x/tools v0.29.0; purity/immutability of header observers"
		}
		checks = append(checks, check{
			PropertyID: id,
			Quick:      fmt.Sprintf("/verif/bin/hdrcheck -property %s -tier quick", id),
			Thorough:   fmt.Sprintf("/verif/bin/hdrcheck -property %s -tier thorough", id),
			Evidence:   fmt.Sprintf("/verif/evidence/%s.json", id),
			Replay:     fmt.Sprintf("/verif/bin/hdrcheck -property %s -explain {path}", id),
			Engine:     "hdrcheck",
			Level:      lvl{"other", text, "DESIGN.md section 5, " + id},
			Note:       trusted,
			Technique:  "static analysis: " + r.Technique,
		})
	}
	m := map[string]any{
		"version":   1,
		"setup_cmd": "cd /verif/hdrcheck && GOFLAGS=-mod=mod GOPROXY=off GOWORK=off go build -o /verif/bin/hdrcheck . && /verif/bin/hdrcheck -warm",
		"hooks": map[string]any{
			"guard":            "verif",
			"enable":           "none: static analysis reads /repo's sources through go/packages; no hooks or instrumentation exist",
			"baseline_off_cmd": "cd /repo && go test -vet=off -count=1 -timeout 25m ./...",
			"source_commits":   []string{},
			"add_only":         true,
		},
		"engines": []map[string]any{{
			"name": "hdrcheck", "path": "/verif/hdrcheck", "serves_properties": claimed,
			"kind_free_text": "repository-specific static analyser (go/packages + go/types + go/ssa of x/tools v0.29.0): term numbering, dominance guard facts with assumption pruning, linear arithmetic prover, CFG ordering rules, provenance, call graph; self-test by in-memory broken/benign variants",
		}},
		"checks":         checks,
		"not_applicable": nas,
		"notes": "All checks are static: nothing from /repo is executed. quick = all obligations of the property on the current tree (go/packages load, ~1-3 s warm, ~40 s on a cold build cache); " +
			"thorough = the same obligations plus the checker's sensitivity self-test (every broken in-memory variant of the current tree must be reported under the expected obligation, every benign variant must stay silent). " +
			"Defects repaired in /repo by 'fix:' commits are listed in known_findings.json with status fixed; defects recorded but not repaired have status known and print KNOWN-FINDING.",
	}
	b, err := json.MarshalIndent(m, "", " ")
	if err != nil {
		return err
	}
	return os.WriteFile(filepath.Join(verif, "MANIFEST.json"), append(b, '\n'), 0o644)
}
