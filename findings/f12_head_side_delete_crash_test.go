package store

// Demonstration for finding F12 (property C06), recorded as a KNOWN finding (not repaired).
// Copy into /repo/store and run: go test ./store -run 'TestF12' -count=1
//
// F12: a head-side DeleteRange removes the headers [from, head] in ascending order and
//      lowers the stored head pointer only afterwards (DeleteRange -> deleteRangeRaw -> … ->
//      setHead). The removals and the pointer write share a datastore batch only when the
//      datastore handed to NewStore is wrapped in go-datastore/context (the Store itself never
//      wraps it, and none of the package's tests or NewTestStore do) and the range is below
//      the parallel threshold; with a plain datastore every Delete is a write boundary of its
//      own, and with the parallel path every worker commits its own batch. A crash at any
//      of those boundaries leaves Head resolving to the old, still stored head while heights
//      from `from` upwards are gone: the reopened Store starts, reports Tail and Head, and
//      a height between them is not retrievable.
//      The test takes the content of the datastore after every write of one head-side
//      DeleteRange and reopens a Store on each of them.
//      Adapted from the demonstration a bug-seeding sub-agent wrote for a seeded change
//      (there with a context-wrapped datastore, where the clean tree passes).

import (
	"context"
	gosync "sync"
	"testing"
	"time"

	"github.com/ipfs/go-datastore"

	"github.com/ipfs/go-datastore/query"
	"github.com/ipfs/go-datastore/sync"
	logging "github.com/ipfs/go-log/v2"
	"github.com/stretchr/testify/require"

	"github.com/celestiaorg/go-header/headertest"
)

// f12CrashDS records the full content of the datastore after every write boundary
// (a direct Put/Delete or a batch Commit, each taken as atomic) while armed.
type f12CrashDS struct {
	datastore.Batching

	mu    gosync.Mutex
	armed bool
	snaps []map[datastore.Key][]byte
}

func (c *f12CrashDS) snapshot(ctx context.Context) {
	c.mu.Lock()
	defer c.mu.Unlock()
	if !c.armed {
		return
	}
	res, err := c.Batching.Query(ctx, query.Query{})
	if err != nil {
		panic(err)
	}
	entries, err := res.Rest()
	if err != nil {
		panic(err)
	}
	snap := make(map[datastore.Key][]byte, len(entries))
	for _, e := range entries {
		snap[datastore.NewKey(e.Key)] = append([]byte(nil), e.Value...)
	}
	c.snaps = append(c.snaps, snap)
}

func (c *f12CrashDS) Put(ctx context.Context, k datastore.Key, v []byte) error {
	err := c.Batching.Put(ctx, k, v)
	c.snapshot(ctx)
	return err
}

func (c *f12CrashDS) Delete(ctx context.Context, k datastore.Key) error {
	err := c.Batching.Delete(ctx, k)
	c.snapshot(ctx)
	return err
}

func (c *f12CrashDS) Batch(ctx context.Context) (datastore.Batch, error) {
	b, err := c.Batching.Batch(ctx)
	if err != nil {
		return nil, err
	}
	return &f12CrashBatch{Batch: b, ds: c}, nil
}

type f12CrashBatch struct {
	datastore.Batch
	ds *f12CrashDS
}

func (b *f12CrashBatch) Commit(ctx context.Context) error {
	err := b.Batch.Commit(ctx)
	b.ds.snapshot(ctx)
	return err
}

// TestF12_CrashDuringHeadSideDelete takes the state of the datastore after every write boundary of
// a head-side DeleteRange and reopens a Store on each of them (a crash right after that write).
// The datastore is a plain one (as in every test of the package): each Delete is a write boundary.
// Each reopened Store has to start, and if it reports both Head and Tail,
// every height between them has to be retrievable.
func TestF12_CrashDuringHeadSideDelete(t *testing.T) {
	_ = logging.SetLogLevel("header/store", "fatal")
	t.Cleanup(func() { _ = logging.SetLogLevel("header/store", "error") })

	ctx, cancel := context.WithTimeout(context.Background(), 10*time.Second)
	t.Cleanup(cancel)

	suite := headertest.NewTestSuite(t)
	rec := &f12CrashDS{Batching: sync.MutexWrap(datastore.NewMapDatastore())}
	ds := datastore.Batching(rec)

	st, err := NewStore[*headertest.DummyHeader](ds, WithWriteBatchSize(4))
	require.NoError(t, err)
	require.NoError(t, st.Start(ctx))

	// heights 1..20, a multiple of the write batch size: everything is flushed
	chain := append([]*headertest.DummyHeader{suite.Head()}, suite.GenDummyHeaders(19)...)
	require.NoError(t, st.Append(ctx, chain...))
	require.NoError(t, st.Sync(ctx))
	require.Zero(t, st.pending.Len())

	rec.mu.Lock()
	rec.armed = true
	rec.mu.Unlock()

	// recede the head from 20 to 8
	require.NoError(t, st.DeleteRange(ctx, 9, 21))

	rec.mu.Lock()
	rec.armed = false
	snaps := rec.snaps
	rec.mu.Unlock()
	require.NoError(t, st.Stop(ctx))
	require.NotEmpty(t, snaps)
	t.Logf("write boundaries during DeleteRange: %d", len(snaps))

	for i, snap := range snaps {
		mds := datastore.NewMapDatastore()
		for k, v := range snap {
			require.NoError(t, mds.Put(ctx, k, v))
		}
		crashed := datastore.Batching(sync.MutexWrap(mds))

		reopened, err := NewStore[*headertest.DummyHeader](crashed, WithWriteBatchSize(4))
		require.NoError(t, err)
		require.NoError(t, reopened.Start(ctx), "crash after write #%d: start", i+1)

		head, herr := reopened.Head(ctx)
		tail, terr := reopened.Tail(ctx)
		if herr == nil {
			_, err := reopened.Get(ctx, head.Hash())
			require.NoError(t, err, "crash after write #%d: head %d is not stored", i+1, head.Height())
		}
		if terr == nil {
			_, err := reopened.Get(ctx, tail.Hash())
			require.NoError(t, err, "crash after write #%d: tail %d is not stored", i+1, tail.Height())
		}
		if herr == nil && terr == nil {
			for height := tail.Height(); height <= head.Height(); height++ {
				getCtx, getCancel := context.WithTimeout(ctx, 200*time.Millisecond)
				_, err := reopened.GetByHeight(getCtx, height)
				getCancel()
				require.NoError(t, err,
					"crash after write #%d: height %d between tail %d and head %d is not retrievable",
					i+1, height, tail.Height(), head.Height(),
				)
			}
		}
		// nothing below the deleted range may be lost
		for height := uint64(1); height <= 8; height++ {
			ok, err := reopened.Has(ctx, chain[height-1].Hash())
			require.NoError(t, err)
			require.True(t, ok, "crash after write #%d: height %d is lost", i+1, height)
		}
		require.NoError(t, reopened.Stop(ctx))
	}
}
