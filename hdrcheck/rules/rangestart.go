package rules

import (
	"strings"

	"golang.org/x/tools/go/ssa"

	"hdrcheck/an"
)

// checkAppendRestartsEmptiedRange (C07.e, finding F21): rangeAmount trusts `start` to be the height of
// headers[0]. ranges.Add decides "adjacent to the last range" under ranges.lk and then appends to that
// range, while the sync loop's Remove takes only the range's own lock: the range can be emptied in
// between, and Remove leaves `start` alone when nothing remains. Append therefore sets `start` from the
// first appended header whenever it finds the range empty — otherwise start names a removed header,
// rangeAmount counts one header too many and Get slices beyond the range (a panic in the sync loop).
func checkAppendRestartsEmptiedRange(c *an.Ctx, id string) {
	app := c.P.Method("sync", "headerRange", "Append")
	if !c.Need(app, id, "sync.(*headerRange).Append") {
		return
	}
	t, ff := c.T(app), c.F(app)
	var grow *ssa.Store
	an.Instrs(app, func(in ssa.Instruction) {
		if st, ok := in.(*ssa.Store); ok {
			if fa, isFA := st.Addr.(*ssa.FieldAddr); isFA && fieldName(fa) == "headers" {
				grow = st
			}
		}
	})
	rule := "appending to a range that was emptied sets its start from the first appended header (start is what rangeAmount counts from)"
	if !c.Check(grow != nil, id, "append-restarts-emptied-range", rule, app, nil, "no write of the range's headers", nil) {
		return
	}
	isRestart := func(in ssa.Instruction) bool {
		st, ok := in.(*ssa.Store)
		if !ok {
			return false
		}
		fa, isFA := st.Addr.(*ssa.FieldAddr)
		return isFA && fieldName(fa) == "start" && an.Stable(t.Of(st.Val)) == "Height(p1[0])"
	}
	// the range is empty and something is appended
	var lenTerm string
	an.Instrs(app, func(in ssa.Instruction) {
		if call, ok := in.(*ssa.Call); ok {
			if b, isB := call.Call.Value.(*ssa.Builtin); isB && b.Name() == "len" && strings.HasSuffix(an.Stable(t.Of(call.Call.Args[0])), "p0.headers") {
				lenTerm = t.Of(call)
			}
		}
	})
	if lenTerm == "" {
		c.Fail(id, "append-restarts-emptied-range", rule, app, grow, "Append does not look at whether the range is empty", nil)
		return
	}
	pr := ff.Prune(an.EQ(lenTerm, "0"), an.NE("len(p1)", "0"))
	ok := pr.Reachable(grow.Block()) && (an.Flow{Fn: app, Skip: pr.Removed}).MustPrecede(isRestart, grow)
	c.Check(ok, id, "append-restarts-emptied-range", rule, app, grow, "", pr.AtRefined(grow.Block()))
}
