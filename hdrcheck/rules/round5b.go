package rules

import (
	"strings"

	"golang.org/x/tools/go/ssa"

	"hdrcheck/an"
)

// More clauses from the fifth seeding round.

// checkCollectsUntilComplete (C18.b): a peer that holds only a prefix of a chunk answers with it and the
// session re-queues the remainder: one prepared request can yield more than one result. The collector of
// session.getRangeByHeight therefore counts headers, not results: it returns successfully only once the
// headers collected are as many as were asked for. A loop that takes one result per prepared request
// returns a short range with a nil error as soon as one peer lags.
func checkCollectsUntilComplete(c *an.Ctx, id string, get *ssa.Function) {
	t, ff := c.T(get), c.F(get)
	rule := "the session's collector returns successfully only when as many headers were collected as were asked for (a prefix answer re-queues its remainder: results are not one per request)"
	amount := ""
	for i, p := range get.Params {
		if p.Name() == "amount" {
			amount = "p" + itoa(i)
		}
	}
	if amount == "" {
		// by type and position: (ctx, from, amount uint64, …)
		for i, p := range get.Params {
			if p.Type().String() == "uint64" {
				amount = "p" + itoa(i)
			}
		}
	}
	n := 0
	for _, r := range ff.Returns() {
		if len(r.Results) != 2 || t.ErrShape(errResult(r)) != "nil" {
			continue
		}
		n++
		fs := ff.AtRefined(r.Block())
		res := t.Of(r.Results[0])
		ok := false
		for _, f := range fs {
			if f.Op == "LT" && !f.Pos && f.B == amount && (f.A == "len("+res+")" || strings.HasPrefix(f.A, "len(")) {
				// ¬(len(x) < amount) for the returned slice (or the slice it was sorted / copied from)
				if f.A == "len("+res+")" || strings.Contains(res, strings.TrimSuffix(strings.TrimPrefix(f.A, "len("), ")")) {
					ok = true
				}
			}
		}
		c.Check(ok && amount != "", id, "collects-until-complete", rule, get, r, "returns "+an.Stable(res), fs)
	}
	c.Min(id, "successful returns of the session's collector", n, 1)
}

// checkStartRenewsContext: a service that can be stopped and started again derives a fresh context on
// every Start. Stop cancels the old one and leaves it in place: a Start that keeps it (an "already
// started" guard on the cancel func, a sync.Once) brings up a service whose every request sees a
// cancelled context at once.
func checkStartRenewsContext(c *an.Ctx, id string, start *ssa.Function, what string) {
	if !c.Need(start, id, what+".Start") {
		return
	}
	t, ff := c.T(start), c.F(start)
	isRenew := func(in ssa.Instruction) bool {
		st, ok := in.(*ssa.Store)
		if !ok {
			return false
		}
		fa, isFA := st.Addr.(*ssa.FieldAddr)
		if !isFA || fieldName(fa) != "ctx" {
			return false
		}
		ex, isEx := st.Val.(*ssa.Extract)
		if !isEx || ex.Index != 0 {
			return false
		}
		call, isCall := ex.Tuple.(*ssa.Call)
		return isCall && strings.HasPrefix(an.StaticFullName(&call.Call), "context.With")
	}
	fl := an.Flow{Fn: start}
	n := 0
	for _, r := range ff.Returns() {
		// every return that can carry a nil error (the constant, or a callee's result handed on)
		if sh := t.ErrShape(errResult(r)); sh != "nil" && !strings.HasPrefix(sh, "prop(") {
			continue
		}
		n++
		c.Check(fl.MustPrecede(isRenew, r), id, "start-renews-context:"+what, "every successful Start derives a fresh service context (Stop cancels the old one and leaves it in place: a Start that keeps it brings up a service that is already cancelled)", start, r, "", nil)
	}
	c.Min(id, "successful returns of "+what+".Start", n, 1)
}

// checkInitBeforeWriteLoop (C17.e): Store.Start reads the pointers from disk (init stores the head and
// the published height unconditionally) and only then launches the write loop. A loop that runs first
// processes a batch left in the queue by a writer that missed the Stop, advances head and height — and
// init then stores the older values from disk over them: Head() and Height() go backwards.
func checkInitBeforeWriteLoop(c *an.Ctx, id string) {
	start := c.P.Method("store", "Store", "Start")
	initFn := c.P.Method("store", "Store", "init")
	loop := c.P.Method("store", "Store", "flushLoop")
	if !c.Need(start, id, "store.(*Store).Start") || !c.Need(initFn, id, "store.(*Store).init") || !c.Need(loop, id, "store.(*Store).flushLoop") {
		return
	}
	t, ff := c.T(start), c.F(start)
	n := 0
	an.Instrs(start, func(in ssa.Instruction) {
		g, ok := in.(*ssa.Go)
		if !ok || an.StaticCallee(&g.Call) != loop {
			return
		}
		n++
		okOrder := false
		for _, ic := range callsTo(start, initFn) {
			if (an.Flow{Fn: start}).MustPrecede(func(i ssa.Instruction) bool { return i == ssa.Instruction(ic) }, g) && ff.AtRefined(g.Block()).Has(an.EQ(t.Of(ic), "nil")) {
				okOrder = true
			}
		}
		c.Check(okOrder, id, "init-before-write-loop", "Store.Start launches the write loop only after init has read the pointers from disk without an error (init stores head and height unconditionally: run after the loop it takes them back)", start, g, "", ff.AtRefined(g.Block()))
	})
	c.Min(id, "launches of the write loop in Store.Start", n, 1)
}

// checkSoftFailureAlwaysSearched (C15.a): "accepts it … if and only if intermediate headers … form a chain
// of successful verifications". The search is what finds that chain: every time a candidate fails softly
// it is put to the search, and what verify answers for it is the search's answer. A refusal remembered
// from an earlier attempt (which may have failed on a getter fault) answers for the chain without looking.
func checkSoftFailureAlwaysSearched(c *an.Ctx, id string, verify, bif *ssa.Function) {
	t, ff := c.T(verify), c.F(verify)
	bcs := callsTo(verify, bif)
	if !c.Check(len(bcs) >= 1, id, "soft-failure-always-searched", "a soft-failing candidate is always put to the bifurcation search and verify answers with the search's result", verify, nil, "no call of the search", nil) {
		return
	}
	// the soft-failure branch: the blocks from which the search call is the only way to a return
	for _, bc := range bcs {
		fs := ff.AtRefined(bc.Block())
		var soft an.FactSet
		for _, f := range fs {
			if f.Op == "B" && f.Pos && (strings.Contains(f.A, "SoftFailure") || strings.HasPrefix(f.A, "As(")) {
				soft = append(soft, f)
			}
		}
		if len(soft) == 0 {
			c.Fail(id, "soft-failure-always-searched", "a soft-failing candidate is always put to the bifurcation search and verify answers with the search's result", verify, bc, "the search is not on a soft-failure branch", fs)
			continue
		}
		pr := ff.Prune(soft...)
		okAll, n := true, 0
		var at ssa.Instruction
		for _, r := range pr.Returns() {
			has := true
			for _, f := range soft {
				has = has && pr.AtRefined(r.Block()).Has(f)
			}
			if !has {
				continue
			}
			n++
			if !isCallResult(t, errResult(r), bif, 0) && t.Of(t.Deref(errResult(r))) != t.Of(bc) && t.Of(errResult(r)) != t.Of(bc) {
				okAll, at = false, r
			}
		}
		c.Check(okAll && n > 0, id, "soft-failure-always-searched", "a soft-failing candidate is always put to the bifurcation search and verify answers with the search's result", verify, at, "", nil)
	}
}
