package rules

import (
	"go/token"
	"strings"

	"golang.org/x/tools/go/ssa"

	"hdrcheck/an"
)

func init() {
	register(&Rule{
		ID: "C05",
		Explanation: "Decides for Exchange.GetRangeByHeight and its session: (a) the session is always built with validation against the caller's `from`, and the only values delivered to the result channel are results of session.processResponses = VerifyRange(from, decode+Validate(responses)) under a nil error; " +
			"(b) the degenerate request to ≤ from.Height()+1 is rejected before the unsigned subtraction, and every allocation/index site on the assembling path is bounds-proven (using amount ≥ 1 established at the call site); " +
			"(c) every delivered chunk is bound to the origin it was requested for: h[0].Height()==req.GetOrigin() dominates the delivery (with in-chunk adjacency from VerifyRange this excludes shifted, duplicated and gapped chunks); " +
			"(d) response processing runs under a recover() guard that turns a panic into an error, every index site outside it is proven; (e) the assembled slice is sorted ascending by Height() before the only nil-error return; " +
			"(f) no sub-request is dropped (see C18.a).",
		NotDecided: []string{
			"the multi-peer schedule: which peer answers which chunk, retries and timing",
			"that the union of delivered chunks is exactly the requested range for every split (numeric tiling, see C18)",
		},
		Technique: "value provenance of channel sends, phi-refined dominance facts (err-phi idiom), arithmetic-safety obligations with call-site context and derived callee postconditions, recover containment, must-precede",
		Trusted:   "go/types+go/ssa; C01/C02 for the meaning of VerifyRange; purity of header observers and protobuf getters",
		Run:       runC05,
		Imports: []Import{
			{From: "C02.e", As: "C05.g", Why: "every chunk is verified by VerifyRange against the same `from`: 'all returned headers passed Verify' holds only if VerifyRange appends nothing that did not pass (a failure of the first header of a chunk included)"},
			{From: "C02.d", As: "C05.g", Why: "the heights of a chunk increase by one only if VerifyRange returns nothing past its first adjacency failure"},
			{From: "C02.b", As: "C05.g", Why: "'passed Verify starting from from' is a chain of verifications: VerifyRange has to verify every element of a chunk against its own predecessor, not against the chunk's anchor (a peer's forged headers at the right heights would pass)"},
		},
	})
}

func runC05(c *an.Ctx) {
	s, ok := resolveSession(c, "C05.a")
	if !ok {
		return
	}
	// --- C05.a session construction
	et, ef := c.T(s.exGet), c.F(s.exGet)
	nsCalls := callsTo(s.exGet, s.newSes)
	c.Min("C05.a", "newSession calls in Exchange.GetRangeByHeight", len(nsCalls), 1)
	for _, ns := range nsCalls {
		opts := an.VariadicArgs(ns.Call.Args[len(ns.Call.Args)-1])
		okV := false
		for _, o := range opts {
			if call, ok := o.(*ssa.Call); ok && an.StaticCallee(&call.Call) == s.withVal && et.Of(call.Call.Args[0]) == "p2" {
				okV = true
			}
		}
		c.Check(okV, "C05.a", "with-validation", "the range session is always created withValidation(from) for the caller's trusted header", s.exGet, ns, "", nil)
	}
	// withValidation stores its argument into session.from
	okStore := false
	for _, cl := range s.withVal.AnonFuncs {
		ct := c.T(cl)
		an.Instrs(cl, func(in ssa.Instruction) {
			if st, ok := in.(*ssa.Store); ok {
				if fa, ok := st.Addr.(*ssa.FieldAddr); ok && fieldName(fa) == "from" && strings.Contains(ct.Of(st.Val), "fv:from") {
					okStore = true
				}
			}
		})
	}
	c.Check(okStore, "C05.a", "validation-stores-from", "withValidation stores the trusted header into session.from", s.withVal, nil, "", nil)
	// newSession applies every option
	{
		nt := c.T(s.newSes)
		applied := false
		for _, l := range indexLoops(nt) {
			for _, e := range l.Elems {
				if e.Referrers() == nil {
					continue
				}
				for _, r := range *e.Referrers() {
					if call, ok := r.(*ssa.Call); ok && call.Call.Value == ssa.Value(e) {
						applied = true
					}
				}
			}
		}
		c.Check(applied, "C05.a", "options-applied", "newSession applies every option it is given", s.newSes, nil, "", nil)
	}
	chainOK := nonEmptyChain(c, "C05.a", s)

	// deliveries in doRequest
	dt, df := c.T(s.doReq), c.F(s.doReq)
	pcs := callsTo(s.doReq, s.sProc)
	c.Min("C05.a", "session.processResponses calls in doRequest", len(pcs), 1)
	if len(pcs) != 1 {
		return
	}
	pc := pcs[0]
	hT, eT := dt.Of(pc)+"#0", dt.Of(pc)+"#1"
	nSend := 0
	an.Instrs(s.doReq, func(in ssa.Instruction) {
		sd, ok := in.(*ssa.Send)
		if !ok || dt.Of(sd.Chan) != "p4" {
			return
		}
		nSend++
		fs := df.AtRefined(sd.Block())
		c.Check(dt.Of(sd.X) == hT && fs.Has(an.EQ(eT, "nil")), "C05.a", "delivery-is-verified", "only headers returned by session.processResponses with a nil error are delivered", s.doReq, sd, "delivers "+dt.Of(sd.X), fs)
		// --- C05.c origin binding
		bind := an.EQ("Height("+hT+"[0])", "pb.GetOrigin(p3)")
		c.Check(fs.Has(bind), "C05.c", "origin-binding", "a chunk is delivered only if its first header is at the origin that was requested (h[0].Height() == req.GetOrigin())", s.doReq, sd, "required "+bind.String(), fs)
	})
	c.Min("C05.a", "deliveries to the result channel", nSend, 1)
	// any other writer of the result channel?
	for _, f := range reachableIn(c, []*ssa.Function{s.sesGet, s.handleOut}, true) {
		if f == s.doReq {
			continue
		}
		ft := c.T(f)
		an.Instrs(f, func(in ssa.Instruction) {
			if sd, ok := in.(*ssa.Send); ok {
				if ch, ok := sd.Chan.Type().Underlying().(interface{ Elem() interface{} }); ok {
					_ = ch
				}
				if strings.HasPrefix(sd.X.Type().String(), "[]") && !strings.Contains(sd.X.Type().String(), "HeaderRequest") {
					c.Fail("C05.a", "other-producer:"+an.FuncName(f), "doRequest is the only producer of header chunks", f, sd, ft.Of(sd.X), nil)
				}
			}
		})
	}

	// --- C05.b degenerate requests
	n := checkArith(c, "C05.b", []*ssa.Function{s.exGet}, map[string]bool{"usub": true, "index": true, "slice": true, "makesize": true}, nil, nil)
	c.Min("C05.b", "arithmetic sites in Exchange.GetRangeByHeight", n, 1)
	pr := ef.Prune(an.GE("(Height(p2)+1)", "p3")) // to <= from.Height()+1
	nDeg := 0
	for _, r := range pr.Returns() {
		nDeg++
		c.Check(et.ErrShape(errResult(r)) != "nil", "C05.b", "degenerate-rejected", "a request with to ≤ from.Height()+1 returns an error", s.exGet, r, et.ErrShape(errResult(r)), nil)
	}
	degGuard := false
	for _, f := range condFacts(et) {
		if f == an.GE("(Height(p2)+1)", "p3") || f == an.LT("(Height(p2)+1)", "p3") {
			degGuard = true
		}
	}
	c.Check(degGuard && nDeg > 0, "C05.b", "degenerate-guard", "Exchange.GetRangeByHeight tests to against from.Height()+1 before computing the amount", s.exGet, nil, found(degGuard), nil)
	for _, call := range callsTo(s.exGet, s.sesGet) {
		if pr.Reachable(call.Block()) {
			c.Fail("C05.b", "degenerate-reaches-session", "a degenerate request never starts a session request", s.exGet, call, "", nil)
		}
	}
	// amount >= 1 and per-peer != 0 at the session call → assumptions inside session.getRangeByHeight
	sg := c.F(s.sesGet)
	sgCalls := c.P.CG().Sites(s.sesGet)
	amountOK := len(sgCalls) > 0
	for _, cs := range sgCalls {
		call, _ := cs.Instr.(*ssa.Call)
		if call == nil || cs.Caller != s.exGet {
			amountOK = false
			continue
		}
		amountOK = amountOK && ef.ProveGE(call.Block(), et.Affine(call.Call.Args[3]), an.Const(1), 0)
	}
	c.Check(amountOK, "C05.b", "amount>=1-at-call", "every call of session.getRangeByHeight passes amount ≥ 1 (proven at the call site)", s.exGet, nil, "", nil)
	if amountOK {
		sg.Assume = append(sg.Assume, an.NE("p3", "0"))
	}
	n = checkArith(c, "C05.b", []*ssa.Function{s.sesGet}, map[string]bool{"usub": true, "index": true, "slice": true, "makesize": true}, nil, []arithException{
		{Func: "p2p.(*session).getRangeByHeight", Match: "(p2+p3) - 1", Reason: "from+amount-1 feeds only a log line and a trace attribute"},
	})
	c.Min("C05.b", "arithmetic sites in session.getRangeByHeight", n, 3)

	// --- C05.d crash containment
	guard := an.HasRecoverGuard(s.sProc)
	okGuard := guard != nil
	if okGuard {
		// the guard assigns the named error result when recover() != nil
		gt, gf := c.T(guard), c.F(guard)
		assigned := false
		an.Instrs(guard, func(in ssa.Instruction) {
			if st, ok := in.(*ssa.Store); ok {
				// the caller's error result: the captured variable itself, or a *error handed to a named
				// guard function (a parameter, or — once that function is inlined into a literal — the
				// captured copy of the pointer)
				outer := false
				switch a := st.Addr.(type) {
				case *ssa.FreeVar:
					outer = true
				case *ssa.Parameter:
					outer = true
				case *ssa.UnOp:
					switch x := a.X.(type) {
					case *ssa.FreeVar:
						outer = true
					case *ssa.Alloc:
						for _, s2 := range an.AllocStores(x) {
							if ld, isLd := s2.Val.(*ssa.UnOp); isLd {
								if _, isFV := ld.X.(*ssa.FreeVar); isFV {
									outer = true
								}
							}
							if _, isFV := s2.Val.(*ssa.FreeVar); isFV {
								outer = true
							}
						}
					}
				}
				if outer && an.IsErrorType(st.Val.Type()) && gt.ErrShape(st.Val) != "nil" {
					fs := gf.AtInstr(st)
					for _, f := range fs {
						if f.Op == "EQ" && !f.Pos && (f.A == "nil" || f.B == "nil") {
							assigned = true
						}
					}
				}
			}
		})
		okGuard = assigned
	}
	c.Check(okGuard, "C05.d", "recover-guard", "response processing runs under a deferred recover() that turns a panic into a non-nil error", s.sProc, nil, "", nil)
	if chainOK {
		df.Implications = append(df.Implications, an.Implication{If: an.EQ(eT, "nil"), Then: an.FactSet{
			an.NE("len("+hT+")", "0"),
			an.LE("len("+hT+")", "p3.Amount"),
		}})
	}
	// prepareRequests(...)[0]
	prepOK := prepareNonEmpty(c, "C05.d", s)
	for _, call := range callsTo(s.doReq, s.prep) {
		if prepOK && df.ProveGE(call.Block(), dt.Affine(call.Call.Args[1]), an.Const(1), 0) {
			df.Assume = append(df.Assume, an.NE("len("+dt.Of(call)+")", "0"))
		}
	}
	n = checkArith(c, "C05.d", []*ssa.Function{s.doReq, s.handleOut}, map[string]bool{"usub": true, "index": true, "slice": true, "makesize": true, "div": true}, nil, []arithException{
		{Func: "p2p.(*session).doRequest", Match: "+pb.GetOrigin(p3)) - 1", Reason: "req.Amount+origin-1 feeds only a log line"},
		{Func: "p2p.(*session).doRequest", Match: "(p3.Amount+pb.GetOrigin(p3)) - 1", Reason: "req.Amount+origin-1 feeds only a log line"},
	})
	c.Min("C05.d", "arithmetic sites in doRequest", n, 3)
	// the response-count bound used above: sendMessage reads at most req.Amount responses
	sendMessageBound(c, "C05.d", s)
	checkClientMetricsArithmetic(c, "C05.d")
	checkOptionalCollaboratorsGuarded(c, "C05.d")

	// --- C05.e final order
	st, sf := c.T(s.sesGet), c.F(s.sesGet)
	nNil := 0
	for _, r := range sf.Returns() {
		if st.ErrShape(errResult(r)) != "nil" {
			continue
		}
		nNil++
		var sortCall *ssa.Call
		isSort := func(in ssa.Instruction) bool {
			call, ok := in.(*ssa.Call)
			if ok && an.StaticFullName(&call.Call) == "sort.Slice" {
				sortCall = call
				return true
			}
			return false
		}
		okSort := (an.Flow{Fn: s.sesGet}).MustPrecede(isSort, r)
		okLess := false
		if okSort && sortCall != nil {
			if mc, ok := sortCall.Call.Args[1].(*ssa.MakeClosure); ok {
				okLess = lessAscendingByHeight(c, mc.Fn.(*ssa.Function))
			}
			okSort = st.Of(an.Unwrap(sortCall.Call.Args[0])) == st.Of(st.Deref(r.Results[0]))
		}
		c.Check(okSort && okLess, "C05.e", "sorted-ascending", "the assembled headers are sorted ascending by Height() before they are returned", s.sesGet, r, "", nil)
	}
	c.Min("C05.e", "nil-error returns of session.getRangeByHeight", nNil, 1)

	// --- C05.f
	checkNoDroppedRequest(c, "C05.f", s)
	// contiguity across a partial answer: the follow-up request continues exactly after the last received header
	checkRemainderRequest(c, "C05.f", s)
}

// lessAscendingByHeight: the sort.Slice less function is `hs[i].Height() < hs[j].Height()`.
func lessAscendingByHeight(c *an.Ctx, less *ssa.Function) bool {
	t, ff := c.T(less), c.F(less)
	ok := false
	for _, r := range ff.Returns() {
		bo, isB := r.Results[0].(*ssa.BinOp)
		if !isB {
			return false
		}
		x, y := t.Of(bo.X), t.Of(bo.Y)
		asc := func(a, b string) bool {
			return strings.HasPrefix(a, "Height(") && strings.HasPrefix(b, "Height(") && strings.HasSuffix(a, "[p0])") && strings.HasSuffix(b, "[p1])")
		}
		switch bo.Op {
		case token.LSS:
			ok = asc(x, y)
		case token.GTR:
			ok = asc(y, x)
		default:
			return false
		}
	}
	return ok
}

// lessDescendingByHeight: `hs[i].Height() > hs[j].Height()`.
func lessDescendingByHeight(c *an.Ctx, less *ssa.Function) bool {
	t, ff := c.T(less), c.F(less)
	ok := false
	for _, r := range ff.Returns() {
		bo, isB := r.Results[0].(*ssa.BinOp)
		if !isB {
			return false
		}
		x, y := t.Of(bo.X), t.Of(bo.Y)
		desc := func(a, b string) bool {
			return strings.HasPrefix(a, "Height(") && strings.HasPrefix(b, "Height(") && strings.HasSuffix(a, "[p0])") && strings.HasSuffix(b, "[p1])")
		}
		switch bo.Op {
		case token.GTR:
			ok = desc(x, y)
		case token.LSS:
			ok = desc(y, x)
		default:
			return false
		}
	}
	return ok
}

// prepareNonEmpty: prepareRequests returns at least one request when amount ≠ 0:
// the loop guard is amount≠0 on the loop-carried amount (entry value = the
// parameter), every continuing iteration appends one request, the only return
// is the accumulated slice.
func prepareNonEmpty(c *an.Ctx, id string, s *sessionFns) bool {
	t, ff := c.T(s.prep), c.F(s.prep)
	ok := true
	var header *ssa.BasicBlock
	var amountPhi *ssa.Phi
	for _, b := range s.prep.Blocks {
		for _, in := range b.Instrs {
			ph, isPhi := in.(*ssa.Phi)
			if !isPhi {
				break
			}
			for _, e := range ph.Edges {
				if t.Of(e) == "p1" {
					header, amountPhi = b, ph
				}
			}
		}
	}
	if header == nil {
		c.Fail(id, "postcond:prepareRequests", "prepareRequests yields ≥ 1 request for amount ≠ 0", s.prep, nil, "no loop-carried amount found", nil)
		return false
	}
	acc := findAccumulator(ff, header)
	guard := an.NE(t.Of(amountPhi), "0")
	if acc == nil {
		ok = false
	} else {
		ok = ok && ff.AtInstr(acc.Append).Has(guard)
		for _, pred := range header.Preds {
			if ff.Dominates(header, pred) && !(pred == acc.Append.Block() || ff.Dominates(acc.Append.Block(), pred)) {
				ok = false
			}
		}
		for _, r := range ff.Returns() {
			ok = ok && t.Of(r.Results[0]) == t.Of(acc.Phi) && ff.AtInstr(r).Has(guard.Neg())
		}
	}
	return c.Check(ok, id, "postcond:prepareRequests", "prepareRequests loops while amount ≠ 0, appends one request per iteration and returns the accumulated slice (hence ≥ 1 request for amount ≠ 0)", s.prep, nil, "", nil)
}

// sendMessageBound: the client reads at most req.Amount responses per stream
// (loop guard i < req.Amount with i counting from 0, one append per iteration).
func sendMessageBound(c *an.Ctx, id string, s *sessionFns) bool {
	// boundedAccumulator: fn has a loop that appends one element per iteration to a fresh slice
	// and is guarded by counter < bound
	boundedAccumulator := func(fn *ssa.Function, bound string) bool {
		t, ff := c.T(fn), c.F(fn)
		for _, b := range fn.Blocks {
			acc := findAccumulator(ff, b)
			if acc == nil {
				continue
			}
			// find the counter phi in the same header: phi[0, phi+1]
			for _, in := range b.Instrs {
				ph, isPhi := in.(*ssa.Phi)
				if !isPhi {
					break
				}
				if _, isWalk := indexWalk(ph); !isWalk {
					continue
				}
				if ff.AtInstr(acc.Append).Has(an.LT(t.Of(ph), bound)) {
					return true
				}
			}
		}
		return false
	}
	t := c.T(s.sendMsg)
	ok := boundedAccumulator(s.sendMsg, "p4.Amount")
	where := s.sendMsg
	if !ok {
		// the reading loop may live in a helper that is handed req.Amount as its bound and whose
		// slice result sendMessage returns
		an.Instrs(s.sendMsg, func(in ssa.Instruction) {
			call, isCall := in.(*ssa.Call)
			if !isCall || call.Call.IsInvoke() || ok {
				return
			}
			cal := an.StaticCallee(&call.Call)
			if cal == nil || cal.Blocks == nil || cal.Pkg != s.sendMsg.Pkg {
				return
			}
			for i, a := range call.Call.Args {
				if t.Of(a) != "p4.Amount" || !boundedAccumulator(cal, "p"+itoa(i)) {
					continue
				}
				returned := false
				for _, b := range s.sendMsg.Blocks {
					if r, isRet := b.Instrs[len(b.Instrs)-1].(*ssa.Return); isRet && len(r.Results) > 0 && b != s.sendMsg.Recover {
						if ex, isEx := t.Deref(r.Results[0]).(*ssa.Extract); isEx && ex.Tuple == ssa.Value(call) && ex.Index == 0 {
							returned = true
						}
					}
				}
				if returned {
					ok, where = true, cal
				}
			}
		})
	}
	return c.Check(ok, id, "postcond:sendMessage", "sendMessage appends one response per iteration of a loop guarded by i < req.Amount (a peer cannot make the client read more than it asked for)", where, nil, "", nil)
}
