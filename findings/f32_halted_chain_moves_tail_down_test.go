package sync

// Demonstration for finding F32 (property C16).
// Copy into /repo/sync and run: go test ./sync -run 'TestF32' -count=1
//
// F32: "No … spacing of header times or heights (young chains, halted chains, irregular block times) makes this
//      computation … wedge Head()/Start". The far branch of findTailHeight estimates head − window/blockTime and
//      guarded only against that being ≤ 0, not against it lying at or below the CURRENT tail; both refinement
//      walks require the estimate to be above the old tail, so such an estimate was returned as it was. On a
//      chain that halted and resumed — heights ≤ 110 an hour old, 111..120 fresh, block time 1 s, window 50 s,
//      store 100..120 — findTailHeight(oldTail 100, head 120) answered 70: the pruning window moved the tail
//      DOWN. renewTail then asks the getter for header 70; on a network that has pruned it,
//      subjectiveTail — and with it Head() — fails for every head for which this holds
//      ("fetching SyncFromHeight tail(70): header: not found").
//      Noticed by an eighth-round seeder (C16). Rule C16.c `far-estimate-above-old-tail`; repaired by the /repo
//      fix commit 76f01a4: an estimate at or below the current tail keeps the tail.

import (
	"context"
	"testing"
	"time"

	"github.com/ipfs/go-datastore"
	dssync "github.com/ipfs/go-datastore/sync"
	"github.com/stretchr/testify/require"

	"github.com/celestiaorg/go-header/headertest"
	"github.com/celestiaorg/go-header/store"
)

// f32Chain builds a chain of n headers (heights 1..n); header i (1-based) carries times[i-1].
func f32Chain(times []time.Time) []*headertest.DummyHeader {
	out := make([]*headertest.DummyHeader, 0, len(times))
	var prev *headertest.DummyHeader
	for i, tm := range times {
		h := &headertest.DummyHeader{
			Chainid:   "test",
			HeightI:   uint64(i + 1),
			Timestamp: tm.UTC(),
		}
		if prev != nil {
			h.PreviousHash = prev.Hash()
		}
		_ = h.Hash()
		out = append(out, h)
		prev = h
	}
	return out
}

func f32Remote(hs []*headertest.DummyHeader) *headertest.Store[*headertest.DummyHeader] {
	remote := &headertest.Store[*headertest.DummyHeader]{
		Headers: make(map[uint64]*headertest.DummyHeader),
	}
	for _, h := range hs {
		_ = remote.Append(context.Background(), h)
	}
	return remote
}

func TestF32_HaltedChainDoesNotMoveTheTailDown(t *testing.T) {
	ctx, cancel := context.WithTimeout(context.Background(), time.Second*10)
	t.Cleanup(cancel)

	const blockTime = time.Second
	now := time.Now()
	times := make([]time.Time, 120)
	for i := 0; i < 110; i++ {
		times[i] = now.Add(-time.Hour).Add(-time.Duration(109-i) * blockTime)
	}
	for i := 110; i < 120; i++ {
		times[i] = now.Add(-time.Duration(119-i) * blockTime)
	}
	chain := f32Chain(times)
	// the network has pruned as well
	remote := f32Remote(chain[99:])

	ds := dssync.MutexWrap(datastore.NewMapDatastore())
	local, err := store.NewStore[*headertest.DummyHeader](ds, store.WithWriteBatchSize(1))
	require.NoError(t, err)
	require.NoError(t, local.Start(ctx))
	require.NoError(t, local.Append(ctx, chain[99:]...))
	require.NoError(t, local.Sync(ctx))
	oldTail, err := local.Tail(ctx)
	require.NoError(t, err)
	require.EqualValues(t, 100, oldTail.Height())

	syncer, err := NewSyncer[*headertest.DummyHeader](
		remote,
		local,
		headertest.NewDummySubscriber(),
		WithBlockTime(blockTime),
		WithPruningWindow(50*time.Second),
	)
	require.NoError(t, err)

	height, err := syncer.findTailHeight(ctx, oldTail, chain[119])
	require.NoError(t, err)
	t.Logf("new tail height: %d (current tail 100, head 120, first header of the window 111)", height)
	require.GreaterOrEqual(t, height, uint64(100), "the pruning window moved the tail below the current one")

	_, err = syncer.subjectiveTail(ctx, chain[119])
	require.NoError(t, err)
}
