package rules

import (
	"strings"

	"golang.org/x/tools/go/ssa"

	"hdrcheck/an"
)

// checkWaitNotUnderReadTransaction (C12.a, finding F27): "GetByHeight returns the header as soon as it has
// been appended, no matter how the append interleaves with the call". getByHeight reuses the read
// transaction it finds in its context, and a read transaction of a snapshot-isolated datastore sees the
// data as of the moment it was opened. A context that carries a transaction opened BEFORE a call that may
// wait for a height pins the look-ups after the wait to what was stored before it: the header the reader
// was woken for, and everything appended during the wait, is invisible unless it happens to sit in the
// pending batch or under a pointer. So inside package store no function that may wait on its context
// (GetByHeight, heightSub.Wait/wait, and whatever hands its own context on to one of them) is called with a
// context derived from the result of withReadTransaction.
func checkWaitNotUnderReadTransaction(c *an.Ctx, id string) {
	p := c.P
	wrt := p.Method("store", "Store", "withReadTransaction")
	pub := p.Method("store", "Store", "GetByHeight")
	if !c.Need(wrt, id, "store.(*Store).withReadTransaction") || !c.Need(pub, id, "store.(*Store).GetByHeight") {
		return
	}
	waits := map[*ssa.Function]bool{pub: true}
	for _, n := range []string{"Wait", "wait"} {
		if f := p.Method("store", "heightSub", n); f != nil {
			waits[f] = true
		}
	}
	var fns []*ssa.Function
	for _, fn := range p.RepoFuncs() {
		if fn.Pkg != nil && fn.Pkg.Pkg.Name() == "store" && fn.Blocks != nil {
			fns = append(fns, fn)
		}
	}
	// who hands its own context parameter on to a waiting function
	for changed := true; changed; {
		changed = false
		for _, fn := range fns {
			if waits[fn] {
				continue
			}
			an.Instrs(fn, func(in ssa.Instruction) {
				call, isCall := in.(*ssa.Call)
				if !isCall || waits[fn] {
					return
				}
				cal := an.StaticCallee(&call.Call)
				if cal == nil || !waits[originOf(cal)] {
					return
				}
				if a := ctxArg(call); a != nil && ctxFrom(fn, a, 0, func(v ssa.Value) bool { _, isP := v.(*ssa.Parameter); return isP }) {
					waits[fn] = true
					changed = true
				}
			})
		}
	}
	isTxn := func(v ssa.Value) bool {
		ex, isEx := v.(*ssa.Extract)
		if !isEx || ex.Index != 0 {
			return false
		}
		call, isCall := ex.Tuple.(*ssa.Call)
		return isCall && an.StaticCallee(&call.Call) != nil && originOf(an.StaticCallee(&call.Call)) == wrt
	}
	nCalls, nTxn := 0, 0
	for _, fn := range fns {
		nTxn += len(callsTo(fn, wrt))
		an.Instrs(fn, func(in ssa.Instruction) {
			call, isCall := in.(*ssa.Call)
			if !isCall {
				return
			}
			cal := an.StaticCallee(&call.Call)
			if cal == nil || !waits[originOf(cal)] {
				return
			}
			a := ctxArg(call)
			if a == nil {
				return
			}
			nCalls++
			c.Check(!ctxFrom(fn, a, 0, isTxn), id, "wait-not-under-read-transaction:"+an.FuncName(fn),
				"a call that may wait for a height is not handed a context carrying a read transaction opened before it (a snapshot-isolated transaction would pin every look-up after the wait to what was stored before it)",
				fn, call, "callee "+an.FuncName(cal), nil)
		})
	}
	c.Min(id, "calls that may wait for a height, in package store", nCalls, 2)
	c.Min(id, "read transactions opened in package store", nTxn, 2)
}

func originOf(f *ssa.Function) *ssa.Function {
	if o := f.Origin(); o != nil {
		return o
	}
	return f
}

// ctxArg: the first argument of context.Context type.
func ctxArg(call *ssa.Call) ssa.Value {
	for _, a := range call.Call.Args {
		if strings.HasSuffix(a.Type().String(), "context.Context") {
			return a
		}
	}
	return nil
}

// ctxFrom: the context value v may derive (through context.With…, tracer starts, merges, locals and
// captured variables) from a value satisfying src.
func ctxFrom(fn *ssa.Function, v ssa.Value, depth int, src func(ssa.Value) bool) bool {
	if v == nil || depth > 10 {
		return false
	}
	if src(v) {
		return true
	}
	switch x := v.(type) {
	case *ssa.Extract:
		if call, isCall := x.Tuple.(*ssa.Call); isCall && x.Index == 0 {
			for _, a := range call.Call.Args {
				if strings.HasSuffix(a.Type().String(), "context.Context") && ctxFrom(fn, a, depth+1, src) {
					return true
				}
			}
		}
	case *ssa.Call:
		for _, a := range x.Call.Args {
			if strings.HasSuffix(a.Type().String(), "context.Context") && ctxFrom(fn, a, depth+1, src) {
				return true
			}
		}
	case *ssa.Phi:
		for _, e := range x.Edges {
			if ctxFrom(fn, e, depth+1, src) {
				return true
			}
		}
	case *ssa.UnOp:
		switch cell := x.X.(type) {
		case *ssa.Alloc:
			for _, st := range an.AllocStores(cell) {
				if ctxFrom(fn, st.Val, depth+1, src) {
					return true
				}
			}
		case *ssa.FreeVar:
			if a, owner := capturedAlloc(fn, cell); a != nil {
				for _, st := range an.AllocStores(a) {
					if ctxFrom(owner, st.Val, depth+1, src) {
						return true
					}
				}
			}
		}
	case *ssa.ChangeInterface:
		return ctxFrom(fn, x.X, depth+1, src)
	case *ssa.MakeInterface:
		return ctxFrom(fn, x.X, depth+1, src)
	}
	return false
}
