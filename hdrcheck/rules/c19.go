package rules

import (
	"strings"

	"golang.org/x/tools/go/ssa"

	"hdrcheck/an"
)

func init() {
	register(&Rule{
		ID: "C19",
		Explanation: "Decides the gates of Syncer.Head: (a) subjective (re)initialisation requests a head only when the local head is expired or the store is empty, adopts the answer only under ¬isExpired(answer, trustingPeriod) and otherwise returns an error; " +
			"(b) the recency refresh requests a network head only under ¬recent ∧ ¬initialized, through the single-flight wrapper and WithTrustedHead(current subjective head); the answer is adopted (sync target, reported as updated) only when strictly higher than the subjective head, and every failing path returns the current subjective head with a nil error; " +
			"(c) single flight: inside package sync the getter's Head is invoked only by the wrapper; leader election (read or create the in-flight channel) is one critical section, only the leader calls the underlying Head, the result is stored under the mutex before the channel is closed, followers read it under the mutex after receiving from the channel or leave on ctx.Done(); " +
			"(d) isExpired(zero header) is false, isExpired is `time.Since(t.Add(period)) > 0` and isRecent is `time.Since(t.Add(threshold)) <= 0`.",
		NotDecided: []string{
			"monotonicity of the heights returned over a run and 'exactly one request' under contention (schedules)",
			"everything that depends on how the clock advances",
		},
		Technique: "dominance facts with assumption pruning, argument provenance, who-may-call on the head getter, critical-region and must-precede rules on the single-flight wrapper, comparison-shape check",
		Trusted:   "go/types+go/ssa; C09 for what the Exchange verifies; sync.Mutex semantics",
		Run:       runC19,
		Imports: []Import{
			{From: "C07.a", Match: "target-only-above-store", As: "C19.f", Why: "Head() prefers the pending sync target to the stored head: a target at or below the stored head (the late answer of a head request for a height gossip has already stored) is never cleaned out, Head() stays on it while the store moves on, and asks the network although a recent head is known"},
			{From: "C15.a", Match: "nil-needs-verify", As: "C19.e", Why: "while the stored head is expired the only way to a new subjective head is the re-initialisation from trusted peers: every other candidate (gossip, the soft-failure branch of the refresh) goes through verify, which must not accept anything header.Verify or the search has not accepted — also not 'because the local head is expired anyway'"},
		},
	})
}

func runC19(c *an.Ctx) {
	p := c.P
	subj := p.Method("sync", "Syncer", "subjectiveHead")
	netHead := p.Method("sync", "Syncer", "networkHead")
	wrapper := p.Method("sync", "syncHead", "Head")
	setLocal := p.Method("sync", "Syncer", "setLocalHead")
	incoming := p.Method("sync", "Syncer", "incomingNetworkHead")
	isExpired := p.Func("sync", "isExpired")
	isRecent := p.Func("sync", "isRecent")
	withTrusted := p.Func("", "WithTrustedHead")
	ok := true
	for name, f := range map[string]*ssa.Function{"sync.(*Syncer).subjectiveHead": subj, "sync.(*Syncer).networkHead": netHead, "sync.(*syncHead).Head": wrapper,
		"sync.(*Syncer).setLocalHead": setLocal, "sync.(*Syncer).incomingNetworkHead": incoming, "sync.isExpired": isExpired, "sync.isRecent": isRecent, "header.WithTrustedHead": withTrusted} {
		ok = c.Need(f, "C19.a", name) && ok
	}
	if !ok {
		return
	}

	// --- C19.b (public entry): Head() hands out only adopted heads
	if headFn := p.Method("sync", "Syncer", "Head"); c.Need(headFn, "C19.b", "sync.(*Syncer).Head") {
		ht, hf := c.T(headFn), c.F(headFn)
		localHead := p.Method("sync", "Syncer", "localHead")
		ncs := callsTo(headFn, netHead)
		if c.Check(len(ncs) == 1 && localHead != nil, "C19.b", "head-asks-networkHead", "Syncer.Head obtains the head through networkHead (and re-reads the adopted head through localHead)", headFn, nil, "", nil) {
			nc := ncs[0]
			nRet := 0
			for _, r := range hf.Returns() {
				if ht.ErrShape(errResult(r)) != "nil" && !isCallResult(ht, errResult(r), localHead, 1) {
					continue
				}
				v := r.Results[0]
				fs := hf.AtRefined(r.Block())
				if isCallResult(ht, errResult(r), localHead, 1) && fs.Has(an.NE(ht.Of(ht.Deref(errResult(r))), "nil")) {
					continue // the re-read itself failed: its error is returned
				}
				nRet++
				switch {
				case isCallResult(ht, v, localHead, 0) && isCallResult(ht, errResult(r), localHead, 1):
					// `return s.localHead(ctx)`: the adopted head re-read, but handed out without looking at it —
					// when the adoption failed this is the old head, possibly expired (finding F19)
					c.Fail("C19.b", "expired-head-not-returned", "the head Head() re-reads after an update is handed out only when it is not expired (a failed re-initialisation leaves the expired head in place: that is an error, not a head)", headFn, r, "returns localHead() as it is", fs)
				case isCallResult(ht, v, localHead, 0) && ht.ErrShape(errResult(r)) == "nil":
					// the re-read head returned with an explicit nil: only when the re-read succeeded and what it
					// found is not expired — an expired head here means the re-initialisation did not go through
					// (finding F19: the result of the adoption used to be dropped and the expired head handed out)
					var lc *ssa.Call
					for _, x := range callsTo(headFn, localHead) {
						lc = x
					}
					notExpired := false
					for _, ec := range callsTo(headFn, isExpired) {
						if len(ec.Call.Args) == 2 && isCallResult(ht, ec.Call.Args[0], localHead, 0) && strings.HasSuffix(an.Stable(ht.Of(ec.Call.Args[1])), "Params.trustingPeriod") && fs.Has(an.NotB(ht.Of(ec)+"#0")) {
							notExpired = true
						}
					}
					c.Check(notExpired, "C19.b", "expired-head-not-returned", "the head Head() re-reads after an update is handed out only when it is not expired (a failed re-initialisation leaves the expired head in place: that is an error, not a head)", headFn, r, "", fs)
					c.Check(lc != nil && fs.Has(an.EQ(ht.Of(lc)+"#1", "nil")), "C19.b", "head-returns-adopted", "after an update Head() returns the head that was actually adopted (re-read through localHead, read without error), not the candidate", headFn, r, "returns localHead(), nil", fs)
				case ht.Of(v) == ht.Of(nc)+"#0" && fs.Has(an.NotB(ht.Of(nc)+"#1")) && fs.Has(an.EQ(ht.Of(nc)+"#2", "nil")):
					c.Ok("C19.b", "head-returns-adopted", "without an update Head() returns the unchanged subjective head", headFn, r, "returns networkHead() (not updated)", fs)
				default:
					c.Fail("C19.b", "head-returns-adopted", "Head() returns with a nil error either the unchanged subjective head or the head re-read after adoption, never the candidate itself", headFn, r, "returns "+an.Stable(ht.Of(v)), fs)
				}
			}
			c.Min("C19.b", "successful returns of Syncer.Head", nRet, 2)
			// the candidate is offered for adoption before the re-read
			for _, lc := range callsTo(headFn, localHead) {
				c.Check((an.Flow{Fn: headFn}).MustPrecede(func(in ssa.Instruction) bool {
					call, isCall := in.(*ssa.Call)
					return isCall && an.StaticCallee(&call.Call) == incoming && ht.Of(call.Call.Args[2]) == ht.Of(nc)+"#0"
				}, lc), "C19.b", "adoption-before-reread", "the updated head is handed to incomingNetworkHead (verification + adoption) before the subjective head is re-read", headFn, lc, "", nil)
			}
		}
	}

	// --- C19.a expiry gate
	{
		t, ff := c.T(subj), c.F(subj)
		exps := callsTo(subj, isExpired)
		heads := callsTo(subj, wrapper)
		c.Min("C19.a", "isExpired tests in subjectiveHead", len(exps), 2)
		c.Min("C19.a", "head requests in subjectiveHead", len(heads), 1)
		if len(exps) >= 2 && len(heads) == 1 {
			hc := heads[0]
			newHead, hErr := t.Of(hc)+"#0", t.Of(hc)+"#1"
			var expLocal, expNew *ssa.Call
			var localErr string
			for _, e := range exps {
				switch {
				case t.Of(e.Call.Args[0]) == newHead:
					expNew = e
				case strings.Contains(t.Of(e.Call.Args[0]), "localHead"):
					expLocal = e
					localErr = strings.TrimSuffix(t.Of(e.Call.Args[0]), "#0") + "#1"
				}
			}
			if c.Check(expLocal != nil && expNew != nil, "C19.a", "two-expiry-tests", "expiry is tested for the local head and for the freshly requested head", subj, nil, "", nil) {
				okPeriod := t.Of(expLocal.Call.Args[1]) == "p0.Params.trustingPeriod" && t.Of(expNew.Call.Args[1]) == "p0.Params.trustingPeriod"
				c.Check(okPeriod, "C19.a", "trusting-period", "both expiry tests use the configured trusting period", subj, nil, "", nil)
				expiredL := an.B(t.Of(expLocal) + "#0")
				emptyS := an.B("errors.Is(" + localErr + ",header.ErrEmptyStore)")
				pr := ff.Prune(expiredL.Neg(), emptyS.Neg())
				c.Check(!pr.Reachable(hc.Block()), "C19.a", "request-only-when-needed", "subjective initialisation asks the trusted peers only when the local head is expired or the store is empty", subj, hc, "", nil)
				// … and it asks THEM: by the Exchange's contract a request that carries a trusted head goes to
				// the tracked (untrusted) peers and is only verified against that head — here an expired one
				{
					okPlain := false
					if n := len(hc.Call.Args); n > 0 {
						if k, isK := hc.Call.Args[n-1].(*ssa.Const); isK && k.IsNil() {
							okPlain = true
						}
					}
					c.Check(okPlain, "C19.a", "reinit-without-trusted-head", "the (re)initialisation request carries no options: it is answered by the trusted peers, not verified against the expired local head", subj, hc, "options "+t.Of(hc.Call.Args[len(hc.Call.Args)-1]), nil)
				}
				// a usable local head is returned as is
				for _, r := range pr.Returns() {
					if t.ErrShape(errResult(r)) == "nil" {
						c.Check(strings.Contains(t.Of(r.Results[0]), "localHead") && t.Of(r.Results[1]) == "const(false)", "C19.a", "local-head-returned", "a non-expired local head is returned without initialisation", subj, r, "", nil)
					}
				}
				expiredN := an.B(t.Of(expNew) + "#0")
				nInit := 0
				for _, r := range ff.Returns() {
					if t.Of(r.Results[0]) != newHead {
						continue
					}
					sh := t.ErrShape(errResult(r))
					fs := ff.AtInstr(r)
					if sh == "nil" {
						nInit++
						c.Check(fs.Has(expiredN.Neg()) && fs.Has(an.EQ(hErr, "nil")) && t.Of(r.Results[1]) == "const(true)", "C19.a", "adopt-only-unexpired", "a head from the trusted peers is adopted (initialised=true) only if it is itself not expired", subj, r, "", fs)
					}
				}
				c.Min("C19.a", "initialising returns", nInit, 1)
				prE := ff.Prune(an.EQ(hErr, "nil"), expiredN)
				for _, r := range prE.Returns() {
					if prE.AtInstr(r).Has(expiredN) {
						c.Check(t.ErrShape(errResult(r)) != "nil", "C19.a", "expired-answer-refused", "an expired head from the trusted peers makes initialisation fail with an error", subj, r, "", nil)
					}
				}
				prF := ff.Prune(an.NE(hErr, "nil"))
				for _, r := range prF.Returns() {
					if prF.AtInstr(r).Has(an.NE(hErr, "nil")) {
						c.Check(t.ErrShape(errResult(r)) != "nil", "C19.a", "request-error-refused", "a failed head request makes initialisation fail with an error", subj, r, "", nil)
					}
				}
			}
		}
	}

	// --- C19.b recency gate and no downgrade
	{
		t, ff := c.T(netHead), c.F(netHead)
		scs := callsTo(netHead, subj)
		rcs := callsTo(netHead, isRecent)
		hcs := callsTo(netHead, wrapper)
		c.Min("C19.b", "head requests in networkHead", len(hcs), 1)
		if len(scs) == 1 && len(rcs) >= 1 && len(hcs) == 1 {
			sc, hc := scs[0], hcs[0]
			sbj, initialized, sErr := t.Of(sc)+"#0", t.Of(sc)+"#1", t.Of(sc)+"#2"
			var recentC *ssa.Call
			for _, r := range rcs {
				if t.Of(r.Call.Args[0]) == sbj {
					recentC = r
				}
			}
			if c.Check(recentC != nil, "C19.b", "recency-of-subjective", "recency is tested on the subjective head", netHead, nil, "", nil) {
				recent := an.B(t.Of(recentC) + "#0")
				fs := ff.AtInstr(hc)
				c.Check(fs.Has(recent.Neg()) && fs.Has(an.NotB(initialized)) && fs.Has(an.EQ(sErr, "nil")), "C19.b", "request-only-when-stale", "the network is asked only when the subjective head is neither recent nor just initialised", netHead, hc, "", fs)
				// a recent head is returned without traffic
				pr := ff.Prune(recent)
				c.Check(!pr.Reachable(hc.Block()), "C19.b", "recent-no-traffic", "a recent subjective head is returned without a network request", netHead, hc, "", nil)
			}
			// WithTrustedHead(sbjHead)
			okOpt := false
			for _, o := range an.VariadicArgs(hc.Call.Args[len(hc.Call.Args)-1]) {
				v := an.Unwrap(o)
				if ct, isCT := v.(*ssa.ChangeType); isCT {
					v = ct.X
				}
				if call, isCall := v.(*ssa.Call); isCall && an.StaticCallee(&call.Call) == withTrusted && t.Of(call.Call.Args[0]) == sbj {
					okOpt = true
				}
			}
			c.Check(okOpt, "C19.b", "trusted-head-option", "the request carries WithTrustedHead(current subjective head), so the Exchange verifies the answer against it", netHead, hc, "", nil)
			newHead := t.Of(hc) + "#0"
			// adoption only when strictly higher
			for _, slc := range callsTo(netHead, setLocal) {
				fs := ff.AtRefined(slc.Block())
				c.Check(t.Of(slc.Call.Args[2]) == newHead && fs.Has(an.LT("Height("+sbj+")", "Height("+newHead+")")), "C19.b", "no-downgrade", "a requested head becomes the sync target only when it is strictly higher than the subjective head", netHead, slc, "", fs)
			}
			nUpd, nKeep := 0, 0
			for _, r := range ff.Returns() {
				r0, r1 := t.Of(r.Results[0]), t.Of(r.Results[1])
				sh := t.ErrShape(errResult(r))
				fs := ff.AtRefined(r.Block())
				switch {
				case r0 == newHead:
					nUpd++
					c.Check(sh == "nil" && r1 == "const(true)" && fs.Has(an.LT("Height("+sbj+")", "Height("+newHead+")")) && (an.Flow{Fn: netHead}).MustPrecede(an.IsCallTo(setLocal), r), "C19.b", "updated-return",
						"the new head is returned as 'updated' only after it was adopted, and only when strictly higher", netHead, r, "", fs)
				case r0 == sbj && sh == "nil":
					nKeep++
					c.Check(r1 == "const(false)" || r1 == initialized, "C19.b", "keeps-subjective", "otherwise the current subjective head is returned unchanged (no update reported unless just initialised)", netHead, r, "returns ("+r0+", "+r1+")", fs)
				}
			}
			c.Min("C19.b", "updating returns", nUpd, 1)
			c.Min("C19.b", "returns keeping the subjective head", nKeep, 2)
			// a failed request keeps the subjective head with nil error
			if ex, isOK := firstErrPhi(netHead, hc); isOK {
				prF := ff.Prune(an.NE(t.Of(ex), "nil"))
				for _, r := range prF.Returns() {
					if prF.AtInstr(r).Has(an.NE(t.Of(ex), "nil")) {
						c.Check(t.Of(r.Results[0]) == sbj && t.ErrShape(errResult(r)) == "nil", "C19.b", "failed-request-keeps-head", "when the request (or the bifurcation of its answer) fails, the subjective head is returned with a nil error", netHead, r, "", nil)
					}
				}
			}
		} else {
			c.Undecided("C19.b", "shape", "networkHead calls subjectiveHead once, tests recency and requests once", netHead, nil, "unexpected call structure")
		}
	}

	// --- C19.c single flight
	{
		nDirect := 0
		for _, fn := range p.RepoFuncs() {
			if an.Enclosing(fn).Pkg != wrapper.Pkg {
				continue
			}
			t := c.T(fn)
			an.Instrs(fn, func(in ssa.Instruction) {
				call, isCall := in.(*ssa.Call)
				if !isCall || !call.Call.IsInvoke() || call.Call.Method.Name() != "Head" {
					return
				}
				recv := an.Stable(t.Of(call.Call.Value))
				ty := call.Call.Value.Type().String()
				if strings.Contains(ty, "header.Store[") || strings.Contains(ty, "go-header.Store[") {
					return // the local store's head
				}
				nDirect++
				c.Check(fn == wrapper && strings.HasSuffix(recv, ".head"), "C19.c", "getter-head-only-in-wrapper:"+an.FuncName(fn), "the getter's Head is invoked only inside the single-flight wrapper", fn, call, "receiver "+recv+" ("+ty+")", nil)
			})
		}
		c.Min("C19.c", "invocations of the getter's Head in package sync", nDirect, 1)
		t, ff := c.T(wrapper), c.F(wrapper)
		lk, ul := mutexOp(t, "headMu", "Lock"), mutexOp(t, "headMu", "Unlock")
		var under *ssa.Call
		an.Instrs(wrapper, func(in ssa.Instruction) {
			if call, isCall := in.(*ssa.Call); isCall && call.Call.IsInvoke() && call.Call.Method.Name() == "Head" {
				under = call
			}
		})
		if under == nil {
			return
		}
		// election: the load of headCh, the test and the store of the new channel are under one lock section
		var loadCh ssa.Instruction
		var storeCh []*ssa.Store
		an.Instrs(wrapper, func(in ssa.Instruction) {
			switch x := in.(type) {
			case *ssa.UnOp:
				if fa, isFA := x.X.(*ssa.FieldAddr); isFA && fieldName(fa) == "headCh" && loadCh == nil {
					loadCh = x
				}
			case *ssa.Store:
				if fa, isFA := x.Addr.(*ssa.FieldAddr); isFA && fieldName(fa) == "headCh" {
					storeCh = append(storeCh, x)
				}
			}
		})
		okEl := loadCh != nil && len(storeCh) >= 2 && an.LockHeld(wrapper, lk, ul, loadCh, nil)
		var create *ssa.Store
		for _, s := range storeCh {
			if _, isMk := s.Val.(*ssa.MakeChan); isMk {
				create = s
			}
			okEl = okEl && an.LockHeld(wrapper, lk, ul, s, nil)
		}
		if okEl && create != nil {
			okEl = (an.Flow{Fn: wrapper}).Between(loadCh, create, ul) == nil
		} else {
			okEl = false
		}
		c.Check(okEl, "C19.c", "election-one-section", "reading the in-flight channel and installing a new one happen in one critical section (one leader at a time)", wrapper, loadCh, "", nil)
		// only the leader calls the underlying Head, without the lock
		fsU := ff.AtInstr(under)
		leader := false
		for _, f := range fsU {
			if f.Op == "EQ" && f.Pos && (f.A == "nil" || f.B == "nil") && strings.Contains(f.A+f.B, "headCh") {
				leader = true
			}
		}
		c.Check(leader && !an.LockHeld(wrapper, lk, ul, under, nil), "C19.c", "only-leader-requests", "only the caller that found no request in flight calls the underlying Head, and not while holding the mutex", wrapper, under, "", fsU)
		// results stored under the mutex before close(doneCh)
		var closeC *ssa.Call
		var resStores []*ssa.Store
		an.Instrs(wrapper, func(in ssa.Instruction) {
			if call, isCall := in.(*ssa.Call); isCall {
				if b, isB := call.Call.Value.(*ssa.Builtin); isB && b.Name() == "close" {
					closeC = call
				}
			}
			if s, isSt := in.(*ssa.Store); isSt {
				if fa, isFA := s.Addr.(*ssa.FieldAddr); isFA && (fieldName(fa) == "resHead" || fieldName(fa) == "resErr") {
					resStores = append(resStores, s)
				}
			}
		})
		okPub := closeC != nil && len(resStores) == 2
		for _, s := range resStores {
			okPub = okPub && an.LockHeld(wrapper, lk, ul, s, nil) && (an.Flow{Fn: wrapper}).MustPrecede(func(in ssa.Instruction) bool { return in == ssa.Instruction(s) }, closeC) &&
				strings.HasPrefix(t.Of(s.Val), t.Of(under))
		}
		c.Check(okPub, "C19.c", "publish-then-close", "the leader stores the result of the underlying Head under the mutex before it closes the in-flight channel", wrapper, closeC, "", nil)
		// followers
		var sel *ssa.Select
		an.Instrs(wrapper, func(in ssa.Instruction) {
			if s, isSel := in.(*ssa.Select); isSel {
				sel = s
			}
		})
		okF := sel != nil
		if okF {
			doneIdx, ctxIdx := -1, -1
			for i, s := range sel.States {
				if call, isCall := s.Chan.(*ssa.Call); isCall && call.Call.IsInvoke() && call.Call.Method.Name() == "Done" {
					ctxIdx = i
				} else {
					doneIdx = i
				}
			}
			okF = doneIdx >= 0 && ctxIdx >= 0
			for _, r := range ff.Returns() {
				fs := ff.AtInstr(r)
				if fs.Has(an.EQ(t.Of(sel)+"#0", itoa(doneIdx))) {
					v0 := an.Stable(t.Of(r.Results[0]))
					okF = okF && strings.Contains(v0, "resHead")
					for _, rv := range r.Results {
						if u, isU := t.Deref(rv).(*ssa.UnOp); isU {
							okF = okF && an.LockHeld(wrapper, lk, ul, u, nil)
						}
					}
				}
				if fs.Has(an.EQ(t.Of(sel)+"#0", itoa(ctxIdx))) {
					okF = okF && strings.HasPrefix(t.ErrShape(errResult(r)), "prop(invoke:Err")
				}
			}
		}
		c.Check(okF, "C19.c", "followers-share-result", "followers wait for the in-flight channel (or their own context) and then read the shared result under the mutex", wrapper, sel, "", nil)
		checkSharedResultSameOptions(c, "C19.c", wrapper)
	}

	// --- C19.d comparison shapes
	{
		t, ff := c.T(isExpired), c.F(isExpired)
		pr := ff.Prune(an.B("IsZero(p0)"))
		for _, r := range pr.Returns() {
			c.Check(t.Of(r.Results[0]) == "const(false)", "C19.d", "zero-not-expired", "a zero header is never expired", isExpired, r, "", nil)
		}
		okShape := false
		for _, r := range ff.Prune(an.NotB("IsZero(p0)")).Returns() {
			if bo, isBO := r.Results[0].(*ssa.BinOp); isBO {
				f := t.Cond(bo)
				if f.Op == "LT" && f.Pos && f.A == "0" && strings.HasPrefix(f.B, "call:time.Since@") {
					for _, side := range []ssa.Value{bo.X, bo.Y} {
						if call, isCall := side.(*ssa.Call); isCall && len(call.Call.Args) == 1 && t.Of(call.Call.Args[0]) == "time.Add(Time(p0),p1)" {
							okShape = true
						}
					}
				}
			}
		}
		c.Check(okShape, "C19.d", "expired-shape", "isExpired is time.Since(header.Time().Add(period)) > 0", isExpired, nil, "", nil)
		rt, rf := c.T(isRecent), c.F(isRecent)
		okR := false
		for _, r := range rf.Returns() {
			if bo, isBO := r.Results[0].(*ssa.BinOp); isBO {
				f := rt.Cond(bo)
				if f.Op == "LT" && !f.Pos && f.A == "0" && strings.HasPrefix(f.B, "call:time.Since@") { // since <= 0
					for _, side := range []ssa.Value{bo.X, bo.Y} {
						if call, isCall := side.(*ssa.Call); isCall && len(call.Call.Args) == 1 && strings.HasPrefix(rt.Of(call.Call.Args[0]), "time.Add(Time(p0),") {
							okR = true
						}
					}
				}
			}
		}
		c.Check(okR, "C19.d", "recent-shape", "isRecent is time.Since(header.Time().Add(threshold)) <= 0", isRecent, nil, "", nil)
		// an unset (zero) recency threshold means "three block times", whatever the order and number of
		// the options that set block time and threshold: the default is taken where the threshold is
		// used (isRecent), or once in NewSyncer after every option was applied
		okDefault, where := false, ""
		an.Instrs(isRecent, func(in ssa.Instruction) {
			call, isCall := in.(*ssa.Call)
			if !isCall || an.StaticFullName(&call.Call) != "(time.Time).Add" || len(call.Call.Args) != 2 {
				return
			}
			ph, isPhi := call.Call.Args[1].(*ssa.Phi)
			if !isPhi {
				return
			}
			for i, e := range ph.Edges {
				ef := rf.EdgeFacts(ph.Block().Preds[i], ph.Block())
				et := rt.Of(e)
				if strings.Contains(et, "p1") && et != "p1" {
					for _, f := range ef {
						if f.Op == "EQ" && f.Pos && ((f.A == "0" && f.B == "p2") || (f.A == "p2" && f.B == "0")) {
							okDefault, where = true, "in isRecent"
						}
					}
				}
			}
		})
		if newSyncer := p.Func("sync", "NewSyncer"); !okDefault && newSyncer != nil {
			nt := c.T(newSyncer)
			an.Instrs(newSyncer, func(in ssa.Instruction) {
				if st, isSt := in.(*ssa.Store); isSt {
					if fa, isFA := st.Addr.(*ssa.FieldAddr); isFA && isFieldOf(fa, nil, "recencyThreshold") && strings.Contains(nt.Of(st.Val), "blockTime") {
						okDefault, where = true, "in NewSyncer"
					}
				}
			})
		}
		c.Check(okDefault, "C19.d", "recency-default-at-use", "a zero recency threshold is replaced by three block times where it is used (or once after all options were applied), not inside one of the options", isRecent, nil, where, nil)
	}
}

// firstErrPhi finds the phi that merges the error of call with later reassignments (err = …).
func firstErrPhi(fn *ssa.Function, call *ssa.Call) (*ssa.Phi, bool) {
	if call.Referrers() == nil {
		return nil, false
	}
	for _, r := range *call.Referrers() {
		ex, ok := r.(*ssa.Extract)
		if !ok || ex.Referrers() == nil || !an.IsErrorType(ex.Type()) {
			continue
		}
		for _, rr := range *ex.Referrers() {
			if ph, ok := rr.(*ssa.Phi); ok {
				return ph, true
			}
		}
	}
	return nil, false
}
