package rules

import (
	"golang.org/x/tools/go/ssa"

	"hdrcheck/an"
)

// checkDeleteCrashOrder (C06.e): a head-side DeleteRange removes the headers [from, head] in
// ascending order and lowers the stored head pointer afterwards. Unless the removals and the pointer
// write are one datastore batch, every write boundary in between is a state in which Head still
// resolves to the old (still stored) head while heights from `from` upwards are gone: a Store reopened
// on it reports a [Tail, Head] range with a hole. The clause therefore asks for one of
//
//	(a) the head pointer is written before the first removal, or
//	(b) DeleteRange itself opens the write batch that covers both the removals and the pointer write.
//
// (A tail-side deletion is not affected in this way: the tail pointer names the first removed header,
// a reopened Store finds it dangling and recovers; removal in ascending order keeps [newTail, Head]
// whole.)
func checkDeleteCrashOrder(c *an.Ctx, id string) {
	p := c.P
	// the sequential driver removes its whole range in ONE write batch (opened once, before the first
	// per-height step, not in a loop): on a datastore with effective batches a crash then sees either
	// nothing or everything of the range removed
	if seq, step, wb := p.Method("store", "Store", "deleteSequential"), p.Method("store", "Store", "deleteSingle"), p.Method("store", "Store", "withWriteBatch"); c.Need(seq, id, "store.(*Store).deleteSequential") && c.Need(step, id, "store.(*Store).deleteSingle") && c.Need(wb, id, "store.(*Store).withWriteBatch") {
		opens, steps := callsTo(seq, wb), callsTo(seq, step)
		ok := len(opens) == 1 && len(steps) >= 1
		detail := ""
		if ok {
			if blockReaches(opens[0].Block(), opens[0].Block()) {
				ok, detail = false, "the batch is opened inside a loop"
			}
			for _, s := range steps {
				if !(an.Flow{Fn: seq}).MustPrecede(func(in ssa.Instruction) bool { return in == ssa.Instruction(opens[0]) }, s) {
					ok, detail = false, "a per-height step is not preceded by the opening of the batch"
				}
			}
		} else {
			detail = "write batches opened here: " + itoa(len(opens)) + ", per-height steps here: " + itoa(len(steps))
		}
		c.Check(ok, id, "sequential-deletion-one-batch", "the sequential deletion driver opens one write batch for its whole range, before the first per-height step", seq, nil, detail, nil)
	}
	del := p.Method("store", "Store", "DeleteRange")
	raw := p.Method("store", "Store", "deleteRangeRaw")
	setHead := p.Method("store", "Store", "setHead")
	withBatch := p.Method("store", "Store", "withWriteBatch")
	if !c.Need(del, id, "store.(*Store).DeleteRange") || !c.Need(raw, id, "store.(*Store).deleteRangeRaw") || !c.Need(setHead, id, "store.(*Store).setHead") {
		return
	}
	fl := an.Flow{Fn: del}
	shs := callsTo(del, setHead)
	c.Min(id, "head pointer writes in DeleteRange", len(shs), 1)
	for _, sh := range shs {
		after := false
		for _, dr := range callsTo(del, raw) {
			if fl.CanReach(dr, sh) {
				after = true
			}
		}
		covered := false
		if withBatch != nil {
			for _, wb := range callsTo(del, withBatch) {
				ok := true
				for _, dr := range callsTo(del, raw) {
					if fl.CanReach(dr, sh) && !fl.MustPrecede(func(in ssa.Instruction) bool { return in == ssa.Instruction(wb) }, dr) {
						ok = false
					}
				}
				covered = covered || ok
			}
		}
		c.Check(!after || covered, id, "head-side-delete-crash-ordered",
			"a head-side deletion lowers the stored head pointer before it removes headers, or removes them and moves the pointer in one write batch: otherwise a crash in between leaves Head above a hole",
			del, sh, "the head pointer is written after the removals, outside any batch that covers both", nil)
	}
}
