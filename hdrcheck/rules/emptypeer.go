package rules

import (
	"strings"

	"golang.org/x/tools/go/ssa"

	"hdrcheck/an"
)

// checkPeerReturnedOnEmptyResponse (C18.d, finding F31): "… including peers that answer NOT_FOUND, answer only a
// prefix, time out once or disconnect". doRequest tells three failures apart: NOT_FOUND (the peer has not got
// the range yet), an EMPTY response (nothing was read: the stream was reset, the request timed out before the
// first header, the peer could not be reached) and anything else (the peer is blocked). For the first two the
// request goes back to the queue and the peer's score is lowered — they are not held against the peer. A
// peer that is not blocked and not returned to the session's queue is lost for the rest of the session: if
// it is the only one holding the range, the session cannot finish although the peer would serve the very
// next request. So the exits of doRequest under an empty response, like the ones under NOT_FOUND, are
// preceded by the push of the peer.
func checkPeerReturnedOnEmptyResponse(c *an.Ctx, id string, doReq *ssa.Function, isPush an.InstrPred) {
	dt, df := c.T(doReq), c.F(doReq)
	var emptyFact *an.Fact
	for _, f := range condFacts(dt) {
		if f.Op == "B" && strings.HasPrefix(f.A, "errors.Is(") && strings.HasSuffix(f.A, ".errEmptyResponse)") {
			g := an.B(f.A)
			emptyFact = &g
		}
	}
	if !c.Check(emptyFact != nil, id, "peer-returned-on-empty-response", "doRequest tells an empty response apart", doReq, nil, "no errors.Is(err, errEmptyResponse) test", nil) {
		return
	}
	pr := df.Prune(*emptyFact)
	fl := an.Flow{Fn: doReq, Skip: pr.Removed}
	n := 0
	for _, r := range pr.Returns() {
		fs := pr.AtInstr(r)
		requeued := false
		for _, f := range fs {
			if f.Op == "EQ" && f.Pos && strings.Contains(f.A+f.B, "*ssa.Select") && (f.A == "1" || f.B == "1") {
				requeued = true
			}
		}
		if !requeued {
			continue
		}
		n++
		c.Check(fl.MustPrecede(isPush, r), id, "peer-returned-on-empty-response", "a peer whose request came back empty (a reset stream, a timeout before the first header, a failed dial) is not blocked and is pushed back to the session's queue like one that answered NOT_FOUND: otherwise a peer that fails once is lost for the session", doReq, r, "", fs)
	}
	c.Min(id, "empty-response exits of doRequest", n, 1)
}
