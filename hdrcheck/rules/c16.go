package rules

import (
	"strings"

	"golang.org/x/tools/go/ssa"

	"hdrcheck/an"
)

func init() {
	register(&Rule{
		ID: "C16",
		Explanation: "Decides, for the tail functions of the Syncer (everything reachable from subjectiveTail inside package sync, up to doSync): " +
			"(a) every integer division has a divisor proven non-zero by a dominating guard or by a parameter invariant computed from Parameters.Validate; " +
			"(b) every unsigned subtraction is proven not to wrap from dominating guards and monotone-loop invariants; signed→unsigned conversions are listed and either proven non-negative or covered by a named exception; " +
			"(c) every value returned by the estimation function is the constant 1 or a difference proven ≥ 1, and an explicit SyncFromHeight is returned only when > 0; " +
			"(d) DeleteRange(from.Height(), to.Height()) is dominated by from.Height() < to.Height(), the downward branch syncs (to, from], a zero old tail moves nothing; " +
			"(e) renewal and move happen only inside subjectiveTail, after a successful TryLock of tailMu with a deferred Unlock.",
		NotDecided: []string{
			"'no header younger than the pruning window is deleted' as a numeric statement: decided is that the window search refines its estimate in both directions and stops at the window cut (so the result does not depend on the estimate's accuracy), not the arithmetic of the estimates themselves",
			"gap-freedom of the Store after the move (C04/C08) and wedging of Head()/Start at run time",
		},
		Technique: "arithmetic-safety obligations (division, unsigned subtraction, conversion) discharged by a linear prover over guard facts + validated-parameter invariants; move-direction guards and lock-region rules",
		Trusted:   "go/types+go/ssa; integers read as mathematical integers in guard facts; Parameters are not mutated after NewSyncer",
		Run:       runC16,
	})
}

func runC16(c *an.Ctx) {
	p := c.P
	subj := p.Method("sync", "Syncer", "subjectiveTail")
	renew := p.Method("sync", "Syncer", "renewTail")
	move := p.Method("sync", "Syncer", "moveTail")
	doSync := p.Method("sync", "Syncer", "doSync")
	estimate := p.Method("sync", "Syncer", "estimateTailHeight")
	tailHeight := p.Method("sync", "Syncer", "tailHeight")
	ok := c.Need(subj, "C16.e", "sync.(*Syncer).subjectiveTail")
	ok = c.Need(renew, "C16.e", "sync.(*Syncer).renewTail") && ok
	ok = c.Need(move, "C16.d", "sync.(*Syncer).moveTail") && ok
	ok = c.Need(doSync, "C16.d", "sync.(*Syncer).doSync") && ok
	ok = c.Need(tailHeight, "C16.c", "sync.(*Syncer).tailHeight") && ok
	if estimate == nil || estimate.Blocks == nil {
		// the estimation may have been inlined into tailHeight: its obligations are then
		// evaluated on tailHeight's own returns (below)
		estimate = nil
	}
	if !ok {
		return
	}
	var stops []*ssa.Function
	stops = append(stops, doSync)
	for _, m := range []string{"Append", "Head"} {
		if f := p.Method("sync", "syncStore", m); f != nil {
			stops = append(stops, f)
		}
	}
	fns := reachableIn(c, []*ssa.Function{subj}, true, stops...)
	c.Note("tail functions analysed: %d", len(fns))

	// validated-parameter oracle for divisors that are loads of s.Params.<field>
	nonZero := func(term string) (bool, string) {
		const pre = "p0.Params."
		if len(term) > len(pre) && term[:len(pre)] == pre {
			field := term[len(pre):]
			okV, why := validatedNonZero(c, "sync", "Parameters", field)
			if !okV {
				return false, why
			}
			if !constructorValidates(c, p.Func("sync", "NewSyncer"), "sync", "Parameters") {
				return false, "NewSyncer does not fail on a Validate error"
			}
			return true, why
		}
		return false, ""
	}

	nDiv := checkArith(c, "C16.a", fns, map[string]bool{"div": true}, nonZero, nil)
	c.Min("C16.a", "integer divisions in the tail functions", nDiv, 2)

	nSub := checkArith(c, "C16.b", fns, map[string]bool{"usub": true}, nil, nil)
	c.Min("C16.b", "unsigned subtractions in the tail functions", nSub, 2)
	checkArith(c, "C16.b", fns, map[string]bool{"conv": true, "index": true, "slice": true, "makesize": true}, nil, []arithException{
		{Func: "sync.(*Syncer).estimateTailHeight", Match: "trustingPeriod", Reason: "a negative trustingPeriod yields a quotient that wraps to ≥ 2^63; the next guard (headersToRetain >= head.Height()) maps it to tail 1: no crash, no wrapped subtraction"},
		{Func: "sync.(*Syncer).tailHeight", Match: "trustingPeriod", Reason: "the same conversion when the estimation is written inside tailHeight: the wrapped quotient (≥ 2^63) is mapped to tail 1 by the next guard"},
		{Func: "sync.(*Syncer).findTailHeight", Match: "PruningWindow /", Reason: "a negative PruningWindow yields a quotient that wraps to ≥ 2^63; it only feeds the guarded subtraction checked under C16.b (usub)"},
	})

	// --- C16.c: results of the estimation function are >= 1
	nRet := 0
	if estimate != nil {
		et, ef := c.T(estimate), c.F(estimate)
		for _, r := range ef.Returns() {
			nRet++
			v := r.Results[0]
			okR := ef.ProveGE(r.Block(), et.Affine(v), an.Const(1), 0)
			c.Check(okR, "C16.c", "estimate>=1:"+et.Of(v), "every estimated tail height is proven ≥ 1", estimate, r, "returns "+et.Of(v), ef.AtInstr(r))
		}
	}
	tt, tf := c.T(tailHeight), c.F(tailHeight)
	for _, r := range tf.Returns() {
		if tt.ErrShape(errResult(r)) != "nil" {
			continue
		}
		v := r.Results[0]
		term := tt.Of(v)
		fromCall := false
		if ex, isEx := tt.Deref(v).(*ssa.Extract); isEx {
			_, fromCall = ex.Tuple.(*ssa.Call)
		}
		if cl, isCall := tt.Deref(v).(*ssa.Call); isCall && an.StaticCallee(&cl.Call) != nil {
			fromCall = true
		}
		switch {
		case term == "p0.Params.SyncFromHeight":
			c.Check(tf.ProveGE(r.Block(), tt.Affine(v), an.Const(1), 0), "C16.c", "explicit-height>=1", "a configured SyncFromHeight is used only when > 0", tailHeight, r, "", tf.AtInstr(r))
		case fromCall:
			// result of estimateTailHeight (checked above) or of findTailHeight (heights of stored headers)
			c.Ok("C16.c", "tailHeight-result:"+term, "tailHeight returns a configured, estimated or found height", tailHeight, r, "returns "+term, tf.AtInstr(r))
		default:
			// an estimate computed in place (the estimation inlined into tailHeight)
			nRet++
			c.Check(tf.ProveGE(r.Block(), tt.Affine(v), an.Const(1), 0), "C16.c", "estimate>=1:"+term, "every estimated tail height is proven ≥ 1", tailHeight, r, "returns "+term, tf.AtInstr(r))
		}
	}
	c.Min("C16.c", "returns of the estimation", nRet, 2)

	// the window-based search: the estimate it starts from lies within the chain (≤ head.Height(): a
	// height above the head cannot be fetched, tail renewal would fail on every Head()/Start), and the
	// refinement only walks up past headers that are older than the window cut
	if find := p.Method("sync", "Syncer", "findTailHeight"); c.Need(find, "C16.c", "sync.(*Syncer).findTailHeight") {
		checkExistingTailMovedBySearchOnly(c, "C16.c", tailHeight, find)
		checkFarEstimateAboveOldTail(c, "C16.c", find)
		ft, ff := c.T(find), c.F(find)
		var walk *ssa.Phi
		an.Instrs(find, func(in ssa.Instruction) {
			if ph, isPhi := in.(*ssa.Phi); isPhi {
				for _, e := range ph.Edges {
					if ft.Of(e) == "("+ft.Of(ph)+"+1)" {
						walk = ph
					}
				}
			}
		})
		if c.Check(walk != nil, "C16.c", "window-search-loop", "findTailHeight refines its estimate by a loop that steps the height up by one", find, nil, "", nil) {
			nStep, nInit := 0, 0
			stepUp := func(fs an.FactSet) {
				nStep++
				okDir := false
				for _, gc := range invokesOf(ft, "GetByHeight", nil) {
					if len(gc.Call.Args) != 2 || ft.Of(gc.Call.Args[1]) != ft.Of(walk) || !fs.Has(an.EQ(ft.Of(gc)+"#1", "nil")) {
						continue
					}
					for _, f := range fs {
						if f.Op == "LT" && f.Pos && stripUTC(f.A) == "Time("+ft.Of(gc)+"#0)" && strings.Contains(f.B, "Time(p3)") && strings.Contains(f.B, "-p0.Params.PruningWindow") {
							okDir = true
						}
					}
				}
				c.Check(okDir, "C16.c", "walk-up-only-past-older-headers", "the tail estimate is stepped up only past a stored header whose time is before head.Time() − PruningWindow (a header inside the window stops the walk and is kept)", find, walk, "", fs)
			}
			// the operands of the walk, through the merges of the loop body (`if !reached { h++ }` merges
			// the stepped and the unchanged height in front of the back edge): a step up, the unchanged
			// height, or an initial estimate
			var leaves func(v ssa.Value, fs an.FactSet, depth int)
			leaves = func(v ssa.Value, fs an.FactSet, depth int) {
				if v == ssa.Value(walk) {
					return // carried round the loop unchanged
				}
				if ft.Of(v) == "("+ft.Of(walk)+"+1)" {
					stepUp(fs)
					return
				}
				if ph, isPhi := v.(*ssa.Phi); isPhi && depth < 3 {
					for _, ie := range ff.PhiOperands(ph) {
						leaves(ie.Val, append(append(an.FactSet{}, fs...), ie.Facts...), depth+1)
					}
					return
				}
				// initial value: every way the estimate is computed stays ≤ head.Height()
				nInit++
				fs = append(append(an.FactSet{}, fs...), unsignedFacts(ft, v, 4)...)
				okB := ff.ProveGEFacts(fs, an.Var("Height(p3)", true), ft.Affine(v), 0)
				c.Check(okB, "C16.c", "estimate-within-chain:"+an.Stable(ft.Of(v)), "every estimate the window search starts from is proven ≤ head.Height() (header times may be spaced wider than the block time: halted chain)", find, walk, "estimate "+an.Stable(ft.Of(v)), fs)
				// … and ≥ 1: an estimate of 0 is at or below every old tail, both walks are skipped and
				// height 0 becomes the new tail (heights of real headers, old tail and head, are ≥ 1)
				fs1 := append(append(an.FactSet{}, fs...), an.GE("Height(p2)", "1"), an.GE("Height(p3)", "1"))
				okOne := ff.ProveGEFacts(fs1, ft.Affine(v), an.Const(1), 0)
				c.Check(okOne, "C16.c", "search-estimate>=1:"+an.Stable(ft.Of(v)), "every estimate the window search starts from is proven ≥ 1 (1 ≤ Tail)", find, walk, "estimate "+an.Stable(ft.Of(v)), fs1)
			}
			for _, pe := range ff.PhiOperands(walk) {
				leaves(pe.Val, pe.Facts, 0)
			}
			// the walk reads only heights the store already has: store.GetByHeight blocks on a height above
			// the store's own height (it waits for that header to be appended), and during Start nothing appends
			nRead := 0
			onStore := func(s string) bool { return s == "p0.store" || strings.HasPrefix(s, "p0.store.") }
			storeHeights := map[string]bool{}
			for _, hc := range invokesOf(ft, "Height", onStore) {
				storeHeights[ft.Of(hc)] = true
			}
			for _, gc := range invokesOf(ft, "GetByHeight", onStore) {
				if len(gc.Call.Args) != 2 || ft.Of(gc.Call.Args[1]) != ft.Of(walk) {
					continue
				}
				nRead++
				okStored := false
				fs := ff.AtInstr(gc)
				for _, f := range fs {
					if f.Op != "LT" {
						continue
					}
					isStoreHeight := func(s string) bool { return storeHeights[s] }
					// walk < store.Height()   or   !(store.Height() < walk)
					if (f.Pos && f.A == ft.Of(walk) && isStoreHeight(f.B)) || (!f.Pos && f.B == ft.Of(walk) && isStoreHeight(f.A)) {
						okStored = true
					}
				}
				c.Check(okStored, "C16.c", "walk-reads-only-stored-heights", "the window search asks the store only for heights not above the store's own height (a read above it would wait for a header nobody appends while Start/Head is computing the tail)", find, gc, "", fs)
				// … and not below the old tail: on a slow chain the estimate taken from the head lies below
				// it, those heights were pruned, the read fails and with it every later Head()/Start
				okLow := ff.ProveGE(gc.Block(), ft.Affine(gc.Call.Args[1]), an.Var("Height(p2)", true), 0)
				c.Check(okLow, "C16.c", "walk-reads-not-below-old-tail", "the window search asks the store only for heights at or above the old tail (what lies below it was pruned: the read fails and wedges Head()/Start)", find, gc, "", fs)
			}
			c.Min("C16.c", "store reads of the window search", nRead, 1)
			c.Min("C16.c", "by-height store reads of renewTail", checkStoreReadsBounded(c, "C16.c", renew), 1)
			checkTrustingPeriodValidated(c, "C16.f")
			checkRenewedTailStored(c, "C16.e", renew)
			checkHeadRequestCapScope(c, "C16.e")
			checkTailFromVerifiedHead(c, "C16.e")
			c.Min("C16.c", "upward steps of the window search", nStep, 1)
			checkWindowSearchWalksDown(c, "C16.c", find, walk)
			c.Min("C16.c", "estimates feeding the window search", nInit, 1)
		}
	}

	// --- C16.d move direction
	mt, mf := c.T(move), c.F(move)
	fromH, toH := "Height(p2)", "Height(p3)"
	dels := invokesOf(mt, "DeleteRange", nil)
	c.Min("C16.d", "DeleteRange calls in moveTail", len(dels), 1)
	for _, d := range dels {
		fs := mf.AtInstr(d)
		args := d.Call.Args
		okArgs := len(args) == 3 && mt.Of(args[1]) == fromH && mt.Of(args[2]) == toH
		c.Check(okArgs && fs.Has(an.LT(fromH, toH)) && fs.Has(an.NotB("IsZero(p2)")), "C16.d", "prune-up",
			"pruning deletes [oldTail.Height(), newTail.Height()) only when oldTail is set and strictly below newTail", move, d,
			"args ("+mt.Of(args[1])+", "+mt.Of(args[2])+")", fs)
		// the range handed to DeleteRange ends inside the stored chain: DeleteRange refuses a tail-side
		// range that ends above head+1, and a new tail above the store's head is what a node sees that
		// was offline for longer than the pruning window
		okEnd := false
		if len(args) == 3 {
			onStore := func(s string) bool { return s == "p0.store" || strings.HasPrefix(s, "p0.store.") }
			for _, hc := range invokesOf(mt, "Height", onStore) {
				if mf.ProveGEFacts(fs, mt.Affine(hc).Add(an.Const(1)), mt.Affine(args[2]), 0) {
					okEnd = true
				}
			}
		}
		c.Check(okEnd, "C16.d", "prune-range-within-store", "the range handed to DeleteRange ends at or below the store's head+1 (a new tail above everything stored must not make the pruning, and with it Head()/Start, fail)", move, d,
			"end "+an.Stable(mt.Of(args[len(args)-1]))+" is not bounded by the store's height", fs)
	}
	syncs := callsTo(move, doSync)
	c.Min("C16.d", "doSync calls in moveTail", len(syncs), 1)
	for _, s := range syncs {
		fs := mf.AtInstr(s)
		args := s.Call.Args // recv, ctx, fromHead, toHead
		okArgs := len(args) == 4 && mt.Of(args[2]) == "p3" && mt.Of(args[3]) == "p2"
		c.Check(okArgs && fs.Has(an.LT(toH, fromH)) && fs.Has(an.NotB("IsZero(p2)")), "C16.d", "sync-down",
			"moving the tail down syncs (newTail, oldTail] only when newTail is strictly below a set oldTail", move, s, "", fs)
	}

	// --- C16.e serialised
	st, sf := c.T(subj), c.F(subj)
	try := mutexOp(st, "tailMu", "TryLock")
	var tryCall *ssa.Call
	an.Instrs(subj, func(in ssa.Instruction) {
		if call, ok := in.(*ssa.Call); ok && try(in) {
			tryCall = call
		}
	})
	if !c.Check(tryCall != nil, "C16.e", "trylock", "subjectiveTail takes tailMu with TryLock", subj, nil, found(tryCall != nil), nil) {
		return
	}
	locked := an.B(st.Of(tryCall))
	unlockDeferred := false
	an.Instrs(subj, func(in ssa.Instruction) {
		if d, ok := in.(*ssa.Defer); ok && mutexOp(st, "tailMu", "Unlock")(d) && sf.AtInstr(d).Has(locked) {
			unlockDeferred = true
		}
	})
	c.Check(unlockDeferred, "C16.e", "deferred-unlock", "tailMu is released by a deferred Unlock registered right after the successful TryLock", subj, tryCall, "", nil)
	for _, callee := range []*ssa.Function{renew, move} {
		calls := callsTo(subj, callee)
		c.Min("C16.e", "calls of "+an.FuncName(callee)+" in subjectiveTail", len(calls), 1)
		for _, call := range calls {
			fs := sf.AtInstr(call)
			c.Check(fs.Has(locked), "C16.e", "under-tailMu:"+an.FuncName(callee), "tail renewal and tail move run only while tailMu is held", subj, call, "", fs)
		}
		// who-may-call: only subjectiveTail
		for _, caller := range c.P.CG().Callers(callee) {
			c.Check(caller == subj, "C16.e", "only-caller:"+an.FuncName(callee)+"<-"+an.FuncName(caller),
				"tail renewal / move are called only from subjectiveTail (which serialises them)", caller, nil, "caller "+an.FuncName(caller), nil)
		}
	}
}
