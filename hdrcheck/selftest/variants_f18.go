package selftest

// Finding F18: the lookup after the subscription (C12.a).
func init() {
	const st = "store/store.go"
	const hs = "store/heightsub.go"
	const waitCall = "\terr := s.heightSub.wait(ctx, height, func() bool {\n\t\t// the header may have been appended above a gap after the lookup above\n\t\t_, err := s.getByHeight(ctx, height)\n\t\treturn err == nil\n\t})\n"
	const checkBlock = "\tif stored != nil && stored() {\n\t\t// no need to keep the request, the header is there\n\t\ths.heightSubsLk.Lock()\n\t\tif curr, ok := hs.heightSubs[height]; ok && curr == sac {\n\t\t\ths.notify(height, false)\n\t\t}\n\t\ths.heightSubsLk.Unlock()\n\t\treturn errElapsedHeight\n\t}\n\n"
	add(
		Variant{Prop: "C12", Name: "f18-no-lookup-after-the-subscription", File: st, Expect: "C12.a",
			Old: waitCall, New: "\terr := s.heightSub.wait(ctx, height, nil)\n"},
		Variant{Prop: "C12", Name: "f18-check-of-another-height", File: st, Expect: "C12.a",
			Old: waitCall, New: "\terr := s.heightSub.wait(ctx, height, func() bool {\n\t\t_, err := s.getByHeight(ctx, height-1)\n\t\treturn err == nil\n\t})\n"},
		Variant{Prop: "C12", Name: "f18-check-result-inverted", File: st, Expect: "C12.a",
			Old: waitCall, New: "\terr := s.heightSub.wait(ctx, height, func() bool {\n\t\t_, err := s.getByHeight(ctx, height)\n\t\treturn err != nil\n\t})\n"},
		Variant{Prop: "C12", Name: "f18-check-runs-before-the-registration", File: hs, Expect: "C12.a",
			Old: checkBlock, New: "",
			More: []Edit{{File: hs, Old: "\tsac, ok := hs.heightSubs[height]\n\tif !ok {\n\t\tsac = &sub{", New: "\tif stored != nil && stored() {\n\t\ths.heightSubsLk.Unlock()\n\t\treturn errElapsedHeight\n\t}\n\n\tsac, ok := hs.heightSubs[height]\n\tif !ok {\n\t\tsac = &sub{"}}},
		Variant{Prop: "C12", Name: "f18-found-header-still-awaited", File: hs, Expect: "C12.a",
			Old: checkBlock, New: "\tif stored != nil && stored() {\n\t\tlog.Debugw(\"header is there already\", \"height\", height)\n\t}\n\n"},
		Variant{Prop: "C12", Name: "benign-f18-check-as-two-ifs", File: hs,
			Old: "\tif stored != nil && stored() {\n", New: "\tif stored == nil {\n\t\t// nothing to look at\n\t} else if stored() {\n"},
	)
}
