package selftest

func init() {
	const st = "store/store.go"
	const ba = "store/batch.go"
	const hs = "store/heightsub.go"
	const sd = "store/store_delete.go"
	add(
		Variant{Prop: "C17", Name: "append-writes-pending-directly", File: st, Expect: "C17.a",
			Old: "\tlh := len(headers)\n\tif lh == 0 {\n\t\treturn nil\n\t}\n", New: "\tlh := len(headers)\n\tif lh == 0 {\n\t\treturn nil\n\t}\n\ts.pending.Append(headers...)\n"},
		Variant{Prop: "C17", Name: "head-advanced-by-reader", File: st, Expect: "C17.a",
			Old: "func (s *Store[H]) Height() uint64 {\n\treturn s.heightSub.Height()", New: "func (s *Store[H]) Height() uint64 {\n\ts.advanceHead(context.Background())\n\treturn s.heightSub.Height()"},
		Variant{Prop: "C17", Name: "second-flush-loop", File: st, Expect: "C17.a",
			Old: "\tgo s.flushLoop(ctx)\n\treturn nil", New: "\tgo s.flushLoop(ctx)\n\tgo s.flushLoop(ctx)\n\treturn nil"},
		Variant{Prop: "C17", Name: "sync-flushes-inline", File: st, Expect: "C17.a",
			Old: "func (s *Store[H]) Sync(ctx context.Context) error {\n\twaitCh := make(chan struct{})", New: "func (s *Store[H]) Sync(ctx context.Context) error {\n\tif err := s.flush(ctx, s.pending.GetAll()...); err == nil {\n\t\ts.pending.Reset()\n\t}\n\twaitCh := make(chan struct{})"},
		Variant{Prop: "C17", Name: "height-stored-directly", File: hs, Expect: "C17.b",
			Old: "\t\tif curr >= height {\n\t\t\treturn\n\t\t}\n\t\tif !hs.height.CompareAndSwap(curr, height) {\n\t\t\tcontinue\n\t\t}", New: "\t\tif curr == height {\n\t\t\treturn\n\t\t}\n\t\ths.height.Store(height)"},
		Variant{Prop: "C17", Name: "cas-can-lower", File: hs, Expect: "C17.b",
			Old: "\t\tif curr >= height {\n\t\t\treturn\n\t\t}", New: "\t\tif curr == height {\n\t\t\treturn\n\t\t}"},
		Variant{Prop: "C17", Name: "deinit-lowers-height-with-init", File: st, Expect: "C17.b",
			Old: "\ts.tailHeader.Store(nil)\n\ts.heightSub.SetHeight(0)", New: "\ts.tailHeader.Store(nil)\n\ts.heightSub.Init(0)"},
		Variant{Prop: "C17", Name: "delete-without-sync", File: sd, Expect: "C17.c",
			Old: "\terr := s.Sync(ctx)\n\tif err != nil {\n\t\treturn err\n\t}\n\n\t// load current head and tail", New: "\tvar err error\n\n\t// load current head and tail"},
		Variant{Prop: "C17", Name: "batch-read-without-lock", File: ba, Expect: "C17.d",
			Old: "func (b *batch[H]) GetByHeight(height uint64) H {\n\tb.lk.RLock()\n\tdefer b.lk.RUnlock()\n", New: "func (b *batch[H]) GetByHeight(height uint64) H {\n"},
		Variant{Prop: "C17", Name: "batch-write-under-read-lock", File: ba, Expect: "C17.d",
			Old: "func (b *batch[H]) Append(headers ...H) {\n\tb.lk.Lock()\n\tdefer b.lk.Unlock()", New: "func (b *batch[H]) Append(headers ...H) {\n\tb.lk.RLock()\n\tdefer b.lk.RUnlock()"},
		Variant{Prop: "C17", Name: "batch-map-read-outside", File: st, Expect: "C17.d",
			Old: "\tif h := s.pending.GetByHeight(height); !h.IsZero() {\n\t\treturn h, nil\n\t}\n\n\tctx, done := s.withReadTransaction(ctx)", New: "\tif h := s.pending.headers[height]; !h.IsZero() {\n\t\treturn h, nil\n\t}\n\n\tctx, done := s.withReadTransaction(ctx)"},
		Variant{Prop: "C17", Name: "head-advanced-before-append", File: st, Expect: "C17.e",
			Old: "\t\t// add headers to the pending and ensure they are accessible\n\t\ts.pending.Append(headers...)", New: "\t\ts.advanceHead(ctx)\n\t\t// add headers to the pending and ensure they are accessible\n\t\ts.pending.Append(headers...)"},
		// benign
		Variant{Prop: "C17", Name: "benign-explicit-unlock", File: ba,
			Old: "func (b *batch[H]) Len() int {\n\tb.lk.RLock()\n\tdefer b.lk.RUnlock()\n\treturn len(b.headers)", New: "func (b *batch[H]) Len() int {\n\tb.lk.RLock()\n\tn := len(b.headers)\n\tb.lk.RUnlock()\n\treturn n"},
		Variant{Prop: "C17", Name: "benign-cas-guard-commuted", File: hs,
			Old: "\t\tif curr >= height {\n\t\t\treturn\n\t\t}", New: "\t\tif height <= curr {\n\t\t\treturn\n\t\t}"},
	)
}
