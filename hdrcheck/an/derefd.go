package an

import "golang.org/x/tools/go/ssa"

// derefdBefore: the pointer v has been dereferenced — a field or an element of it addressed, which panics
// on a nil pointer — in a block that dominates the end of pred (pred itself included): control cannot leave
// pred with v == nil. A merge of such a value with a nil constant (a spliced-in helper answering nil on one
// way out and a pointer it has just written through on the other) is told apart by its nil-ness.
func (ff *FuncFacts) derefdBefore(v ssa.Value, pred *ssa.BasicBlock) bool {
	refs := v.Referrers()
	if refs == nil {
		return false
	}
	for _, r := range *refs {
		switch x := r.(type) {
		case *ssa.FieldAddr:
			if x.X != v {
				continue
			}
		case *ssa.IndexAddr:
			if x.X != v {
				continue
			}
		default:
			continue
		}
		if b := r.Block(); b == pred || ff.Dominates(b, pred) {
			return true
		}
	}
	return false
}
