package rules

import (
	"strings"

	"golang.org/x/tools/go/ssa"

	"hdrcheck/an"
)

// checkRequestsUnderTimeout (C13.d): "… and fail with an error when no trusted peer does". A trusted peer
// that accepts the stream and never answers is bounded by nothing but the request's context (through the
// stream deadline that sendMessage takes from it) — the caller's context may have no deadline at all. Every
// request performRequest makes, from whichever goroutine, runs under the context that performRequest
// derived with the request timeout; a "fast path" that asks a peer with the caller's context hangs with it.
func checkRequestsUnderTimeout(c *an.Ctx, id string, perform, request *ssa.Function) {
	rule := "every request of performRequest runs under the context derived with Params.RequestTimeout (a silent trusted peer makes the call fail after the timeout, not hang)"
	fns := append([]*ssa.Function{perform}, perform.AnonFuncs...)
	n := 0
	for _, fn := range fns {
		for _, rc := range callsTo(fn, request) {
			if len(rc.Call.Args) < 2 {
				continue
			}
			n++
			c.Check(underRequestTimeout(c, fn, rc.Call.Args[1], 0), id, "request-under-timeout", rule, fn, rc, "ctx "+an.Stable(c.T(fn).Of(rc.Call.Args[1])), nil)
		}
	}
	c.Min(id, "requests made by performRequest", n, 1)
}

// underRequestTimeout: the context value v (in fn) is the result of context.WithTimeout / WithDeadline
// with the request timeout, possibly through further derivations, a local, or a variable captured from
// the enclosing function.
func underRequestTimeout(c *an.Ctx, fn *ssa.Function, v ssa.Value, depth int) bool {
	if v == nil || depth > 8 {
		return false
	}
	t := c.T(fn)
	switch x := v.(type) {
	case *ssa.Extract:
		call, ok := x.Tuple.(*ssa.Call)
		if !ok || x.Index != 0 || len(call.Call.Args) == 0 {
			return false
		}
		name := an.StaticFullName(&call.Call)
		switch {
		case strings.HasPrefix(name, "context.WithTimeout") && len(call.Call.Args) >= 2 && strings.HasSuffix(an.Stable(t.Of(call.Call.Args[1])), "Params.RequestTimeout"):
			return true
		case strings.HasPrefix(name, "context.WithDeadline") && len(call.Call.Args) >= 2:
			dl := an.Stable(t.Of(call.Call.Args[1]))
			if strings.Contains(dl, "time.Now") && strings.Contains(dl, "Add") && strings.Contains(dl, "Params.RequestTimeout") {
				return true
			}
		}
		// a further derivation (WithCancel, WithValue, a tracer's Start, …): look at its parent
		return underRequestTimeout(c, fn, call.Call.Args[0], depth+1)
	case *ssa.Call:
		if len(x.Call.Args) > 0 && (strings.HasPrefix(an.StaticFullName(&x.Call), "context.With") || (x.Call.IsInvoke() && x.Call.Method.Name() == "Start")) {
			return underRequestTimeout(c, fn, x.Call.Args[0], depth+1)
		}
	case *ssa.Phi:
		for _, e := range x.Edges {
			if !underRequestTimeout(c, fn, e, depth+1) {
				return false
			}
		}
		return len(x.Edges) > 0
	case *ssa.UnOp:
		switch cell := x.X.(type) {
		case *ssa.Alloc:
			sts := an.AllocStores(cell)
			for _, s := range sts {
				if !underRequestTimeout(c, s.Parent(), s.Val, depth+1) {
					return false
				}
			}
			return len(sts) > 0
		case *ssa.FreeVar:
			// the cell the enclosing function bound to this variable
			parent := fn.Parent()
			if parent == nil {
				return false
			}
			idx := -1
			for i, fv := range fn.FreeVars {
				if fv == cell {
					idx = i
				}
			}
			ok := false
			an.Instrs(parent, func(in ssa.Instruction) {
				mc, isMC := in.(*ssa.MakeClosure)
				if !isMC || mc.Fn != ssa.Value(fn) || idx < 0 || idx >= len(mc.Bindings) {
					return
				}
				if al, isAl := mc.Bindings[idx].(*ssa.Alloc); isAl {
					sts := an.AllocStores(al)
					all := len(sts) > 0
					for _, s := range sts {
						all = all && underRequestTimeout(c, s.Parent(), s.Val, depth+1)
					}
					ok = all
				}
			})
			return ok
		}
	case *ssa.FreeVar:
		parent := fn.Parent()
		if parent == nil {
			return false
		}
		for i, fv := range fn.FreeVars {
			if fv != x {
				continue
			}
			ok := false
			an.Instrs(parent, func(in ssa.Instruction) {
				if mc, isMC := in.(*ssa.MakeClosure); isMC && mc.Fn == ssa.Value(fn) && i < len(mc.Bindings) {
					ok = underRequestTimeout(c, parent, mc.Bindings[i], depth+1)
				}
			})
			return ok
		}
	}
	return false
}
