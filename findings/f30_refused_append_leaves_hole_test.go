package sync

// Demonstration for finding F30 (property C03).
// Copy into /repo/sync and run: go test ./sync -run 'TestF30' -count=1
//
// F30: syncStore.Append moves its cached head to the last header BEFORE it hands the batch to the Store and did
//      not take it back when that call failed. Store.Append fails with the caller's ctx.Err() when the write
//      queue (16 batches) is full and the context is done (or with errStoppedStore). setLocalHead only logs
//      the error and then reads the already advanced cached head: "store head ≥ new head: already synced,
//      do nothing" — the header is neither stored nor put into pending, incomingNetworkHead returns nil, and
//      the next adjacent gossip head passes the adjacency guard against the cached head and is written ON TOP
//      OF THE HOLE: "the Store stays one gap-free run".
//      Input (all real components): a store with WriteBatchSize(1) over a datastore whose Batch() is held, so
//      the write loop sits in the flush of header 2; gossip heads 3..18 fill the 16 queue slots; head 19 is
//      delivered with a cancelled (validation) context; the disk is released; head 20 is delivered.
//      Before the repair: header 20 is stored, header 19 is not, and nothing remembers 19.
//      Noticed by an eighth-round seeder (C03, and independently C07). Rule C03.c
//      `head-cache-restored-on-failed-append`; repaired by the /repo fix commit aeb0db8:
//      the cached head is swapped back when the Store refuses the batch, so 19 and then 20 go to the pending
//      ranges and are fetched by the sync loop like any head learned while the Store is behind.

import (
	"context"
	gosync "sync"
	"testing"
	"time"

	"github.com/ipfs/go-datastore"
	dssync "github.com/ipfs/go-datastore/sync"
	"github.com/stretchr/testify/require"

	"github.com/celestiaorg/go-header/headertest"
	"github.com/celestiaorg/go-header/local"
	"github.com/celestiaorg/go-header/store"
)

// f30GatedDS holds back the next Batch() call: a disk that is busy for a while.
type f30GatedDS struct {
	datastore.Batching

	mu      gosync.Mutex
	armed   bool
	entered chan struct{}
	release chan struct{}
}

func (g *f30GatedDS) arm() {
	g.mu.Lock()
	defer g.mu.Unlock()
	g.armed = true
	g.entered = make(chan struct{})
	g.release = make(chan struct{})
}

func (g *f30GatedDS) Batch(ctx context.Context) (datastore.Batch, error) {
	g.mu.Lock()
	armed, entered, release := g.armed, g.entered, g.release
	g.armed = false
	g.mu.Unlock()
	if armed {
		close(entered)
		<-release
	}
	return g.Batching.Batch(ctx)
}

func TestF30_RefusedAppendLeavesNoHoleInTheStore(t *testing.T) {
	ctx, cancel := context.WithTimeout(context.Background(), time.Second*20)
	t.Cleanup(cancel)

	suite := headertest.NewTestSuite(t)
	head := suite.Head() // height 1

	gated := &f30GatedDS{Batching: dssync.MutexWrap(datastore.NewMapDatastore())}
	localStore := store.NewTestStore(t, ctx, gated, head, store.WithWriteBatchSize(1))
	remoteStore := newTestStore(t, ctx, head)

	syncer, err := NewSyncer(
		local.NewExchange(remoteStore),
		localStore,
		headertest.NewDummySubscriber(),
	)
	require.NoError(t, err)

	headers := suite.GenDummyHeaders(19) // heights 2..20
	at := func(height uint64) *headertest.DummyHeader { return headers[height-2] }

	// the disk is busy: the write loop sits in the flush of header 2 ...
	gated.arm()
	require.NoError(t, syncer.incomingNetworkHead(ctx, at(2)))
	select {
	case <-gated.entered:
	case <-ctx.Done():
		t.Fatal("write loop did not reach the datastore")
	}
	// ... and 16 more gossip heads fill the Store's write queue
	for height := uint64(3); height <= 18; height++ {
		require.NoError(t, syncer.incomingNetworkHead(ctx, at(height)))
	}

	// header 19 is delivered by a handler whose (validation) context has ended
	expired, expire := context.WithCancel(ctx)
	expire()
	err = syncer.incomingNetworkHead(expired, at(19))
	// the header was accepted although the Store refused the write
	t.Logf("incomingNetworkHead(19) with the queue full and the context done: err=%v", err)

	// the disk is back, the next head arrives
	close(gated.release)
	require.NoError(t, localStore.Sync(ctx))
	require.NoError(t, syncer.incomingNetworkHead(ctx, at(20)))
	require.NoError(t, localStore.Sync(ctx))

	// the Store is one gap-free run: no header is stored above a height that is missing
	missing := uint64(0)
	for height := uint64(2); height <= 20; height++ {
		stored, err := localStore.Has(ctx, at(height).Hash())
		require.NoError(t, err)
		if !stored && missing == 0 {
			missing = height
		}
		if stored && missing != 0 {
			t.Fatalf("header %d is stored above the hole at height %d", height, missing)
		}
	}
	// and nothing was forgotten: what the Store refused is pending for the sync loop
	require.EqualValues(t, 20, syncer.pending.Head().Height())
}
