package rules

import (
	"go/token"

	"golang.org/x/tools/go/ssa"

	"hdrcheck/an"
)

// idxLoop is a loop that walks a slice by an index enumerating 0,1,2,… .
type idxLoop struct {
	Header *ssa.BasicBlock
	Phi    *ssa.Phi
	K      ssa.Value // the index value used for element access
	Slice  ssa.Value
	Elems  []*ssa.UnOp // loads of slice[K]
	InLoop an.Fact     // K < len(slice)
}

// indexLoops finds the index-walk loops of a function.
func indexLoops(t *an.Terms) []*idxLoop {
	var out []*idxLoop
	byPhi := map[*ssa.Phi]*idxLoop{}
	an.Instrs(t.Fn, func(in ssa.Instruction) {
		ia, ok := in.(*ssa.IndexAddr)
		if !ok {
			return
		}
		ph, ok := indexWalk(ia.Index)
		if !ok {
			return
		}
		l := byPhi[ph]
		if l == nil {
			l = &idxLoop{Header: ph.Block(), Phi: ph, K: ia.Index, Slice: ia.X}
			l.InLoop = an.LT(t.Of(ia.Index), "len("+t.Of(ia.X)+")")
			byPhi[ph] = l
			out = append(out, l)
		}
		if t.Of(ia.X) != t.Of(l.Slice) || ia.Referrers() == nil {
			return
		}
		for _, r := range *ia.Referrers() {
			if u, ok := r.(*ssa.UnOp); ok && u.Op == token.MUL {
				l.Elems = append(l.Elems, u)
			}
		}
	})
	return out
}

// loopOver returns the index loop walking the slice with the given term.
func loopOver(t *an.Terms, sliceTerm string) *idxLoop {
	for _, l := range indexLoops(t) {
		if t.Of(l.Slice) == sliceTerm {
			return l
		}
	}
	return nil
}

// isElem reports whether v is a load of the loop's current element.
func (l *idxLoop) isElem(v ssa.Value) bool {
	for _, e := range l.Elems {
		if ssa.Value(e) == v {
			return true
		}
	}
	return false
}

// accumulator describes `acc := make(..., 0, n); for … { acc = append(acc, x) }`.
type accumulator struct {
	Phi     *ssa.Phi
	Append  *ssa.Call
	Added   ssa.Value // the single appended value
	FreshOK bool      // initial value is a fresh slice of length 0 (or nil)
}

// findAccumulator finds the loop-carried slice of a loop header that is extended by one append per iteration.
func findAccumulator(ff *an.FuncFacts, header *ssa.BasicBlock) *accumulator {
	for _, in := range header.Instrs {
		ph, ok := in.(*ssa.Phi)
		if !ok {
			break
		}
		acc := &accumulator{Phi: ph}
		okShape := false
		for i, e := range ph.Edges {
			pred := header.Preds[i]
			if ff.Dominates(header, pred) {
				call, ok := e.(*ssa.Call)
				if !ok {
					okShape = false
					break
				}
				b, isB := call.Call.Value.(*ssa.Builtin)
				if !isB || b.Name() != "append" || call.Call.Args[0] != ssa.Value(ph) {
					okShape = false
					break
				}
				args := an.VariadicArgs(call.Call.Args[1])
				if len(args) != 1 {
					okShape = false
					break
				}
				acc.Append, acc.Added = call, args[0]
				okShape = true
			} else {
				switch iv := e.(type) {
				case *ssa.MakeSlice:
					if c, ok := iv.Len.(*ssa.Const); ok && c.Value != nil && c.Value.ExactString() == "0" {
						acc.FreshOK = true
					}
				case *ssa.Const:
					acc.FreshOK = iv.Value == nil
				}
			}
		}
		if okShape && acc.Append != nil {
			return acc
		}
	}
	return nil
}
