package rules

import (
	"fmt"
	"go/types"
	"sort"
	"strings"

	"golang.org/x/tools/go/ssa"

	"hdrcheck/an"
)

// validatedNonZero reports whether `Validate` of the parameter struct rejects a
// zero value of the field: under the assumption field==0 (or field<=0) every
// reachable return of Validate returns a non-nil error. The invariant is
// computed from the code, not listed.
func validatedNonZero(c *an.Ctx, short, typ, field string) (bool, string) {
	val := c.P.Method(short, typ, "Validate")
	if val == nil || val.Blocks == nil {
		return false, "no Validate method on " + typ
	}
	t, ff := c.T(val), c.F(val)
	var assume []an.Fact
	for _, b := range val.Blocks {
		if len(b.Instrs) == 0 {
			continue
		}
		iff, ok := b.Instrs[len(b.Instrs)-1].(*ssa.If)
		if !ok {
			continue
		}
		f := t.Cond(iff.Cond)
		// EQ(p0.field…,0) or LE(p0.field,0)
		isField := func(s string) bool {
			return s == "p0."+field || strings.HasPrefix(s, "p0."+field+"@")
		}
		switch {
		case f.Op == "EQ" && ((isField(f.A) && f.B == "0") || (isField(f.B) && f.A == "0")):
			if !f.Pos {
				f = f.Neg()
			}
			assume = append(assume, f)
		case f.Op == "LT" && f.A == "0" && isField(f.B): // 0 < x ; x<=0 is its negation
			if f.Pos {
				f = f.Neg()
			}
			assume = append(assume, f)
		}
	}
	if len(assume) == 0 {
		return false, fmt.Sprintf("%s.Validate has no test of %s against zero", typ, field)
	}
	pr := ff.Prune(assume...)
	n := 0
	for _, r := range pr.Returns() {
		n++
		if t.ErrShape(errResult(r)) == "nil" {
			return false, fmt.Sprintf("%s.Validate can return nil with %s == 0", typ, field)
		}
	}
	if n == 0 {
		return false, "Validate has no reachable return under the assumption"
	}
	return true, fmt.Sprintf("validated-parameter invariant: %s.Validate returns an error when %s is zero", typ, field)
}

// constructorValidates: the constructor calls Validate on the parameter value
// it stores and returns an error when Validate fails.
func constructorValidates(c *an.Ctx, ctor *ssa.Function, short, typ string) bool {
	val := c.P.Method(short, typ, "Validate")
	if ctor == nil || val == nil {
		return false
	}
	t, ff := c.T(ctor), c.F(ctor)
	ok := false
	an.Instrs(ctor, func(in ssa.Instruction) {
		call, isCall := in.(*ssa.Call)
		if !isCall || an.StaticCallee(&call.Call) != val {
			return
		}
		pr := ff.Prune(an.NE(t.Of(call), "nil"))
		all := true
		n := 0
		for _, r := range pr.Returns() {
			n++
			if t.ErrShape(errResult(r)) == "nil" {
				all = false
			}
		}
		if all && n > 0 {
			ok = true
		}
	})
	return ok
}

// arithException is one frozen, named exception of the arithmetic rule.
type arithException struct {
	Func   string // an.FuncName
	Match  string // substring of the site description
	Reason string
}

// checkArith runs the arithmetic-safety rule over fns and records one
// obligation per site. kinds selects the site kinds to arm.
func checkArith(c *an.Ctx, id string, fns []*ssa.Function, kinds map[string]bool, nonZero func(term string) (bool, string), exceptions []arithException) int {
	n := 0
	for _, fn := range fns {
		if fn == nil || fn.Blocks == nil {
			continue
		}
		ff := c.F(fn)
		for _, v := range an.DischargeArith(ff, nonZero) {
			if !kinds[v.Site.Kind] && v.Site.Kind != "sconv" && v.Site.Kind != "uwrap" {
				continue
			}
			n++
			key := fmt.Sprintf("%s:%s:%s", v.Site.Kind, an.FuncName(fn), v.Site.Desc)
			rule := arithRule(v.Site.Kind)
			if v.OK {
				c.Ok(id, key, rule, fn, v.Site.Instr, v.Why, ff.At(v.Site.Instr.Block()))
				continue
			}
			exc := false
			for _, e := range exceptions {
				if e.Func == an.FuncName(fn) && strings.Contains(v.Site.Desc, e.Match) {
					c.Ok(id, key, rule, fn, v.Site.Instr, "frozen exception: "+e.Reason, nil)
					exc = true
					break
				}
			}
			if !exc {
				c.Fail(id, key, rule, fn, v.Site.Instr, v.Why, ff.At(v.Site.Instr.Block()))
			}
		}
	}
	return n
}

func arithRule(kind string) string {
	switch kind {
	case "usub":
		return "an unsigned subtraction must be guarded so that it cannot wrap around"
	case "div":
		return "an integer division must have a divisor proven non-zero (local guard or validated parameter)"
	case "conv":
		return "a signed value converted to unsigned must be proven non-negative"
	case "uwrap":
		return "an unsigned sum or product with an operand that may be a constant at the top of the type's range wraps around; the value model reads integers without wrap-around, so such an operation needs the other operand proven zero"
	case "sconv":
		return "an integer conversion that can change the value (unsigned to signed, or narrowing) must have its operand proven in range when a decision depends on the result"
	case "index":
		return "an index must be proven within bounds"
	case "slice":
		return "slice bounds must be proven within range"
	case "makesize":
		return "an allocation size must be proven non-negative"
	}
	return kind
}

// reachableIn returns the functions of package pkgPath reachable from roots by
// static calls and closures (no go edges), excluding stop functions and what
// is only reachable through them.
func reachableIn(c *an.Ctx, roots []*ssa.Function, samePkg bool, stop ...*ssa.Function) []*ssa.Function {
	g := c.P.CG()
	stopSet := map[*ssa.Function]bool{}
	for _, s := range stop {
		stopSet[s] = true
	}
	seen := map[*ssa.Function]bool{}
	var out []*ssa.Function
	var walk func(f *ssa.Function)
	walk = func(f *ssa.Function) {
		if f == nil || seen[f] || stopSet[f] || f.Blocks == nil {
			return
		}
		if samePkg && len(roots) > 0 && an.Enclosing(f).Pkg != an.Enclosing(roots[0]).Pkg {
			return
		}
		seen[f] = true
		out = append(out, f)
		for _, cs := range g.Out[f] {
			if cs.Kind == "go" || cs.Method != nil {
				continue
			}
			walk(cs.Callee)
		}
	}
	for _, r := range roots {
		walk(r)
	}
	sort.Slice(out, func(i, j int) bool { return an.FuncName(out[i]) < an.FuncName(out[j]) })
	return out
}

// callsTo lists the call instructions in fn (not in nested closures) whose static callee is callee.
func callsTo(fn, callee *ssa.Function) []*ssa.Call {
	var out []*ssa.Call
	an.Instrs(fn, func(in ssa.Instruction) {
		if call, ok := in.(*ssa.Call); ok && callee != nil && an.StaticCallee(&call.Call) == callee {
			out = append(out, call)
		}
	})
	return out
}

// invokesOf lists interface-method invocations by name in fn whose receiver term satisfies recv (nil = any).
func invokesOf(t *an.Terms, method string, recv func(string) bool) []*ssa.Call {
	var out []*ssa.Call
	an.Instrs(t.Fn, func(in ssa.Instruction) {
		call, ok := in.(*ssa.Call)
		if !ok || !call.Call.IsInvoke() || call.Call.Method.Name() != method {
			return
		}
		if recv == nil || recv(t.Of(call.Call.Value)) {
			out = append(out, call)
		}
	})
	return out
}

// staticCallsNamed lists calls in fn whose callee has the given types.Func full name.
func staticCallsNamed(fn *ssa.Function, full string) []ssa.CallInstruction {
	var out []ssa.CallInstruction
	an.Calls(fn, func(ci ssa.CallInstruction) {
		if an.StaticFullName(ci.Common()) == full {
			out = append(out, ci)
		}
	})
	return out
}

// fieldOfRecv: v is a load of (or address of) field `name` of the method receiver p0.
func isRecvField(t *an.Terms, v ssa.Value, name string) bool {
	s := t.Of(v)
	return s == "p0."+name || s == "&p0."+name || strings.HasPrefix(s, "p0."+name+"@")
}

// mutexOp matches Lock/Unlock/RLock/RUnlock/TryLock on the receiver field `field`.
func mutexOp(t *an.Terms, field string, ops ...string) an.InstrPred {
	set := map[string]bool{}
	for _, o := range ops {
		set[o] = true
	}
	return func(in ssa.Instruction) bool {
		ci, ok := in.(ssa.CallInstruction)
		if !ok {
			return false
		}
		cc := ci.Common()
		full := an.StaticFullName(cc)
		if !strings.HasPrefix(full, "(*sync.Mutex).") && !strings.HasPrefix(full, "(*sync.RWMutex).") {
			return false
		}
		op := full[strings.LastIndex(full, ".")+1:]
		if !set[op] || len(cc.Args) == 0 {
			return false
		}
		return t.Of(cc.Args[0]) == "&p0."+field
	}
}

func typeIsNamed(tp types.Type, pkgSuffix, name string) bool {
	if p, ok := tp.(*types.Pointer); ok {
		tp = p.Elem()
	}
	n, ok := tp.(*types.Named)
	if !ok || n.Obj().Name() != name {
		return false
	}
	if n.Obj().Pkg() == nil {
		return pkgSuffix == ""
	}
	return strings.HasSuffix(n.Obj().Pkg().Path(), pkgSuffix)
}
