package sync

// Demonstration for finding F25 (property C15).
// Copy into /repo/sync and run: go test ./sync -run 'TestF25' -count=1
//
// F25: verifyBifurcating used whatever the getter answered for the intermediate height without comparing the
//      answer's height with the height it had asked for (p2p.Exchange.GetByHeight hands out headers[0] of the
//      response without looking at its height either). A trusted but lagging, faulty or lying getter that
//      answers the request for height 26 with the (valid, verifiable) header 86 had header 86 promoted to
//      subjective head — above the head 51 under examination: not an intermediate, "only ever promotes verified
//      intermediates" — and the re-based distance 51 − 86 wrapped around: the next request asked for height
//      2^63+68, and the search ended only because that height does not exist.
//      Noticed by a sixth-round seeder (C15). Rule C15.e `answer-height-is-requested-height`; repaired by the
//      /repo d7360fe: an answer at another height ends the search with an error
//      before anything is verified against it or promoted.

import (
	"context"
	"testing"
	"time"

	"github.com/stretchr/testify/require"

	"github.com/celestiaorg/go-header"
	"github.com/celestiaorg/go-header/headertest"
)

type f25ShiftedGetter struct {
	header.Getter[*headertest.DummyHeader]
	shift    uint64
	requests []uint64
}

func (g *f25ShiftedGetter) GetByHeight(ctx context.Context, h uint64) (*headertest.DummyHeader, error) {
	g.requests = append(g.requests, h)
	return g.Getter.GetByHeight(ctx, h+g.shift)
}

func TestF25_WrongHeightAnswerIsNotPromoted(t *testing.T) {
	ctx, cancel := context.WithTimeout(context.Background(), time.Second*5)
	t.Cleanup(cancel)
	suite := headertest.NewTestSuite(t)
	localStore := headertest.NewStore[*headertest.DummyHeader](t, suite, 1)
	subj := suite.Head()
	remoteStore := headertest.NewStore[*headertest.DummyHeader](t, headertest.NewTestSuite(t), 0)
	require.NoError(t, remoteStore.Append(ctx, subj))
	chain := suite.GenDummyHeaders(100)
	require.NoError(t, remoteStore.Append(ctx, chain...))
	newHead := chain[49] // height 51
	newHead.VerifyFailure = true
	getter := &f25ShiftedGetter{Getter: remoteStore, shift: 60}
	syncer, err := NewSyncer[*headertest.DummyHeader](getter, localStore, headertest.NewDummySubscriber())
	require.NoError(t, err)

	err = syncer.incomingNetworkHead(ctx, newHead)
	require.Error(t, err)
	t.Logf("err: %v; requests: %v", err, getter.requests)

	got, err := syncer.localHead(ctx)
	require.NoError(t, err)
	require.LessOrEqual(t, got.Height(), newHead.Height(),
		"a header above the head under examination (%d) was promoted to subjective head", newHead.Height())
	for _, h := range getter.requests {
		require.Less(t, h, newHead.Height(), "the search asked for a height outside (subjective head, new head)")
	}
}
