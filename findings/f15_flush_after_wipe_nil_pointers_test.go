package store

// Demonstration for finding F15 (properties C06 and C17).
// Copy into /repo/store and run: go test ./store -run 'TestF15' -count=1
//
// F15: Store.flush dereferences the head and tail pointers without a nil test
//      (`head := *s.contiguousHead.Load()`). They are nil after a whole-store DeleteRange (wipe →
//      deinit). An Append that is processed while such a deletion is finishing leaves its header
//      in the pending batch; the pointers are dropped afterwards; the next flush of that batch — on
//      Stop, or when the batch fills up — panics in the write-loop goroutine and takes the process
//      down. (`wipe` carries a TODO saying that calling deinit there is racy.)
//      Flagged by the nil-load sweep (a pointer loaded from an atomic.Pointer is dereferenced only
//      under a nil test) when the fourth seeding round put the Store's read path under it.

import (
	"context"
	"testing"
	"time"

	"github.com/ipfs/go-datastore"
	"github.com/ipfs/go-datastore/sync"
	"github.com/stretchr/testify/require"

	"github.com/celestiaorg/go-header/headertest"
)

func TestF15_StopAfterAnAppendRacingAWholeStoreDeletion(t *testing.T) {
	ctx, cancel := context.WithTimeout(context.Background(), 10*time.Second)
	t.Cleanup(cancel)
	suite := headertest.NewTestSuite(t)
	ds := sync.MutexWrap(datastore.NewMapDatastore())

	st, err := NewStore[*headertest.DummyHeader](ds, WithWriteBatchSize(5))
	require.NoError(t, err)
	require.NoError(t, st.Start(ctx))
	chain := append([]*headertest.DummyHeader{suite.Head()}, suite.GenDummyHeaders(4)...) // heights 1..5: one full batch
	require.NoError(t, st.Append(ctx, chain...))
	require.NoError(t, st.Sync(ctx))
	require.Zero(t, st.pending.Len(), "everything is flushed")
	next := suite.NextHeader() // height 6

	st.OnDelete(func(ctx context.Context, h uint64) error {
		if h == 5 {
			// an append that arrives while the whole-store deletion is finishing
			if err := st.Append(ctx, next); err != nil {
				return err
			}
			for st.pending.Len() == 0 {
				time.Sleep(time.Millisecond)
			}
		}
		return nil
	})
	require.NoError(t, st.DeleteRange(ctx, 1, 6))

	// Stop flushes what is pending: on the unrepaired tree the write loop panics here
	require.NoError(t, st.Stop(ctx))

	// and what was appended before Stop is there after the restart
	reopened, err := NewStore[*headertest.DummyHeader](ds, WithWriteBatchSize(5))
	require.NoError(t, err)
	require.NoError(t, reopened.Start(ctx))
	t.Cleanup(func() { _ = reopened.Stop(context.Background()) })
	got, err := reopened.GetByHeight(ctx, next.Height())
	require.NoError(t, err, "the header appended before Stop survives the restart")
	require.Equal(t, next.Hash(), got.Hash())
}
