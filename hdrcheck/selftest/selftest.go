// Package selftest validates the checker itself: broken variants of the
// repository (applied in memory as go/packages overlays, nothing is written
// under /repo) must make the named obligation fail, benign variants must leave
// the check silent.
package selftest

import (
	"encoding/json"
	"fmt"
	"os"
	"path/filepath"
	"sort"
	"strings"
	"sync"

	"hdrcheck/an"
	"hdrcheck/rules"
)

// Variant is one edit of the repository.
type Variant struct {
	Prop   string // property whose rule is exercised
	Name   string
	File   string // path relative to the repository
	Old    string // must occur exactly once in File
	New    string
	Expect string // obligation id that must newly fail ("C01.a"); "" = benign, nothing may newly fail
	// More edits applied together (same or other files).
	More []Edit
}

// Edit is an additional search/replace.
type Edit struct{ File, Old, New string }

var variants []Variant

func add(vs ...Variant) { variants = append(variants, vs...) }

// For returns the variants of a property.
func For(prop string) []Variant {
	var out []Variant
	for _, v := range variants {
		if prop == "all" || v.Prop == prop {
			out = append(out, v)
		}
	}
	return out
}

// failing runs the rule of prop on the (possibly overlaid) tree and returns the
// sorted keys of obligations that are not discharged, ignoring known findings
// (a variant is judged relative to the unmodified tree).
func failing(repo string, overlay map[string][]byte, prop string) ([]string, error) {
	p, err := an.LoadNormalized(repo, overlay, true)
	if err != nil {
		return nil, err
	}
	if prop == "any" {
		// every rule on one load: the union of what any property reports
		var keys []string
		for _, id := range rules.IDs() {
			ks, err := failingOn(p, id)
			if err != nil {
				return nil, err
			}
			keys = append(keys, ks...)
		}
		sort.Strings(keys)
		return keys, nil
	}
	return failingOn(p, prop)
}

func failingOn(p *an.Prog, prop string) ([]string, error) {
	r := rules.Get(prop)
	if r == nil {
		return nil, fmt.Errorf("no rule %s", prop)
	}
	ctx := an.NewCtx(p, prop, "selftest")
	func() {
		defer func() {
			if e := recover(); e != nil {
				ctx.Undecided(prop+".panic", "analyser-panic", "the analyser must not panic", nil, nil, fmt.Sprint(e))
			}
		}()
		rules.Execute(r, ctx)
	}()
	var keys []string
	for _, o := range ctx.Obls {
		if o.Status != an.Discharged {
			keys = append(keys, o.Key)
		}
	}
	sort.Strings(keys)
	return keys, nil
}

func overlayFor(repo string, v Variant) (map[string][]byte, string) {
	edits := append([]Edit{{v.File, v.Old, v.New}}, v.More...)
	ov := map[string][]byte{}
	for _, e := range edits {
		path := filepath.Join(repo, e.File)
		src, ok := ov[path]
		if !ok {
			b, err := os.ReadFile(path)
			if err != nil {
				return nil, "stale: " + err.Error()
			}
			src = b
		}
		if n := strings.Count(string(src), e.Old); n != 1 {
			return nil, fmt.Sprintf("stale: %q occurs %d times in %s", short(e.Old), n, e.File)
		}
		ov[path] = []byte(strings.Replace(string(src), e.Old, e.New, 1))
	}
	return ov, ""
}

func short(s string) string {
	s = strings.Join(strings.Fields(s), " ")
	if len(s) > 60 {
		return s[:60] + "…"
	}
	return s
}

type childResult struct {
	Keys  []string `json:"keys"`
	Stale string   `json:"stale,omitempty"`
	Err   string   `json:"err,omitempty"`
}

// Child runs one variant ("C01/3" or "C01/base") and prints a JSON result (debugging aid).
func Child(repo, spec string) int {
	res := runChild(repo, spec)
	b, _ := json.Marshal(res)
	fmt.Println("SELFTEST-RESULT " + string(b))
	return 0
}

func runChild(repo, spec string) (res childResult) {
	defer func() {
		if e := recover(); e != nil {
			res.Err = fmt.Sprint("panic: ", e)
		}
	}()
	parts := strings.SplitN(spec, "/", 2)
	prop := parts[0]
	if parts[1] == "base" {
		keys, err := failing(repo, nil, prop)
		if err != nil {
			res.Err = err.Error()
		}
		res.Keys = keys
		return res
	}
	var idx int
	fmt.Sscanf(parts[1], "%d", &idx)
	vs := For(prop)
	if idx < 0 || idx >= len(vs) {
		res.Err = "bad index"
		return res
	}
	ov, stale := overlayFor(repo, vs[idx])
	if stale != "" {
		res.Stale = stale
		return res
	}
	keys, err := failing(repo, ov, prop)
	if err != nil {
		res.Err = err.Error()
	}
	res.Keys = keys
	return res
}

// Summary of a self-test run (recorded in the evidence by the caller).
type Summary struct {
	Variants int      `json:"variants"`
	Broken   int      `json:"broken_variants_detected"`
	Benign   int      `json:"benign_variants_silent"`
	Stale    int      `json:"stale_variants_skipped"`
	Failures []string `json:"failures"`
	Lines    []string `json:"lines"`
}

// Run executes the self-test for a property id or "all".
func Run(repo, verif, id string, jobs int) (Summary, int) {
	var sum Summary
	props := []string{id}
	if id == "all" {
		props = rules.IDs()
	}
	type job struct {
		prop string
		idx  int
		v    Variant
	}
	var jobsList []job
	base := map[string]map[string]bool{}
	for _, p := range props {
		vs := For(p)
		if len(vs) == 0 {
			continue
		}
		for i, v := range vs {
			jobsList = append(jobsList, job{p, i, v})
		}
	}
	if len(jobsList) == 0 {
		return sum, 0
	}
	// baselines
	var mu sync.Mutex
	var wg sync.WaitGroup
	sem := make(chan struct{}, jobs)
	for _, p := range props {
		if len(For(p)) == 0 {
			continue
		}
		wg.Add(1)
		go func(p string) {
			defer wg.Done()
			sem <- struct{}{}
			defer func() { <-sem }()
			r := runChild(repo, p+"/base")
			mu.Lock()
			defer mu.Unlock()
			if r.Err != "" {
				sum.Failures = append(sum.Failures, p+"/base: "+r.Err)
				return
			}
			m := map[string]bool{}
			for _, k := range r.Keys {
				m[k] = true
			}
			base[p] = m
		}(p)
	}
	wg.Wait()
	results := make([]childResult, len(jobsList))
	for i, j := range jobsList {
		wg.Add(1)
		go func(i int, j job) {
			defer wg.Done()
			sem <- struct{}{}
			defer func() { <-sem }()
			results[i] = runChild(repo, fmt.Sprintf("%s/%d", j.prop, j.idx))
		}(i, j)
	}
	wg.Wait()
	for i, j := range jobsList {
		r := results[i]
		sum.Variants++
		tag := fmt.Sprintf("%s/%s", j.prop, j.v.Name)
		switch {
		case r.Stale != "":
			sum.Stale++
			sum.Lines = append(sum.Lines, "stale   "+tag+": "+r.Stale)
			continue
		case r.Err != "" && j.v.Expect != "":
			// a broken variant that no longer type-checks is a stale variant
			sum.Stale++
			sum.Lines = append(sum.Lines, "stale   "+tag+": does not load: "+short(r.Err))
			continue
		case r.Err != "":
			sum.Failures = append(sum.Failures, tag+": benign variant does not load: "+r.Err)
			continue
		}
		b := base[j.prop]
		var newKeys []string
		for _, k := range r.Keys {
			if !b[k] {
				newKeys = append(newKeys, k)
			}
		}
		if j.v.Expect == "" {
			if len(newKeys) == 0 {
				sum.Benign++
				sum.Lines = append(sum.Lines, "silent  "+tag)
			} else {
				sum.Failures = append(sum.Failures, tag+": benign variant raised "+strings.Join(newKeys, "; "))
			}
			continue
		}
		hit := false
		for _, k := range newKeys {
			if strings.HasPrefix(k, j.v.Expect+":") || strings.HasPrefix(k, j.v.Expect) {
				hit = true
			}
		}
		if hit {
			sum.Broken++
			sum.Lines = append(sum.Lines, "caught  "+tag+" → "+strings.Join(newKeys, "; "))
		} else {
			sum.Failures = append(sum.Failures, fmt.Sprintf("%s: broken variant NOT reported under %s (new failures: %v)", tag, j.v.Expect, newKeys))
		}
	}
	code := 0
	if len(sum.Failures) > 0 {
		code = 2
	}
	return sum, code
}

// Print writes the summary.
func (s Summary) Print() {
	for _, l := range s.Lines {
		fmt.Println("  selftest " + l)
	}
	for _, f := range s.Failures {
		fmt.Println("  selftest FAILURE " + f)
	}
	fmt.Printf("  selftest: %d variants, %d broken detected, %d benign silent, %d stale, %d failures\n",
		s.Variants, s.Broken, s.Benign, s.Stale, len(s.Failures))
}
