package selftest

func init() {
	const ex = "p2p/exchange.go"
	add(
		Variant{Prop: "C09", Name: "hard-failure-header-reported", File: ex, Expect: "C09.a",
			Old: "\t\t\t\t\tnewSpan.SetStatus(codes.Error, err.Error())\n\t\t\t\t\theaderRespCh <- headResp{h: zero}\n\t\t\t\t\treturn\n\t\t\t\t}\n\t\t\t}", New: "\t\t\t\t\tnewSpan.SetStatus(codes.Error, err.Error())\n\t\t\t\t\theaderRespCh <- headResp{h: headers[0]}\n\t\t\t\t\treturn\n\t\t\t\t}\n\t\t\t}"},
		Variant{Prop: "C09", Name: "verification-skipped", File: ex, Expect: "C09.a",
			Old: "\t\t\tif useTrackedPeers {\n\t\t\t\terr = header.Verify[H](reqParams.TrustedHead, headers[0])", New: "\t\t\tif useTrackedPeers && len(peers) > 1 {\n\t\t\t\terr = header.Verify[H](reqParams.TrustedHead, headers[0])"},
		Variant{Prop: "C09", Name: "verify-roles-swapped", File: ex, Expect: "C09.a",
			Old: "err = header.Verify[H](reqParams.TrustedHead, headers[0])", New: "err = header.Verify[H](headers[0], reqParams.TrustedHead)"},
		Variant{Prop: "C09", Name: "any-verify-error-is-soft", File: ex, Expect: "C09.a",
			Old: "\t\t\t\t\tif errors.As(err, &verErr) && verErr.SoftFailure {\n\t\t\t\t\t\tlog.Debugw(\"received head from tracked peer that soft-failed verification\"", New: "\t\t\t\t\tif errors.As(err, &verErr) {\n\t\t\t\t\t\tlog.Debugw(\"received head from tracked peer that soft-failed verification\""},
		Variant{Prop: "C09", Name: "soft-error-without-header", File: ex, Expect: "C09.a",
			Old: "\t\t\t\t\t\theaderRespCh <- headResp{h: headers[0], softErr: err}", New: "\t\t\t\t\t\theaderRespCh <- headResp{h: zero, softErr: err}"},
		Variant{Prop: "C09", Name: "tracked-flag-inverted", File: ex, Expect: "C09.a",
			Old: "\tuseTrackedPeers := !reqParams.TrustedHead.IsZero()", New: "\tuseTrackedPeers := reqParams.TrustedHead.IsZero()"},
		Variant{Prop: "C09", Name: "soft-error-of-other-hash", File: ex, Expect: "C09.b",
			Old: "\t\t\t\t\treturn res.h, softErrs[hash]\n", New: "\t\t\t\t\treturn res.h, softErrs[\"\"]\n"},
		Variant{Prop: "C09", Name: "fallback-drops-soft-error", File: ex, Expect: "C09.b",
			Old: "\treturn headers[0], softErrs[headers[0].Hash().String()]", New: "\treturn headers[0], nil"},
		Variant{Prop: "C09", Name: "soft-error-recorded-under-wrong-key", File: ex, Expect: "C09.b",
			Old: "\t\t\t\t\tsoftErrs[hash] = res.softErr", New: "\t\t\t\t\tsoftErrs[res.h.ChainID()] = res.softErr"},
		Variant{Prop: "C09", Name: "not-found-is-nil", File: ex, Expect: "C09.b",
			Old: "\t\treturn zero, header.ErrNotFound", New: "\t\treturn zero, nil"},
		Variant{Prop: "C09", Name: "quorum-off-by-one", File: ex, Expect: "C09.c",
			Old: "if counter[hash] >= minHeadResponses(len(peers)) {", New: "if counter[hash]+1 >= minHeadResponses(len(peers)) {"},
		Variant{Prop: "C09", Name: "quorum-of-received", File: ex, Expect: "C09.c",
			Old: "if counter[hash] >= minHeadResponses(len(peers)) {", New: "if counter[hash] >= minHeadResponses(len(headers)) {"},
		Variant{Prop: "C09", Name: "two-peers-need-one", File: ex, Expect: "C09.c",
			Old: "\tif numPeers <= 2 {\n\t\treturn numPeers\n\t}", New: "\tif numPeers <= 2 {\n\t\treturn 1\n\t}"},
		Variant{Prop: "C09", Name: "small-quorum-threshold-moved", File: ex, Expect: "C09.c",
			Old: "\tif numPeers <= 2 {\n\t\treturn numPeers\n\t}", New: "\tif numPeers <= 1 {\n\t\treturn numPeers\n\t}"},
		Variant{Prop: "C09", Name: "fallback-lowest", File: ex, Expect: "C09.d",
			Old: "\t\treturn headers[i].Height() > headers[j].Height()", New: "\t\treturn headers[i].Height() < headers[j].Height()"},
		// benign
		Variant{Prop: "C09", Name: "benign-quorum-commuted", File: ex,
			Old: "if counter[hash] >= minHeadResponses(len(peers)) {", New: "if minHeadResponses(len(peers)) <= counter[hash] {"},
		Variant{Prop: "C09", Name: "benign-sort-commuted", File: ex,
			Old: "\t\treturn headers[i].Height() > headers[j].Height()", New: "\t\treturn headers[j].Height() < headers[i].Height()"},
		Variant{Prop: "C09", Name: "benign-small-quorum-lt3", File: ex,
			Old: "\tif numPeers <= 2 {\n\t\treturn numPeers\n\t}", New: "\tif numPeers < 3 {\n\t\treturn numPeers\n\t}"},
	)
}
