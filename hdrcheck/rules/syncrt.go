package rules

import (
	"fmt"
	"strings"

	"golang.org/x/tools/go/ssa"

	"hdrcheck/an"
)

// checkPendingFirst: a flush moves headers from the pending batch to the datastore (commit first,
// reset of the batch afterwards). A reader that consults the batch BEFORE the datastore sees a header
// in one of the two at every moment; one that reads the datastore first and the batch afterwards can
// find it in neither, although it was present the whole time. The readers by hash and by height
// therefore look at the pending batch before any datastore tier (the in-memory header cache may come
// first: headers are immutable).
func checkPendingFirst(c *an.Ctx, id string) {
	p := c.P
	n := 0
	for _, name := range []string{"getByHeight", "Get", "Has"} {
		fn := p.Method("store", "Store", name)
		if !c.Need(fn, id, "store.(*Store)."+name) {
			continue
		}
		t := c.T(fn)
		fl := an.Flow{Fn: fn}
		isPending := func(in ssa.Instruction) bool {
			call, ok := in.(*ssa.Call)
			if !ok {
				return false
			}
			cal := an.StaticCallee(&call.Call)
			return cal != nil && strings.HasPrefix(an.FuncName(cal), "store.(*batch).") && len(call.Call.Args) > 0 && strings.HasSuffix(an.Stable(t.Of(call.Call.Args[0])), "p0.pending")
		}
		an.Instrs(fn, func(in ssa.Instruction) {
			call, ok := in.(*ssa.Call)
			if !ok {
				return
			}
			disk := ""
			if cal := an.StaticCallee(&call.Call); cal != nil {
				switch an.FuncName(cal) {
				case "store.(*heightIndexer).HashByHeight", "store.(*Store).get":
					disk = an.FuncName(cal)
				}
			}
			if full := an.StaticFullName(&call.Call); strings.Contains(full, "keytransform.Datastore).") && (strings.HasSuffix(full, ").Get") || strings.HasSuffix(full, ").Has")) {
				disk = full[strings.LastIndex(full, "keytransform"):]
			}
			if disk == "" {
				return
			}
			n++
			c.Check(fl.MustPrecede(isPending, call), id, "pending-before-disk:"+name+":"+disk, "a reader consults the pending batch before any datastore tier (a concurrent flush moves headers from the one to the other)", fn, call, "", nil)
		})
	}
	c.Min(id, "datastore reads of the by-hash/by-height readers", n, 3)
}

// checkSyncRoundTrip decides the handshake behind "every header whose Append has been followed by
// Sync is readable": Store.Sync is a round trip through the single writer —
//
//	Sync       makes a fresh channel, hands it to the write loop over s.syncCh and returns nil only
//	           after a receive from that very channel has completed (the write loop closed it);
//	flushLoop  closes a channel it received over s.syncCh only when a non-blocking receive on the
//	           write queue found it empty, and every batch it takes from the queue is handed to the
//	           step that puts it into the pending batch.
//
// A shortcut on either side ("nothing queued, nothing pending: return at once") misses the batch
// the write loop has taken off the queue but not yet made readable.
func checkSyncRoundTrip(c *an.Ctx, id string, syncFn, flushLoop *ssa.Function) {
	if !c.Need(syncFn, id, "store.(*Store).Sync") || !c.Need(flushLoop, id, "store.(*Store).flushLoop") {
		return
	}
	// --- Sync
	{
		t, ff := c.T(syncFn), c.F(syncFn)
		var fresh []*ssa.MakeChan
		var selects []*ssa.Select
		an.Instrs(syncFn, func(in ssa.Instruction) {
			switch x := in.(type) {
			case *ssa.MakeChan:
				fresh = append(fresh, x)
			case *ssa.Select:
				selects = append(selects, x)
			}
		})
		taken := func(fs an.FactSet, pred func(st *ssa.SelectState) bool) bool {
			for _, s := range selects {
				for k, st := range s.States {
					if pred(st) && fs.Has(an.EQ(t.Of(s)+"#0", fmt.Sprint(k))) {
						return true
					}
				}
			}
			return false
		}
		nNil := 0
		for _, r := range ff.Returns() {
			if t.ErrShape(errResult(r)) != "nil" {
				continue
			}
			nNil++
			fs := ff.AtInstr(r)
			ok := false
			for _, mc := range fresh {
				sent := taken(fs, func(st *ssa.SelectState) bool {
					return st.Send == ssa.Value(mc) && strings.HasPrefix(an.Stable(t.Of(st.Chan)), "p0.syncCh")
				})
				// a plain (non-select) send counts as well
				an.Instrs(syncFn, func(in ssa.Instruction) {
					if sd, isSend := in.(*ssa.Send); isSend && sd.X == ssa.Value(mc) && strings.HasPrefix(an.Stable(t.Of(sd.Chan)), "p0.syncCh") && ff.Dominates(sd.Block(), r.Block()) {
						sent = true
					}
				})
				acked := taken(fs, func(st *ssa.SelectState) bool { return st.Send == nil && st.Chan == ssa.Value(mc) })
				an.Instrs(syncFn, func(in ssa.Instruction) {
					if u, isU := in.(*ssa.UnOp); isU && u.X == ssa.Value(mc) && u.Op.String() == "<-" && ff.Dominates(u.Block(), r.Block()) {
						acked = true
					}
				})
				if sent && acked {
					ok = true
				}
			}
			c.Check(ok, id, "sync-round-trip", "Sync returns nil only after it handed a fresh channel to the write loop over syncCh and a receive from that channel completed (no shortcut past the single writer)", syncFn, r, "", fs)
		}
		c.Min(id, "successful returns of Sync", nNil, 1)
	}
	// --- flushLoop
	{
		t, ff := c.T(flushLoop), c.F(flushLoop)
		var selects []*ssa.Select
		an.Instrs(flushLoop, func(in ssa.Instruction) {
			if s, ok := in.(*ssa.Select); ok {
				selects = append(selects, s)
			}
		})
		// value received by state k of select s
		recvOf := func(s *ssa.Select, k int) ssa.Value {
			idx := 2
			for i, st := range s.States {
				if st.Send != nil {
					continue
				}
				if i == k {
					break
				}
				idx++
			}
			if s.Referrers() == nil {
				return nil
			}
			for _, r := range *s.Referrers() {
				if ex, ok := r.(*ssa.Extract); ok && ex.Index == idx {
					return ex
				}
			}
			return nil
		}
		isChan := func(v ssa.Value, field string) bool { return strings.HasPrefix(an.Stable(t.Of(v)), "p0."+field) }
		nClose, nTake := 0, 0
		an.Instrs(flushLoop, func(in ssa.Instruction) {
			call, ok := in.(*ssa.Call)
			if !ok {
				return
			}
			b, isB := call.Call.Value.(*ssa.Builtin)
			if !isB || b.Name() != "close" {
				return
			}
			// a channel received over syncCh?
			var from *ssa.Select
			for _, s := range selects {
				for k, st := range s.States {
					if st.Send == nil && isChan(st.Chan, "syncCh") && recvOf(s, k) == call.Call.Args[0] {
						from = s
					}
				}
			}
			if from == nil {
				return
			}
			nClose++
			fs := ff.AtInstr(call)
			drained := false
			for _, s := range selects {
				if s.Blocking || len(s.States) != 1 || s.States[0].Send != nil || !isChan(s.States[0].Chan, "writes") {
					continue
				}
				if fs.Has(an.NE(t.Of(s)+"#0", "0")) && ff.Dominates(s.Block(), call.Block()) {
					drained = true
				}
			}
			if !drained {
				// the same decision carried by a flag: `for drained := false; !drained; { select { case …:
				// …; default: drained = true } }; close(dn)` — the flag is known true at the close, and it
				// becomes true only on the default edge of the non-blocking receive
				an.Instrs(flushLoop, func(in2 ssa.Instruction) {
					ph, isPhi := in2.(*ssa.Phi)
					if !isPhi || drained || !fs.Has(an.B(t.Of(ph))) {
						return
					}
					okAll, nTrue := true, 0
					for i, e := range ph.Edges {
						if k, isK := e.(*ssa.Const); isK && k.Value != nil && k.Value.ExactString() == "false" {
							continue
						}
						if e == ssa.Value(ph) {
							continue // carried unchanged around the loop: inside the loop it is false
						}
						nTrue++
						ef := ff.EdgeFacts(ph.Block().Preds[i], ph.Block())
						okEdge := false
						for _, s := range selects {
							if !s.Blocking && len(s.States) == 1 && s.States[0].Send == nil && isChan(s.States[0].Chan, "writes") && ef.Has(an.NE(t.Of(s)+"#0", "0")) {
								okEdge = true
							}
						}
						okAll = okAll && okEdge
					}
					if okAll && nTrue > 0 {
						drained = true
					}
				})
			}
			c.Check(drained, id, "sync-ack-after-drain", "the write loop closes a Sync caller's channel only when a non-blocking receive has just found the write queue empty", flushLoop, call, "", fs)
		})
		c.Min(id, "acknowledgements of Sync in the write loop", nClose, 1)
		// every batch taken off the queue goes to the step that makes it readable
		g := c.P.CG()
		appends := func(f *ssa.Function) bool {
			for _, r := range reachableIn(c, []*ssa.Function{f}, true) {
				for _, cs := range g.Out[r] {
					if cs.Callee != nil && an.FuncName(cs.Callee) == "store.(*batch).Append" {
						return true
					}
				}
			}
			return false
		}
		for _, s := range selects {
			for k, st := range s.States {
				if st.Send != nil || !isChan(st.Chan, "writes") {
					continue
				}
				nTake++
				v := recvOf(s, k)
				okUse := false
				an.Instrs(flushLoop, func(in ssa.Instruction) {
					call, ok := in.(*ssa.Call)
					if !ok || !ff.AtInstr(call).Has(an.EQ(t.Of(s)+"#0", fmt.Sprint(k))) {
						return
					}
					for _, a := range call.Call.Args {
						if a == v {
							var callee *ssa.Function
							if mc, isMC := call.Call.Value.(*ssa.MakeClosure); isMC {
								callee, _ = mc.Fn.(*ssa.Function)
							} else {
								callee = an.StaticCallee(&call.Call)
							}
							if callee != nil && appends(callee) {
								okUse = true
							}
						}
					}
				})
				c.Check(okUse, id, "queued-batch-made-readable", "every batch the write loop takes off the write queue is handed to the step that appends it to the pending batch", flushLoop, s, "", nil)
			}
		}
		c.Min(id, "receives from the write queue", nTake, 2)
		// … and the loop ends only on the stop signal (a nil batch), after that batch went through the
		// same step (which flushes what is pending): it never stops after an ordinary batch and never
		// goes on after the signal
		var batches []string
		for _, s := range selects {
			for k, st := range s.States {
				if st.Send == nil && isChan(st.Chan, "writes") {
					if v := recvOf(s, k); v != nil {
						batches = append(batches, t.Of(v))
					}
				}
			}
		}
		nRet := 0
		for _, r := range ff.Returns() {
			nRet++
			fs := ff.AtInstr(r)
			okStop := false
			for _, b := range batches {
				if fs.Has(an.EQ(b, "nil")) {
					okStop = true
				}
			}
			c.Check(okStop, id, "write-loop-stops-only-on-signal", "the write loop returns only after it received the stop signal (a nil batch)", flushLoop, r, "", fs)
		}
		c.Min(id, "exits of the write loop", nRet, 2)
		for _, s := range selects {
			for k, st := range s.States {
				if st.Send != nil || !isChan(st.Chan, "writes") {
					continue
				}
				v := recvOf(s, k)
				if v == nil {
					continue
				}
				pr := ff.Prune(an.EQ(t.Of(s)+"#0", fmt.Sprint(k)), an.EQ(t.Of(v), "nil"))
				again := false
				for _, pred := range s.Block().Preds {
					if pr.Reachable(pred) && !pr.Removed(pred, s.Block()) && ff.Dominates(s.Block(), pred) {
						again = true
					}
				}
				// the select may sit in an inner loop: going on means reaching any select of the loop again
				fl := an.Flow{Fn: flushLoop, Skip: pr.Removed}
				for _, s2 := range selects {
					if pr.Reachable(s2.Block()) && s2 != s && fl.CanReach(s, s2) {
						again = true
					}
				}
				c.Check(!again && !(an.Flow{Fn: flushLoop, Skip: pr.Removed}).CanReach(s, s), id, "write-loop-stops-on-signal", "after the stop signal the write loop takes nothing more off its queues", flushLoop, s, "", nil)
			}
		}
	}
}
