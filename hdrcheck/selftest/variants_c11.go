package selftest

func init() {
	const su = "p2p/subscriber.go"
	const sn = "p2p/subscription.go"
	add(
		Variant{Prop: "C11", Name: "recover-removed", File: su, Expect: "C11.a",
			Old: "\t\terr := recover()\n\t\tif err != nil {\n\t\t\tlog.Errorf(\"PANIC while unmarshalling or verifying header: %s\", err)\n\t\t\tres = pubsub.ValidationReject\n\t\t}", New: "\t\tlog.Debug(\"validated\")"},
		Variant{Prop: "C11", Name: "panic-ignored-not-rejected", File: su, Expect: "C11.a",
			Old: "\t\t\tlog.Errorf(\"PANIC while unmarshalling or verifying header: %s\", err)\n\t\t\tres = pubsub.ValidationReject", New: "\t\t\tlog.Errorf(\"PANIC while unmarshalling or verifying header: %s\", err)\n\t\t\tres = pubsub.ValidationIgnore"},
		Variant{Prop: "C11", Name: "invalid-header-ignored", File: su, Expect: "C11.b",
			Old: "\t\ts.metrics.reject(ctx)\n\t\treturn pubsub.ValidationReject\n\t}\n\n\t// ensure we have a verifier set", New: "\t\ts.metrics.reject(ctx)\n\t\treturn pubsub.ValidationIgnore\n\t}\n\n\t// ensure we have a verifier set"},
		Variant{Prop: "C11", Name: "any-verify-error-ignored", File: su, Expect: "C11.b",
			Old: "\tcase errors.As(err, &verErr) && verErr.SoftFailure:", New: "\tcase errors.As(err, &verErr):"},
		Variant{Prop: "C11", Name: "hard-error-accepted", File: su, Expect: "C11.b",
			Old: "\tcase err != nil:\n\t\ts.metrics.reject(ctx)\n\t\treturn pubsub.ValidationReject", New: "\tcase err != nil && verErr != nil:\n\t\ts.metrics.reject(ctx)\n\t\treturn pubsub.ValidationReject"},
		Variant{Prop: "C11", Name: "soft-accepted", File: su, Expect: "C11.b",
			Old: "\tcase errors.As(err, &verErr) && verErr.SoftFailure:\n\t\ts.metrics.ignore(ctx)\n\t\treturn pubsub.ValidationIgnore", New: "\tcase errors.As(err, &verErr) && verErr.SoftFailure:\n\t\ts.metrics.ignore(ctx)\n\t\treturn pubsub.ValidationAccept"},
		Variant{Prop: "C11", Name: "verifier-gets-zero-header", File: su, Expect: "C11.c",
			Old: "\tswitch err := s.verifier(ctx, hdr); {", New: "\tswitch err := s.verifier(ctx, header.New[H]()); {"},
		Variant{Prop: "C11", Name: "validator-data-set-before-verify", File: su, Expect: "C11.c",
			Old: "\tvar verErr *header.VerifyError\n\tswitch err := s.verifier(ctx, hdr); {", New: "\tmsg.ValidatorData = hdr\n\tvar verErr *header.VerifyError\n\tswitch err := s.verifier(ctx, hdr); {"},
		Variant{Prop: "C11", Name: "validate-skipped", File: su, Expect: "C11.d",
			Old: "\tif err := hdr.Validate(); err != nil {\n\t\treturn hdr, err\n\t}\n\treturn hdr, nil", New: "\tif err := hdr.Validate(); err != nil && msg.ValidatorData == nil {\n\t\treturn hdr, err\n\t}\n\treturn hdr, nil"},
		Variant{Prop: "C11", Name: "unmarshal-error-ignored", File: su, Expect: "C11.d",
			Old: "\t\tif err := hdr.UnmarshalBinary(msg.Data); err != nil {\n\t\t\treturn hdr, err\n\t\t}", New: "\t\tif err := hdr.UnmarshalBinary(msg.Data); err != nil {\n\t\t\tlog.Debugw(\"unmarshal\", \"err\", err)\n\t\t}"},
		Variant{Prop: "C11", Name: "sema-closed-before-store", File: su, Expect: "C11.e",
			Old: "\ts.verifier = verifier\n\tclose(s.verifierSema)", New: "\tclose(s.verifierSema)\n\ts.verifier = verifier"},
		Variant{Prop: "C11", Name: "verifier-called-without-sema", File: su, Expect: "C11.e",
			Old: "\tselect {\n\tcase <-s.verifierSema:\n\tcase <-ctx.Done():\n\t\tlog.Errorw(", New: "\tselect {\n\tcase <-s.verifierSema:\n\tdefault:\n\tcase <-ctx.Done():\n\t\tlog.Errorw("},
		// benign
		Variant{Prop: "C11", Name: "benign-softfailure-first", File: su,
			Old: "\tcase err != nil:\n\t\ts.metrics.reject(ctx)\n\t\treturn pubsub.ValidationReject", New: "\tcase nil != err:\n\t\ts.metrics.reject(ctx)\n\t\treturn pubsub.ValidationReject"},
		Variant{Prop: "C11", Name: "benign-extract-err-commuted", File: su,
			Old: "\thdr, err := s.extractHeader(msg)\n\tif err != nil {", New: "\thdr, err := s.extractHeader(msg)\n\tif nil != err {"},
	)
}
