package rules

import (
	"fmt"
	"strings"

	"golang.org/x/tools/go/ssa"

	"hdrcheck/an"
)

// Shared analysis of p2p/session.go used by C05 and C18.

// checkRemainderRequest: a short answer re-requests exactly the remainder
// (origin = last received height + 1, amount = req.Amount − len(h)) only when
// something remains, and what was received is still delivered. Used as C18.b
// and (contiguity of the assembled range) as C05.f.
func checkRemainderRequest(c *an.Ctx, id string, s *sessionFns) {
	dt, df := c.T(s.doReq), c.F(s.doReq)
	pcs := callsTo(s.doReq, s.sProc)
	if len(pcs) != 1 {
		c.Undecided(id, "processResponses-call", "doRequest decodes the response once", s.doReq, nil, "unexpected number of session.processResponses calls")
		return
	}
	hT := dt.Of(pcs[0]) + "#0"
	eT := dt.Of(pcs[0]) + "#1"
	remaining := "(-len(" + hT + ")+p3.Amount)"
	nRem := 0
	for _, ss := range selectSends(s.doReq) {
		if !isRecvField(dt, ss.Chan, "reqCh") || dt.Of(ss.Val) == "p3" {
			continue
		}
		nRem++
		// value = prepareRequests(a0,a1,a2)[0]
		okShape := false
		detail := dt.Of(ss.Val)
		if u, ok := ss.Val.(*ssa.UnOp); ok {
			if ia, ok := u.X.(*ssa.IndexAddr); ok && dt.Of(ia.Index) == "0" {
				if call, ok := ia.X.(*ssa.Call); ok && an.StaticCallee(&call.Call) == s.prep {
					a := call.Call.Args
					wantOrigin := "(Height(" + hT + "[(len(" + hT + ")-1)])+1)"
					detail = fmt.Sprintf("prepareRequests(%s, %s, %s)[0]", dt.Of(a[0]), dt.Of(a[1]), dt.Of(a[2]))
					okShape = dt.Of(a[0]) == wantOrigin && dt.Of(a[1]) == remaining && dt.Of(a[2]) == "p3.Amount"
				}
			}
		}
		fs := df.AtRefined(ss.Sel.Block())
		c.Check(okShape && fs.Has(an.NE(remaining, "0")) && fs.Has(an.EQ(eT, "nil")), id, "remainder-request",
			"a short answer enqueues exactly the remainder: origin = last received height + 1, amount = req.Amount − len(h), only when that amount is non-zero", s.doReq, ss.Sel, detail, fs)
		// what was received is still delivered
		selIdx := dt.Of(ss.Sel) + "#0"
		okDel, bad := (an.Flow{Fn: s.doReq}).MustFollow(ss.Sel, func(in ssa.Instruction) bool {
			sd, ok := in.(*ssa.Send)
			return ok && dt.Of(sd.Chan) == "p4"
		}, func(r *ssa.Return) bool { return df.AtInstr(r).Has(an.EQ(selIdx, "0")) })
		c.Check(okDel, id, "partial-still-delivered", "after re-requesting the remainder the received headers are still delivered (unless the session was closed)", s.doReq, ss.Sel, fmt.Sprint(bad), nil)
	}
	c.Min(id, "remainder re-request sites", nRem, 1)
	// when nothing remains, no remainder request is made
	prZero := df.Prune(an.EQ(remaining, "0"))
	for _, ss := range selectSends(s.doReq) {
		if isRecvField(dt, ss.Chan, "reqCh") && dt.Of(ss.Val) != "p3" {
			c.Check(!prZero.Reachable(ss.Sel.Block()), id, "no-remainder-when-complete", "a complete answer does not trigger another request", s.doReq, ss.Sel, "", nil)
		}
	}
}

type sessionFns struct {
	exGet, sesGet, doReq, sProc, sVerify, withVal, newSes, proc, verifyRange, prep, sendMsg, handleOut *ssa.Function
}

func resolveSession(c *an.Ctx, id string) (*sessionFns, bool) {
	p := c.P
	s := &sessionFns{
		exGet:       p.Method("p2p", "Exchange", "GetRangeByHeight"),
		sesGet:      p.Method("p2p", "session", "getRangeByHeight"),
		doReq:       p.Method("p2p", "session", "doRequest"),
		sProc:       p.Method("p2p", "session", "processResponses"),
		sVerify:     p.Method("p2p", "session", "verify"),
		handleOut:   p.Method("p2p", "session", "handleOutgoingRequests"),
		withVal:     p.Func("p2p", "withValidation"),
		newSes:      p.Func("p2p", "newSession"),
		proc:        p.Func("p2p", "processResponses"),
		verifyRange: p.Func("", "VerifyRange"),
		prep:        p.Func("p2p", "prepareRequests"),
		sendMsg:     p.Func("p2p", "sendMessage"),
	}
	ok := true
	for name, f := range map[string]*ssa.Function{
		"p2p.(*Exchange).GetRangeByHeight": s.exGet, "p2p.(*session).getRangeByHeight": s.sesGet, "p2p.(*session).doRequest": s.doReq,
		"p2p.(*session).processResponses": s.sProc, "p2p.(*session).handleOutgoingRequests": s.handleOut,
		"p2p.withValidation": s.withVal, "p2p.newSession": s.newSes, "p2p.processResponses": s.proc, "header.VerifyRange": s.verifyRange,
		"p2p.prepareRequests": s.prep, "p2p.sendMessage": s.sendMsg,
	} {
		ok = c.Need(f, id, name) && ok
	}
	if s.sVerify != nil && s.sVerify.Blocks == nil {
		s.sVerify = nil
	}
	// (session.verify may be written inside session.processResponses: nonEmptyChain handles both)
	return s, ok
}

// selectSends lists (select instruction, channel, value) for the send states of selects in fn.
type selSend struct {
	Sel  *ssa.Select
	Chan ssa.Value
	Val  ssa.Value
}

func selectSends(fn *ssa.Function) []selSend {
	var out []selSend
	an.Instrs(fn, func(in ssa.Instruction) {
		if s, ok := in.(*ssa.Select); ok {
			for _, st := range s.States {
				if st.Send != nil {
					out = append(out, selSend{s, st.Chan, st.Send})
				}
			}
		}
	})
	return out
}

// nonEmptyOnNil establishes "f returns (s, nil) only with len(s) ≥ 1 and, for
// processResponses, exactly one element per input element" through the chain
// p2p.processResponses → session.verify → header.VerifyRange →
// session.processResponses. Each link is an obligation under id.
func nonEmptyChain(c *an.Ctx, id string, s *sessionFns) bool {
	all := true
	// (1) p2p.processResponses: empty input is an error; accumulator appended on every continuing iteration; nil return = accumulator at loop exit
	{
		t, ff := c.T(s.proc), c.F(s.proc)
		ok := true
		pr := ff.Prune(an.EQ("len(p0)", "0"))
		for _, r := range pr.Returns() {
			ok = ok && t.ErrShape(errResult(r)) != "nil"
		}
		loop := loopOver(t, "p0")
		var acc *accumulator
		if loop != nil {
			acc = findAccumulator(ff, loop.Header)
		}
		if loop == nil || acc == nil {
			ok = false
		} else {
			for _, pred := range loop.Header.Preds {
				if ff.Dominates(loop.Header, pred) && !(pred == acc.Append.Block() || ff.Dominates(acc.Append.Block(), pred)) {
					ok = false
				}
			}
			for _, r := range ff.Returns() {
				if t.ErrShape(errResult(r)) == "nil" && !(ff.AtInstr(r).Has(loop.InLoop.Neg()) && t.Of(r.Results[0]) == t.Of(acc.Phi)) {
					ok = false
				}
			}
		}
		all = c.Check(ok, id, "postcond:p2p.processResponses", "p2p.processResponses returns nil-error only with exactly one decoded header per response of a non-empty response list", s.proc, nil, "", nil) && all
	}
	// (2) header.VerifyRange: nil-error only for a non-empty input, returning as many headers as given (C02.e/f)
	{
		t, ff := c.T(s.verifyRange), c.F(s.verifyRange)
		ok := true
		pr := ff.Prune(an.EQ("len(p1)", "0"))
		for _, r := range pr.Returns() {
			ok = ok && t.ErrShape(errResult(r)) != "nil"
		}
		all = c.Check(ok, id, "postcond:header.VerifyRange", "VerifyRange returns nil-error only for a non-empty input (and then the whole input, see C02)", s.verifyRange, nil, "", nil) && all
	}
	// (3+4, when session.verify is written inside session.processResponses): the nil-error results
	// are VerifyRange(s.from, decoded) — or decoded itself only when no trusted header was given
	if s.sVerify == nil {
		t, ff := c.T(s.sProc), c.F(s.sProc)
		pcs, vrs := callsTo(s.sProc, s.proc), callsTo(s.sProc, s.verifyRange)
		ok := len(pcs) == 1 && len(vrs) == 1
		if ok {
			pc, vr := pcs[0], vrs[0]
			dec, decErr := t.Of(pc)+"#0", t.Of(pc)+"#1"
			ok = t.Of(pc.Call.Args[0]) == "p1" && t.Of(vr.Call.Args[0]) == "p0.from" && t.Of(vr.Call.Args[1]) == dec
			for _, r := range ff.Returns() {
				r0, r1 := t.Of(r.Results[0]), t.Of(r.Results[1])
				fs := ff.AtInstr(r)
				switch {
				case r0 == t.Of(vr)+"#0" && r1 == t.Of(vr)+"#1":
					ok = ok && fs.Has(an.NotB("IsZero(p0.from)")) && fs.Has(an.EQ(decErr, "nil"))
				case r0 == dec && t.ErrShape(errResult(r)) == "nil":
					ok = ok && fs.Has(an.B("IsZero(p0.from)")) && fs.Has(an.EQ(decErr, "nil"))
				case t.ErrShape(errResult(r)) != "nil" && !fs.Has(an.EQ(r1, "nil")):
					// an error return
				default:
					ok = false
				}
			}
		}
		all = c.Check(ok, id, "postcond:session.processResponses", "session.processResponses returns header.VerifyRange(s.from, decoded headers) — or the decoded headers unverified only when no trusted header was given — and nothing else with a nil error", s.sProc, nil, "", nil) && all
		return all
	}
	// (3) session.verify returns VerifyRange(s.from, p1) or (p1, nil)
	{
		t, ff := c.T(s.sVerify), c.F(s.sVerify)
		ok := true
		n := 0
		for _, r := range ff.Returns() {
			n++
			r0, r1 := t.Of(r.Results[0]), t.Of(r.Results[1])
			fs := ff.AtInstr(r)
			switch {
			case strings.HasPrefix(r0, "call:") && strings.HasSuffix(r0, "#0") && strings.HasSuffix(r1, "#1"):
				calls := callsTo(s.sVerify, s.verifyRange)
				ok = ok && len(calls) == 1 && t.Of(calls[0].Call.Args[0]) == "p0.from" && t.Of(calls[0].Call.Args[1]) == "p1" && fs.Has(an.NotB("IsZero(p0.from)"))
			case r0 == "p1" && r1 == "nil":
				ok = ok && fs.Has(an.B("IsZero(p0.from)"))
			default:
				ok = false
			}
		}
		all = c.Check(ok && n >= 1, id, "postcond:session.verify", "session.verify returns header.VerifyRange(s.from, headers) — or the headers unverified only when no trusted header was given", s.sVerify, nil, "", nil) && all
	}
	// (4) session.processResponses: nil-error result is verify(processResponses(responses))
	{
		t, ff := c.T(s.sProc), c.F(s.sProc)
		pcs, vcs := callsTo(s.sProc, s.proc), callsTo(s.sProc, s.sVerify)
		ok := len(pcs) == 1 && len(vcs) == 1
		if ok {
			pc, vc := pcs[0], vcs[0]
			ok = t.Of(pc.Call.Args[0]) == "p1" && t.Of(vc.Call.Args[1]) == t.Of(pc)+"#0" && ff.AtInstr(vc).Has(an.EQ(t.Of(pc)+"#1", "nil"))
			for _, r := range ff.Returns() {
				r0 := t.Of(r.Results[0])
				sh := t.ErrShape(errResult(r))
				if sh == "nil" {
					ok = false
				}
				if r0 == t.Of(vc)+"#0" && t.Of(errResult(r)) != t.Of(vc)+"#1" {
					ok = false
				}
				if r0 != "nil" && r0 != t.Of(vc)+"#0" {
					ok = false
				}
			}
		}
		all = c.Check(ok, id, "postcond:session.processResponses", "session.processResponses returns the result of verify(decoded headers) and nothing else with a nil error", s.sProc, nil, "", nil) && all
	}
	return all
}

// checkNoDroppedRequest is C05.f / C18.a: in the per-request worker every path
// to a return has delivered the headers, re-enqueued the request (select send
// on the session's request channel) or left through the session-context case
// of such a select.
func checkNoDroppedRequest(c *an.Ctx, id string, s *sessionFns) {
	fn := s.doReq
	t := c.T(fn)
	fl := an.Flow{Fn: fn}
	isDelivery := func(in ssa.Instruction) bool {
		sd, ok := in.(*ssa.Send)
		return ok && t.Of(sd.Chan) == "p4"
	}
	isRequeue := func(in ssa.Instruction) bool {
		sel, ok := in.(*ssa.Select)
		if !ok {
			return false
		}
		for _, st := range sel.States {
			// the failed request itself, or the remainder request built from it (its shape is C18.b)
			if st.Send != nil && isRecvField(t, st.Chan, "reqCh") {
				return true
			}
		}
		return false
	}
	nSame := 0
	for _, ss := range selectSends(fn) {
		if isRecvField(t, ss.Chan, "reqCh") && t.Of(ss.Val) == "p3" {
			nSame++
		}
	}
	c.Min(id, "re-enqueue of the very same failed request", nSame, 1)
	nRet, nDel, nReq := 0, 0, 0
	an.Instrs(fn, func(in ssa.Instruction) {
		if isDelivery(in) {
			nDel++
		}
		if isRequeue(in) {
			nReq++
		}
	})
	for _, b := range fn.Blocks {
		r, ok := b.Instrs[len(b.Instrs)-1].(*ssa.Return)
		if !ok || len(b.Preds) == 0 && b.Index != 0 {
			continue
		}
		nRet++
		okR := fl.MustPrecede(an.Or(isDelivery, isRequeue), r)
		c.Check(okR, id, "no-dropped-request", "every exit of the per-request worker has delivered the headers or re-enqueued the same request (the only other way out is the closed-session case of that select)", fn, r, "", nil)
	}
	c.Min(id, "delivery sends in doRequest", nDel, 1)
	c.Min(id, "re-enqueue selects of the failed request", nReq, 1)
	c.Min(id, "exits of doRequest", nRet, 3)
}
