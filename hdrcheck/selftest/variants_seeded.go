package selftest

// Variants that came out of the seeded-change campaign (DESIGN.md §10): each one is
// the essence of a change an independent bug seeder produced, kept here so that the
// obligation that catches it stays armed; plus benign rewrites of the same code.
func init() {
	const st = "store/store.go"
	const ra = "sync/ranges.go"
	const sy = "sync/syncer.go"
	add(
		// C06.d / C04.f: ensureInit heals a store reopened with one pointer absent
		Variant{Prop: "C06", Name: "seed-ensureinit-tail-skipped-when-head-set", File: st, Expect: "C06.d",
			Old: "\tif len(headers) == 0 {\n\t\treturn\n\t}\n\n\tif headPtr := s.contiguousHead.Load(); headPtr == nil {",
			New: "\tif len(headers) == 0 || s.contiguousHead.Load() != nil {\n\t\treturn\n\t}\n\n\tif headPtr := s.contiguousHead.Load(); headPtr == nil {"},
		Variant{Prop: "C04", Name: "seed-ensureinit-tail-skipped-when-head-set", File: st, Expect: "C04.f",
			Old: "\tif len(headers) == 0 {\n\t\treturn\n\t}\n\n\tif headPtr := s.contiguousHead.Load(); headPtr == nil {",
			New: "\tif len(headers) == 0 || s.contiguousHead.Load() != nil {\n\t\treturn\n\t}\n\n\tif headPtr := s.contiguousHead.Load(); headPtr == nil {"},
		Variant{Prop: "C06", Name: "seed-ensureinit-tail-takes-last", File: st, Expect: "C06.d",
			Old: "\t\ttail := headers[0]\n\t\ts.tailHeader.CompareAndSwap(tailPtr, &tail)", New: "\t\ttail := headers[len(headers)-1]\n\t\ts.tailHeader.CompareAndSwap(tailPtr, &tail)"},
		Variant{Prop: "C06", Name: "seed-ensureinit-head-takes-first", File: st, Expect: "C06.d",
			Old: "\t\thead := headers[len(headers)-1]\n\t\tif s.contiguousHead.CompareAndSwap(headPtr, &head) {", New: "\t\thead := headers[0]\n\t\tif s.contiguousHead.CompareAndSwap(headPtr, &head) {"},
		Variant{Prop: "C06", Name: "benign-ensureinit-tail-first", File: st,
			Old: "\tif headPtr := s.contiguousHead.Load(); headPtr == nil {\n\t\thead := headers[len(headers)-1]\n\t\tif s.contiguousHead.CompareAndSwap(headPtr, &head) {\n\t\t\ts.heightSub.Init(head.Height())\n\t\t\tlog.Debugw(\"initialized head\", \"height\", head.Height())\n\t\t}\n\t}\n\n\tif tailPtr := s.tailHeader.Load(); tailPtr == nil {\n\t\ttail := headers[0]\n\t\ts.tailHeader.CompareAndSwap(tailPtr, &tail)\n\t\tlog.Debugw(\"initialized tail\", \"height\", tail.Height())\n\t}",
			New: "\tif tailPtr := s.tailHeader.Load(); tailPtr == nil {\n\t\ttail := headers[0]\n\t\ts.tailHeader.CompareAndSwap(tailPtr, &tail)\n\t\tlog.Debugw(\"initialized tail\", \"height\", tail.Height())\n\t}\n\n\tif headPtr := s.contiguousHead.Load(); headPtr == nil {\n\t\thead := headers[len(headers)-1]\n\t\tif s.contiguousHead.CompareAndSwap(headPtr, &head) {\n\t\t\ts.heightSub.Init(head.Height())\n\t\t\tlog.Debugw(\"initialized head\", \"height\", head.Height())\n\t\t}\n\t}"},

		// C07.e / C03.g: pending ranges stay strictly increasing
		Variant{Prop: "C07", Name: "seed-same-height-head-opens-second-range", File: ra, Expect: "C07.e",
			Old: "\tif !head.IsZero() && head.Height() >= h.Height() {", New: "\tif !head.IsZero() && head.Height() > h.Height() {"},
		Variant{Prop: "C03", Name: "seed-same-height-head-opens-second-range", File: ra, Expect: "C03.g",
			Old: "\tif !head.IsZero() && head.Height() >= h.Height() {", New: "\tif !head.IsZero() && head.Height() > h.Height() {"},
		Variant{Prop: "C07", Name: "seed-past-header-check-dropped", File: ra, Expect: "C07.e",
			Old: "\tif !head.IsZero() && head.Height() >= h.Height() {", New: "\tif !head.IsZero() && head.Height() >= h.Height() && false {"},
		Variant{Prop: "C07", Name: "benign-past-header-check-commuted", File: ra,
			Old: "\tif !head.IsZero() && head.Height() >= h.Height() {", New: "\tif !head.IsZero() && h.Height() <= head.Height() {"},

		// C07.a: a trigger queued while a sync runs is served afterwards
		Variant{Prop: "C07", Name: "seed-queued-trigger-drained-after-sync", File: sy, Expect: "C07.a",
			Old: "\t\tcase <-s.triggerSync:\n\t\t\ts.sync(s.ctx)\n\t\tcase <-s.ctx.Done():", New: "\t\tcase <-s.triggerSync:\n\t\t\ts.sync(s.ctx)\n\t\t\tselect {\n\t\t\tcase <-s.triggerSync:\n\t\t\tdefault:\n\t\t\t}\n\t\tcase <-s.ctx.Done():"},

		// C08.c: the deletion batch is committed
		Variant{Prop: "C08", Name: "seed-batch-commit-skipped-on-dead-context", File: st, Expect: "C08.c",
			Old: "\treturn contextds.WithWrite(ctx, batch), func() error {\n\t\treturn batch.Commit(ctx)\n\t}",
			New: "\treturn contextds.WithWrite(ctx, batch), func() error {\n\t\tif err := ctx.Err(); err != nil {\n\t\t\treturn err\n\t\t}\n\t\treturn batch.Commit(ctx)\n\t}"},
		Variant{Prop: "C08", Name: "seed-batch-commit-error-swallowed", File: st, Expect: "C08.c",
			Old: "\treturn contextds.WithWrite(ctx, batch), func() error {\n\t\treturn batch.Commit(ctx)\n\t}",
			New: "\treturn contextds.WithWrite(ctx, batch), func() error {\n\t\tif err := batch.Commit(ctx); err != nil {\n\t\t\tlog.Errorw(\"commit\", \"err\", err)\n\t\t}\n\t\treturn nil\n\t}"},
		Variant{Prop: "C08", Name: "seed-sequential-commit-error-dropped", File: "store/store_delete.go", Expect: "C08.c",
			Old: "\t\tif derr := done(); derr != nil {\n\t\t\terr = errors.Join(err, fmt.Errorf(\"committing batch: %w\", derr))\n\t\t}",
			New: "\t\tif derr := done(); derr != nil {\n\t\t\tlog.Errorw(\"committing batch\")\n\t\t}"},
		Variant{Prop: "C08", Name: "seed-worker-commit-only-on-success", File: "store/store_delete.go", Expect: "C08.c",
			Old: "\t\tdefer func() {\n\t\t\tif err := done(); err != nil {\n\t\t\t\tlast.err = errors.Join(last.err, fmt.Errorf(\"committing delete batch: %w\", err))\n\t\t\t}\n\t\t}()",
			New: "\t\tdefer func() {\n\t\t\tif last.err != nil {\n\t\t\t\treturn\n\t\t\t}\n\t\t\tif err := done(); err != nil {\n\t\t\t\tlast.err = errors.Join(last.err, fmt.Errorf(\"committing delete batch: %w\", err))\n\t\t\t}\n\t\t}()"},
		Variant{Prop: "C08", Name: "benign-batch-commit-via-local", File: st,
			Old: "\treturn contextds.WithWrite(ctx, batch), func() error {\n\t\treturn batch.Commit(ctx)\n\t}",
			New: "\treturn contextds.WithWrite(ctx, batch), func() error {\n\t\terr := batch.Commit(ctx)\n\t\treturn err\n\t}"},
	)
}
