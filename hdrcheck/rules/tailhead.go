package rules

import (
	"golang.org/x/tools/go/ssa"

	"hdrcheck/an"
)

// checkTailFromVerifiedHead (C16.e): the tail is (re)computed — and the chain pruned up to it — from the
// head subjectiveTail is given. That head is a verified one: in the gossip validator it has just been
// accepted by incomingNetworkHead (the call is made only after that returned nil, for the same header);
// in Head() it is what networkHead returned without an error. Computing the tail first "in the same order
// as Head does" prunes on the word of an unverified gossip header: one with a timestamp a window ahead
// deletes everything but the head, and the rejection that follows does not bring it back.
func checkTailFromVerifiedHead(c *an.Ctx, id string) {
	p := c.P
	subj := p.Method("sync", "Syncer", "subjectiveTail")
	incoming := p.Method("sync", "Syncer", "incomingNetworkHead")
	netHead := p.Method("sync", "Syncer", "networkHead")
	if !c.Need(subj, id, "sync.(*Syncer).subjectiveTail") || !c.Need(incoming, id, "sync.(*Syncer).incomingNetworkHead") || !c.Need(netHead, id, "sync.(*Syncer).networkHead") {
		return
	}
	rule := "the tail is computed (and the chain pruned) only from a verified head: one incomingNetworkHead has just accepted, or the one networkHead returned without an error"
	n := 0
	for _, cs := range p.CG().Sites(subj) {
		call, ok := cs.Instr.(*ssa.Call)
		if !ok || len(call.Call.Args) < 3 {
			continue
		}
		n++
		fn := cs.Caller
		t, ff := c.T(fn), c.F(fn)
		fs := ff.AtRefined(call.Block())
		head := t.Of(call.Call.Args[2])
		okV := false
		for _, ic := range callsTo(fn, incoming) {
			if len(ic.Call.Args) >= 3 && t.Of(ic.Call.Args[2]) == head && fs.Has(an.EQ(t.Of(ic), "nil")) {
				okV = true
			}
		}
		for _, nc := range callsTo(fn, netHead) {
			if head == t.Of(nc)+"#0" && fs.Has(an.EQ(t.Of(nc)+"#2", "nil")) {
				okV = true
			}
		}
		c.Check(okV, id, "tail-from-verified-head:"+an.FuncName(fn), rule, fn, call, "head "+an.Stable(head), fs)
	}
	c.Min(id, "call sites of subjectiveTail", n, 2)
}
