package rules

import (
	"go/types"
	"strings"

	"golang.org/x/tools/go/ssa"

	"hdrcheck/an"
)

func init() {
	register(&Rule{
		ID: "C11",
		Explanation: "Decides for the gossip topic validator: (a) it runs under a deferred recover() that sets the verdict to ValidationReject; " +
			"(b) every return is classified: Accept only under extractErr==nil ∧ verifier(...)==nil; Ignore only under errors.As(err,*VerifyError) ∧ SoftFailure or the context-done case while no verifier is set; Reject under an extraction error or any other verifier error; no other verdict constant exists; " +
			"(c) msg.ValidatorData is written only on the Accept path and with the very header that was verified; the verifier is called with the extracted header; NextHeader returns msg.ValidatorData.(H); " +
			"(d) extractHeader returns nil-error only after Validate()==nil of the returned header, and after UnmarshalBinary(msg.Data)==nil unless the header came from local ValidatorData; " +
			"(e) the verifier is written once, under its mutex, before the semaphore channel is closed, and the validator calls it only after receiving from that semaphore.",
		NotDecided: []string{
			"that libp2p-pubsub delivers and relays exactly on ValidationAccept (library contract, assumed)",
			"what the registered verifier computes (C03/C15 for the Syncer's verifier)",
		},
		Technique: "recover containment, return-verdict table by phi-refined dominance facts and assumption pruning, store provenance, must-precede ordering",
		Trusted:   "go/types+go/ssa; libp2p-pubsub validator contract",
		Run:       runC11,
		Imports: []Import{
			{From: "C01.d", As: "C11.f", Why: "the subscriber ignores (does not reject, does not penalise the sender of) a message whose verification failed softly: that rests on Verify keeping the soft flag of the header type's own verdict and setting it for every non-adjacent failure"},
		},
	})
}

// importedConst resolves a constant of a package imported by the given repo package.
func importedConst(c *an.Ctx, fromShort, pkgPath, name string) string {
	tp := c.P.Types(fromShort)
	if tp == nil {
		return ""
	}
	for _, imp := range tp.Imports() {
		if imp.Path() == pkgPath {
			if k, ok := imp.Scope().Lookup(name).(*types.Const); ok {
				return k.Val().ExactString()
			}
		}
	}
	return ""
}

func runC11(c *an.Ctx) {
	p := c.P
	vm := p.Method("p2p", "Subscriber", "verifyMessage")
	extract := p.Method("p2p", "Subscriber", "extractHeader")
	setVer := p.Method("p2p", "Subscriber", "SetVerifier")
	next := p.Method("p2p", "subscription", "NextHeader")
	ok := c.Need(vm, "C11.b", "p2p.(*Subscriber).verifyMessage")
	ok = c.Need(extract, "C11.d", "p2p.(*Subscriber).extractHeader") && ok
	ok = c.Need(setVer, "C11.e", "p2p.(*Subscriber).SetVerifier") && ok
	ok = c.Need(next, "C11.c", "p2p.(*subscription).NextHeader") && ok
	if !ok {
		return
	}
	checkValidatorRegisteredOnStart(c, "C11.a")
	// everything the validator runs inside its recover scope, in this package, is put under the sweeps
	// (conversion, context, nil-load): a panic there does not crash the node, it silently turns a valid
	// message into a rejected one (the metrics of an accepted message included)
	for _, fn := range reachableIn(c, []*ssa.Function{vm}, true) {
		if fn.Blocks != nil {
			c.T(fn)
		}
	}
	const ps = "github.com/libp2p/go-libp2p-pubsub"
	accept, reject, ignore := importedConst(c, "p2p", ps, "ValidationAccept"), importedConst(c, "p2p", ps, "ValidationReject"), importedConst(c, "p2p", ps, "ValidationIgnore")
	if accept == "" || reject == "" || ignore == "" {
		c.Undecided("C11.b", "anchor:pubsub-verdicts", "pubsub verdict constants must resolve", nil, nil, "ValidationAccept/Reject/Ignore not found")
		return
	}
	t, ff := c.T(vm), c.F(vm)

	// --- C11.a recover containment
	guard := an.HasRecoverGuard(vm)
	okG := false
	if guard != nil {
		gt, gf := c.T(guard), c.F(guard)
		an.Instrs(guard, func(in ssa.Instruction) {
			if st, isSt := in.(*ssa.Store); isSt {
				// the verdict variable of the validator, written directly or through a captured pointer to it
				if tgt := storeTarget(vm, guard, st); tgt != nil && isResultVar(vm, tgt) && gt.Of(st.Val) == reject {
					for _, f := range gf.AtInstr(st) {
						if f.Op == "EQ" && !f.Pos && (f.A == "nil" || f.B == "nil") {
							okG = true
						}
					}
				}
			}
		})
	}
	c.Check(okG, "C11.a", "recover-rejects", "the validator defers a recover() that turns a panic into ValidationReject", vm, nil, "", nil)

	// anchors inside the validator
	ecs := callsTo(vm, extract)
	c.Min("C11.b", "extractHeader calls", len(ecs), 1)
	if len(ecs) != 1 {
		return
	}
	hdrT, exErr := t.Of(ecs[0])+"#0", t.Of(ecs[0])+"#1"
	// verifier call: dynamic call of the loaded field p0.verifier
	var vcall *ssa.Call
	an.Instrs(vm, func(in ssa.Instruction) {
		if call, isCall := in.(*ssa.Call); isCall && !call.Call.IsInvoke() && an.StaticCallee(&call.Call) == nil {
			if isRecvField(t, call.Call.Value, "verifier") {
				vcall = call
			}
		}
	})
	if !c.Check(vcall != nil, "C11.b", "verifier-call", "the validator calls the registered verifier", vm, nil, "", nil) {
		return
	}
	vErr := t.Of(vcall)
	c.Check(len(vcall.Call.Args) == 2 && t.Of(vcall.Call.Args[1]) == hdrT && ff.AtInstr(vcall).Has(an.EQ(exErr, "nil")), "C11.c", "verifier-gets-extracted",
		"the verifier is called with the header that was extracted and validated", vm, vcall, "arg "+t.Of(vcall.Call.Args[len(vcall.Call.Args)-1]), ff.AtInstr(vcall))
	asF := an.B("As(" + vErr + ",*header.VerifyError)")

	// --- C11.b verdict table
	nAcc, nRej, nIgn := 0, 0, 0
	for _, r := range ff.Returns() {
		fs := ff.AtRefined(r.Block())
		v := t.Of(t.Deref(r.Results[0]))
		switch v {
		case accept:
			nAcc++
			c.Check(fs.Has(an.EQ(exErr, "nil")) && fs.Has(an.EQ(vErr, "nil")), "C11.b", "accept-needs-both", "Accept is returned only when extraction/Validate succeeded and the verifier returned nil", vm, r, "", fs)
		case ignore:
			nIgn++
			soft := fs.Has(asF) && hasSoftFact(fs)
			noVerifier := false
			for _, f := range fs {
				if f.Op == "EQ" && f.Pos && strings.Contains(f.A+f.B, "*ssa.Select") && !fs.Has(an.EQ(vErr, "nil")) && !strings.Contains(strings.Join(fs.Strings(), " "), vErr) {
					noVerifier = true
				}
			}
			// "no verifier yet" is a way out BEFORE the verifier is called; a return that can be reached
			// after the call is a verdict on its result and has to be the soft one, classified through
			// errors.As (a helper that looks at the outermost error only lets a wrapped soft failure
			// through to Reject)
			if (an.Flow{Fn: vm}).CanReach(vcall, r) {
				noVerifier = false
			}
			c.Check(soft || noVerifier, "C11.b", "ignore-only-soft", "Ignore is returned only for a *VerifyError with SoftFailure, or when the context ended before a verifier was set", vm, r, "", fs)
		case reject:
			nRej++
			c.Check(fs.Has(an.NE(exErr, "nil")) || fs.Has(an.NE(vErr, "nil")), "C11.b", "reject-on-error", "Reject is returned for an extraction/Validate error or a (non-soft) verifier error", vm, r, "", fs)
		default:
			c.Fail("C11.b", "unknown-verdict", "the validator returns only Accept, Reject or Ignore", vm, r, "returns "+v, fs)
		}
	}
	c.Min("C11.b", "Accept returns", nAcc, 1)
	c.Min("C11.b", "Reject returns", nRej, 2)
	c.Min("C11.b", "Ignore returns", nIgn, 2)
	// completeness by pruning: an extraction error can only reject
	for _, r := range ff.Prune(an.NE(exErr, "nil")).Returns() {
		c.Check(t.Of(t.Deref(r.Results[0])) == reject, "C11.b", "extract-error-rejects", "undecodable or invalid headers are rejected", vm, r, "", nil)
	}
	// a non-nil verifier error never accepts
	for _, r := range ff.Prune(an.NE(vErr, "nil")).Returns() {
		if ff.Prune(an.NE(vErr, "nil")).AtInstr(r).Has(an.NE(vErr, "nil")) {
			c.Check(t.Of(t.Deref(r.Results[0])) != accept, "C11.b", "verifier-error-never-accepts", "a verifier error never leads to Accept", vm, r, "", nil)
		}
	}

	// --- C11.c ValidatorData written only on Accept with the verified header
	nVD := 0
	an.Instrs(vm, func(in ssa.Instruction) {
		st, isSt := in.(*ssa.Store)
		if !isSt {
			return
		}
		fa, isFA := st.Addr.(*ssa.FieldAddr)
		if !isFA || fieldName(fa) != "ValidatorData" {
			return
		}
		nVD++
		fs := ff.AtRefined(st.Block())
		c.Check(t.Of(st.Val) == hdrT && fs.Has(an.EQ(exErr, "nil")) && fs.Has(an.EQ(vErr, "nil")), "C11.c", "validator-data", "msg.ValidatorData is set only when the message is accepted, to the verified header", vm, st, "stores "+t.Of(st.Val), fs)
	})
	c.Min("C11.c", "ValidatorData stores in the validator", nVD, 1)
	{
		nt, nf := c.T(next), c.F(next)
		n := 0
		for _, r := range nf.Returns() {
			if nt.ErrShape(errResult(r)) != "nil" {
				continue
			}
			n++
			v := an.Stable(nt.Of(r.Results[0]))
			c.Check(strings.HasPrefix(v, "assert(") && strings.Contains(v, ".ValidatorData"), "C11.c", "next-header-value", "NextHeader returns the header stored in msg.ValidatorData", next, r, "returns "+v, nil)
		}
		c.Min("C11.c", "nil-error returns of NextHeader", n, 1)
	}

	// --- C11.d extractHeader
	{
		et, ef := c.T(extract), c.F(extract)
		n := 0
		for _, r := range ef.Returns() {
			if et.ErrShape(errResult(r)) != "nil" {
				continue
			}
			n++
			fs := ef.AtInstr(r)
			hv := et.Deref(r.Results[0])
			var val *ssa.Call
			an.Instrs(extract, func(in ssa.Instruction) {
				if call, isCall := in.(*ssa.Call); isCall && call.Call.IsInvoke() && call.Call.Method.Name() == "Validate" && call.Call.Value == hv {
					val = call
				}
			})
			c.Check(val != nil && fs.Has(an.EQ(et.Of(val), "nil")), "C11.d", "validate-before-ok", "extractHeader returns nil-error only after Validate() of the returned header returned nil", extract, r, "", fs)
			// provenance of the header: local ValidatorData or a freshly unmarshalled one
			okProv := false
			if ph, isPhi := hv.(*ssa.Phi); isPhi {
				okProv = true
				for _, pe := range ef.PhiOperands(ph) {
					switch x := pe.Val.(type) {
					case *ssa.Extract: // type assertion of ValidatorData
						okProv = okProv && strings.Contains(et.Of(x), "ValidatorData")
					case *ssa.Call:
						cal := an.StaticCallee(&x.Call)
						isNew := cal != nil && an.FuncName(cal) == "header.New"
						unm := false
						for _, f := range pe.Facts {
							if f.Op == "EQ" && f.Pos && strings.HasPrefix(f.A+f.B, "invoke:UnmarshalBinary") || f.Op == "EQ" && f.Pos && strings.HasPrefix(f.A, "invoke:UnmarshalBinary") {
								unm = true
							}
						}
						// the unmarshal call is on this value with msg.Data
						var uc *ssa.Call
						an.Instrs(extract, func(in ssa.Instruction) {
							if call, isCall := in.(*ssa.Call); isCall && call.Call.IsInvoke() && call.Call.Method.Name() == "UnmarshalBinary" && call.Call.Value == ssa.Value(x) {
								uc = call
							}
						})
						okProv = okProv && isNew && unm && uc != nil && strings.Contains(et.Of(uc.Call.Args[0]), ".Data")
					default:
						okProv = false
					}
				}
			}
			c.Check(okProv, "C11.d", "header-provenance", "the extracted header is the local ValidatorData or a fresh header whose UnmarshalBinary(msg.Data) returned nil", extract, r, "", nil)
		}
		c.Min("C11.d", "nil-error returns of extractHeader", n, 1)
	}

	// --- C11.e verifier set once, sema closed after, read only after sema
	{
		st, sf := c.T(setVer), c.F(setVer)
		var store *ssa.Store
		var closeCall *ssa.Call
		an.Instrs(setVer, func(in ssa.Instruction) {
			if s, isSt := in.(*ssa.Store); isSt {
				if fa, isFA := s.Addr.(*ssa.FieldAddr); isFA && fieldName(fa) == "verifier" {
					store = s
				}
			}
			if call, isCall := in.(*ssa.Call); isCall {
				if b, isB := call.Call.Value.(*ssa.Builtin); isB && b.Name() == "close" && isRecvField(st, call.Call.Args[0], "verifierSema") {
					closeCall = call
				}
			}
		})
		okE := store != nil && closeCall != nil
		if okE {
			fl := an.Flow{Fn: setVer}
			okE = fl.MustPrecede(func(in ssa.Instruction) bool { return in == ssa.Instruction(store) }, closeCall) &&
				fl.MustPrecede(mutexOp(st, "verifierMu", "Lock"), store)
			// set once: the store is guarded by verifier == nil
			once := false
			for _, f := range sf.AtInstr(store) {
				if f.Op == "EQ" && f.Pos && strings.Contains(f.A+f.B, "p0.verifier") {
					once = true
				}
			}
			okE = okE && once
		}
		c.Check(okE, "C11.e", "set-then-close", "SetVerifier stores the verifier once, under verifierMu, and closes the semaphore only afterwards", setVer, nil, "", nil)
		// other writers of the field
		for _, fn := range c.P.RepoFuncs() {
			if fn == setVer || an.Enclosing(fn).Pkg != setVer.Pkg {
				continue
			}
			an.Instrs(fn, func(in ssa.Instruction) {
				if s, isSt := in.(*ssa.Store); isSt {
					if fa, isFA := s.Addr.(*ssa.FieldAddr); isFA && fieldName(fa) == "verifier" && typeIsNamed(fa.X.Type(), "/p2p", "Subscriber") {
						c.Fail("C11.e", "other-verifier-writer:"+an.FuncName(fn), "SetVerifier is the only writer of the verifier", fn, s, "", nil)
					}
				}
			})
		}
		// validator: the verifier call is dominated by having received from the semaphore
		var sel *ssa.Select
		semaIdx := -1
		an.Instrs(vm, func(in ssa.Instruction) {
			if sl, isSel := in.(*ssa.Select); isSel {
				for i, s := range sl.States {
					if s.Send == nil && isRecvField(t, s.Chan, "verifierSema") {
						sel, semaIdx = sl, i
					}
				}
			}
		})
		okR := sel != nil && ff.AtInstr(vcall).Has(an.EQ(t.Of(sel)+"#0", itoa(semaIdx)))
		c.Check(okR, "C11.e", "read-after-sema", "the validator calls the verifier only after receiving from the semaphore that SetVerifier closes", vm, vcall, "", ff.AtInstr(vcall))
	}
}

func itoa(i int) string {
	if i < 0 {
		return "-1"
	}
	s := ""
	if i == 0 {
		return "0"
	}
	for i > 0 {
		s = string(rune('0'+i%10)) + s
		i /= 10
	}
	return s
}
