package selftest

func init() {
	const ex = "p2p/exchange.go"
	const se = "p2p/session.go"
	const he = "p2p/helpers.go"
	add(
		Variant{Prop: "C13", Name: "hash-check-removed", File: ex, Expect: "C13.a",
			Old: "\tif !bytes.Equal(headers[0].Hash(), hash) {", New: "\tif len(hash) == 0 && !bytes.Equal(headers[0].Hash(), hash) {"},
		Variant{Prop: "C13", Name: "hash-check-on-wrong-header", File: ex, Expect: "C13.a",
			Old: "\tif !bytes.Equal(headers[0].Hash(), hash) {", New: "\tif !bytes.Equal(headers[len(headers)-1].Hash(), hash) {"},
		Variant{Prop: "C13", Name: "validate-skipped", File: se, Expect: "C13.b",
			Old: "\t\terr = hdr.Validate()\n\t\tif err != nil {\n\t\t\treturn nil, err\n\t\t}\n\n\t\thdrs = append(hdrs, hdr)", New: "\t\thdrs = append(hdrs, hdr)"},
		Variant{Prop: "C13", Name: "validate-error-ignored", File: se, Expect: "C13.b",
			Old: "\t\terr = hdr.Validate()\n\t\tif err != nil {\n\t\t\treturn nil, err\n\t\t}", New: "\t\terr = hdr.Validate()\n\t\tif err != nil {\n\t\t\tcontinue\n\t\t}"},
		Variant{Prop: "C13", Name: "status-not-checked", File: se, Expect: "C13.b",
			Old: "\t\terr := convertStatusCodeToError(resp.StatusCode)\n\t\tif err != nil {\n\t\t\treturn nil, err\n\t\t}", New: "\t\terr := convertStatusCodeToError(resp.StatusCode)\n\t\tif err != nil && len(hdrs) > 0 {\n\t\t\treturn nil, err\n\t\t}"},
		Variant{Prop: "C13", Name: "empty-response-accepted", File: se, Expect: "C13.b",
			Old: "\tif len(resps) == 0 {\n\t\treturn nil, errEmptyResponse\n\t}", New: "\tif len(resps) == 0 {\n\t\treturn nil, nil\n\t}"},
		Variant{Prop: "C13", Name: "shared-header-value", File: se, Expect: "C13.b",
			Old: "\thdrs := make([]H, 0, len(resps))\n\tfor _, resp := range resps {", New: "\thdrs := make([]H, 0, len(resps))\n\thdr := header.New[H]()\n\tfor _, resp := range resps {",
			More: []Edit{{se, "\t\thdr := header.New[H]()\n\t\terr = hdr.UnmarshalBinary(resp.Body)", "\t\terr = hdr.UnmarshalBinary(resp.Body)"}}},
		Variant{Prop: "C13", Name: "chain-id-only-first", File: ex, Expect: "C13.c",
			Old: "\tfor _, hdr := range hdrs {\n\t\t// TODO(@Wondertan): There should be a unified header validation code path", New: "\tfor _, hdr := range hdrs[:1] {\n\t\t// TODO(@Wondertan): There should be a unified header validation code path"},
		Variant{Prop: "C13", Name: "chain-id-error-dropped", File: ex, Expect: "C13.c",
			Old: "\t\terr = validateChainID(ex.Params.chainID, hdr.ChainID())\n\t\tif err != nil {\n\t\t\treturn nil, err\n\t\t}", New: "\t\terr = validateChainID(ex.Params.chainID, hdr.ChainID())\n\t\tif err != nil {\n\t\t\tbreak\n\t\t}"},
		Variant{Prop: "C13", Name: "chain-id-mismatch-accepted", File: he, Expect: "C13.c",
			Old: "\tif want != \"\" && !strings.EqualFold(want, have) {", New: "\tif want != \"\" && have != \"\" && !strings.EqualFold(want, have) {"},
		Variant{Prop: "C13", Name: "failed-result-returned", File: ex, Expect: "C13.d",
			Old: "\t\t\tif res.err == nil {\n\t\t\t\treturn res.headers, nil\n\t\t\t}", New: "\t\t\tif res.err == nil || len(res.headers) > 0 {\n\t\t\t\treturn res.headers, nil\n\t\t\t}"},
		Variant{Prop: "C13", Name: "no-trusted-peers-nil", File: ex, Expect: "C13.d",
			Old: "\t\treturn nil, errors.New(\"no trusted peers\")", New: "\t\treturn nil, nil"},
		Variant{Prop: "C13", Name: "amount-zero-literal", File: ex, Expect: "C13.e",
			Old: "\t\tData:   &p2p_pb.HeaderRequest_Hash{Hash: hash},\n\t\tAmount: 1,", New: "\t\tData:   &p2p_pb.HeaderRequest_Hash{Hash: hash},\n\t\tAmount: uint64(len(hash)) / 64,"},
		Variant{Prop: "C13", Name: "unknown-status-is-ok", File: he, Expect: "C13.b",
			Old: "\tdefault:\n\t\treturn fmt.Errorf(\"unknown status code %d\", code)", New: "\tdefault:\n\t\treturn nil"},
		// benign
		Variant{Prop: "C13", Name: "benign-hash-args-commuted", File: ex,
			Old: "\tif !bytes.Equal(headers[0].Hash(), hash) {", New: "\tif !bytes.Equal(hash, headers[0].Hash()) {"},
		Variant{Prop: "C13", Name: "benign-indexed-loop", File: se,
			Old: "\tfor _, resp := range resps {\n\t\terr := convertStatusCodeToError(resp.StatusCode)", New: "\tfor i := 0; i < len(resps); i++ {\n\t\tresp := resps[i]\n\t\terr := convertStatusCodeToError(resp.StatusCode)"},
		Variant{Prop: "C13", Name: "benign-len-lt-1", File: se,
			Old: "\tif len(resps) == 0 {\n\t\treturn nil, errEmptyResponse", New: "\tif len(resps) < 1 {\n\t\treturn nil, errEmptyResponse"},
		// the status codes in a table (fourth seeding round): fine when a code outside the table is an error
		Variant{Prop: "C13", Name: "seed-status-table-unknown-code-is-nil", File: "p2p/helpers.go", Expect: "C13.b",
			Old: "func convertStatusCodeToError(code p2p_pb.StatusCode) error {\n\tswitch code {\n\tcase p2p_pb.StatusCode_OK:\n\t\treturn nil\n\tcase p2p_pb.StatusCode_NOT_FOUND:\n\t\treturn header.ErrNotFound\n\tdefault:\n\t\treturn fmt.Errorf(\"unknown status code %d\", code)\n\t}\n}", New: "var statusCodeErrors = map[p2p_pb.StatusCode]error{\n\tp2p_pb.StatusCode_OK:        nil,\n\tp2p_pb.StatusCode_NOT_FOUND: header.ErrNotFound,\n}\n\nfunc convertStatusCodeToError(code p2p_pb.StatusCode) error {\n\treturn statusCodeErrors[code]\n}"},
		Variant{Prop: "C13", Name: "benign-status-table-with-ok-test", File: "p2p/helpers.go",
			Old: "func convertStatusCodeToError(code p2p_pb.StatusCode) error {\n\tswitch code {\n\tcase p2p_pb.StatusCode_OK:\n\t\treturn nil\n\tcase p2p_pb.StatusCode_NOT_FOUND:\n\t\treturn header.ErrNotFound\n\tdefault:\n\t\treturn fmt.Errorf(\"unknown status code %d\", code)\n\t}\n}", New: "var statusCodeErrors = map[p2p_pb.StatusCode]error{\n\tp2p_pb.StatusCode_OK:        nil,\n\tp2p_pb.StatusCode_NOT_FOUND: header.ErrNotFound,\n}\n\nfunc convertStatusCodeToError(code p2p_pb.StatusCode) error {\n\terr, known := statusCodeErrors[code]\n\tif !known {\n\t\treturn fmt.Errorf(\"unknown status code %d\", code)\n\t}\n\treturn err\n}"},
		Variant{Prop: "C13", Name: "status-table-second-nil-entry", File: "p2p/helpers.go", Expect: "C13.b",
			Old: "func convertStatusCodeToError(code p2p_pb.StatusCode) error {\n\tswitch code {\n\tcase p2p_pb.StatusCode_OK:\n\t\treturn nil\n\tcase p2p_pb.StatusCode_NOT_FOUND:\n\t\treturn header.ErrNotFound\n\tdefault:\n\t\treturn fmt.Errorf(\"unknown status code %d\", code)\n\t}\n}", New: "var statusCodeErrors = map[p2p_pb.StatusCode]error{\n\tp2p_pb.StatusCode_OK:        nil,\n\tp2p_pb.StatusCode_NOT_FOUND: header.ErrNotFound,\n\tp2p_pb.StatusCode_INVALID:   nil,\n}\n\nfunc convertStatusCodeToError(code p2p_pb.StatusCode) error {\n\terr, known := statusCodeErrors[code]\n\tif !known {\n\t\treturn fmt.Errorf(\"unknown status code %d\", code)\n\t}\n\treturn err\n}"},
			// the ways out of performRequest merged in front of one return (benign F4-6) and two broken twins
		Variant{Prop: "C13", Name: "benign-collecting-loop-single-return", File: ex,
			Old: "\tvar lastErr error\n\tfor range trustedPeers {\n\t\tselect {\n\t\tcase res := <-resultCh:\n\t\t\tif res.err == nil {\n\t\t\t\treturn res.headers, nil\n\t\t\t}\n\t\t\tlastErr = res.err\n", New: "\tvar (\n\t\theaders []H\n\t\tlastErr error\n\t)\ncollect:\n\tfor range trustedPeers {\n\t\tselect {\n\t\tcase res := <-resultCh:\n\t\t\tif res.err == nil {\n\t\t\t\theaders, lastErr = res.headers, nil\n\t\t\t\tbreak collect\n\t\t\t}\n\t\t\tlastErr = res.err\n",
			More: []Edit{{File: ex, Old: "\t\t\treturn nil, ex.ctx.Err()\n\t\t}\n\t}\n\treturn nil, lastErr\n}", New: "\t\t\treturn nil, ex.ctx.Err()\n\t\t}\n\t}\n\treturn headers, lastErr\n}"}}},
		Variant{Prop: "C13", Name: "single-return-first-failure-ends-the-request", File: ex, Expect: "C13.d",
			Old: "\tvar lastErr error\n\tfor range trustedPeers {\n\t\tselect {\n\t\tcase res := <-resultCh:\n\t\t\tif res.err == nil {\n\t\t\t\treturn res.headers, nil\n\t\t\t}\n\t\t\tlastErr = res.err\n", New: "\tvar (\n\t\theaders []H\n\t\tlastErr error\n\t)\ncollect:\n\tfor range trustedPeers {\n\t\tselect {\n\t\tcase res := <-resultCh:\n\t\t\tif res.err == nil {\n\t\t\t\theaders, lastErr = res.headers, nil\n\t\t\t\tbreak collect\n\t\t\t}\n\t\t\tlastErr = res.err\n\t\t\tbreak collect\n",
			More: []Edit{{File: ex, Old: "\t\t\treturn nil, ex.ctx.Err()\n\t\t}\n\t}\n\treturn nil, lastErr\n}", New: "\t\t\treturn nil, ex.ctx.Err()\n\t\t}\n\t}\n\treturn headers, lastErr\n}"}}},
		Variant{Prop: "C13", Name: "single-return-success-returns-no-headers", File: ex, Expect: "C13.d",
			Old: "\tvar lastErr error\n\tfor range trustedPeers {\n\t\tselect {\n\t\tcase res := <-resultCh:\n\t\t\tif res.err == nil {\n\t\t\t\treturn res.headers, nil\n\t\t\t}\n\t\t\tlastErr = res.err\n", New: "\tvar (\n\t\theaders []H\n\t\tlastErr error\n\t)\ncollect:\n\tfor range trustedPeers {\n\t\tselect {\n\t\tcase res := <-resultCh:\n\t\t\theaders, lastErr = res.headers, res.err\n\t\t\tif res.err != nil {\n\t\t\t\tcontinue\n\t\t\t}\n\t\t\tlastErr = nil\n\t\t\theaders = nil\n\t\t\tbreak collect\n",
			More: []Edit{{File: ex, Old: "\t\t\treturn nil, ex.ctx.Err()\n\t\t}\n\t}\n\treturn nil, lastErr\n}", New: "\t\t\treturn nil, ex.ctx.Err()\n\t\t}\n\t}\n\treturn headers, lastErr\n}"}}},
	)
}
