package store

// Demonstration for finding F22 (property C06).
// Copy into /repo/store and run: go test ./store -run 'TestF22' -count=1
//
// F22: Store.Stop queued its stop signal behind the writes already accepted and cancelled the write loop's
//      context in the same breath. The loop still wrote those batches, but with a cancelled context advanceHead
//      and recedeTail do nothing: the head pointer was not moved over them, and the reopened Store reported the
//      old Head (1 instead of 11) although every header whose Append had returned was on disk. "After a clean
//      Stop and Start the Store reports the same Head … including everything whose Append returned before Stop."
//      Noticed by two sixth-round seeders (C04, C06). Rule C06.c `loop-context-kept-until-drained`;
//      repaired by /repo 49564c4. Fails on /repo c0286ea, passes from 49564c4 on.

import (
	"context"
	"testing"
	"time"

	"github.com/ipfs/go-datastore"
	"github.com/ipfs/go-datastore/sync"
	"github.com/stretchr/testify/require"

	"github.com/celestiaorg/go-header/headertest"
)

func obsChain(t *testing.T, n int) []*headertest.DummyHeader {
	suite := headertest.NewTestSuite(t)
	return append([]*headertest.DummyHeader{suite.Head()}, suite.GenDummyHeaders(n-1)...)
}

func obsOpen(t *testing.T, ctx context.Context, ds datastore.Batching, opts ...Option) *Store[*headertest.DummyHeader] {
	st, err := NewStore[*headertest.DummyHeader](ds, opts...)
	require.NoError(t, err)
	require.NoError(t, st.Start(ctx))
	return st
}

// O1: Append returns, Stop follows at once: the restarted store reports the old Head.
func TestF22_AppendThenStopKeepsHead(t *testing.T) {
	ctx, cancel := context.WithTimeout(context.Background(), 5*time.Second)
	defer cancel()
	chain := obsChain(t, 11)
	ds := sync.MutexWrap(datastore.NewMapDatastore())
	st := obsOpen(t, ctx, ds)
	require.NoError(t, st.Append(ctx, chain[0]))
	require.NoError(t, st.Sync(ctx))
	require.NoError(t, st.Append(ctx, chain[1:]...))
	require.NoError(t, st.Stop(ctx))

	st2 := obsOpen(t, ctx, ds)
	defer st2.Stop(ctx) //nolint:errcheck
	for _, h := range chain {
		_, err := st2.Get(ctx, h.Hash())
		require.NoError(t, err) // all headers were written
	}
	h, err := st2.Head(ctx)
	require.NoError(t, err)
	require.EqualValues(t, 11, h.Height(), "restarted Head")
}

