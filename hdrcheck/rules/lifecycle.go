package rules

import (
	"strings"

	"golang.org/x/tools/go/ssa"

	"hdrcheck/an"
)

// Start/Stop life cycle clauses (fourth seeding round).

// checkServerStartOrder (C10.e): the stream handler derives every request's context from serv.ctx.
// Start assigns serv.ctx before it registers the handler with the host: a stream that arrives
// while Start is still running must not find a nil parent context (context.WithTimeout(nil, …) panics).
func checkServerStartOrder(c *an.Ctx, id string) {
	start := c.P.Method("p2p", "ExchangeServer", "Start")
	if !c.Need(start, id, "p2p.(*ExchangeServer).Start") {
		return
	}
	t := c.T(start)
	fl := an.Flow{Fn: start}
	isCtxStore := func(in ssa.Instruction) bool {
		st, ok := in.(*ssa.Store)
		if !ok {
			return false
		}
		fa, isFA := st.Addr.(*ssa.FieldAddr)
		return isFA && isFieldOf(fa, nil, "ctx") && strings.Contains(t.Of(st.Val), "context.With")
	}
	n := 0
	an.Instrs(start, func(in ssa.Instruction) {
		call, ok := in.(*ssa.Call)
		if !ok || !call.Call.IsInvoke() || call.Call.Method.Name() != "SetStreamHandler" {
			return
		}
		n++
		c.Check(fl.MustPrecede(isCtxStore, call), id, "context-before-handler", "the server's context is set before the stream handler is registered (a request served during Start derives its context from it)", start, call, "", nil)
	})
	c.Min(id, "stream handler registrations in ExchangeServer.Start", n, 1)
}

// checkValidatorRegisteredOnStart (C11.a): Stop unregisters the topic validator, so every Start has to
// register it again — directly, on every way to a successful return, not behind a once-guard: a
// restarted Subscriber without its validator relays and delivers whatever arrives.
func checkValidatorRegisteredOnStart(c *an.Ctx, id string) {
	p := c.P
	start, stop := p.Method("p2p", "Subscriber", "Start"), p.Method("p2p", "Subscriber", "Stop")
	if !c.Need(start, id, "p2p.(*Subscriber).Start") || !c.Need(stop, id, "p2p.(*Subscriber).Stop") {
		return
	}
	isCall := func(suffix string) an.InstrPred {
		return func(in ssa.Instruction) bool {
			call, ok := in.(*ssa.Call)
			return ok && strings.HasSuffix(an.StaticFullName(&call.Call), suffix)
		}
	}
	unregisters := false
	an.Instrs(stop, func(in ssa.Instruction) {
		if isCall("PubSub).UnregisterTopicValidator")(in) {
			unregisters = true
		}
	})
	st, sf := c.T(start), c.F(start)
	fl := an.Flow{Fn: start}
	n := 0
	for _, r := range sf.Returns() {
		sh := st.ErrShape(errResult(r))
		if sh != "nil" && !sf.AtInstr(r).Has(an.EQ(st.Of(errResult(r)), "nil")) {
			// returns of a failed step are not successful starts; the final `return err` of Start
			// carries the (nil) result of the last step
			if !strings.HasPrefix(sh, "prop(") || sf.AtInstr(r).Has(an.NE(st.Of(errResult(r)), "nil")) {
				continue
			}
		}
		n++
		okReg := fl.MustPrecede(isCall("PubSub).RegisterTopicValidator"), r) && fl.MustPrecede(isCall("PubSub).Join"), r)
		c.Check(okReg || !unregisters, id, "validator-registered-on-every-start", "every successful Start has registered the topic validator (Stop unregisters it) and joined the topic", start, r, "", nil)
	}
	c.Min(id, "successful returns of Subscriber.Start", n, 1)
}

// checkSubscriptionTableStable (C12.b): the table of parked readers is created once, with the
// heightSub; replacing it (on deinit, on a wipe, on Stop) drops the entries of readers that are parked
// in Wait: the header they wait for is appended later and nobody wakes them.
func checkSubscriptionTableStable(c *an.Ctx, id string) {
	n := 0
	for _, fn := range c.P.RepoFuncs() {
		if fn.Blocks == nil || fn.Pkg == nil || !strings.HasSuffix(fn.Pkg.Pkg.Path(), "/store") {
			continue
		}
		an.Instrs(fn, func(in ssa.Instruction) {
			st, ok := in.(*ssa.Store)
			if !ok {
				return
			}
			fa, isFA := st.Addr.(*ssa.FieldAddr)
			if !isFA || !isFieldOf(fa, nil, "heightSubs") {
				return
			}
			n++
			c.Check(an.FuncName(an.Enclosing(fn)) == "store.newHeightSub", id, "subscription-table-never-replaced:"+an.FuncName(fn), "the table of parked readers is assigned only when the heightSub is created", fn, st, "", nil)
		})
	}
	c.Min(id, "assignments of the subscription table", n, 1)
}
