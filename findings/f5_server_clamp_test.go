package p2p

// Demonstration for finding F5 (property C10): the partial-range clamp of
// ExchangeServer.handleRangeRequest can RAISE `to`, so a 1-header request below
// the store's tail makes the server ask its store for ~head-origin headers.
// Copy into /repo/p2p and run: go test ./p2p -run TestF5 -count=1

import (
	"context"
	"testing"

	"github.com/ipfs/go-datastore"
	"github.com/stretchr/testify/require"

	"github.com/celestiaorg/go-header"
	"github.com/celestiaorg/go-header/headertest"
	"github.com/celestiaorg/go-header/store"
)

type spanRecorder struct {
	header.Store[*headertest.DummyHeader]
	maxSpan uint64
}

func (s *spanRecorder) GetRange(ctx context.Context, from, to uint64) ([]*headertest.DummyHeader, error) {
	if to-from > s.maxSpan {
		s.maxSpan = to - from
	}
	return s.Store.GetRange(ctx, from, to)
}

func TestF5_RangeBelowTailIsBounded(t *testing.T) {
	ctx := context.Background()
	suite := headertest.NewTestSuite(t)
	inner, err := store.NewStore[*headertest.DummyHeader](datastore.NewMapDatastore())
	require.NoError(t, err)
	require.NoError(t, inner.Start(ctx))
	t.Cleanup(func() { inner.Stop(ctx) }) //nolint:errcheck
	require.NoError(t, inner.Append(ctx, suite.GenDummyHeaders(1000)...))
	require.NoError(t, inner.Sync(ctx))
	require.NoError(t, inner.DeleteRange(ctx, 1, 500)) // tail 500, head 1000
	tail, err := inner.Tail(ctx)
	require.NoError(t, err)
	require.EqualValues(t, 500, tail.Height())

	rec := &spanRecorder{Store: inner}
	peer := createMocknet(t, 1)
	server, err := NewExchangeServer[*headertest.DummyHeader](peer[0], rec, WithNetworkID[ServerParameters](networkID))
	require.NoError(t, err)
	require.NoError(t, server.Start(ctx))
	t.Cleanup(func() { server.Stop(ctx) }) //nolint:errcheck

	_, err = server.handleRangeRequest(ctx, 5, 6) // one header, far below the tail
	require.Error(t, err)
	require.LessOrEqual(t, rec.maxSpan, header.MaxRangeRequestSize,
		"server asked its store for %d headers to answer a 1-header request", rec.maxSpan)
}
