package selftest

func init() {
	const sh = "sync/syncer_head.go"
	const sy = "sync/syncer.go"
	const ss = "sync/sync_store.go"
	const st = "sync/syncer_tail.go"
	add(
		Variant{Prop: "C03", Name: "gossip-head-adopted-unverified", File: sh, Expect: "C03.b",
			Old: "\tif err := s.verify(ctx, head); err != nil {\n\t\treturn err\n\t}\n\n\ts.setLocalHead(ctx, head)", New: "\tif err := s.verify(ctx, head); err != nil && head.Height() == 0 {\n\t\treturn err\n\t}\n\n\ts.setLocalHead(ctx, head)"},
		Variant{Prop: "C03", Name: "head-answer-adopted-despite-error", File: sh, Expect: "C03.b",
			Old: "\tif err != nil {\n\t\t// if we have a non-expired subjective head, but failed to get a more recent network head", New: "\tif err != nil && newHead.IsZero() {\n\t\t// if we have a non-expired subjective head, but failed to get a more recent network head"},
		Variant{Prop: "C03", Name: "head-answer-without-trusted-head", File: sh, Expect: "C03.b",
			Old: "\tnewHead, err := s.head.Head(ctx, header.WithTrustedHead[H](sbjHead))", New: "\tnewHead, err := s.head.Head(ctx)"},
		Variant{Prop: "C03", Name: "soft-failure-adopted-without-bifurcation", File: sh, Expect: "C03.b",
			Old: "\t\t// if we have a soft failure, try to bifurcate\n\t\terr = s.incomingNetworkHead(ctx, newHead)", New: "\t\t// if we have a soft failure, try to bifurcate\n\t\terr = ctx.Err()"},
		Variant{Prop: "C03", Name: "unverified-direct-append", File: sh, Expect: "C03.a",
			Old: "\tif _, err = s.subjectiveTail(ctx, netHead); err != nil {", New: "\t_ = s.store.Append(ctx, netHead)\n\tif _, err = s.subjectiveTail(ctx, netHead); err != nil {"},
		Variant{Prop: "C03", Name: "bypass-adjacency-wrapper", File: sy, Expect: "C03.a",
			Old: "\t\tif err := s.store.Append(ctx, headers...); err != nil {\n\t\t\treturn err\n\t\t}\n\n\t\tif uint64(len(headers)) < size {", New: "\t\tif err := s.store.Store.Append(ctx, headers...); err != nil {\n\t\t\treturn err\n\t\t}\n\n\t\tif uint64(len(headers)) < size {"},
		Variant{Prop: "C03", Name: "pending-written-elsewhere", File: sy, Expect: "C03.g",
			Old: "\t\tif err := s.store.Append(ctx, headers...); err != nil {\n\t\t\treturn err\n\t\t}\n\n\t\tif uint64(len(headers)) < size {", New: "\t\tif err := s.store.Append(ctx, headers...); err != nil {\n\t\t\treturn err\n\t\t}\n\t\ts.pending.Add(headers[0])\n\n\t\tif uint64(len(headers)) < size {"},
		Variant{Prop: "C03", Name: "first-height-check-dropped", File: sy, Expect: "C03.d",
			Old: "\t\tif headers[0].Height() != fromHead.Height()+1 {", New: "\t\tif headers[0].Height() < fromHead.Height()+1 {"},
		Variant{Prop: "C03", Name: "empty-check-dropped", File: sy, Expect: "C03.d",
			Old: "\t\tif len(headers) == 0 {\n\t\t\treturn fmt.Errorf(\"syncer: getter returned empty range for (%d:%d)\",", New: "\t\tif len(headers) == 0 && size == 0 {\n\t\t\treturn fmt.Errorf(\"syncer: getter returned empty range for (%d:%d)\","},
		Variant{Prop: "C03", Name: "adjacency-only-first", File: ss, Expect: "C03.c",
			Old: "\t\tfor _, h := range headers {\n\t\t\tif h.Height() != head.Height()+1 {", New: "\t\tfor _, h := range headers[:1] {\n\t\t\tif h.Height() != head.Height()+1 {"},
		Variant{Prop: "C03", Name: "adjacency-allows-gaps", File: ss, Expect: "C03.c",
			Old: "\t\t\tif h.Height() != head.Height()+1 {", New: "\t\t\tif h.Height() <= head.Height() {"},
		Variant{Prop: "C03", Name: "adjacency-against-fixed-head", File: ss, Expect: "C03.c",
			Old: "\t\t\thead = h\n\t\t}\n\n\t\ts.head.Store(&head)", New: "\t\t}\n\n\t\ts.head.Store(&head)"},
		Variant{Prop: "C03", Name: "mutex-released-before-adoption", File: sh, Expect: "C03.e",
			Old: "\ts.incomingMu.Lock()\n\tdefer s.incomingMu.Unlock()\n\n\tif err := s.verify(ctx, head); err != nil {\n\t\treturn err\n\t}\n", New: "\ts.incomingMu.Lock()\n\n\tif err := s.verify(ctx, head); err != nil {\n\t\ts.incomingMu.Unlock()\n\t\treturn err\n\t}\n\ts.incomingMu.Unlock()\n"},
		Variant{Prop: "C03", Name: "verifier-swallows-refusal", File: sy, Expect: "C03.f",
			Old: "\t\tif err := s.incomingNetworkHead(ctx, h); err != nil {\n\t\t\treturn err\n\t\t}", New: "\t\tif err := s.incomingNetworkHead(ctx, h); err != nil {\n\t\t\tlog.Debugw(\"incoming\", \"err\", err)\n\t\t}"},
		Variant{Prop: "C03", Name: "forced-write-of-untrusted", File: st, Expect: "C03.a",
			Old: "\t\terr = s.store.Store.Append(ctx, newTail)", New: "\t\terr = s.store.Store.Append(ctx, newTail, head)"},
		// benign
		Variant{Prop: "C03", Name: "benign-first-height-commuted", File: sy,
			Old: "\t\tif headers[0].Height() != fromHead.Height()+1 {", New: "\t\tif 1+fromHead.Height() != headers[0].Height() {"},
		Variant{Prop: "C03", Name: "benign-adjacency-commuted", File: ss,
			Old: "\t\t\tif h.Height() != head.Height()+1 {", New: "\t\t\tif head.Height()+1 != h.Height() {"},
	)
}
