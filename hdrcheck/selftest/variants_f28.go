package selftest

// Finding F28 re-introduced (the optional connection gater called without a nil test), and equivalents of the repair.
func init() {
	const pt = "p2p/peer_tracker.go"
	const guarded = "\tif p.connGater != nil {\n\t\tif err := p.connGater.BlockPeer(pID); err != nil {\n\t\t\tlog.Errorw(\"header/p2p: blocking peer failed\", \"pID\", pID, \"err\", err)\n\t\t}\n\t}\n"
	add(
		Variant{Prop: "C05", Name: "f28-optional-gater-called-without-a-nil-test", File: pt, Expect: "C05.d",
			Old: guarded, New: "\tif err := p.connGater.BlockPeer(pID); err != nil {\n\t\tlog.Errorw(\"header/p2p: blocking peer failed\", \"pID\", pID, \"err\", err)\n\t}\n"},
		Variant{Prop: "C05", Name: "f28-gater-tested-after-the-call", File: pt, Expect: "C05.d",
			Old: guarded, New: "\terrBlock := p.connGater.BlockPeer(pID)\n\tif p.connGater != nil && errBlock != nil {\n\t\tlog.Errorw(\"header/p2p: blocking peer failed\", \"pID\", pID, \"err\", errBlock)\n\t}\n"},
		Variant{Prop: "C05", Name: "benign-f28-gater-through-a-local", File: pt,
			Old: guarded, New: "\tif gater := p.connGater; gater != nil {\n\t\tif err := gater.BlockPeer(pID); err != nil {\n\t\t\tlog.Errorw(\"header/p2p: blocking peer failed\", \"pID\", pID, \"err\", err)\n\t\t}\n\t}\n"},
		Variant{Prop: "C05", Name: "benign-f28-nil-gater-refused-by-the-constructor", File: pt,
			Old: guarded, New: "\tif err := p.connGater.BlockPeer(pID); err != nil {\n\t\tlog.Errorw(\"header/p2p: blocking peer failed\", \"pID\", pID, \"err\", err)\n\t}\n",
			More: []Edit{{File: "p2p/exchange.go", Old: "\tex := &Exchange[H]{\n", New: "\tif gater == nil {\n\t\treturn nil, errors.New(\"header/p2p: connection gater is required\")\n\t}\n\tex := &Exchange[H]{\n"}}},
	)
}
