package selftest

func init() {
	const sh = "sync/syncer_head.go"
	const sy = "sync/syncer.go"
	const ra = "sync/ranges.go"
	add(
		Variant{Prop: "C07", Name: "trigger-only-for-adjacent", File: sh, Expect: "C07.a",
			Old: "\ts.pending.Add(netHead)\n\ts.wantSync()", New: "\ts.pending.Add(netHead)\n\tif err == nil {\n\t\ts.wantSync()\n\t}"},
		Variant{Prop: "C07", Name: "trigger-channel-unbuffered", File: sy, Expect: "C07.a",
			Old: "\t\ttriggerSync: make(chan struct{}, 1), // should be buffered", New: "\t\ttriggerSync: make(chan struct{}), // should be buffered"},
		Variant{Prop: "C07", Name: "loop-exits-after-first-sync", File: sy, Expect: "C07.a",
			Old: "\t\tcase <-s.triggerSync:\n\t\t\ts.sync(s.ctx)\n\t\tcase <-s.ctx.Done():", New: "\t\tcase <-s.triggerSync:\n\t\t\ts.sync(s.ctx)\n\t\t\tif s.state.Error != \"\" {\n\t\t\t\treturn\n\t\t\t}\n\t\tcase <-s.ctx.Done():"},
		Variant{Prop: "C07", Name: "request-loop-stops-one-short", File: sy, Expect: "C07.b",
			Old: "\tfor fromHead.Height() < to {\n\t\tamount := to - fromHead.Height()", New: "\tfor fromHead.Height()+1 < to {\n\t\tamount := to - fromHead.Height()"},
		Variant{Prop: "C07", Name: "request-from-stale-head", File: sy, Expect: "C07.b",
			Old: "\t\tfromHead = headers[len(headers)-1]\n\t}\n\treturn nil\n}", New: "\t\tfromHead = headers[0]\n\t}\n\treturn nil\n}"},
		Variant{Prop: "C07", Name: "request-size-unbounded", File: sy, Expect: "C07.b",
			Old: "\t\tif amount < size {\n\t\t\tsize = amount\n\t\t}", New: "\t\tif amount > size {\n\t\t\tsize = amount\n\t\t}"},
		Variant{Prop: "C07", Name: "request-upper-bound-off", File: sy, Expect: "C07.b",
			Old: "\t\treqTo := fromHead.Height() + size + 1", New: "\t\treqTo := fromHead.Height() + size"},
		Variant{Prop: "C07", Name: "pending-removed-before-append", File: sy, Expect: "C07.c",
			Old: "\t\t// apply cached headers\n\t\tif err := s.store.Append(ctx, headers...); err != nil {\n\t\t\treturn err\n\t\t}\n\n\t\t// cleanup range only after we stored the headers\n\t\theadersRange.Remove(to)",
			New: "\t\theadersRange.Remove(to)\n\t\t// apply cached headers\n\t\tif err := s.store.Append(ctx, headers...); err != nil {\n\t\t\treturn err\n\t\t}"},
		Variant{Prop: "C07", Name: "rest-not-requested", File: sy, Expect: "C07.c",
			Old: "\t\tfromHead = headers[len(headers)-1]\n\t}\n\treturn s.requestHeaders(ctx, fromHead, to)", New: "\t\tfromHead = headers[len(headers)-1]\n\t}\n\tif fromHead.Height()+1 == to {\n\t\treturn nil\n\t}\n\treturn s.requestHeaders(ctx, fromHead, to)"},
		Variant{Prop: "C07", Name: "state-error-never-cleared", File: sy, Expect: "C07.d",
			Old: "\t} else {\n\t\ts.state.Error = \"\"\n\t}", New: "\t}"},
		Variant{Prop: "C07", Name: "state-error-not-recorded", File: sy, Expect: "C07.d",
			Old: "\tif err != nil {\n\t\ts.state.Error = err.Error()\n\t} else {", New: "\tif err != nil && s.state.Error == \"\" {\n\t\ts.state.Error = err.Error()\n\t} else {"},
		Variant{Prop: "C07", Name: "range-amount-underflow", File: ra, Expect: "C07.e",
			Old: "\tif r.start > end {\n\t\treturn 0\n\t}\n", New: "\tif r.start > end+1 {\n\t\treturn 0\n\t}\n"},
		Variant{Prop: "C07", Name: "adjacent-header-starts-new-range", File: ra, Expect: "C07.e",
			Old: "\tif !head.IsZero() && h.Height() == head.Height()+1 {", New: "\tif !head.IsZero() && h.Height() == head.Height()+2 {"},
		// benign
		Variant{Prop: "C07", Name: "benign-min-builtin", File: sy,
			Old: "\t\tsize := header.MaxRangeRequestSize\n\t\tif amount < size {\n\t\t\tsize = amount\n\t\t}", New: "\t\tsize := min(amount, header.MaxRangeRequestSize)"},
		Variant{Prop: "C07", Name: "benign-loop-cond-commuted", File: sy,
			Old: "\tfor fromHead.Height() < to {\n\t\tamount := to - fromHead.Height()", New: "\tfor to > fromHead.Height() {\n\t\tamount := to - fromHead.Height()"},
	)
}
