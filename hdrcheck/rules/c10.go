package rules

import (
	"fmt"
	"go/constant"
	"go/types"
	"strings"

	"golang.org/x/tools/go/ssa"

	"hdrcheck/an"
)

func init() {
	register(&Rule{
		ID: "C10",
		Explanation: "Decides for the ExchangeServer stream handler and its three request functions: (a) the only uses of the store are single, loop-free calls of Get/Head/HasAt/GetRange; " +
			"(b) at the one GetRange(from,to) call site, 1 ≤ to−from ≤ MaxRangeRequestSize is proven on every incoming edge (including the partial-range clamp) by the linear prover; " +
			"(c) the from<to guard dominates every store call, so a wrapped origin+amount is rejected; the head request is taken exactly for origin 0; " +
			"(d) a response is written with code OK only under err==nil and NOT_FOUND only under errors.Is(err, ErrNotFound), every other error resets the stream without writing; the client maps only OK to nil; " +
			"(e) read/write deadlines precede the read/the first write and every store call gets a context derived from WithTimeout(serv.ctx, RequestTimeout); " +
			"(f) each response body is MarshalBinary of the element of the store's result slice, walked in order; (g) every index/slice/subtraction site in these functions is bounds-proven.",
		NotDecided: []string{
			"absence of nil dereference or blocking inside the header.Store implementation handed to the server",
			"actual time behaviour (deadlines are checked for presence and ordering only)",
		},
		Technique: "who-may-call on the store surface, linear bound proof at the GetRange call site (per phi edge), status-code table classification with assumption pruning, must-precede for deadlines, context provenance, result-shape rules",
		Trusted:   "go/types+go/ssa; header.Store methods honour their context; libp2p stream and serde library behaviour",
		Run:       runC10,
		Imports: []Import{
			{From: "C08.b", Match: "tier-purged", As: "C10.h", Why: "the server answers from the Store read path: a pruned header must be gone from every tier, or it is served after deletion"},
			{From: "C08.b", Match: "cache-purge-after-disk-delete", As: "C10.h", Why: "the server reads through the Store's caches: a header evicted from the cache before its removal from the datastore is re-cached by a reader in between (an OnDelete handler reading it is enough) and is served after it was pruned"},
			{From: "C14.d", Match: "cache-purge", As: "C10.h", Why: "same: the parallel deletion path purges the caches the server reads through"},
			{From: "C04.e", As: "C10.i", Why: "an OK answer is exactly the headers at origin, origin+1, …: the range read the server relies on hands back the whole requested range or an error, never a part of it"},
		},
	})
}

func pbConst(c *an.Ctx, name string) string {
	tp := c.P.Types("p2p/pb")
	if tp == nil {
		return ""
	}
	if k, ok := tp.Scope().Lookup(name).(*types.Const); ok {
		return k.Val().ExactString()
	}
	return ""
}

func inCycle(b *ssa.BasicBlock) bool {
	seen := map[*ssa.BasicBlock]bool{}
	var walk func(x *ssa.BasicBlock) bool
	walk = func(x *ssa.BasicBlock) bool {
		for _, s := range x.Succs {
			if s == b {
				return true
			}
			if !seen[s] {
				seen[s] = true
				if walk(s) {
					return true
				}
			}
		}
		return false
	}
	return walk(b)
}

// ctxDerives: v is base or the first result of a call whose first context argument derives from base.
func ctxDerives(t *an.Terms, v ssa.Value, base func(ssa.Value) bool, depth int) bool {
	if depth > 6 {
		return false
	}
	if base(v) {
		return true
	}
	switch x := v.(type) {
	case *ssa.Extract:
		if call, ok := x.Tuple.(*ssa.Call); ok && x.Index == 0 {
			for _, a := range call.Call.Args {
				if types.TypeString(a.Type(), nil) == "context.Context" {
					return ctxDerives(t, a, base, depth+1)
				}
			}
		}
	case *ssa.Phi:
		for _, e := range x.Edges {
			if !ctxDerives(t, e, base, depth+1) {
				return false
			}
		}
		return len(x.Edges) > 0
	case *ssa.UnOp:
		if al, ok := x.X.(*ssa.Alloc); ok {
			sts := an.AllocStores(al)
			for _, s := range sts {
				if !ctxDerives(t, s.Val, base, depth+1) {
					return false
				}
			}
			return len(sts) > 0
		}
	}
	return false
}

func runC10(c *an.Ctx) {
	p := c.P
	handler := p.Method("p2p", "ExchangeServer", "requestHandler")
	byHash := p.Method("p2p", "ExchangeServer", "handleRequestByHash")
	rng := p.Method("p2p", "ExchangeServer", "handleRangeRequest")
	headFn := p.Method("p2p", "ExchangeServer", "handleHeadRequest")
	conv := p.Func("p2p", "convertStatusCodeToError")
	ok := c.Need(handler, "C10.d", "p2p.(*ExchangeServer).requestHandler")
	ok = c.Need(byHash, "C10.a", "p2p.(*ExchangeServer).handleRequestByHash") && ok
	ok = c.Need(rng, "C10.b", "p2p.(*ExchangeServer).handleRangeRequest") && ok
	ok = c.Need(headFn, "C10.a", "p2p.(*ExchangeServer).handleHeadRequest") && ok
	ok = c.Need(conv, "C10.d", "p2p.convertStatusCodeToError") && ok
	if !ok {
		return
	}
	checkServerStartOrder(c, "C10.e")
	checkDecoderSumsGuarded(c, "C10.j")
	checkDecoderCopiesBytes(c, "C10.j")
	checkInstrumentsInitialised(c, "C10.k", "p2p", "serverMetrics", "newServerMetrics")
	// the Store methods the server answers from are part of what "the server never panics" rests on
	// when the server is given the module's own Store: they are put under the sweeps that follow every
	// rule (pointer loads dereferenced under a nil test, conversions, derived contexts)
	for _, m := range []string{"HasAt", "Head", "Tail", "Get", "GetByHeight", "GetRange", "getRangeByHeight", "getByHeight"} {
		if f := p.Method("store", "Store", m); f != nil && f.Blocks != nil {
			c.T(f)
		}
	}
	codeOK, codeNF := pbConst(c, "StatusCode_OK"), pbConst(c, "StatusCode_NOT_FOUND")
	if codeOK == "" || codeNF == "" {
		c.Undecided("C10.d", "anchor:StatusCode", "status code constants must resolve", nil, nil, "pb.StatusCode_OK / NOT_FOUND not found")
		return
	}
	fns := reachableIn(c, []*ssa.Function{handler}, true)
	var servFns []*ssa.Function // methods of ExchangeServer among them
	for _, f := range fns {
		if recv := f.Signature.Recv(); recv != nil && typeIsNamed(recv.Type(), "/p2p", "ExchangeServer") {
			servFns = append(servFns, f)
		}
	}

	// --- C10.a store surface
	allowed := map[string]bool{"Get": true, "Head": true, "HasAt": true, "GetRange": true}
	nStore := 0
	type storeCall struct {
		fn   *ssa.Function
		call *ssa.Call
	}
	var storeCalls []storeCall
	for _, f := range servFns {
		t := c.T(f)
		an.Instrs(f, func(in ssa.Instruction) {
			u, isLoad := in.(*ssa.UnOp)
			if !isLoad || t.Of(u) != "p0.store" || u.Referrers() == nil {
				return
			}
			for _, r := range *u.Referrers() {
				call, isCall := r.(*ssa.Call)
				if _, dbg := r.(*ssa.DebugRef); dbg {
					continue
				}
				if !isCall || !call.Call.IsInvoke() || call.Call.Value != ssa.Value(u) {
					c.Fail("C10.a", "store-escapes:"+an.FuncName(f), "the server uses its store only as the receiver of Get/Head/HasAt/GetRange", f, r, "other use: "+r.String(), nil)
					continue
				}
				nStore++
				m := call.Call.Method.Name()
				storeCalls = append(storeCalls, storeCall{f, call})
				c.Check(allowed[m] && !inCycle(call.Block()), "C10.a", "store-call:"+an.FuncName(f)+":"+m,
					"the handler reaches only Get, Head, HasAt, GetRange of the store, each outside any loop (bounded number of store calls per request)", f, call,
					"store."+m, nil)
			}
		})
	}
	c.Min("C10.a", "store calls reachable from the stream handler", nStore, 5)

	// --- C10.b bounded range at GetRange
	rt, rf := c.T(rng), c.F(rng)
	maxSize := int64(0)
	if k, ok := p.Types("").Scope().Lookup("MaxRangeRequestSize").(*types.Const); ok {
		maxSize, _ = constant.Int64Val(k.Val())
	}
	if maxSize == 0 {
		c.Undecided("C10.b", "anchor:MaxRangeRequestSize", "header.MaxRangeRequestSize must resolve", nil, nil, "constant not found")
		return
	}
	getRanges := invokesOf(rt, "GetRange", func(s string) bool { return s == "p0.store" })
	c.Min("C10.b", "GetRange call sites in handleRangeRequest", len(getRanges), 1)
	for _, g := range getRanges {
		from, to := g.Call.Args[1], g.Call.Args[2]
		// enumerate phi edges of `to` (and `from`) located in the call's block
		type caseT struct {
			from, to ssa.Value
			facts    an.FactSet
			label    string
		}
		cases := []caseT{{from, to, rf.AtInstr(g), "direct"}}
		if ph, ok := to.(*ssa.Phi); ok && rf.Dominates(ph.Block(), g.Block()) {
			cases = nil
			for i, e := range ph.Edges {
				pred := ph.Block().Preds[i]
				if !rf.Reachable(pred) {
					continue
				}
				fs := append(an.FactSet{}, rf.EdgeFacts(pred, ph.Block())...)
				cases = append(cases, caseT{from, e, fs, fmt.Sprintf("edge from block %d (to = %s)", pred.Index, rt.Of(e))})
			}
		}
		for _, cs := range cases {
			fa, ta := rt.Affine(cs.from), rt.Affine(cs.to)
			lower := rf.ProveGEFacts(cs.facts, ta, fa, 1)
			upper := rf.ProveGEFacts(cs.facts, fa.Add(an.Const(maxSize)), ta, 0)
			key := "getrange-span:to=" + rt.Of(cs.to)
			c.Check(lower && upper, "C10.b", key,
				fmt.Sprintf("at store.GetRange(from,to): 1 ≤ to−from ≤ MaxRangeRequestSize(%d) is proven on every incoming path", maxSize), rng, g,
				fmt.Sprintf("%s: lower bound proven=%v, upper bound proven=%v", cs.label, lower, upper), cs.facts)
		}
	}
	// the limit guard compares against the constant
	limitGuard := false
	for _, f := range condFacts(rt) {
		if f.Op == "LT" && f.A == fmt.Sprint(maxSize) && f.B == "(-p2+p3)" {
			limitGuard = true
		}
	}
	c.Check(limitGuard, "C10.b", "limit-guard", "the request size to−from is compared with header.MaxRangeRequestSize", rng, nil, found(limitGuard), nil)
	pr := rf.Prune(an.LT(fmt.Sprint(maxSize), "(-p2+p3)"))
	for _, r := range pr.Returns() {
		c.Check(rt.ErrShape(errResult(r)) != "nil", "C10.b", "oversize-rejected", "a request for more than MaxRangeRequestSize headers is rejected", rng, r, rt.ErrShape(errResult(r)), nil)
	}
	for _, sc := range storeCalls {
		if sc.fn == rng && pr.Reachable(sc.call.Block()) {
			c.Fail("C10.b", "oversize-reaches-store", "an oversized request never reaches the store", rng, sc.call, "store."+sc.call.Call.Method.Name()+" reachable", nil)
		}
	}

	// a range the store has is served, not refused: with a valid, bounded request
	//  (a) HasAt(to−1) ⇒ the handler reaches GetRange and no NOT_FOUND return lies before it;
	//  (b) ¬HasAt(to−1) ∧ from ≤ Head < to ⇒ likewise (the partial range [from, Head] is served)
	{
		hasAts := invokesOf(rt, "HasAt", func(s string) bool { return s == "p0.store" })
		heads := invokesOf(rt, "Head", func(s string) bool { return s == "p0.store" })
		if c.Check(len(hasAts) == 1 && len(heads) == 1 && len(getRanges) >= 1, "C10.b", "serve-decision", "the range handler decides between serving, clamping and refusing on HasAt(to−1) and the store head", rng, nil, "", nil) {
			has := an.B(rt.Of(hasAts[0]))
			headH := "Height(" + rt.Of(heads[0]) + "#0)"
			valid := []an.Fact{an.LT("p2", "p3"), an.NE("p2", "0"), an.GE(fmt.Sprint(maxSize), "(-p2+p3)")}
			for _, cs := range []struct {
				name   string
				assume []an.Fact
			}{
				{"stored-range-served", append(append([]an.Fact{}, valid...), has)},
				{"partial-range-served", append(append([]an.Fact{}, valid...), has.Neg(), an.EQ(rt.Of(heads[0])+"#1", "nil"), an.LE("p2", headH), an.LT(headH, "p3"))},
			} {
				pra := rf.Prune(cs.assume...)
				okServe := false
				for _, g := range getRanges {
					if pra.Reachable(g.Block()) {
						okServe = true
					}
				}
				var refusal ssa.Instruction
				for _, r := range pra.Returns() {
					early := true
					for _, g := range getRanges {
						if (an.Flow{Fn: rng, Skip: pra.Removed}).MustPrecede(func(in ssa.Instruction) bool { return in == ssa.Instruction(g) }, r) {
							early = false
						}
					}
					if early {
						okServe, refusal = false, r
					}
				}
				c.Check(okServe, "C10.b", cs.name, "a valid request for a range the store holds (entirely, or up to its head) reaches store.GetRange; nothing refuses it before", rng, refusal, an.FactSet(cs.assume).String(), nil)
			}
		}
	}

	// --- C10.c wrap-around guard and head request
	mix := an.LT("p2", "p3")
	for _, sc := range storeCalls {
		if sc.fn != rng {
			continue
		}
		fs := rf.AtInstr(sc.call)
		c.Check(fs.Has(mix) && fs.Has(an.NE("p2", "0")), "C10.c", "range-guard:"+sc.call.Call.Method.Name(),
			"the from<to guard (which also rejects a wrapped origin+amount) and the origin≠0 test dominate every store call of the range handler", rng, sc.call, "", fs)
	}
	headCalls := callsTo(rng, headFn)
	c.Min("C10.c", "head-request dispatch sites", len(headCalls), 1)
	for _, hc := range headCalls {
		fs := rf.AtInstr(hc)
		c.Check(fs.Has(an.EQ("p2", "0")) && fs.Has(mix), "C10.c", "head-dispatch", "a request with origin 0 (and amount ≥ 1) is answered with the store's head", rng, hc, "", fs)
	}
	ht := c.T(handler)
	hf := c.F(handler)
	for _, call := range callsTo(handler, rng) {
		a := call.Call.Args
		okArgs := len(a) == 4 && strings.HasPrefix(ht.Of(a[2]), "pb.GetOrigin(") && amountTerm(ht, a[3], a[2]) != "?"
		c.Check(okArgs, "C10.c", "range-args", "the range handler is called with (origin, origin+amount) of the decoded request", handler, call,
			"args ("+ht.Of(a[2])+", "+ht.Of(a[3])+")", nil)
	}

	// --- C10.d status mapping
	var writes []*ssa.Call
	an.Instrs(handler, func(in ssa.Instruction) {
		if call, ok := in.(*ssa.Call); ok && strings.HasSuffix(an.StaticFullName(&call.Call), "go-libp2p-messenger/serde.Write") {
			writes = append(writes, call)
		}
	})
	c.Min("C10.d", "response write sites", len(writes), 1)
	checkRequestLifecycle(c, "C10.f", handler, writes, []*ssa.Function{byHash, rng}, nil)
	// the error variable: phi of the handler results
	var errPhi ssa.Value
	for _, call := range append(callsTo(handler, rng), callsTo(handler, byHash)...) {
		for _, r := range *call.Referrers() {
			if ex, ok := r.(*ssa.Extract); ok && ex.Index == 1 && ex.Referrers() != nil {
				for _, rr := range *ex.Referrers() {
					if ph, ok := rr.(*ssa.Phi); ok {
						errPhi = ph
					}
				}
			}
		}
	}
	if errPhi == nil {
		c.Undecided("C10.d", "err-phi", "the handler results are merged into one error variable", handler, nil, "no phi of the request-function errors found")
	} else {
		errT := ht.Of(errPhi)
		isNF := an.B("errors.Is(" + errT + ",header.ErrNotFound)")
		for _, w := range writes {
			// message argument: make Message <- *HeaderResponse (alloc)
			msg := an.Unwrap(w.Call.Args[1])
			al, _ := msg.(*ssa.Alloc)
			var codeVal, bodyVal ssa.Value
			if al != nil && al.Referrers() != nil {
				for _, r := range *al.Referrers() {
					if fa, ok := r.(*ssa.FieldAddr); ok && fa.Referrers() != nil {
						name := fa.X.Type().Underlying().(*types.Pointer).Elem().Underlying().(*types.Struct).Field(fa.Field).Name()
						for _, rr := range *fa.Referrers() {
							if st, ok := rr.(*ssa.Store); ok && st.Addr == fa {
								switch name {
								case "StatusCode":
									codeVal = st.Val
								case "Body":
									bodyVal = st.Val
								}
							}
						}
					}
				}
			}
			if codeVal == nil {
				c.Fail("C10.d", "status-field", "every response carries an explicit status code", handler, w, "no StatusCode store on the written message", nil)
				continue
			}
			type edge struct {
				val   ssa.Value
				facts an.FactSet
			}
			var edges []edge
			if ph, ok := codeVal.(*ssa.Phi); ok {
				for i, e := range ph.Edges {
					edges = append(edges, edge{e, hf.EdgeFacts(ph.Block().Preds[i], ph.Block())})
				}
			} else {
				edges = append(edges, edge{codeVal, hf.AtInstr(w)})
			}
			for _, e := range edges {
				v := ht.Of(e.val)
				switch v {
				case codeOK:
					c.Check(e.facts.Has(an.EQ(errT, "nil")), "C10.d", "code-OK", "status OK is sent only when the request function returned a nil error", handler, w, "", e.facts)
				case codeNF:
					c.Check(e.facts.Has(isNF), "C10.d", "code-NOT_FOUND", "status NOT_FOUND is sent only under errors.Is(err, header.ErrNotFound)", handler, w, "", e.facts)
				default:
					c.Fail("C10.d", "code-other:"+v, "the server emits only the status codes OK and NOT_FOUND", handler, w, "code "+v, e.facts)
				}
			}
			// any other error: no write
			prw := hf.Prune(an.NE(errT, "nil"), isNF.Neg())
			c.Check(!prw.Reachable(w.Block()), "C10.d", "other-error-no-write", "an error other than ErrNotFound resets the stream and writes nothing", handler, w, "", nil)
			resets := 0
			for _, r := range prw.Returns() {
				if (an.Flow{Fn: handler}).MustPrecede(an.IsInvoke("Reset", nil), r) {
					resets++
				} else {
					c.Fail("C10.d", "other-error-reset", "an error other than ErrNotFound resets the stream", handler, r, "return without stream.Reset()", nil)
				}
			}
			// --- C10.f body fidelity
			if bodyVal != nil {
				okBody := false
				var elem ssa.Value
				okSel := true
				if ph, ok := bodyVal.(*ssa.Phi); ok {
					for _, pe := range hf.PhiOperands(ph) {
						e := pe.Val
						if ex, ok := e.(*ssa.Extract); ok && ex.Index == 0 {
							if mc, ok := ex.Tuple.(*ssa.Call); ok && mc.Call.IsInvoke() && mc.Call.Method.Name() == "MarshalBinary" {
								elem = mc.Call.Value
								okBody = true
								// marshalled only for a non-zero header, and only a successful marshalling is written
								okSel = okSel && pe.Facts.Has(an.NotB("IsZero("+ht.Of(elem)+")")) && pe.Facts.Has(an.EQ(ht.Of(mc)+"#1", "nil"))
							}
						} else if cst, ok := e.(*ssa.Const); !ok || cst.Value != nil {
							okBody = false
						} else if elem != nil || true {
							// the empty body stands for a zero header (the NOT_FOUND placeholder)
							zero := false
							for _, f := range pe.Facts {
								if f.Op == "B" && f.Pos && strings.HasPrefix(f.A, "IsZero(") {
									zero = true
								}
							}
							okSel = okSel && zero
						}
					}
				}
				c.Check(okSel, "C10.f", "body-selection", "a body is the marshalling of a non-zero header that succeeded; the empty body is written only for a zero header", handler, w, "", nil)
				walkOK := false
				var src ssa.Value
				if u, ok := elem.(*ssa.UnOp); ok {
					if ia, ok := u.X.(*ssa.IndexAddr); ok {
						if _, ok := indexWalk(ia.Index); ok {
							walkOK = true
							src = ia.X
						}
					}
				}
				c.Check(okBody && walkOK, "C10.f", "body-is-marshalled-element", "each response body is MarshalBinary of the current element of the result slice, walked in order without filtering", handler, w, "", nil)
				if src != nil {
					// src = phi(handler result under code==OK, fresh zero slice otherwise)
					okSrc := false
					if ph, ok := src.(*ssa.Phi); ok {
						okSrc = true
						for i, e := range ph.Edges {
							fs := hf.EdgeFacts(ph.Block().Preds[i], ph.Block())
							codeT := ht.Of(codeVal)
							// the selection may be written on the status code or directly on the error
							// (code == OK ⇔ err == nil is C10.d code-OK / code-NOT_FOUND)
							if hasPhiOfResults(e) {
								okSrc = okSrc && (fs.Has(an.EQ(codeT, codeOK)) || fs.Has(an.EQ(errT, "nil")))
							} else if _, isSl := e.(*ssa.Slice); isSl {
								okSrc = okSrc && (fs.Has(an.NE(codeT, codeOK)) || fs.Has(an.NE(errT, "nil")))
							} else {
								okSrc = false
							}
						}
					}
					c.Check(okSrc, "C10.f", "headers-source", "with status OK the written headers are exactly the slice returned by the request function; otherwise a single empty body", handler, w, "", nil)
				}
			} else {
				c.Fail("C10.f", "body-field", "every response carries a body taken from the store result", handler, w, "no Body store", nil)
			}
		}
	}
	// client table
	ct, cf := c.T(conv), c.F(conv)
	nNilConv := 0
	for _, r := range cf.Returns() {
		if ct.ErrShape(errResult(r)) == "nil" {
			nNilConv++
			c.Check(cf.AtInstr(r).Has(an.EQ("p0", codeOK)), "C10.d", "client-ok-only", "the client maps only status OK to a nil error", conv, r, "", cf.AtInstr(r))
		}
	}
	c.Min("C10.d", "nil returns of convertStatusCodeToError", nNilConv, 1)
	prc := cf.Prune(an.EQ("p0", codeNF))
	for _, r := range prc.Returns() {
		c.Check(ct.ErrShape(errResult(r)) == "S:header.ErrNotFound", "C10.d", "client-notfound", "the client maps status NOT_FOUND to header.ErrNotFound", conv, r, ct.ErrShape(errResult(r)), nil)
	}

	// --- C10.e deadlines and contexts
	fl := an.Flow{Fn: handler}
	var reads []ssa.Instruction
	an.Instrs(handler, func(in ssa.Instruction) {
		if call, ok := in.(*ssa.Call); ok && strings.HasSuffix(an.StaticFullName(&call.Call), "go-libp2p-messenger/serde.Read") {
			reads = append(reads, call)
		}
	})
	c.Min("C10.e", "request read sites", len(reads), 1)
	for _, r := range reads {
		c.Check(fl.MustPrecede(an.IsInvoke("SetReadDeadline", nil), r), "C10.e", "read-deadline", "SetReadDeadline precedes reading the request", handler, r, "", nil)
	}
	for _, w := range writes {
		c.Check(fl.MustPrecede(an.IsInvoke("SetWriteDeadline", nil), w), "C10.e", "write-deadline", "SetWriteDeadline precedes the first response write", handler, w, "", nil)
	}
	// the context handed to a request function: a chain of derivations (WithTimeout, WithCancel,
	// WithDeadline, WithValue, a tracer's Start — each yields a child that is done no later than
	// its parent) that is rooted in serv.ctx and contains WithTimeout(…, Params.RequestTimeout)
	var ctxChain func(v ssa.Value, depth int) (timed, rooted bool)
	ctxChain = func(v ssa.Value, depth int) (bool, bool) {
		if depth > 6 {
			return false, false
		}
		if isRecvField(ht, v, "ctx") {
			return false, true
		}
		var call *ssa.Call
		switch x := v.(type) {
		case *ssa.Extract:
			if x.Index != 0 {
				return false, false
			}
			call, _ = x.Tuple.(*ssa.Call)
		case *ssa.Call:
			call = x
		}
		if call == nil || len(call.Call.Args) == 0 {
			return false, false
		}
		name := an.StaticFullName(&call.Call)
		switch {
		case name == "context.WithTimeout":
			t, r := ctxChain(call.Call.Args[0], depth+1)
			return t || ht.Of(call.Call.Args[1]) == "p0.Params.RequestTimeout", r
		case name == "context.WithDeadline" || name == "context.WithDeadlineCause":
			// WithTimeout(p, d) is WithDeadline(p, time.Now().Add(d))
			t, r := ctxChain(call.Call.Args[0], depth+1)
			dl := an.Stable(ht.Of(call.Call.Args[1]))
			return t || (strings.Contains(dl, "time.Now") && strings.Contains(dl, "Add") && strings.Contains(dl, "p0.Params.RequestTimeout")), r
		case name == "context.WithCancel" || name == "context.WithValue" || name == "context.WithCancelCause":
			return ctxChain(call.Call.Args[0], depth+1)
		case call.Call.IsInvoke() && call.Call.Method.Name() == "Start" && strings.HasSuffix(call.Call.Value.Type().String(), "trace.Tracer"):
			return ctxChain(call.Call.Args[0], depth+1)
		}
		return false, false
	}
	isTimeoutCtx := func(v ssa.Value) bool {
		t, r := ctxChain(v, 0)
		return t && r
	}
	for _, callee := range []*ssa.Function{byHash, rng} {
		for _, call := range callsTo(handler, callee) {
			c.Check(isTimeoutCtx(call.Call.Args[1]), "C10.e", "request-timeout:"+an.FuncName(callee),
				"request functions run under context.WithTimeout(serv.ctx, Params.RequestTimeout)", handler, call, "ctx "+ht.Of(call.Call.Args[1]), nil)
		}
	}
	for _, sc := range storeCalls {
		t := c.T(sc.fn)
		args := sc.call.Call.Args
		if len(args) == 0 || types.TypeString(args[0].Type(), nil) != "context.Context" {
			continue
		}
		okCtx := ctxDerives(t, args[0], func(v ssa.Value) bool { return t.Of(v) == "p1" }, 0)
		c.Check(okCtx, "C10.e", "store-ctx:"+an.FuncName(sc.fn)+":"+sc.call.Call.Method.Name(), "every store call receives a context derived from the request context (bounded by RequestTimeout)", sc.fn, sc.call, "ctx "+t.Of(args[0]), nil)
	}

	// --- C10.f results of the request functions
	checkSingle := func(fn *ssa.Function, method string, argOK func(t *an.Terms, call *ssa.Call) bool) {
		t, ff := c.T(fn), c.F(fn)
		n := 0
		for _, r := range ff.Returns() {
			if t.ErrShape(errResult(r)) != "nil" {
				continue
			}
			n++
			els := an.VariadicArgs(t.Deref(r.Results[0]))
			okR := false
			detail := "result " + t.Of(r.Results[0])
			if len(els) == 1 {
				if ex, ok := ff.UnphiAt(ff.Unphi(els[0]), r).(*ssa.Extract); ok && ex.Index == 0 {
					if call, ok := ex.Tuple.(*ssa.Call); ok && call.Call.IsInvoke() && call.Call.Method.Name() == method &&
						t.Of(call.Call.Value) == "p0.store" && argOK(t, call) {
						okR = ff.AtInstr(r).Has(an.EQ(t.Of(call)+"#1", "nil"))
					}
				}
			}
			c.Check(okR, "C10.f", "single-result:"+an.FuncName(fn), "the nil-error result is exactly the one header returned by store."+method+" for the requested key", fn, r, detail, ff.AtInstr(r))
		}
		c.Min("C10.f", "nil-error returns of "+an.FuncName(fn), n, 1)
	}
	checkSingle(byHash, "Get", func(t *an.Terms, call *ssa.Call) bool {
		return len(call.Call.Args) == 2 && t.Of(call.Call.Args[1]) == "p2"
	})
	checkSingle(headFn, "Head", func(t *an.Terms, call *ssa.Call) bool { return true })
	nR := 0
	for _, r := range rf.Returns() {
		if rt.ErrShape(errResult(r)) != "nil" {
			continue
		}
		res := rt.Of(r.Results[0])
		if strings.HasPrefix(rt.Of(errResult(r)), "call:") { // propagated head request
			continue
		}
		nR++
		okR := false
		for _, g := range getRanges {
			if res == rt.Of(g)+"#0" && rf.AtInstr(r).Has(an.EQ(rt.Of(g)+"#1", "nil")) {
				okR = true
			}
		}
		c.Check(okR, "C10.f", "range-result", "the nil-error result of the range handler is exactly the slice returned by store.GetRange", rng, r, "result "+res, rf.AtInstr(r))
	}
	c.Min("C10.f", "nil-error returns of the range handler", nR, 1)

	// --- C10.g arithmetic sites
	n := checkArith(c, "C10.g", []*ssa.Function{handler, byHash, rng, headFn}, map[string]bool{"usub": true, "index": true, "slice": true, "makesize": true, "div": true}, nil, nil)
	c.Min("C10.g", "arithmetic/index sites in the handler functions", n, 3)
}

// amountTerm returns the canonical difference string when b = a + <load of req.Amount>, else "?".
func amountTerm(t *an.Terms, b, a ssa.Value) string {
	d := t.Affine(b).Sub(t.Affine(a))
	s := d.String()
	if strings.HasSuffix(s, ".Amount") || strings.Contains(s, ".Amount@") || strings.HasPrefix(s, "pb.GetAmount(") {
		return s
	}
	return "?"
}

// hasPhiOfResults: v is (a phi of) first results of calls.
func hasPhiOfResults(v ssa.Value) bool {
	switch x := v.(type) {
	case *ssa.Extract:
		_, ok := x.Tuple.(*ssa.Call)
		return ok && x.Index == 0
	case *ssa.Phi:
		for _, e := range x.Edges {
			if !hasPhiOfResults(e) {
				return false
			}
		}
		return len(x.Edges) > 0
	}
	return false
}
