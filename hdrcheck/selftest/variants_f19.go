package selftest

// Finding F19: Head() handed out the expired local head with a nil error after a failed re-initialisation (C19.b).
func init() {
	const sh = "sync/syncer_head.go"
	const fixed = "\tsetErr := s.incomingNetworkHead(ctx, netHead)\n\t// so return whatever is the current highest head\n\thead, err := s.localHead(ctx)\n\tif err != nil {\n\t\treturn head, err\n\t}\n\t// unless it is expired: the reinitialization did not succeed then\n\t// and there is no valid head to report\n\tif expired, expiredFor := isExpired(head, s.Params.trustingPeriod); expired {\n\t\terr = fmt.Errorf(\"subjective head(%d) expired for %s\", head.Height(), expiredFor.String())\n\t\tif setErr != nil {\n\t\t\terr = fmt.Errorf(\"%w: reinitialization failed: %w\", err, setErr)\n\t\t}\n\t\treturn head, err\n\t}\n\treturn head, nil\n}\n"
	add(
		Variant{Prop: "C19", Name: "f19-reread-head-returned-unexamined", File: sh, Expect: "C19.b",
			Old: fixed, New: "\t_ = s.incomingNetworkHead(ctx, netHead)\n\t// so return whatever is the current highest head\n\treturn s.localHead(ctx)\n}\n"},
		Variant{Prop: "C19", Name: "f19-expiry-tested-on-the-candidate", File: sh, Expect: "C19.b",
			Old: "\tif expired, expiredFor := isExpired(head, s.Params.trustingPeriod); expired {\n\t\terr = fmt.Errorf(\"subjective head(%d) expired for %s\"", New: "\tif expired, expiredFor := isExpired(netHead, s.Params.trustingPeriod); expired {\n\t\terr = fmt.Errorf(\"subjective head(%d) expired for %s\""},
		Variant{Prop: "C19", Name: "f19-expired-head-only-logged", File: sh, Expect: "C19.b",
			Old: "\t\tif setErr != nil {\n\t\t\terr = fmt.Errorf(\"%w: reinitialization failed: %w\", err, setErr)\n\t\t}\n\t\treturn head, err\n\t}\n\treturn head, nil\n}\n", New: "\t\tlog.Errorw(\"expired head\", \"err\", err, \"set_err\", setErr)\n\t}\n\treturn head, nil\n}\n"},
		Variant{Prop: "C19", Name: "benign-f19-expiry-test-negated", File: sh,
			Old: "\tif expired, expiredFor := isExpired(head, s.Params.trustingPeriod); expired {\n\t\terr = fmt.Errorf(\"subjective head(%d) expired for %s\", head.Height(), expiredFor.String())\n\t\tif setErr != nil {\n\t\t\terr = fmt.Errorf(\"%w: reinitialization failed: %w\", err, setErr)\n\t\t}\n\t\treturn head, err\n\t}\n\treturn head, nil\n}\n",
			New: "\texpired, expiredFor := isExpired(head, s.Params.trustingPeriod)\n\tif !expired {\n\t\treturn head, nil\n\t}\n\terr = fmt.Errorf(\"subjective head(%d) expired for %s\", head.Height(), expiredFor.String())\n\tif setErr != nil {\n\t\terr = fmt.Errorf(\"%w: reinitialization failed: %w\", err, setErr)\n\t}\n\treturn head, err\n}\n"},
	)
}
